(* C20 — what the property demands of one wrapped call, stated on the observable trace and independently of how
   _CompositeExtender is written.  Definitions only. *)
From Coq Require Import List Bool ZArith Arith Sorting.Sorted.
Import ListNotations.
Require Import MV.Model.Extender.

Definition is_ok {A} (w : result A) : bool := match w with Ok _ => true | Err _ => false end.
Definition passes (e : extender) : bool := match beh e with Pass => true | _ => false end.
Definition raises_before (e : extender) : bool := match beh e with RaiseBefore => true | _ => false end.
Definition raises_after (e : extender) : bool := match beh e with RaiseAfter => true | _ => false end.

(* "nest in ascending priority order" *)
Definition ple (a b : extender) : Prop := (prio a <= prio b)%Z.
Definition by_priority (es : list extender) : Prop := StronglySorted ple es.

(* The property for ONE wrapped call whose extenders, outermost first, are `es`; ok = the wrapped function returns.
   Every extender is entered exactly once, in the order of `es`; the wrapped function runs exactly once; extenders
   that return do so in reverse order; exactly the extenders that raise are logged, once. *)
Record sees_once (es : list extender) (ok : bool) (t : list event) : Prop := {
  so_call   : calls t = 1;
  so_enter  : forall e, In e es -> enters (eid e) t = 1;
  so_exit   : forall e, In e es -> exits (eid e) t = if ok && passes e then 1 else 0;
  so_logged : forall e, In e es -> loggeds (eid e) t = if raises_before e || (ok && raises_after e) then 1 else 0;
  so_order  : enter_ids t = map eid es;
  so_nest   : exit_ids t = if ok then rev (map eid (filter passes es)) else []
}.

(* executable form of the same thing: the ideal trace (an exception of the wrapped function itself propagates, it is
   not an extender's fault and is not logged) *)
Fixpoint ideal_trace (es : list extender) (ok : bool) : list event :=
  match es with
  | [] => [Call]
  | e :: r =>
      let i := eid e in
      match beh e with
      | RaiseBefore => Enter i :: Logged i :: ideal_trace r ok
      | Pass => Enter i :: ideal_trace r ok ++ (if ok then [Exit i] else [])
      | RaiseAfter => Enter i :: ideal_trace r ok ++ (if ok then [Logged i] else [])
      end
  end.
Definition ideal {A} (es : list extender) (w : result A) : comp A := (ideal_trace es (is_ok w), w).

(* the same with get_function_extender's case split (no extender / one bare extender / a chain) and for a plan *)
Definition ideal_dispatch {A} (l : list extender) (w : result A) : comp A :=
  match l with
  | [] => wrapped w
  | [e] => ext_call e (wrapped w)
  | _ => ideal (isort l) w
  end.
Definition ideal_run_wrapped {A} (h : hook) (order : list extender) (w : result A) : comp A :=
  ideal_dispatch (matching h order) w.
Fixpoint ideal_run_calls (order : list extender) (fails : call -> bool) (cs : list call) : list (call * list event) * bool :=
  match cs with
  | [] => ([], false)
  | c :: r =>
      match ideal_run_wrapped (kind_hook (snd c)) order (call_result fails c) with
      | (t, Ok _) => let (l, fl) := ideal_run_calls order fails r in ((c, t) :: l, fl)
      | (t, Err _) => ([(c, t)], true)
      end
  end.

(* pass-through chain: enter ascending, one call, exit in reverse *)
Definition passthrough_trace (ids : list nat) : list event := map Enter ids ++ [Call] ++ map Exit (rev ids).

(* stable sort: elements of equal priority keep the order of the input *)
Definition same_prio (p : Z) (e : extender) : bool := Z.eqb (prio e) p.
Definition stable_wrt (input output : list extender) : Prop :=
  forall p, filter (same_prio p) output = filter (same_prio p) input.

(* extender e sees call c of a plan iff it declares the hook of c's kind *)
Definition declares (e : extender) (c : call) : bool := wraps (kind_hook (snd c)) e.

(* the ideal run of a plan when the compute-framework object of step s iterates its extender set in the order [o s] *)
Fixpoint ideal_run_calls_at (o : nat -> list extender) (fails : call -> bool) (cs : list call) : list (call * list event) * bool :=
  match cs with
  | [] => ([], false)
  | c :: r =>
      match ideal_run_wrapped (kind_hook (snd c)) (o (fst c)) (call_result fails c) with
      | (t, Ok _) => let (l, fl) := ideal_run_calls_at o fails r in ((c, t) :: l, fl)
      | (t, Err _) => ([(c, t)], true)
      end
  end.
