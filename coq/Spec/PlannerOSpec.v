(* What the theorems about Model/PlannerO.v talk about, independent of the algorithm.  Definitions only.
   (Graph-level notions - parent, anc, graph_ok, strict, ord_ok, graph_equiv, step_equiv, plan_equiv - are those of
   Spec/PlannerASpec.v applied to the underlying graph `base g`.) *)
From Coq Require Import List Bool Arith String Permutation.
Import ListNotations.
Require Import MV.Model.Orch MV.Model.Options MV.Model.Identity MV.Model.Grouping MV.Model.PlannerA MV.Model.PlannerO.
Require Import MV.Spec.GroupingSpec MV.Spec.PlannerASpec.
Open Scope list_scope.
Open Scope nat_scope.

(* ---------- plans ---------- *)
(* u and v are computed by the same step *)
Definition share_step (p : plan) (u v : nat) : Prop := exists s, In s p /\ In u (uuids s) /\ In v (uuids s).
(* u and v are in the same split of the same feature group (group_features_by_compute_framework_and_options) *)
Definition same_split (ord : oparam) (g : ograph) (u v : nat) : Prop :=
  exists e, In e (split_queue ord g) /\ In u (snd e) /\ In v (snd e).
(* the property text: same feature group, equal (group options, frameworks), equal declared type - an undeclared type
   agreeing with any (GroupingSpec.agreeb) *)
Definition agree (g : ograph) (u v : nat) : Prop :=
  grp_of (base g) u = grp_of (base g) v /\ agreeb (oitem g u) (oitem g v) = true.

(* the same labelled graph in other dict / set orders; the labels okb need only be consistent (they name the classes of
   equal (group options, frameworks), Props PlannerO_labels_by_equal_options) *)
Definition graph_equiv_O (g g' : ograph) : Prop :=
  graph_equiv (base g) (base g') /\
  (forall u, In u (ids (base g)) -> ty_of g u = ty_of g' u) /\
  (forall u v, In u (ids (base g)) -> In v (ids (base g)) -> (kb_of g u = kb_of g v <-> kb_of g' u = kb_of g' v)).

(* ---------- requests ---------- *)
(* two feature graphs with identities that differ only in the CONTEXT options of their features *)
Definition same_but_context_x (a b : xnode) : Prop :=
  og (f_opt (xf a)) = og (f_opt (xf b)) /\ f_dtype (xf a) = f_dtype (xf b) /\
  xgrp a = xgrp b /\ xcfw a = xcfw b /\ xreq a = xreq b /\ xins a = xins b.

(* the feature that Features.__init__ makes of the input declaration i of a stored feature f: child_options = f's options,
   own options merged with them (inl), or the merge fails (inr) *)
Definition input_of (defs : list odef) (f : feat) (i : oin) : feat + nat :=
  let c := norm_child (f_opt f) in
  match merge_class c (oi_opt i) with
  | 0 => inl (mk_feat (oi_name i) (fst (o_merge c (oi_opt i))) (cfw_for defs (oi_name i)) (oi_ty i) (Some c))
  | S e => inr (S e)
  end.

(* the nodes st are CLOSED: every stored feature has a definition, all merges of its declared inputs succeed, its parents
   are exactly the merged input features (in some order of the declaration list) and each of them is stored (up to ==) *)
Definition closed_nodes (defs : list odef) (st : list rnode) : Prop :=
  forall r, In r st -> exists d, odef_of defs (f_name (rf r)) = Some d /\ rgrp r = od_grp d /\ rcfw r = od_cfw d /\
    exists ins, Permutation ins (od_ins d) /\
      Forall2 (fun i p => input_of defs (rf r) i = inl p) ins (rparents r) /\
      forall p, In p (rparents r) -> exists r', In r' st /\ feq p (rf r') = true.

(* r is needed by the request: a requested feature, or (transitively) an input of one *)
Inductive needed (st : list rnode) (rq : list feat) : rnode -> Prop :=
  | needed_req : forall r, In r st -> In (rf r) rq -> rreq r = true -> needed st rq r
  | needed_in : forall r r' p, needed st rq r -> In p (rparents r) -> In r' st -> feq p (rf r') = true -> needed st rq r'.

(* no two stored features are equal (Feature.__eq__): every instance has ONE node *)
Fixpoint nodup_feq (l : list feat) : Prop :=
  match l with [] => True | x :: t => (forall y, In y t -> feq x y = false) /\ nodup_feq t end.

(* iord is an iteration order of the input declarations *)
Definition iord_ok (iord : nat -> list oin -> list oin) : Prop := forall k l, Permutation (iord k l) l.

(* acyclic definitions: inputs have a smaller rank *)
Definition odefs_ok (defs : list odef) : Prop :=
  NoDup (map od_name defs) /\
  (forall d i, In d defs -> In i (od_ins d) -> exists d', odef_of defs (oi_name i) = Some d') /\
  exists rk : string -> nat, forall d i, In d defs -> In i (od_ins d) -> rk (oi_name i) < rk (od_name d).
