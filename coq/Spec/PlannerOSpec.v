(* What the theorems about Model/PlannerO.v talk about, independent of the algorithm.  Definitions only.
   (Graph-level notions - parent, anc, graph_ok, strict, ord_ok, graph_equiv, step_equiv, plan_equiv - are those of
   Spec/PlannerASpec.v applied to the underlying graph `base g`.) *)
From Coq Require Import List Bool Arith String Permutation.
Import ListNotations.
Require Import MV.Model.Orch MV.Model.Options MV.Model.Identity MV.Model.Grouping MV.Model.PlannerA MV.Model.PlannerO.
Require Import MV.Spec.OptionsSpec MV.Spec.GroupingSpec MV.Spec.PlannerASpec.
Open Scope list_scope.
Open Scope nat_scope.

(* ---------- plans ---------- *)
(* u and v are computed by the same step *)
Definition share_step (p : plan) (u v : nat) : Prop := exists s, In s p /\ In u (uuids s) /\ In v (uuids s).
(* u and v are in the same split of the same feature group (group_features_by_compute_framework_and_options) *)
Definition same_split (ord : oparam) (g : ograph) (u v : nat) : Prop :=
  exists e, In e (split_queue ord g) /\ In u (snd e) /\ In v (snd e).
(* the property text: same feature group, equal (group options, frameworks), equal declared type - an undeclared type
   agreeing with any (GroupingSpec.agreeb) *)
Definition agree (g : ograph) (u v : nat) : Prop :=
  grp_of (base g) u = grp_of (base g) v /\ agreeb (oitem g u) (oitem g v) = true.

(* the same labelled graph in other dict / set orders; the labels okb need only be consistent (they name the classes of
   equal (group options, frameworks), Props PlannerO_labels_by_equal_options) *)
Definition graph_equiv_O (g g' : ograph) : Prop :=
  graph_equiv (base g) (base g') /\
  (forall u, In u (ids (base g)) -> ty_of g u = ty_of g' u) /\
  (forall u v, In u (ids (base g)) -> In v (ids (base g)) -> (kb_of g u = kb_of g v <-> kb_of g' u = kb_of g' v)).

(* ---------- requests ---------- *)
(* two feature graphs with identities that differ only in the CONTEXT options of their features *)
Definition same_but_context_x (a b : xnode) : Prop :=
  og (f_opt (xf a)) = og (f_opt (xf b)) /\ f_dtype (xf a) = f_dtype (xf b) /\
  xgrp a = xgrp b /\ xcfw a = xcfw b /\ xreq a = xreq b /\ xins a = xins b.

(* the feature that Features.__init__ makes of the input declaration i of a stored feature f: child_options = f's options,
   own options merged with them (inl), or the merge fails (inr) *)
Definition input_of (defs : list odef) (f : feat) (i : oin) : feat + nat :=
  let c := norm_child (f_opt f) in
  match merge_class c (oi_opt i) with
  | 0 => inl (mk_feat (oi_name i) (fst (o_merge c (oi_opt i))) (cfw_for defs (oi_name i)) (oi_ty i) (Some c))
  | S e => inr (S e)
  end.

(* ---------- well-formed declarations ---------- *)
(* an options dictionary as Python can build it and compare it: pairwise different keys, every value equal to itself *)
(* (Model/PlannerO.v refl_dictb, ogoodb) *)
Definition decl_ok (defs : list odef) (rq : list oreq) : Prop :=
  (forall d i, In d defs -> In i (od_ins d) -> ogoodb (oi_opt i) = true) /\ (forall r, In r rq -> ogoodb (rq_opt r) = true).

(* acyclic definitions: distinct names, distinct input names per feature, every input and every requested name defined,
   and the names can be numbered below the number of definitions such that inputs get smaller numbers (a topological order) *)
Definition odefs_ok (defs : list odef) (rq : list oreq) : Prop :=
  NoDup (map od_name defs) /\
  (forall d, In d defs -> NoDup (map oi_name (od_ins d))) /\
  (forall d i, In d defs -> In i (od_ins d) -> exists d', odef_of defs (oi_name i) = Some d') /\
  (forall r, In r rq -> exists d, odef_of defs (rq_name r) = Some d) /\
  exists rk : string -> nat, (forall d, In d defs -> rk (od_name d) < List.length defs) /\
                             forall d i, In d defs -> In i (od_ins d) -> rk (oi_name i) < rk (od_name d).
(* one compute framework *)
Definition one_cfw (defs : list odef) : Prop := forall d e, In d defs -> In e defs -> od_cfw d = od_cfw e.

(* iord is an iteration order of the input declarations *)
Definition iord_ok (iord : nat -> list oin -> list oin) : Prop := forall k l, Permutation (iord k l) l.

(* ---------- the dependency closure of a request ---------- *)
(* the option INSTANCES a request needs: the requested features, and for every needed feature the features that
   Features.__init__ makes of its declared inputs (own options merged with the consumer's options) *)
Inductive inst (defs : list odef) (rq : list feat) : feat -> Prop :=
  | inst_req : forall f, In f rq -> inst defs rq f
  | inst_in : forall f d i p, inst defs rq f -> odef_of defs (f_name f) = Some d -> In i (od_ins d) ->
                              input_of defs f i = inl p -> inst defs rq p.

(* p is stored in st: as it is, or an equal feature (Feature.__eq__) is *)
Definition holds (st : list rnode) (p : feat) : Prop := exists r, In r st /\ (rf r = p \/ feq p (rf r) = true).

(* the stored feature r is CLOSED in st: it has a definition, all merges of its declared inputs succeed, its parents are
   exactly the merged input features (in some order of the declaration list), and each of them is stored *)
Definition closed1 (defs : list odef) (st : list rnode) (r : rnode) : Prop :=
  exists d, odef_of defs (f_name (rf r)) = Some d /\ rgrp r = od_grp d /\ rcfw r = od_cfw d /\
    exists ins, Permutation ins (od_ins d) /\
      Forall2 (fun i p => input_of defs (rf r) i = inl p) ins (rparents r) /\
      forall p, In p (rparents r) -> holds st p.

(* r descends from the feature f: it is f's node or the node of an input (of an input ...) of it *)
Inductive desc (st : list rnode) : feat -> rnode -> Prop :=
  | desc_self : forall f r, In r st -> rf r = f -> desc st f r
  | desc_step : forall f r p r', desc st f r -> In p (rparents r) -> In r' st -> rf r' = p -> desc st f r'.

(* no stored feature is equal (Feature.__eq__) to an earlier one: every instance has ONE node *)
Inductive nodup_feq : list feat -> Prop :=
  | nd_nil : nodup_feq []
  | nd_snoc : forall l y, nodup_feq l -> (forall x, In x l -> feq y x = false) -> nodup_feq (l ++ [y]).
