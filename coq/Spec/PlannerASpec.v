(* What the theorems about the planner model (Model/PlannerA.v) talk about, independent of the algorithm.
   Definitions only. *)
From Coq Require Import List Bool Arith Permutation.
Import ListNotations.
Require Import MV.Model.Orch MV.Model.PlannerA.

(* p is a direct input of c *)
Definition parent (g : fgraph) (p c : nat) : Prop := exists n, In n g /\ fid n = c /\ In p (fins n).

(* a is a proper ancestor of c: transitive closure of `parent` *)
Inductive anc (g : fgraph) : nat -> nat -> Prop :=
  | anc_direct : forall p c, parent g p c -> anc g p c
  | anc_step : forall a m c, anc g a m -> parent g m c -> anc g a c.

Definition acyclic (g : fgraph) : Prop := exists rk : nat -> nat, forall p c, parent g p c -> rk p < rk c.

(* a finite acyclic feature graph: distinct ids, every input is a node, inputs are sets *)
Definition graph_ok (g : fgraph) : Prop :=
  NoDup (ids g) /\ (forall p c, parent g p c -> In p (ids g)) /\ (forall n, In n g -> NoDup (fins n)) /\ acyclic g.

(* the strict Stage-A fragment: one compute framework everywhere *)
Definition strict (g : fgraph) : Prop := forall n m, In n g -> In m g -> fcfw n = fcfw m.

(* the feature GROUPS can be ordered so that every input from another group comes from an earlier group *)
Definition group_dag (g : fgraph) : Prop :=
  exists grk : nat -> nat, forall p c, parent g p c -> grp_of g p <> grp_of g c -> grk (grp_of g p) < grk (grp_of g c).

(* every oracle answer is an iteration order of the set it is asked about *)
Definition ord_ok (ord : oparam) : Prop := forall k l, Permutation (ord k l) l.

(* the same graph in other dict / set orders *)
Definition node_equiv (a b : fnode) : Prop :=
  fid a = fid b /\ fgrp a = fgrp b /\ Permutation (fins a) (fins b) /\ freq a = freq b /\ fcfw a = fcfw b.
Definition graph_equiv (g g' : fgraph) : Prop := exists g'', Permutation g g'' /\ Forall2 node_equiv g'' g'.

(* the same plan up to the order of the steps, the order inside the steps' sets and the step ids *)
Definition step_equiv (s s' : step) : Prop :=
  skind s = skind s' /\ Permutation (uuids s) (uuids s') /\ Permutation (req s) (req s') /\ requested s = requested s'.
Definition plan_equiv (p p' : plan) : Prop := exists q, Permutation p q /\ Forall2 step_equiv q p'.

(* requests *)
Definition dparent (defs : list fdef) (x y : nat) : Prop := exists d, In d defs /\ dname d = y /\ In x (dins d).
Definition defs_ok (defs : list fdef) (rq : list nat) : Prop :=
  NoDup (map dname defs) /\ (forall x y, dparent defs x y -> In x (map dname defs)) /\
  (forall d, In d defs -> NoDup (dins d)) /\ (exists rk : nat -> nat, forall x y, dparent defs x y -> rk x < rk y) /\
  NoDup rq /\ incl rq (map dname defs) /\ (forall d e, In d defs -> In e defs -> dcfw d = dcfw e).
Definition defs_group_dag (defs : list fdef) : Prop :=
  exists grk : nat -> nat, forall d e, In d defs -> In e defs -> In (dname d) (dins e) -> dgrp d <> dgrp e ->
    grk (dgrp d) < grk (dgrp e).
