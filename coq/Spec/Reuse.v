(* C07 — specification, independent of how mloda achieves it.

   Both halves of the property have the same shape.  A caller owns something that outlives one operation
   (a prepared session / the argument objects Feature, Options, links set, GlobalFilter, api_data) and performs a
   sequence of operations on it.  Each operation returns a result and may change what it was given.  The property:

       the result of an operation performed after ANY history equals (up to `eqv`) the result of the same operation
       performed on the pristine thing.

   `step` is the operation as a state transformer, `after s h` threads a history, `dom` restricts the operations the
   statement speaks about (e.g. runs but not get_result; calls outside a known-defect domain).

   `unchanged_below n h h'` is the frame statement for a heap of objects addressed by position: every object that
   existed before (address < n) has the same content afterwards. *)
From Coq Require Import List.
Import ListNotations.

Section Spec.
  Variables (St Op Res : Type) (step : St -> Op -> St * Res).

  Fixpoint after (s : St) (h : list Op) : St :=
    match h with [] => s | o :: t => after (fst (step s o)) t end.

  (* results of a whole history, in order *)
  Fixpoint results_of (s : St) (h : list Op) : list Res :=
    match h with [] => [] | o :: t => snd (step s o) :: results_of (fst (step s o)) t end.

  Definition prefix_independent (dom : St -> list Op -> Op -> Prop) (eqv : Res -> Res -> Prop) (s0 : St) : Prop :=
    forall pre o, dom s0 pre o -> eqv (snd (step (after s0 pre) o)) (snd (step s0 o)).
End Spec.

Definition unchanged_below {A : Type} (n : nat) (h h' : list A) : Prop :=
  forall a, a < n -> nth_error h' a = nth_error h a.
