(* C10 — what resolution is supposed to compute, stated without the algorithm (membership only, no list order).
   Definitions only. *)
From Coq Require Import List Bool String Arith.
Require Import MV.Model.Resolve.
Import ListNotations.
Open Scope string_scope.
Open Scope list_scope.

(* ---- the four sources of the framework intersection.  Frameworks are class OBJECTS (identities); only a string entry
        of the API list speaks about names ---- *)
(* what ONE entry of the API list admits, BY THE ENTRY'S KIND: a string admits every class of that name, a class object
   admits that class and nothing else (not a same-named twin) *)
Definition entry_allows (e : env) (a : apient) (x : fw) : Prop :=
  match a with
  | AName n => cname e x = n
  | AClass y => x = y
  end.
Definition api_allows (e : env) (rq : request) (x : fw) : Prop :=                           (* API argument *)
  api rq = [] \/ exists a, In a (api rq) /\ entry_allows e a x.
Definition rule_allows (c : fgclass) (x : fw) : Prop :=                                     (* feature group rule *)
  match rule c with None => True | Some s => In x s end.
Definition feature_allows (rq : request) (x : fw) : Prop :=                                 (* feature setting *)
  match ffw rq with None => True | Some y => x = y end.
Definition is_available (e : env) (x : fw) : Prop := In x (existing e) /\ In x (available e).   (* availability *)

(* frameworks on which group c may run for this request (feature setting not yet applied) *)
Definition group_fw (e : env) (rq : request) (c : fgclass) (x : fw) : Prop :=
  api_allows e rq x /\ rule_allows c x /\ is_available e x.
(* frameworks on which the feature may run when computed by c: all four sources *)
Definition admissible_fw (e : env) (rq : request) (c : fgclass) (x : fw) : Prop :=
  group_fw e rq c x /\ feature_allows rq x.

(* ---- plugin collector ---- *)
Definition collector_allows (rq : request) (c : fgclass) : Prop :=
  match collector rq with
  | None => True
  | Some (en, dis) => ~ In (cid c) dis /\ (en = [] \/ In (cid c) en)
  end.

(* ---- links: a group that declares index columns must support an index of at least one given link (prefix rule) ---- *)
Definition links_allow (rq : request) (c : fgclass) : Prop :=
  match idxcols c, links rq with
  | Some cols, Some ls => exists l col s, In l ls /\ In col cols /\ (col = fst l ++ s \/ col = snd l ++ s)
  | _, _ => True
  end.

(* ---- an admissible group: name, domain, collector, links, and at least one admissible framework ---- *)
Definition admissible (e : env) (rq : request) (c : fgclass) : Prop :=
  collector_allows rq c /\
  In (fname rq) (accepts c) /\
  (match fdom rq with None => True | Some d => dom c = d end) /\
  links_allow rq c /\
  exists x, admissible_fw e rq c x.

(* ---- subclass preference AS IMPLEMENTED: a proper subclass replaces its ancestor only if both can run on the
        same set of frameworks ---- *)
Definition proper_sub (c' c : fgclass) : Prop := cid c' <> cid c /\ In (cid c) (supers c').
Definition same_fws (e : env) (rq : request) (c' c : fgclass) : Prop := forall x, group_fw e rq c' x <-> group_fw e rq c x.
Definition preferred (e : env) (u : list fgclass) (rq : request) (c : fgclass) : Prop :=
  In c u /\ admissible e rq c /\
  ~ exists c', In c' u /\ admissible e rq c' /\ proper_sub c' c /\ same_fws e rq c' c.

(* ---- unconditional subclass preference (no framework condition), as the docstrings describe it ---- *)
Definition preferred_literal (e : env) (u : list fgclass) (rq : request) (c : fgclass) : Prop :=
  In c u /\ admissible e rq c /\ ~ exists c', In c' u /\ admissible e rq c' /\ proper_sub c' c.
(* the part of the input space on which the two readings can differ: an admissible proper subclass whose framework set
   differs from that of its admissible ancestor (decidable: Proofs/ResolveP.kf_fw_mismatch_b) *)
Definition kf_fw_mismatch (e : env) (u : list fgclass) (rq : request) : Prop :=
  exists c c', In c u /\ In c' u /\ admissible e rq c /\ admissible e rq c' /\ proper_sub c' c /\ ~ same_fws e rq c' c.

(* ---- request-level rejections that do not depend on the feature's groups ---- *)
Definition request_error (e : env) (u : list fgclass) (rq : request) (er : err) : Prop :=
  match er with
  | EFwUnknown => exists x, ffw rq = Some x /\ ~ In x (existing e)
  | ENoApiFramework => api rq <> [] /\ forall a x, In a (api rq) -> In x (existing e) -> ~ entry_allows e a x
  | EFeatureFwNotInApi => exists x, ffw rq = Some x /\ In x (existing e) /\ ~ api_allows e rq x
  | ENoAccessible => forall c, In c u -> ~ collector_allows rq c
  | _ => False
  end.

(* what the outcome must be, for a given reading `pref` of "admissible after preferring subclasses" *)
Definition outcome_with (pref : fgclass -> Prop) (e : env) (rq : request) (r : result) : Prop :=
  match r with
  | Chosen n gf => exists c, cid c = n /\ pref c /\ (forall c', pref c' -> c' = c) /\ forall x, In x gf <-> group_fw e rq c x
  | Rejected ENoGroup => ~ exists c, pref c
  | Rejected EMultiple => exists c c', pref c /\ pref c' /\ c <> c'
  | Rejected _ => False
  end.
Definition outcome_ok (e : env) (u : list fgclass) (rq : request) : result -> Prop :=
  outcome_with (preferred e u rq) e rq.
Definition outcome_literal (e : env) (u : list fgclass) (rq : request) : result -> Prop :=
  outcome_with (preferred_literal e u rq) e rq.

(* boolean form of kf_fw_mismatch, evaluated on the groups that passed the filter loop *)
Definition kf_fw_mismatch_b (e : env) (u : list fgclass) (rq : request) : bool :=
  let ident := identified e rq u in
  existsb (fun o => existsb (fun i => negb (set_eqb (snd i) (snd o)) && (negb (Nat.eqb (cid (fst i)) (cid (fst o)))
                                       && issub (fst i) (fst o))) ident) ident.

(* ---- a feature-level framework given by NAME (Feature(compute_framework="N")): the part of the input space in which the
        name does not determine the class - at least two existing classes carry it (decidable by definition) ---- *)
Definition named (e : env) (n : fwname) : list fw := filter (fun s => Nat.eqb (cname e s) n) (existing e).
Definition kf_ffw_name_twins (e : env) (fn : option fwname) : bool :=
  match fn with
  | Some n => match named e n with _ :: _ :: _ => true | _ => false end
  | None => false
  end.

(* ---- plugin_docs.resolve_feature: name match only, unconditional subclass preference ---- *)
Definition doc_pref (u : list fgclass) (name : string) (c : fgclass) : Prop :=
  In c u /\ In name (accepts c) /\ ~ exists c', In c' u /\ In name (accepts c') /\ proper_sub c' c.
Definition doc_outcome (u : list fgclass) (name : string) (r : option (option nat)) : Prop :=
  match r with
  | None => ~ exists c, In c u /\ In name (accepts c)
  | Some (Some n) => exists c, cid c = n /\ doc_pref u name c /\ forall c', doc_pref u name c' -> c' = c
  | Some None => (exists c, In c u /\ In name (accepts c)) /\
                 ~ exists c, doc_pref u name c /\ forall c', doc_pref u name c' -> c' = c
  end.
