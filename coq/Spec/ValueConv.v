(* What C14 asks of the VALUES, independent of how the conversions work.  Definitions only.

   A table of any framework is observed as its `view`: the list of (column name, cells top to bottom) in column order.
   `pres src out` is the property's "preserves column names, number and order of rows and every value, where null/NaN and
   the numeric widening that a framework forces on nullable integer columns are the only tolerated representation
   changes": same names in the same order, same number of cells per column, and position by position
       - the same cell, NaN and null identified (norm), or
       - an integer z in a column that contains a null, shown as the float z2f z, PROVIDED that float is exactly z.
   pres is directional (source, result) and positional (row i is compared with row i: order matters). *)
From Coq Require Import List Bool Arith ZArith String SpecFloat.
Import ListNotations.
Require Import MV.Model.ValueConv.
Open Scope Z_scope.

Definition view := list (string * list cell).

(* ---------- observation ---------- *)
Definition view_a (t : atable) : view := map (fun nc => (fst nc, acol_cells (snd nc))) t.
Definition view_p (t : ptable) : view := map (fun nc => (fst nc, pcol_cells (snd nc))) t.
(* list of dicts: the columns are the keys of the first row; a cell is looked up by name *)
Definition view_d (rows : dtable) : view :=
  match rows with
  | [] => []
  | r0 :: _ => map (fun k => (k, map (dcell k) rows)) (keys r0)
  end.
Definition view_of (x : anytable) : view :=
  match x with TDict t => view_d t | TArrow t => view_a t | TPandas t => view_p t | TFail _ => [] end.

(* ---------- float helpers (structural: SpecFloat values in canonical form are equal iff their bits are) ---------- *)
Definition sf_eqb (a b : f64) : bool :=
  match a, b with
  | S754_zero s, S754_zero s' => Bool.eqb s s'
  | S754_infinity s, S754_infinity s' => Bool.eqb s s'
  | S754_nan, S754_nan => true
  | S754_finite s m e, S754_finite s' m' e' => Bool.eqb s s' && Pos.eqb m m' && Z.eqb e e'
  | _, _ => false
  end.

(* the integer a float denotes exactly, if it denotes one *)
Definition f2z (f : f64) : option Z :=
  match f with
  | S754_zero _ => Some 0
  | S754_finite s m e =>
      if 0 <=? e then Some (cond_Zopp s (Zpos m * 2 ^ e))
      else if (Zpos m) mod 2 ^ (- e) =? 0 then Some (cond_Zopp s (Zpos m / 2 ^ (- e))) else None
  | _ => None
  end.

(* z survives int64 -> float64: its magnitude has at most 53 significant bits *)
Definition representable (z : Z) : bool := (Z.abs z) mod 2 ^ Z.max 0 (Z.log2 (Z.abs z) + 1 - 53) =? 0.

(* ---------- preservation ---------- *)
Definition norm (c : cell) : cell := nan_to_null c.
Definition is_null (c : cell) : bool := match norm c with VNull => true | _ => false end.

Definition cell_pres (nullable : bool) (c c' : cell) : bool :=
  match norm c, norm c' with
  | VNull, VNull => true
  | VInt a, VInt b => a =? b
  | VFloat f, VFloat g => sf_eqb f g
  | VStr s, VStr s' => String.eqb s s'
  | VBool b, VBool b' => Bool.eqb b b'
  | VInt a, VFloat g => nullable && sf_eqb (z2f a) g && match f2z g with Some b => a =? b | None => false end
  | _, _ => false
  end.

Fixpoint forall2b {A B} (p : A -> B -> bool) (l : list A) (l' : list B) : bool :=
  match l, l' with
  | [], [] => true
  | a :: r, b :: r' => p a b && forall2b p r r'
  | _, _ => false
  end.

Definition col_pres (c c' : string * list cell) : bool :=
  String.eqb (fst c) (fst c') && forall2b (cell_pres (existsb is_null (snd c))) (snd c) (snd c').

Definition pres (src out : view) : bool := forall2b col_pres src out.

(* names, row count: what is kept even where a value is not *)
Definition names (v : view) : list string := map fst v.
Definition shape (v : view) : list (string * nat) := map (fun c => (fst c, List.length (snd c))) v.

(* ---------- what a route through pandas does, exactly ---------- *)
(* every integer of a column that contains a null is replaced by its double (exact or not) *)
Definition widen_cell (c : cell) : cell := match c with VInt z => VFloat (z2f z) | _ => c end.
Definition widened_view (v : view) : view :=
  map (fun c => (fst c, if existsb is_null (snd c) then map widen_cell (snd c) else snd c)) v.
(* equal up to null/NaN: same names, and position by position the same cell after norm *)
Definition same_col (c c' : string * list cell) : bool :=
  String.eqb (fst c) (fst c') && forall2b (cell_pres false) (snd c) (snd c').
Definition same (v v' : view) : bool := forall2b same_col v v'.
Definition expected (through_pandas : bool) (v : view) : view := if through_pandas then widened_view v else v.
Definition to_pandas (b : fwk) : bool := fwk_eqb b FPandas.

(* ---------- well-formed tables of the modelled value domain ---------- *)
Fixpoint nodupb (l : list string) : bool :=
  match l with [] => true | k :: r => negb (mem k r) && nodupb r end.

(* a column pyarrow can type: one kind besides nulls, ints within int64 *)
Definition typed (cs : list cell) : bool :=
  match infer cs with InfMixed => false | _ => true end && forallb cell_int64 cs.

Definition same_len (v : view) : bool :=
  match v with [] => true | c :: r => forallb (fun c' => Nat.eqb (List.length (snd c')) (List.length (snd c))) r end.

Definition valid_a (t : atable) : bool :=
  nodupb (names (view_a t)) && same_len (view_a t) && forallb (fun c => forallb cell_int64 (snd c)) (view_a t).

Definition pcol_ok (c : pcol) : bool :=
  match c with PObj l => typed (map nan_to_null l) | _ => forallb cell_int64 (pcol_cells c) end.
Definition valid_p (t : ptable) : bool :=
  nodupb (names (view_p t)) && same_len (view_p t) && forallb (fun nc => pcol_ok (snd nc)) t.

(* every row has unique keys and the key set of the first row; the first row has a key; every column is typed *)
Definition valid_d (rows : dtable) : bool :=
  match rows with
  | [] => true
  | r0 :: _ => negb (match keys r0 with [] => true | _ => false end)
               && forallb (fun r => nodupb (keys r)) rows && schema_ok rows
               && forallb (fun c => typed (snd c)) (view_d rows)
  end.

Definition valid_of (a : fwk) (x : anytable) : bool :=
  match a, x with
  | FDict, TDict t => valid_d t
  | FArrow, TArrow t => valid_a t
  | FPandas, TPandas t => valid_p t
  | _, _ => false
  end.

(* ---------- the two domains in which the unchanged tree loses something ---------- *)
(* known finding C14-nullable-int-widening-loses-precision: a column with a null and an integer of magnitude > 2^53,
   pandas on the route *)
Definition big_int (c : cell) : bool := match c with VInt z => 2 ^ 53 <? Z.abs z | _ => false end.
Definition kf_widening (v : view) : bool := existsb (fun c => existsb is_null (snd c) && existsb big_int (snd c)) v.
(* the exact set: ... and an integer that is not representable *)
Definition lossy_int (c : cell) : bool := match c with VInt z => negb (representable z) | _ => false end.
Definition kf_widening_exact (v : view) : bool := existsb (fun c => existsb is_null (snd c) && existsb lossy_int (snd c)) v.

(* known finding C14-pydict-empty-table-loses-columns: at least one column, no rows, list-of-dicts on the route *)
Definition kf_empty (v : view) : bool :=
  match v with [] => false | c :: _ => match snd c with [] => true | _ => false end end.

Definition uses_pandas (a b : fwk) : bool := fwk_eqb a FPandas || fwk_eqb b FPandas.
Definition kf_route (a b : fwk) (v : view) : bool :=
  (uses_pandas a b && kf_widening v) || (fwk_eqb b FDict && kf_empty v).
Definition kf_route_exact (a b : fwk) (v : view) : bool :=
  (uses_pandas a b && kf_widening_exact v) || (fwk_eqb b FDict && kf_empty v).
