(* C15 — which features of one feature group are computed together, stated without the algorithm.  Definitions only. *)
From Coq Require Import List Bool Arith.
Import ListNotations.
Require Import MV.Model.Options MV.Model.Identity MV.Model.Grouping MV.Spec.OptionsSpec.

Definition is_typed (x : item) : bool := match it_ty x with Some _ => true | None => false end.

(* the feature that decides where x goes: x itself when it declares a type, otherwise the first feature in iteration
   order that declares a type and has the same (group options, compute framework) *)
Definition anchor (its : list item) (x : item) : option item :=
  if is_typed x then Some x else find (fun t => is_typed t && Nat.eqb (it_kb t) (it_kb x)) its.

(* a and b are computed together iff their anchors agree on (group options, framework, type); two features without
   anchor (undeclared type, no compatible typed feature) iff they agree on (group options, framework) *)
Definition share_spec (its : list item) (a b : item) : bool :=
  match anchor its a, anchor its b with
  | Some s, Some t => Nat.eqb (it_kb s) (it_kb t) && oty_eqb (it_ty s) (it_ty t)
  | None, None => Nat.eqb (it_kb a) (it_kb b)
  | _, _ => false
  end.

Definition same_group (gs : list (list item)) (a b : item) : Prop := exists g, In g gs /\ In a g /\ In b g.

(* b is the feature a with other context options *)
Definition same_but_context (a b : gfeat) : Prop :=
  g_id a = g_id b /\ g_group a = g_group b /\ g_cfw a = g_cfw b /\ g_ty a = g_ty b.

(* the property text: "computed together exactly when group options, framework and declared type agree
   (an undeclared type agrees with any)" *)
Definition agreeb (a b : item) : bool :=
  Nat.eqb (it_kb a) (it_kb b) &&
  match it_ty a, it_ty b with Some x, Some y => Nat.eqb x y | _, _ => true end.

(* known-defect domain: some feature without declared type is compatible with two typed features of different types
   ("agrees with any" is not transitive there, so no partition can satisfy the text) *)
Definition kf_ambiguous (its : list item) : bool :=
  existsb (fun u => negb (is_typed u) &&
    existsb (fun t1 => existsb (fun t2 =>
      is_typed t1 && is_typed t2 && Nat.eqb (it_kb t1) (it_kb u) && Nat.eqb (it_kb t2) (it_kb u)
      && negb (oty_eqb (it_ty t1) (it_ty t2))) its) its) its.

(* ---------- grouping by EQUALITY of (group options, compute frameworks): what the property asks for ----------
   (opts_agree = Python == of the two, Model/Grouping.v).  The class of a feature is the index of the first feature of the
   request with equal (options, frameworks); the two passes over declared types are those of the code (group_items). *)
Definition eq_class (fs : list gfeat) (x : gfeat) : nat := first_idx (fun y => opts_agree y x) fs.
Definition item_of_eq (fs : list gfeat) (x : gfeat) : item :=
  {| it_id := g_id x; it_kb := eq_class fs x; it_ty := g_ty x |}.
Definition group_features_eq (fs : list gfeat) : list (list nat) :=
  map (map it_id) (group_items (map (item_of_eq fs) fs)).

(* The domains of the two repaired findings (grouping by the hash integer); kept because these are the requests on which
   grouping by hash and grouping by equality differ, i.e. the regression inputs.
   Domain 1 (C15-grouping-conflates-list-tuple): two features whose group options are different but have the
   same canonical form (list vs tuple, dict vs tuple of pairs) *)
Definition kf_canon_conflation (fs : list gfeat) : bool :=
  existsb (fun a => existsb (fun b => canon_eqb a b && negb (opts_agree a b)) fs) fs.

(* Domain 2 (C15-grouping-hash-collision): two features whose group options have different canonical forms
   with the same hash integer (-1 / -2, "" / 0, z / z mod 2^61-1, an Enum member / its name, and anything built from them) *)
Definition kf_hash_collision (fs : list gfeat) : bool :=
  existsb (fun a => existsb (fun b => hash_eqb a b && negb (canon_eqb a b)) fs) fs.

(* both: unequal (options, frameworks) with the same hash integer -- grouping by the integer could not tell them apart *)
Definition kf_hash_conflation (fs : list gfeat) : bool :=
  existsb (fun a => existsb (fun b => hash_eqb a b && negb (opts_agree a b)) fs) fs.

(* every feature of the request has hashable, well-formed group options (otherwise hash(options) raises) *)
Definition hashable_request (fs : list gfeat) : Prop :=
  forall x, In x fs -> wfv (VDict (g_group x)) /\ nofs (VDict (g_group x)) /\ hash_key (VDict (g_group x)) <> None.
