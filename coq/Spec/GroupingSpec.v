(* C15 — which features of one feature group are computed together, stated without the algorithm.  Definitions only. *)
From Coq Require Import List Bool Arith.
Import ListNotations.
Require Import MV.Model.Options MV.Model.Identity MV.Model.Grouping.

Definition is_typed (x : item) : bool := match it_ty x with Some _ => true | None => false end.

(* the feature that decides where x goes: x itself when it declares a type, otherwise the first feature in iteration
   order that declares a type and has the same (group options, compute framework) *)
Definition anchor (its : list item) (x : item) : option item :=
  if is_typed x then Some x else find (fun t => is_typed t && Nat.eqb (it_kb t) (it_kb x)) its.

(* a and b are computed together iff their anchors agree on (group options, framework, type); two features without
   anchor (undeclared type, no compatible typed feature) iff they agree on (group options, framework) *)
Definition share_spec (its : list item) (a b : item) : bool :=
  match anchor its a, anchor its b with
  | Some s, Some t => Nat.eqb (it_kb s) (it_kb t) && oty_eqb (it_ty s) (it_ty t)
  | None, None => Nat.eqb (it_kb a) (it_kb b)
  | _, _ => false
  end.

Definition same_group (gs : list (list item)) (a b : item) : Prop := exists g, In g gs /\ In a g /\ In b g.

(* b is the feature a with other context options *)
Definition same_but_context (a b : gfeat) : Prop :=
  g_id a = g_id b /\ g_group a = g_group b /\ g_cfw a = g_cfw b /\ g_ty a = g_ty b.

(* the property text: "computed together exactly when group options, framework and declared type agree
   (an undeclared type agrees with any)" *)
Definition agreeb (a b : item) : bool :=
  Nat.eqb (it_kb a) (it_kb b) &&
  match it_ty a, it_ty b with Some x, Some y => Nat.eqb x y | _, _ => true end.

(* known-defect domain: some feature without declared type is compatible with two typed features of different types
   ("agrees with any" is not transitive there, so no partition can satisfy the text) *)
Definition kf_ambiguous (its : list item) : bool :=
  existsb (fun u => negb (is_typed u) &&
    existsb (fun t1 => existsb (fun t2 =>
      is_typed t1 && is_typed t2 && Nat.eqb (it_kb t1) (it_kb u) && Nat.eqb (it_kb t2) (it_kb u)
      && negb (oty_eqb (it_ty t1) (it_ty t2))) its) its) its.

(* (group options, compute frameworks) agree, as Python == sees it *)
Definition opts_agree (a b : gfeat) : bool :=
  py_eq (VDict (g_group a)) (VDict (g_group b)) && py_eq (cfw_val (g_cfw a)) (cfw_val (g_cfw b)).

(* known-defect domain: two features whose group options are different but have the same canonical form
   (list vs tuple, dict vs tuple of pairs): the hash-based grouping cannot tell them apart *)
Definition kf_hash_conflation (fs : list gfeat) : bool :=
  existsb (fun a => existsb (fun b => base_eqb a b && negb (opts_agree a b)) fs) fs.
