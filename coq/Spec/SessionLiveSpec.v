(* What C13 demands of live (interleaved) runs of one session: every run behaves like the same run EXECUTED ALONE.

   "Alone" is a machine with ONE run and no session state that could be written by anybody else: sstep / sexec below (the
   plan, the stored api data and the flags the session's plan carried when it was prepared are constants).  `solo i n ops` is
   the part of an interleaved history that concerns run i: the i-th open (n = number of runs opened before `ops`), the events
   addressed to run i, its close.  Spec:   run i after the interleaved history  =  sexec (solo i ...)      (Props/C13.v).
   `sevents` gives the closed form of the alone machine: an ordinary orchestrator run (Model/Orch.v run / Session.orun) on the
   events between the open and the close, to which the stream = batch theorems of Props/C13.v apply.
   Definitions only. *)
From Coq Require Import List Bool Arith ZArith String.
Import ListNotations.
Require Import MV.Model.Orch MV.Model.Session MV.Model.SessionLive.
Open Scope list_scope.

Inductive sop :=
  | SOpen (stream : bool) (api : option api_data) (inline : bool) (fails : list nat)
  | SStep (e : event)
  | SClose.

Definition sstep (reset : bool) (p : plan) (api0 : option api_data) (fl : list nat) (r : option lrun) (o : sop) : option lrun :=
  match o, r with
  | SOpen stream api inline fails, None => Some (new_run api0 (if reset then [] else fl) stream api inline fails)
  | SOpen _ _ _ _, Some x => Some x
  | SStep e, Some x => if l_closed x then Some x else Some (with_st x (run_event p x (l_st x) e))
  | SClose, Some x => Some (close_run x)
  | _, None => None
  end.

Definition sexec (reset : bool) (p : plan) (api0 : option api_data) (fl : list nat) (r : option lrun) (ops : list sop) : option lrun :=
  fold_left (sstep reset p api0 fl) ops r.

Fixpoint solo (i n : nat) (ops : list lop) : list sop :=
  match ops with
  | [] => []
  | LOpen st a il f :: t => if Nat.eqb n i then SOpen st a il f :: solo i (S n) t else solo i (S n) t
  | LStep j e :: t => if Nat.eqb j i then SStep e :: solo i n t else solo i n t
  | LClose j :: t => if Nat.eqb j i then SClose :: solo i n t else solo i n t
  end.

(* the events a run has performed: those after its open and before its close *)
Fixpoint sevents (opened : bool) (ops : list sop) : list event :=
  match ops with
  | [] => []
  | SOpen _ _ _ _ :: t => sevents true t
  | SStep e :: t => if opened then e :: sevents opened t else sevents opened t
  | SClose :: t => if opened then [] else sevents opened t
  end.
