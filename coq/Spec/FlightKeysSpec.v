(* What C09 demands of the dataset keys of a history of runs against one long-lived Flight store (Model/FlightKeys.v):
   "when the call returns every dataset it uploaded has been removed, so a long-lived store does not grow across runs". *)
From Coq Require Import List Bool Arith.
Import ListNotations.
Require Import MV.Model.Orch MV.Model.Worker MV.Model.FlightKeys.

(* runs whose workers touch only keys of their own run and whose end-of-run sweep was carried out *)
Definition all_ok (rs : list krun) : Prop := forall r, In r rs -> body_okb r = true /\ r_sweep r = Some true.

(* the demand on one run that starts with the store / client state h: none of its keys is left, nothing else was added *)
Definition run_leaves_nothing (cl : client) (h : hst) (r : krun) : Prop :=
  (forall k, In k (r_keys r) -> ~ In k (store (exec_krun cl h r))) /\ incl (store (exec_krun cl h r)) (store h).

(* a run of the protocol model (Model/Worker.v) with a key assignment for its objects: configuration, trace, final state *)
Record prun := { pr_cfg : cfg; pr_kap : nat -> nat; pr_tr : list label; pr_st : pst }.

(* it exited through a finally block whose first statement did not raise (every exit path but Worker_cleanup_artifacts_refuted),
   its final drop did not raise (Worker_store_leak_final_drop_refuted), MULTIPROCESSING *)
Definition prun_clean (r : prun) : Prop :=
  Worker.exec (pr_cfg r) pinit (pr_tr r) = Some (pr_st r) /\ (exists x, pc (pr_st r) = PExited x /\ x <> XFinallyCrash) /\
  mp (pr_cfg r) = true /\ dropfail (pr_st r) = false.
Definition prun_keys (r : prun) : list nat := map (pr_kap r) (tasks (pr_st r)).
Definition krun_of (stab : list nat) (r : prun) : krun := run_of (pr_kap r) stab (pr_cfg r) (pr_tr r) (pr_st r).
