(* Reference evaluation of a feature graph (C02): derived features are integer functions
      f = c0 + sum_i coef_i * input_i        (row-wise; a null input makes the row null)
   of their input columns; source columns come from the root tables.  Definitions only.
   Feature names are numbers (the harness numbers the features of a request). *)
From Coq Require Import List Bool ZArith Arith.
Import ListNotations.
Open Scope Z_scope.

Definition column := list (option Z).
Definition env := list (nat * column).                    (* feature -> column *)

Record fdef := { fname : nat; inputs : list nat; c0 : Z; coefs : list Z }.

Fixpoint lookup (e : env) (f : nat) : option column :=
  match e with [] => None | (k, v) :: t => if Nat.eqb k f then Some v else lookup t f end.

Definition add_scaled (coef : Z) (acc col : column) : column :=
  map (fun ab => match ab with (Some a, Some b) => Some (a + coef * b) | _ => None end) (combine acc col).

(* value of a derived feature from the columns of its inputs (all the same length n) *)
Fixpoint accumulate (acc : column) (cs : list (Z * column)) : column :=
  match cs with [] => acc | (k, col) :: t => accumulate (add_scaled k acc col) t end.
Definition compute (n : nat) (d : fdef) (cols : list column) : column :=
  accumulate (repeat (Some (c0 d)) n) (combine (coefs d) cols).

Fixpoint all_some {A} (l : list (option A)) : option (list A) :=
  match l with
  | [] => Some []
  | Some x :: t => match all_some t with Some r => Some (x :: r) | None => None end
  | None :: _ => None
  end.

(* one round: define every feature whose inputs are all defined and which is not yet defined *)
Definition round (n : nat) (defs : list fdef) (e : env) : env :=
  fold_left (fun e d =>
    match lookup e (fname d) with
    | Some _ => e
    | None => match all_some (map (lookup e) (inputs d)) with
              | Some cols => (fname d, compute n d cols) :: e
              | None => e
              end
    end) defs e.

Fixpoint ref_eval_fuel (fuel n : nat) (defs : list fdef) (e : env) : env :=
  match fuel with O => e | S f => ref_eval_fuel f n defs (round n defs e) end.

(* bottom-up evaluation from the source columns; |defs| rounds suffice for an acyclic graph *)
Definition ref_eval (n : nat) (src : env) (defs : list fdef) : env := ref_eval_fuel (S (length defs)) n defs src.

Definition col_eqb (a b : column) : bool :=
  Nat.eqb (length a) (length b) &&
  forallb (fun xy => match xy with (Some x, Some y) => Z.eqb x y | (None, None) => true | _ => false end) (combine a b).

(* e is a SOLUTION of the defining equations: it contains the source columns unchanged and every definition whose
   feature it defines holds in it *)
Definition solution (n : nat) (src : env) (defs : list fdef) (e : env) : bool :=
  forallb (fun kv => match lookup e (fst kv) with Some c => col_eqb c (snd kv) | None => false end) src
  && forallb (fun d => match lookup e (fname d) with
                       | None => true
                       | Some c => match all_some (map (lookup e) (inputs d)) with
                                   | Some cols => col_eqb c (compute n d cols)
                                   | None => false
                                   end
                       end) defs.
