(* C16 — the published schema of a feature configuration (feature_config_schema() in
   mloda/core/api/feature_config/models.py and docs/docs/in_depth/feature-config.md), as a decidable predicate on the
   JSON tree.  Written from the schema text, independently of the loader.

     document : array of items
     item     : string | object { name: string (required), options: object, in_features: array of string,
                                  group_options: object, context_options: object, column_index: integer }
                additionalProperties: false
     documented besides the schema: `options` and `group_options`/`context_options` are mutually exclusive.        *)
From Coq Require Import List Bool Ascii ZArith.
Import ListNotations.
Require Import MV.Model.ChainParser MV.Model.ConfigLoader.
Open Scope list_scope.

Definition j_is_str (j : json) : bool := match j with JStr _ => true | _ => false end.
Definition j_is_obj (j : json) : bool := match j with JObj _ => true | _ => false end.
Definition j_is_int (j : json) : bool := match j with JNum _ => true | _ => false end.
Definition j_is_str_array (j : json) : bool := match j with JArr l => forallb j_is_str l | _ => false end.

Fixpoint jassoc (k : str) (kv : list (str * json)) : option json :=
  match kv with
  | [] => None
  | (k', v) :: t => if str_eqb k k' then Some v else jassoc k t
  end.

Definition prop_ok (p : str * json) : bool :=
  let (k, v) := p in
  if str_eqb k k_name then j_is_str v
  else if str_eqb k k_options then j_is_obj v
  else if str_eqb k k_in_features then j_is_str_array v
  else if str_eqb k k_group_options then j_is_obj v
  else if str_eqb k k_context_options then j_is_obj v
  else if str_eqb k k_column_index then j_is_int v
  else false.                                               (* additionalProperties: false *)

Definition item_schema_valid (j : json) : bool :=
  match j with
  | JStr _ => true
  | JObj kv => forallb prop_ok kv && match jassoc k_name kv with Some _ => true | None => false end
  | _ => false
  end.

Definition schema_valid (j : json) : bool :=
  match j with JArr l => forallb item_schema_valid l | _ => false end.

(* the documented mutual exclusion: a non-empty `options` object next to a group_options / context_options key *)
Definition j_nonempty_obj (j : json) : bool := match j with JObj (_ :: _) => true | _ => false end.
Definition has_key (k : str) (kv : list (str * json)) : bool := match jassoc k kv with Some _ => true | None => false end.

Definition item_exclusive_ok (j : json) : bool :=
  match j with
  | JObj kv =>
      negb (match jassoc k_options kv with Some o => j_nonempty_obj o | None => false end
            && (has_key k_group_options kv || has_key k_context_options kv))
  | _ => true
  end.

Definition doc_valid (j : json) : bool :=
  schema_valid j && match j with JArr l => forallb item_exclusive_ok l | _ => false end.

(* `load` accepts the document *)
Definition accepted (j : json) : bool := match load j with Ok _ => true | Err _ => false end.

(* the structural part of the schema: an array of strings and objects, objects with known keys and a name *)
Definition item_structure_ok (j : json) : bool :=
  match j with
  | JStr _ => true
  | JObj kv => forallb (fun p => existsb (str_eqb (fst p)) config_keys) kv && has_key k_name kv
  | _ => false
  end.
Definition structure_ok (j : json) : bool := match j with JArr l => forallb item_structure_ok l | _ => false end.

(* an item that uses `options` (non-empty object) together with a non-empty group_options / context_options object *)
Definition item_exclusive_clash (j : json) : bool :=
  match j with
  | JObj kv =>
      match jassoc k_options kv with Some o => j_nonempty_obj o | None => false end
      && (match jassoc k_group_options kv with Some o => j_nonempty_obj o | None => false end
          || match jassoc k_context_options kv with Some o => j_nonempty_obj o | None => false end)
  | _ => false
  end.
