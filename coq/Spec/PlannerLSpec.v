(* What the theorems about the link / join planner model (Model/PlannerL.v) talk about, independent of the algorithm.
   Definitions only. *)
From Coq Require Import List Bool Arith Permutation.
Import ListNotations.
Require Import MV.Model.Orch MV.Model.OrchCheck MV.Model.PlannerA MV.Model.LinkSel MV.Model.PlannerL MV.Spec.PlannerASpec.
Open Scope nat_scope.

(* ---------- (a) without Links: the feature-group steps of PlannerA, nothing else ---------- *)
(* a FeatureGroupStep as add_feature_group_step creates it: no transform / join lookups, any_uuid = its first feature *)
Definition plain_fg (g : fgraph) (x : lstep) : Prop :=
  match x with
  | LFG s grp cfw cir tfs any => tfs = [] /\ any = hd 0 (uuids s) /\ cir = cir_of (p2c_of g) (uuids s)
  | _ => False
  end.
(* prepare_L agrees with prepare_A: same decision, same steps *)
Definition agrees_with_A (g : fgraph) (ra : presult) (plan_a : plan) (rl : lresult) : Prop :=
  match ra with
  | Planned p => exists p', rl = LPlanned p' /\ map core p' = p /\ Forall (plain_fg g) p'
  | RejectedIncomplete => exists p', rl = LRejected e_incomplete p' /\ map core p' = plan_a /\ Forall (plain_fg g) p'
  | RejectedCycle => exists p', rl = LRejected e_cycle p' /\ map core p' = plan_a /\ Forall (plain_fg g) p'
  | OutsideFragment => rl = LOutside
  end.

(* ---------- star requests: n root features of n different classes, one consumer feature over all of them ---------- *)
Record sroot := { sr_id : nat; sr_grp : nat; sr_cfw : nat }.
Definition root_node (r : sroot) : fnode :=
  {| fid := sr_id r; fgrp := sr_grp r; fins := []; freq := false; fcfw := sr_cfw r |}.
Definition cons_node (f C cc : nat) (ps : list nat) : fnode :=
  {| fid := f; fgrp := C; fins := ps; freq := true; fcfw := cc |}.
(* Engine.feature_link_parents for such a request: the requested consumer is inserted first, then its inputs; `rs` is the
   dict order of the roots and `ps` the iteration order of the consumer's parent set - both arbitrary *)
Definition star_g (rs : list sroot) (f C cc : nat) (ps : list nat) : fgraph := cons_node f C cc ps :: map root_node rs.
Definition star_ok (rs : list sroot) (f C : nat) (ps : list nat) : Prop :=
  NoDup (f :: map sr_id rs) /\ NoDup (C :: map sr_grp rs) /\ rs <> [] /\ Permutation ps (map sr_id rs).

(* the Links of a request: a set (pairwise unequal under Link.__eq__, distinct uuids), accepted by LinkValidator, none
   between a class and itself; the uuids of the links, of their JoinSteps and TransformFrameworkSteps are fresh *)
Definition links_ok (links : list plink) (feature_ids : list nat) : Prop :=
  NoDup (map pl_uid links) /\
  (forall a b, In a links -> In b links -> link_eqb (pl_l a) (pl_l b) = true -> a = b) /\
  validate_rejects (map pl_l links) = false /\
  (forall l, In l links -> lfg (pl_l l) <> rfg (pl_l l)) /\
  (forall l, In l links -> ~ In (pl_uid l) feature_ids /\ ~ In (js_uid (pl_uid l)) feature_ids /\ ~ In (tfs_uid (pl_uid l)) feature_ids) /\
  (forall a b, In a links -> In b links -> pl_uid a <> js_uid (pl_uid b) /\ pl_uid a <> tfs_uid (pl_uid b) /\ js_uid (pl_uid a) <> tfs_uid (pl_uid b)).

(* the Link joins the classes of two roots of the star: it is NEEDED by the consumer *)
Definition needed_by (rs : list sroot) (l : plink) (ri rj : sroot) : Prop :=
  In ri rs /\ In rj rs /\ lfg (pl_l l) = sr_grp ri /\ rfg (pl_l l) = sr_grp rj.
(* the classes of the roots have no generated ancestors (every generated class derives directly from FeatureGroup) *)
Definition flat_roots (mro : cls -> list cls) (rs : list sroot) : Prop := forall r, In r rs -> mro (sr_grp r) = [sr_grp r].

(* ---------- the plan of a star request on one compute framework ---------- *)
Definition plain_jt (j : jointype) : bool := match j with INNER | LEFT | OUTER => true | _ => false end.
(* the uuid of the root feature whose class is G *)
Definition root_id (rs : list sroot) (G : nat) : nat :=
  match find (fun r => Nat.eqb (sr_grp r) G) rs with Some r => sr_id r | None => 0 end.
Definition star_root_step (g : fgraph) (cc p : nat) : lstep :=
  LFG {| sid := 0; skind := KFG; uuids := [p]; req := []; requested := false |} (grp_of g p) cc (cir_of (p2c_of g) [p]) [] p.
(* the JoinStep of Link l: LEFT table = the root of the Link's left class, RIGHT table = the root of its right class;
   it waits for ALL roots of the consumer *)
Definition star_join_step (rs : list sroot) (ps : list nat) (cc : nat) (l : plink) : lstep :=
  LJOIN {| sid := 0; skind := KJOIN; uuids := [js_uid (pl_uid l); pl_uid l]; req := ps; requested := false |}
        (pl_uid l) cc cc [root_id rs (lfg (pl_l l))] [root_id rs (rfg (pl_l l))].
(* the consumer waits for all roots and for every needed Link *)
Definition star_cons_step (ord : oparam) (g : fgraph) (ps : list nat) (f C cc : nat) (KS : list plink) : lstep :=
  LFG {| sid := 0; skind := KFG; uuids := [f]; req := ord 3 (ps ++ map pl_uid KS); requested := true |}
      C cc (cir_of (p2c_of g) [f]) [] f.
Definition star_plan (ord : oparam) (g : fgraph) (rs : list sroot) (ps : list nat) (f C cc : nat) (KS : list plink) : list lstep :=
  map (star_root_step g cc) ps ++ map (star_join_step rs ps cc) KS ++ [star_cons_step ord g ps f C cc KS].
(* equal up to what add_tfs writes into feature-group steps for the run-time lookup: children_if_root, tfs_ids, any_uuid *)
Definition same_steps (x y : lstep) : Prop :=
  match x, y with
  | LFG s grp cfw _ _ _, LFG s' grp' cfw' _ _ _ => s = s' /\ grp = grp' /\ cfw = cfw'
  | LJOIN _ _ _ _ _ _, _ => x = y
  | LTFS _ _ _ _ _ _, _ => x = y
  | _, _ => False
  end.
Definition reject_code (j : jointype) : nat := match j with RIGHT => e_right | _ => e_appendunion end.

(* ---------- two roots on two frameworks, one Link from the class of ra to the class of rb ---------- *)
(* the framework the consumer computes on after ResolveComputeFrameworks.links = the LEFT framework of the JoinStep *)
Definition two_left_cfw (l : plink) (rb : sroot) (cc : nat) : nat := if jt_eqb (jt (pl_l l)) RIGHT then sr_cfw rb else cc.
Definition two_tfs_step (l : plink) (ps : list nat) (lf rf : nat) : lstep :=
  LTFS {| sid := 0; skind := KTFS; uuids := [tfs_uid (pl_uid l)]; req := ps; requested := false |}
       rf lf
       (match jt (pl_l l) with RIGHT => lfg (pl_l l) | _ => rfg (pl_l l) end)
       (match jt (pl_l l) with RIGHT => rfg (pl_l l) | _ => lfg (pl_l l) end) (Some (pl_uid l)).
Definition two_join_step (l : plink) (ps : list nat) (lf rf : nat) (lus rus : list nat) : lstep :=
  LJOIN {| sid := 0; skind := KJOIN; uuids := [js_uid (pl_uid l); pl_uid l]; req := ps ++ [tfs_uid (pl_uid l)]; requested := false |}
        (pl_uid l) lf rf lus rus.
Definition two_root_step (g : fgraph) (p : nat) : lstep :=
  LFG {| sid := 0; skind := KFG; uuids := [p]; req := []; requested := false |} (grp_of g p) (cfw_of g p) (cir_of (p2c_of g) [p]) [] p.
Definition two_cons_step (ord : oparam) (g : fgraph) (l : plink) (ps : list nat) (f C cn : nat) : lstep :=
  LFG {| sid := 0; skind := KFG; uuids := [f]; req := ord 3 (ps ++ [pl_uid l]); requested := true |} C cn (cir_of (p2c_of g) [f]) [] f.
(* the plan: both roots, the transform step that moves the RIGHT table to the LEFT framework, the join, the consumer.
   The LEFT table of the merge is the root that lives on the consumer's (final) framework, whatever the Link says *)
Definition two_plan (ord : oparam) (g : fgraph) (l : plink) (ra rb : sroot) (ps : list nat) (f C cc : nat) : list lstep :=
  let cn := two_left_cfw l rb cc in
  map (two_root_step g) ps ++
  (if Nat.eqb cn (sr_cfw ra)
   then [two_tfs_step l ps (sr_cfw ra) (sr_cfw rb); two_join_step l ps (sr_cfw ra) (sr_cfw rb) [sr_id ra] [sr_id rb]]
   else [two_tfs_step l ps (sr_cfw rb) (sr_cfw ra); two_join_step l ps (sr_cfw rb) (sr_cfw ra) [sr_id rb] [sr_id ra]])
  ++ [two_cons_step ord g l ps f C cn].
