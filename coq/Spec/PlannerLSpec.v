(* What the theorems about the link / join planner model (Model/PlannerL.v) talk about, independent of the algorithm.
   Definitions only. *)
From Coq Require Import List Bool Arith Permutation.
Import ListNotations.
Require Import MV.Model.Orch MV.Model.OrchCheck MV.Model.PlannerA MV.Model.LinkSel MV.Model.PlannerL MV.Spec.PlannerASpec.
Open Scope nat_scope.

(* ---------- (a) without Links: the feature-group steps of PlannerA, nothing else ---------- *)
(* a FeatureGroupStep as add_feature_group_step creates it: no transform / join lookups, any_uuid = its first feature *)
Definition plain_fg (g : fgraph) (x : lstep) : Prop :=
  match x with
  | LFG s grp cfw cir tfs any => tfs = [] /\ any = hd 0 (uuids s) /\ cir = cir_of (p2c_of g) (uuids s)
  | _ => False
  end.
(* prepare_L agrees with prepare_A: same decision, same steps *)
Definition agrees_with_A (g : fgraph) (ra : presult) (plan_a : plan) (rl : lresult) : Prop :=
  match ra with
  | Planned p => exists p', rl = LPlanned p' /\ map core p' = p /\ Forall (plain_fg g) p'
  | RejectedIncomplete => exists p', rl = LRejected e_incomplete p' /\ map core p' = plan_a /\ Forall (plain_fg g) p'
  | RejectedCycle => exists p', rl = LRejected e_cycle p' /\ map core p' = plan_a /\ Forall (plain_fg g) p'
  | OutsideFragment => rl = LOutside
  end.

(* ---------- star requests: n root features of n different classes, one consumer feature over all of them ---------- *)
Record sroot := { sr_id : nat; sr_grp : nat; sr_cfw : nat }.
Definition root_node (r : sroot) : fnode :=
  {| fid := sr_id r; fgrp := sr_grp r; fins := []; freq := false; fcfw := sr_cfw r |}.
Definition cons_node (f C cc : nat) (ps : list nat) : fnode :=
  {| fid := f; fgrp := C; fins := ps; freq := true; fcfw := cc |}.
(* Engine.feature_link_parents for such a request: the requested consumer is inserted first, then its inputs; `rs` is the
   dict order of the roots and `ps` the iteration order of the consumer's parent set - both arbitrary *)
Definition star_g (rs : list sroot) (f C cc : nat) (ps : list nat) : fgraph := cons_node f C cc ps :: map root_node rs.
Definition star_ok (rs : list sroot) (f C : nat) (ps : list nat) : Prop :=
  NoDup (f :: map sr_id rs) /\ NoDup (C :: map sr_grp rs) /\ rs <> [] /\ Permutation ps (map sr_id rs).

(* the Links of a request: a set (pairwise unequal under Link.__eq__, distinct uuids), accepted by LinkValidator, none
   between a class and itself; the uuids of the links, of their JoinSteps and TransformFrameworkSteps are fresh *)
Definition links_ok (links : list plink) (feature_ids : list nat) : Prop :=
  NoDup (map pl_uid links) /\
  (forall a b, In a links -> In b links -> link_eqb (pl_l a) (pl_l b) = true -> a = b) /\
  validate_rejects (map pl_l links) = false /\
  (forall l, In l links -> lfg (pl_l l) <> rfg (pl_l l)) /\
  (forall l, In l links -> ~ In (pl_uid l) feature_ids /\ ~ In (js_uid (pl_uid l)) feature_ids /\ ~ In (tfs_uid (pl_uid l)) feature_ids) /\
  (forall a b, In a links -> In b links -> pl_uid a <> js_uid (pl_uid b) /\ pl_uid a <> tfs_uid (pl_uid b) /\ js_uid (pl_uid a) <> tfs_uid (pl_uid b)).

(* the Link joins the classes of two roots of the star: it is NEEDED by the consumer *)
Definition needed_by (rs : list sroot) (l : plink) (ri rj : sroot) : Prop :=
  In ri rs /\ In rj rs /\ lfg (pl_l l) = sr_grp ri /\ rfg (pl_l l) = sr_grp rj.
(* the classes of the roots have no generated ancestors (every generated class derives directly from FeatureGroup) *)
Definition flat_roots (mro : cls -> list cls) (rs : list sroot) : Prop := forall r, In r rs -> mro (sr_grp r) = [sr_grp r].
