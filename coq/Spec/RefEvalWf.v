(* Well-formed requests for the reference evaluation (C02): ONE executable predicate saying that
     (a) the feature names of the definitions are pairwise distinct and distinct from the names bound by the sources,
     (b) the sources bind each name at most once,
     (c) the definitions are in dependency order: every input of the k-th definition is bound by the sources or is the
         name of an earlier definition.
   (a)+(b) = `nodupn (source names ++ definition names)`, (c) = `ordered (source names) defs`.  Definitions only. *)
From Coq Require Import List Bool ZArith Arith.
Import ListNotations.
Require Import MV.Spec.RefEval.
Local Open Scope nat_scope.

Definition memn (x : nat) (l : list nat) : bool := existsb (Nat.eqb x) l.
Fixpoint nodupn (l : list nat) : bool :=
  match l with [] => true | x :: t => negb (memn x t) && nodupn t end.

(* every input is already known when its definition is reached *)
Fixpoint ordered (known : list nat) (defs : list fdef) : bool :=
  match defs with
  | [] => true
  | d :: t => forallb (fun i => memn i known) (inputs d) && ordered (fname d :: known) t
  end.

Definition wf_request (src : env) (defs : list fdef) : bool :=
  nodupn (map fst src ++ map fname defs) && ordered (map fst src) defs.
