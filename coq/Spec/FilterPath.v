(* C11 — which tables a global filter restricts, and on which column it is evaluated.  Definitions only.

   A feature group declares feature names D.  A declared feature `b` is materialised as the column `b` or, for a
   multi-column feature, as the sub-columns `b~0`, `b~1`, ... (any text after "b~").
   A global filter is (column c, filter type, parameter) exactly as the user wrote it: Spec/Filter.v `filt`.

     * the filter restricts the table of a feature group iff the group EXPOSES c: c is a declared name or a
       sub-column of one;
     * a row of such a table stays iff its cell IN COLUMN c satisfies the filter (Spec/Filter.v `sat`: the row
       predicate of the filter type on `get r c`) — whatever name the feature group, the planner or the engine use
       for the filter feature internally;
     * tables of groups that do not expose c are unaffected; several filters: conjunction. *)
From Coq Require Import List String Bool.
Import ListNotations.
Require Import MV.Spec.Filter.
Open Scope string_scope.

Definition sub_column_of (c b : string) : bool := prefix (b ++ "~") c.

Definition exposes (D : list string) (c : string) : bool :=
  existsb (fun b => String.eqb c b || sub_column_of c b) D.

Definition keeps (D : list string) (fs : list filt) (r : row) : bool :=
  forallb (fun f => negb (exposes D (f_col f)) || sat f r) fs.

Definition path_expected (D : list string) (fs : list filt) (t : table) : table := filter (keeps D fs) t.

(* the columns of the filters the group exposes: with these as `names`, Spec/Filter.v `expected` is the same table *)
Definition exposed_columns (D : list string) (fs : list filt) : list string := filter (exposes D) (map f_col fs).
