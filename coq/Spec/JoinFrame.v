(* "The join a Link describes depends on the Link's declaration and the two tables - not on which OTHER columns the tables
   happen to contain" (C05).  Vocabulary of the frame / irrelevance statement over Spec/Rel.rel_join.  Definitions only; lemmas in
   Proofs/JoinCallP.v, statements in Props/C05keys.v.

     drop_cols cs r        the row without the bindings of the columns cs
     agree_off cs T T'     T and T' are the same table once the columns cs are dropped (row by row, in order): T' is T with the
                           columns cs added, removed, renamed into, or filled with other values
     disjoint_cols ks cs   no key column of ks is among cs
     proj_cols ps r        the row read at the columns ps (unbound = null): what a consumer that only looks at ps sees
     keyed jt              inner / left / right / outer (the join types that use key columns) *)
From Coq Require Import List String Bool.
Import ListNotations.
Require Import MV.Spec.Rel.
Open Scope string_scope.
Open Scope list_scope.

Definition drop_cols (cs : list col) (r : row) : row := filter (fun cv => negb (mem (fst cv) cs)) r.
Definition agree_off (cs : list col) (T T' : table) : Prop := map (drop_cols cs) T = map (drop_cols cs) T'.
Definition disjoint_cols (ks cs : list col) : bool := forallb (fun k => negb (mem k cs)) ks.
Definition proj_cols (ps : list col) (r : row) : row := map (fun c => (c, get c r)) ps.
Definition keyed (jt : jointype) : bool := match jt with JInner | JLeft | JRight | JOuter => true | _ => false end.
