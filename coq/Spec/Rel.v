(* Relational algebra on bags of rows (DESIGN 3.5) -- the specification side of C12 (and C05).
   Self-contained: only the Coq standard library.  Definitions only; the lemmas are in Proofs/RelLemmas.v.

   A table is a list of rows, a row an association list  column name -> value  (first binding of a name wins).
   There is no separate schema: a column that a row does not bind reads as null, and two rows are the same
   row when they read the same on every column (`row_equiv`).  This is the "up to column order and null
   representation" of the property statement; `canon` picks the unique representative (non-null bindings,
   sorted by column name), and `bag_eq` is  Permutation  of the canonicalised rows ("up to row order").

   rel_join jt lk rk L R :
     inner / left / right / outer join of L and R on key lists lk (names in L) and rk (names in R):
       - SQL key semantics: a pair of rows matches when the key tuples have the same length, every component
         is non-null and the components are pairwise equal (a null key matches nothing, not even null);
       - ALL matching pairs are produced (duplicate keys multiply);
       - a matched pair yields the left row extended by the right row's other columns (`row_union`); with
         differently named keys both key columns are therefore retained;
       - unmatched rows of the preserved side(s) are padded with nulls for the other table's columns;
     append = bag concatenation;  union = duplicate-free concatenation (duplicates = equivalent rows).

   Overlapping non-key column names: a row cannot hold two values under one name; `row_union` keeps the left
   one.  `overlap_free` says that the only names the two tables share are key columns at the same key position
   (where matched rows agree anyway); the algebraic lemmas that swap sides need it. *)
From Coq Require Import List String ZArith Bool Permutation.
Import ListNotations.
Open Scope string_scope.
Open Scope list_scope.

(* ---------------------------------------------------------------------------------------------------- *)
(* values, rows, tables *)

Inductive val : Type := VNull | VInt (z : Z) | VStr (s : string).

Definition val_eqb (a b : val) : bool :=
  match a, b with
  | VNull, VNull => true
  | VInt x, VInt y => Z.eqb x y
  | VStr x, VStr y => String.eqb x y
  | _, _ => false
  end.

Definition is_null (v : val) : bool := match v with VNull => true | _ => false end.

Definition col := string.
Definition row := list (col * val).
Definition table := list row.

Fixpoint lookup (c : col) (r : row) : option val :=
  match r with
  | [] => None
  | (c', v) :: t => if String.eqb c' c then Some v else lookup c t
  end.

(* reading a column: unbound = null *)
Definition get (c : col) (r : row) : val := match lookup c r with Some v => v | None => VNull end.

Definition mem (c : col) (l : list col) : bool := existsb (String.eqb c) l.
Definition row_cols (r : row) : list col := map fst r.
Definition has_col (c : col) (r : row) : bool := mem c (row_cols r).
Definition table_cols (t : table) : list col := flat_map row_cols t.

(* two rows denote the same row *)
Definition row_equiv (r1 r2 : row) : Prop := forall c, get c r1 = get c r2.

(* ---------------------------------------------------------------------------------------------------- *)
(* canonical representative of a row: non-null bindings, strictly sorted by column name *)

Fixpoint insert_u (c : col) (l : list col) : list col :=
  match l with
  | [] => [c]
  | d :: t => match String.compare c d with
              | Lt => c :: l
              | Eq => l
              | Gt => d :: insert_u c t
              end
  end.
Definition sort_u (l : list col) : list col := fold_right insert_u [] l.

Definition live_cols (r : row) : list col := filter (fun c => negb (is_null (get c r))) (row_cols r).
Definition canon (r : row) : row := map (fun c => (c, get c r)) (sort_u (live_cols r)).

Definition bag_eq (t1 t2 : table) : Prop := Permutation (map canon t1) (map canon t2).

(* decidable versions (used by checkers; bag_eqb_spec in Proofs/RelLemmas.v) *)
Fixpoint row_eqb (a b : row) : bool :=
  match a, b with
  | [], [] => true
  | (c, v) :: a', (d, w) :: b' => String.eqb c d && val_eqb v w && row_eqb a' b'
  | _, _ => false
  end.
Definition row_equivb (r1 r2 : row) : bool := row_eqb (canon r1) (canon r2).

Fixpoint remove_first (x : row) (l : table) : option table :=
  match l with
  | [] => None
  | y :: t => if row_eqb x y then Some t
              else match remove_first x t with Some t' => Some (y :: t') | None => None end
  end.
Fixpoint perm_eqb (l1 l2 : table) : bool :=
  match l1 with
  | [] => match l2 with [] => true | _ => false end
  | x :: t => match remove_first x l2 with Some l2' => perm_eqb t l2' | None => false end
  end.
Definition bag_eqb (t1 t2 : table) : bool := perm_eqb (map canon t1) (map canon t2).

(* ---------------------------------------------------------------------------------------------------- *)
(* keys *)

Definition key_of (ks : list col) (r : row) : list val := map (fun c => get c r) ks.

(* SQL equality of key tuples: same length, all components non-null and pairwise equal *)
Fixpoint keys_match (a b : list val) : bool :=
  match a, b with
  | [], [] => true
  | x :: a', y :: b' => negb (is_null x) && val_eqb x y && keys_match a' b'
  | _, _ => false
  end.

(* ---------------------------------------------------------------------------------------------------- *)
(* row construction *)

(* left row extended by the bindings of the right row for names the left row does not bind *)
Definition row_union (l r : row) : row := l ++ filter (fun cv => negb (has_col (fst cv) l)) r.

(* null padding: bind to null every column of `cols` the row does not bind *)
Definition pad (cols : list col) (r : row) : row :=
  r ++ map (fun c => (c, VNull)) (filter (fun c => negb (has_col c r)) cols).

(* ---------------------------------------------------------------------------------------------------- *)
(* the operators *)

Inductive jointype := JInner | JLeft | JRight | JOuter | JAppend | JUnion.
Definition all_jointypes := [JInner; JLeft; JRight; JOuter; JAppend; JUnion].

Section Join.
  Variables lk rk : list col.

  Definition matches (l r : row) : bool := keys_match (key_of lk l) (key_of rk r).

  (* all matching pairs *)
  Definition inner_rows (L R : table) : table :=
    flat_map (fun l => map (fun r => row_union l r) (filter (matches l) R)) L.
  (* rows without a partner *)
  Definition left_only (L R : table) : table := filter (fun l => negb (existsb (matches l) R)) L.
  Definition right_only (L R : table) : table := filter (fun r => negb (existsb (fun l => matches l r) L)) R.

  Definition rel_inner (L R : table) : table := inner_rows L R.
  Definition rel_left (L R : table) : table := inner_rows L R ++ map (pad (table_cols R)) (left_only L R).
  Definition rel_right (L R : table) : table := inner_rows L R ++ map (pad (table_cols L)) (right_only L R).
  Definition rel_outer (L R : table) : table :=
    inner_rows L R ++ map (pad (table_cols R)) (left_only L R) ++ map (pad (table_cols L)) (right_only L R).
End Join.

Definition rel_append (L R : table) : table := L ++ R.

(* first occurrences of the equivalence classes of rows *)
Fixpoint distinct_from (seen : list row) (t : table) : table :=
  match t with
  | [] => []
  | r :: t' => if existsb (row_eqb (canon r)) seen then distinct_from seen t'
               else r :: distinct_from (canon r :: seen) t'
  end.
Definition distinct (t : table) : table := distinct_from [] t.
Definition rel_union (L R : table) : table := distinct (L ++ R).

Definition rel_join (jt : jointype) (lk rk : list col) (L R : table) : table :=
  match jt with
  | JInner => rel_inner lk rk L R
  | JLeft => rel_left lk rk L R
  | JRight => rel_right lk rk L R
  | JOuter => rel_outer lk rk L R
  | JAppend => rel_append L R
  | JUnion => rel_union L R
  end.

(* ---------------------------------------------------------------------------------------------------- *)
(* side conditions used by lemmas *)

(* rows are dictionaries: no column bound twice *)
Fixpoint nodup_cols (l : list col) : bool :=
  match l with [] => true | c :: t => negb (mem c t) && nodup_cols t end.
Definition rows_wf (t : table) : bool := forallb (fun r => nodup_cols (row_cols r)) t.

(* c is a key column of both sides at one and the same key position *)
Definition shared_key (lk rk : list col) (c : col) : bool :=
  existsb (fun ab => String.eqb (fst ab) c && String.eqb (snd ab) c) (combine lk rk).

(* the only column names the two tables share are key columns at the same position *)
Definition overlap_free (lk rk : list col) (L R : table) : bool :=
  forallb (fun c => negb (mem c (table_cols R)) || shared_key lk rk c) (table_cols L).
