(* C16 — what a chained feature name is, stated without the parsing algorithm.

   A name of a group with suffix <suf> has the SHAPE
          pre "__" g "_" suf [newline]
   where g (the operation) is a non-empty run of word characters and pre contains no newline.  `re.match` with
   r".*__([\w]+)_<suf>$" must find such a decomposition when there is one, and of several the one with the
   longest `pre`.  The source of a parsed name is everything before the LAST "__" of the name.

   Well-formed pieces (decidable): the conditions under which `source "__" op "_" suf` reads back as (op, source). *)
From Coq Require Import List Bool Ascii Arith.
Import ListNotations.
Require Import MV.Model.ChainParser.
Open Scope list_scope.

Definition wordb (x : str) : bool := forallb is_word x.

(* "__" occurs in x *)
Definition occurs_dunder (x : str) : Prop := exists a b, x = a ++ us :: us :: b.

(* optional trailing newline accepted by `$` *)
Definition nlopt (t : str) : Prop := t = [] \/ t = [nl].

Definition shape (suf name pre g t : str) : Prop :=
  name = pre ++ us :: us :: g ++ us :: suf ++ t /\ nlopt t /\ ~ In nl pre /\ g <> [] /\ wordb g = true.

(* the contract of re.match for the family *)
Definition regex_spec (suf name : str) (r : option str) : Prop :=
  match r with
  | Some g => exists pre t, shape suf name pre g t /\
                            forall pre' g' t', shape suf name pre' g' t' -> List.length pre' <= List.length pre
  | None => forall pre g t, ~ shape suf name pre g t
  end.

(* the contract of rsplit("__", 1) *)
Definition rsplit_spec (name : str) (r : option (str * str)) : Prop :=
  match r with
  | Some (a, b) => name = a ++ us :: us :: b /\ ~ occurs_dunder (us :: b)
  | None => ~ occurs_dunder name
  end.

(* ---- well-formed pieces ---- *)
Definition is_nil (x : str) : bool := match x with [] => true | _ => false end.

(* operation: word characters, non-empty, no "__" inside, no "_" at either end *)
Definition wf_op (op : str) : bool := wordb op && negb (has_dunder (us :: op ++ [us])).
(* suffix literal: word characters, no leading "_", no "__" inside *)
Definition wf_suf (suf : str) : bool := wordb suf && negb (has_dunder (us :: suf)).
(* source: non-empty, no newline (it may itself be a chained name, contain "&", "~", ...) *)
Definition wf_src (src : str) : bool := negb (is_nil src) && negb (contains nl src).
(* a plain (unchained, single) source *)
Definition wf_atom (src : str) : bool := wf_src src && negb (has_dunder src) && negb (contains amp src).

(* last character *)
Definition last_is_us (x : str) : bool := match rev x with c :: _ => Ascii.eqb c us | [] => false end.
Definition head_is_us (x : str) : bool := match x with c :: _ => Ascii.eqb c us | [] => false end.

(* a is a suffix of b *)
Definition is_suffix (a b : str) : bool := starts_with (rev a) (rev b).

(* a universe of groups in which chains resolve unambiguously: one pattern per group, well-formed suffixes,
   no suffix "_x" is a suffix of another "_y", operation keys pairwise different and different from every other
   mapped key, sane in-feature bounds *)
Fixpoint pairwise {A} (p : A -> A -> bool) (l : list A) : bool :=
  match l with [] => true | x :: t => forallb (p x) t && forallb (fun y => p y x) t && pairwise p t end.

Definition g_suf (g : grp) : str := match g_sufs g with s :: _ => s | [] => [] end.

Definition group_ok (g : grp) : bool :=
  match g_sufs g with [s] => wf_suf s | _ => false end
  && negb (str_eqb (g_key g) k_in_features)
  && negb (existsb (str_eqb (g_key g)) (g_defaults g))
  && (g_min g <=? 1) && match g_max g with None => true | Some m => 1 <=? m end
  && negb (existsb (str_eqb k_in_features) (g_defaults g)).

Definition groups_apart (g h : grp) : bool :=
  negb (is_suffix (us :: g_suf g) (us :: g_suf h))
  && negb (str_eqb (g_key g) (g_key h))
  && negb (existsb (str_eqb (g_key g)) (g_defaults h)).

Definition universe_ok (gs : list grp) : bool := forallb group_ok gs && pairwise groups_apart gs.

(* ---- chains over a universe: operations in application order as (group index, operation) ---- *)
Definition grp_at (gs : list grp) (i : nat) : grp := nth i gs g_aggr.

Definition chain_name (gs : list grp) (src : str) (ops : list (nat * str)) : str :=
  render_chain src (map (fun x => (snd x, g_suf (grp_at gs (fst x)))) ops).

(* every step names an existing group and a well-formed operation (one of the mapped operations where the group
   checks that when it extracts the operation) *)
Definition op_ok (gs : list grp) (x : nat * str) : bool :=
  (fst x <? List.length gs) && wf_op (snd x)
  && (negb (g_name_strict (grp_at gs (fst x))) || existsb (str_eqb (snd x)) (g_vocab (grp_at gs (fst x)))).
Definition chain_ok (gs : list grp) (ops : list (nat * str)) : bool := forallb (op_ok gs) ops.

(* what resolving must give: the operations from the outside in (last applied first), down to the plain source *)
Definition expected_walk (ops : list (nat * str)) (src : str) : walk :=
  WEnd (rev (map (fun x => (fst x, PStr (snd x))) ops)) (feat src).
