(* What the orchestrator <-> worker protocol (Model/Worker.v) has to guarantee, stated on reachable states of the labelled
   transition system - i.e. for every plan, worker assignment, failure oracle and INTERLEAVING.  Definitions only. *)
From Coq Require Import List Bool Arith.
Import ListNotations.
Require Import MV.Model.Orch MV.Model.Worker.

(* a state reached by some trace from the initial state *)
Definition reach (c : cfg) (st : pst) : Prop := exists tr, exec c pinit tr = Some st.

(* the plan hypotheses of Model/Orch.v's theorems (checked on every exported plan by wf_plan_auto) *)
Record plan_ok (p : plan) : Prop := {
  sid_inj : forall s s', In s p -> In s' p -> sid s = sid s' -> s = s';
  uuids_nonempty : forall s, In s p -> uuids s <> [];
  uuids_disjoint : forall s s' u, In s p -> In s' p -> In u (uuids s) -> In u (uuids s') -> s = s'
}.

(* ---- (1) one result message per submitted command ---- *)
Fixpoint csteps (q : list cmd) : list nat :=
  match q with [] => [] | CStep s :: t => s :: csteps t | _ :: t => csteps t end.
Definition running_step (ph : wphase) : list nat := match ph with WRun s => [s] | _ => [] end.
(* commands a worker holds without having answered them: the one it executes and those in its command queue *)
Definition pend (x : wst) : list nat := running_step (phase x) ++ csteps (cmdq x).

Definition n_replies (st : pst) (s : nat) : nat := count_occ Nat.eq_dec (map fst (replies st)) s.

(* fairness premise as a hypothesis about the trace's last state: no worker transition is enabled *)
Definition quiescent (c : cfg) (st : pst) : Prop := forall l, is_worker_label l = true -> step c st l = None.

(* ---- (2) failures ---- *)
Definition failure_reported (st : pst) (s : nat) : Prop :=
  In s (failed (o st)) /\ ~ In s (done (o st)) /\ ~ In (s, true) (replies st) /\ forall x, pc st = PExited x -> x <> XNormal.

(* ---- (3) refinement: equality of orchestrator states up to the ghost snapshot in `started` and the order of `done` ---- *)
Definition oeq (a b : ost) : Prop :=
  finished a = finished b /\ running a = running b /\
  map (fun e => (fst e, fst (snd e))) (started a) = map (fun e => (fst e, fst (snd e))) (started b) /\
  (forall x, In x (done a) <-> In x (done b)) /\ failed a = failed b /\
  results a = results b /\ yielded a = yielded b /\ scans a = scans b.

Definition apply_evs (a : ost) (l : list (nat * bool)) : ost := fold_left (fun a e => worker_done a (fst e) (snd e)) l a.

(* the orchestrator state of the protocol is the Orch.v run of the projected events, plus - inside an iteration that has
   visited i steps - those i visits and the late events *)
Definition refines (c : cfg) (st : pst) (acc : list event * list (nat * bool)) : Prop :=
  let A := run (cstream c) false nofail (cplan c) (fst acc) in
  match sc st with
  | None => snd acc = [] /\ oeq (o st) A
  | Some i => loop_head (cplan c) A = Looping /\
              oeq (o st) (apply_evs (fold_left (visit false nofail) (firstn i (cplan c)) A) (snd acc))
  end.

Definition status_of (x : exitk) : option status :=
  match x with XNormal => Some ExitNormal | XRaisedHead => Some Raised | _ => None end.

(* ---- (4) every exit path cleans up ---- *)
Definition all_joined (c : cfg) (st : pst) : Prop :=
  forall w, In w (tasks st) ->
    joined (ws st w) = true /\ dead (phase (ws st w)) = true /\ (mp c = true -> terminated (ws st w) = true).
Definition no_live_worker (st : pst) : Prop := forall w, alive (phase (ws st w)) = false.
Definition tasks_are_the_started_workers (st : pst) : Prop := forall w, spawned (phase (ws st w)) = true <-> In w (tasks st).

(* ---- (5) a run in which nothing fails does not raise; a late DROP_COMPLETE taken by a poll only leaves its queue ---- *)
(* the labels at which something fails: a worker's execution / upload raises, or a crash point of the main thread fires
   (CResult, CPrepare, CSend, CArtifacts).  NOT among them: a poll that takes a DROP_COMPLETE (crash point CPoll before
   repair 10693fe), a timed-out wait, ODropAll false and WDropCrash (both swallowed by the code, see (2) and (4)) *)
Definition crash_label (l : label) : bool :=
  match l with WFail _ _ | OCollect false | OExec false | OSendFail | OArtifacts false => true | _ => false end.
Definition fault_free (tr : list label) : Prop := forall l, In l tr -> crash_label l = false.

Fixpoint polled_dones (taken : list (nat * rmsg)) : list nat :=
  match taken with [] => [] | (_, RDone s) :: t => s :: polled_dones t | (_, RDropComplete) :: t => polled_dones t end.

(* two worker states that differ at most in the result queue *)
Definition same_but_resq (x y : wst) : Prop :=
  phase x = phase y /\ cmdq x = cmdq y /\ trk x = trk y /\ terminated x = terminated y /\ joined x = joined y.

(* two protocol states that agree on everything except worker w, where st' still has the DROP_COMPLETE at the head of the
   worker's lane that st has lost *)
Definition differ_by_ack (st st' : pst) (w : nat) : Prop :=
  o st = o st' /\ pc st = pc st' /\ sc st = sc st' /\ tasks st = tasks st' /\ flight st = flight st' /\ sent st = sent st' /\
  replies st = replies st' /\ dropfail st = dropfail st' /\ undelivered st = undelivered st' /\ (forall k, k <> w -> ws st k = ws st' k) /\
  same_but_resq (ws st w) (ws st' w) /\ requeued (ws st w) = requeued (ws st' w) /\ resq (ws st' w) = RDropComplete :: resq (ws st w).
