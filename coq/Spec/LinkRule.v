(* The documented link rule (C18), stated independently of the selection algorithm. Definitions only. *)
From Coq Require Import List Bool ZArith Arith.
Import ListNotations.
Require Import MV.Model.LinkSel.
Open Scope Z_scope.

Section Rule.
  Variable mro : cls -> list cls.

  Definition is_self (l : link) : bool := Nat.eqb (lfg l) (rfg l).

  (* both sides are ancestors (or the class itself) at equal inheritance distance; a self link additionally needs
     the same concrete class on both sides *)
  Definition balanced (lf rf : cls) (l : link) : bool :=
    issub mro lf (lfg l) && issub mro rf (rfg l) && Z.eqb (dist mro lf (lfg l)) (dist mro rf (rfg l))
    && (if is_self l then Nat.eqb lf rf else true).

  (* the code's additional, undocumented acceptance (known finding C18-asymmetric): unrelated link classes,
     one side exact, the other an ancestor at distance > 0 *)
  Definition asymmetric (lf rf : cls) (l : link) : bool :=
    issub mro lf (lfg l) && issub mro rf (rfg l) && negb (is_self l)
    && negb (Z.eqb (dist mro lf (lfg l)) (dist mro rf (rfg l)))
    && negb (issub mro (lfg l) (rfg l) || issub mro (rfg l) (lfg l))
    && (Z.eqb (dist mro lf (lfg l)) 0 || Z.eqb (dist mro rf (rfg l)) 0).

  Definition exact (lf rf : cls) (l : link) : Prop := lfg l = lf /\ rfg l = rf.

  (* documented rule: exact links if any; otherwise the balanced links of minimal distance *)
  Definition rule (links : list link) (lf rf : cls) (l : link) : Prop :=
    In l links /\
    ((exact lf rf l) \/
     ((forall l', In l' links -> ~ exact lf rf l') /\ balanced lf rf l = true /\
      forall l', In l' links -> balanced lf rf l' = true -> dist mro lf (lfg l) <= dist mro lf (lfg l'))).
End Rule.
