(* What the theorems about the Stage-B1 planner model (Model/PlannerB.v) talk about, independent of the algorithm.
   Definitions only.  Graphs, parent / anc, graph_ok, ord_ok, graph_equiv are those of Spec/PlannerASpec.v. *)
From Coq Require Import List Bool Arith Permutation.
Import ListNotations.
Require Import MV.Model.Orch MV.Model.PlannerA MV.Spec.PlannerASpec MV.Model.PlannerB.

(* Stage B1: every feature group computes on one framework (several groups may use several frameworks) *)
Definition group_cfw (g : fgraph) : Prop := forall n m, In n g -> In m g -> fgrp n = fgrp m -> fcfw n = fcfw m.

(* ---------- the wait-for relation of a plan ---------- *)
(* s cannot start before t has finished: s requires a uuid that t produces, transitively *)
Inductive waits (p : plan) : step -> step -> Prop :=
  | waits_direct : forall s t u, In s p -> In t p -> In u (req s) -> In u (uuids t) -> waits p s t
  | waits_trans : forall s t r, waits p s t -> waits p t r -> waits p s r.

(* ---------- which inputs of a feature-group step need a transform step ---------- *)
(* a is a proper ancestor of a feature of step c *)
Definition step_anc (g : fgraph) (c : bstep) (a : nat) : Prop := exists f, In f (uuids (bs c)) /\ anc g a f.
(* ... and not an ancestor of another such ancestor: a MAXIMAL input.  (A non-maximal input on another framework is
   reached through the object of the maximal one below which it lies - that is the planner's rule "only direct parents,
   not parents' parents", taken here as the intended behaviour.)  Every maximal input is a direct input of the step. *)
Definition max_input (g : fgraph) (c : bstep) (u : nat) : Prop :=
  step_anc g c u /\ forall v, step_anc g c v -> ~ anc g u v.

(* transform step t serves consumer c for its input u: right frameworks and groups, c waits for t, and t waits for the
   step that produces u (so that the copy t makes contains u) *)
Definition serves (g : fgraph) (p : bplan) (c : bstep) (u : nat) (t : bstep) : Prop :=
  In t p /\ is_tfs t = true /\
  b_from t = cfw_of g u /\ b_cfw t = b_cfw c /\ b_fgrp t = grp_of g u /\ b_grp t = b_grp c /\
  waits (steps_of p) (bs c) (bs t) /\
  exists x, In x p /\ In u (uuids (bs x)) /\ waits (steps_of p) (bs t) (bs x).
(* the strong form: c requires t itself and t requires u itself *)
Definition serves_directly (g : fgraph) (p : bplan) (c : bstep) (u : nat) (t : bstep) : Prop :=
  In t p /\ is_tfs t = true /\
  b_from t = cfw_of g u /\ b_cfw t = b_cfw c /\ b_fgrp t = grp_of g u /\ b_grp t = b_grp c /\
  (exists i, uuids (bs t) = [i] /\ In i (req (bs c))) /\ In u (req (bs t)).

(* every consumer step waits for a transform step whenever one of its (maximal) inputs lives on another framework *)
Definition tfs_spec (g : fgraph) (p : bplan) : Prop :=
  forall c u, In c p -> is_fg c = true -> max_input g c u -> cfw_of g u <> b_cfw c -> exists t, serves g p c u t.
Definition tfs_spec_direct (g : fgraph) (p : bplan) : Prop :=
  forall c u, In c p -> is_fg c = true -> max_input g c u -> cfw_of g u <> b_cfw c -> exists t, serves_directly g p c u t.

(* ---------- the same plan up to step order, list orders, step ids and the (fresh) uuids of transform steps ---------- *)
(* description of the transform step with uuid i in plan p: what it converts and what it waits for *)
Definition tdesc := (nat * nat * nat * nat * list nat)%type.
Definition tfs_desc (t : bstep) : tdesc := (b_from t, b_cfw t, b_fgrp t, b_grp t, req (bs t)).
Definition tdesc_equiv (a b : tdesc) : Prop :=
  match a, b with (f, t, fg, tg, r), (f', t', fg', tg', r') => f = f' /\ t = t' /\ fg = fg' /\ tg = tg' /\ Permutation r r' end.
Definition tfs_with (p : bplan) (i : nat) : list bstep := filter (fun t => is_tfs t && mem i (uuids (bs t))) p.
(* the required uuids of a step split into feature uuids (below tb) and descriptions of the required transform steps *)
Definition feat_req (tb : nat) (b : bstep) : list nat := filter (fun u => Nat.ltb u tb) (req (bs b)).
Definition tfs_req (tb : nat) (p : bplan) (b : bstep) : list tdesc :=
  flat_map (fun i => map tfs_desc (tfs_with p i)) (filter (fun u => negb (Nat.ltb u tb)) (req (bs b))).
(* Permutation up to tdesc_equiv *)
Definition tdescs_equiv (a b : list tdesc) : Prop := exists q, Permutation a q /\ Forall2 tdesc_equiv q b.

(* b (in plan p) and b' (in plan p') are the same step.  any_uuid is a representative like a uuid: not compared;
   children_if_root is a function of the step's features and the graph alone (PlannerA.cir_of): not compared either. *)
Definition bstep_equiv (tb : nat) (p p' : bplan) (b b' : bstep) : Prop :=
  skind (bs b) = skind (bs b') /\ requested (bs b) = requested (bs b') /\
  b_cfw b = b_cfw b' /\ b_from b = b_from b' /\ b_grp b = b_grp b' /\ b_fgrp b = b_fgrp b' /\
  (is_tfs b = false -> Permutation (uuids (bs b)) (uuids (bs b')) /\ List.length (b_tfs b) = List.length (b_tfs b')) /\
  Permutation (feat_req tb b) (feat_req tb b') /\
  tdescs_equiv (tfs_req tb p b) (tfs_req tb p' b').
Definition bplan_equiv (tb : nat) (p p' : bplan) : Prop := exists q, Permutation p q /\ Forall2 (bstep_equiv tb p p') q p'.
