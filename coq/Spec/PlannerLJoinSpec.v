(* What a list of joins means, independent of compute-framework objects, registries and merge pointers: the tables are
   merged component by component with the relational join of Spec/Rel.v (the semantics harness/c05.py evaluates).
   Definitions only. *)
From Coq Require Import List Bool Arith.
Import ListNotations.
Require Import MV.Model.Orch MV.Model.LinkSel MV.Model.PlannerLRun.
Require MV.Spec.Rel.
Open Scope nat_scope.

(* the sources joined so far and their joined table; the LEFT-most source comes first *)
Definition comp := (list nat * table)%type.
Definition find_comp (cs : list comp) (a : nat) : option comp := find (fun c => mem a (fst c)) cs.
(* join the component of a (LEFT operand) with the component of b (RIGHT operand); None: a and b are already joined (the
   joins do not form a forest) or one of them is unknown *)
Definition apply_join (cs : list comp) (j : jointype) (lk rk : index) (a b : nat) : option (list comp) :=
  match find_comp cs a, find_comp cs b with
  | Some ca, Some cb =>
    if mem b (fst ca) then None
    else Some ((fst ca ++ fst cb, MV.Spec.Rel.rel_join (jt_rel j) lk rk (snd ca) (snd cb))
               :: filter (fun c => negb (mem a (fst c)) && negb (mem b (fst c))) cs)
  | _, _ => None
  end.
(* a join with the sources it connects *)
Record sjoin := { sj_jt : jointype; sj_lk : index; sj_rk : index; sj_a : nat; sj_b : nat }.
Definition join_in_order (s0 : list (nat * table)) (js : list sjoin) : option (list comp) :=
  fold_left (fun cs j => match cs with Some c => apply_join c (sj_jt j) (sj_lk j) (sj_rk j) (sj_a j) (sj_b j) | None => None end)
            js (Some (map (fun xt => ([fst xt], snd xt)) s0)).
Definition comp_table (cs : list comp) (a : nat) : option table := option_map snd (find_comp cs a).

(* the joins of a run, resolved to the objects the registry finds (before following merge pointers) *)
Definition resolve (objs : list robj) (j : rjoin) : option sjoin :=
  match rj_left_obj objs j, rj_right_obj objs j with
  | Some a, Some b => Some {| sj_jt := rj_jt j; sj_lk := rj_lk j; sj_rk := rj_rk j; sj_a := a; sj_b := b |}
  | _, _ => None
  end.
Fixpoint resolve_all (objs : list robj) (js : list rjoin) : option (list sjoin) :=
  match js with
  | [] => Some []
  | j :: t => match resolve objs j, resolve_all objs t with Some x, Some r => Some (x :: r) | _, _ => None end
  end.
