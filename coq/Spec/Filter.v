(* C11 — what a global filter means.  Definitions only.

   Values are Python ints, floats that are dyadic rationals (m / 2^e, compared exactly, as Python compares int with
   float), strings (compared by code point; generators stay in ASCII) and None.  A row is a dict, a table a list of rows.

   A filter is (column, filter type, raw parameter dict).  `denote` says which condition a well-formed filter stands for
   ("max" accepts either {"value": v} or {"max": v, "max_exclusive": b}); `holds` is the row predicate:
     range  lo <= x, and x < hi (max_exclusive) or x <= hi;   min  v <= x;   max  x <= v  /  x < v;
     equal  x = v;   categorical inclusion  x equals a member;   regex  see below.
   None never satisfies an order comparison (vcmp with VNull is undefined, so le / lt are false).

   Regex: the decidable pattern family is   ["^"] literal ["$"]   where the literal consists of letters, digits, blank
   and underscore only.  The meaning is Python's re.match on the text of the value: the literal must be a PREFIX of the
   text (match at the start, whether or not "^" is written) and, with "$", the text must end there.  Anything else
   (character classes, ".", "*", alternation ...) is outside the family: parse_pat = None.

   The result for a feature group exposing the column names `names` is the table restricted, in order, to the rows
   satisfying every applicable filter (`expected`). *)
From Coq Require Import List String ZArith Bool Ascii DecimalString Arith.
Import ListNotations.
Open Scope Z_scope.

(* ---------- values, rows, tables ---------- *)
Inductive value := VNull | VInt (z : Z) | VFlt (m : Z) (e : nat) | VStr (s : string).

Definition row := list (string * value).
Definition table := list row.

(* dict.get(c) : None when the key is missing *)
Fixpoint get (r : row) (c : string) : value :=
  match r with
  | [] => VNull
  | (k, v) :: r' => if String.eqb k c then v else get r' c
  end.

Definition pow2 (e : nat) : Z := 2 ^ Z.of_nat e.
Definition num (v : value) : option (Z * nat) :=
  match v with VInt z => Some (z, 0%nat) | VFlt m e => Some (m, e) | _ => None end.

(* three-way comparison where Python defines an order: number with number (exact), string with string *)
Definition vcmp (a b : value) : option comparison :=
  match a, b with
  | VStr s, VStr t => Some (String.compare s t)
  | _, _ => match num a, num b with
            | Some (m, e), Some (n, f) => Some (Z.compare (m * pow2 f) (n * pow2 e))
            | _, _ => None
            end
  end.

Definition le (a b : value) : bool := match vcmp a b with Some Lt | Some Eq => true | _ => false end.
Definition lt (a b : value) : bool := match vcmp a b with Some Lt => true | _ => false end.
(* == : 1 == 1.0, None == None, a string never equals a number *)
Definition same (a b : value) : bool :=
  match a, b with
  | VNull, VNull => true
  | _, _ => match vcmp a b with Some Eq => true | _ => false end
  end.

(* ---------- regex family ---------- *)
Record pattern := { caret : bool; lit : string; dollar : bool }.

Definition safe_char (a : ascii) : bool :=
  let n := nat_of_ascii a in
  ((48 <=? n) && (n <=? 57) || (65 <=? n) && (n <=? 90) || (97 <=? n) && (n <=? 122) || (n =? 32) || (n =? 95))%nat.
Fixpoint all_safe (s : string) : bool :=
  match s with EmptyString => true | String a r => safe_char a && all_safe r end.
Definition strip_caret (s : string) : bool * string :=
  match s with String "^"%char r => (true, r) | _ => (false, s) end.
Fixpoint strip_dollar (s : string) : string * bool :=
  match s with
  | EmptyString => (EmptyString, false)
  | String "$"%char EmptyString => (EmptyString, true)
  | String a r => let (r', d) := strip_dollar r in (String a r', d)
  end.
Definition parse_pat (s : string) : option pattern :=
  let (c, r) := strip_caret s in
  let (l, d) := strip_dollar r in
  if all_safe l then Some {| caret := c; lit := l; dollar := d |} else None.

(* str(x) for the values whose text is modelled *)
Definition text (v : value) : option string :=
  match v with
  | VStr s => Some s
  | VInt z => Some (NilZero.string_of_int (Z.to_int z))
  | _ => None
  end.

Definition matches (p : pattern) (s : string) : bool :=
  prefix (lit p) s && (negb (dollar p) || Nat.eqb (String.length s) (String.length (lit p))).

(* ---------- conditions ---------- *)
Inductive cond :=
| CRange (lo hi : value) (excl : bool)
| CMin (v : value)
| CMax (v : value) (excl : bool)
| CEqual (v : value)
| CRegex (p : pattern)
| CIn (vs : list value).

Definition holds (c : cond) (x : value) : bool :=
  match c with
  | CRange lo hi excl => le lo x && (if excl then lt x hi else le x hi)
  | CMin v => le v x
  | CMax v excl => if excl then lt x v else le x v
  | CEqual v => same x v
  | CRegex p => match text x with Some s => matches p s | None => false end
  | CIn vs => existsb (same x) vs
  end.

(* ---------- filters as the user writes them ---------- *)
Inductive ftype := FRange | FMin | FMax | FEqual | FRegex | FIn | FCustom.
(* parameter dict: keys value / values / min / max / max_exclusive.  None = key absent (or the Python value None,
   which the engines cannot tell from absent).  p_excl = "max_exclusive is True". *)
Record params := { p_value : option value; p_values : option (list value); p_min : option value;
                   p_max : option value; p_excl : bool }.
Record filt := { f_col : string; f_type : ftype; f_par : params }.

Definition given (o : option value) : option value := match o with Some VNull => None | _ => o end.

Definition denote (f : filt) : option cond :=
  let p := f_par f in
  match f_type f with
  | FRange => match given (p_min p), given (p_max p) with
              | Some lo, Some hi => Some (CRange lo hi (p_excl p))
              | _, _ => None
              end
  | FMin => option_map CMin (given (p_value p))
  | FMax => match given (p_max p) with
            | Some hi => match given (p_min p) with None => Some (CMax hi (p_excl p)) | Some _ => None end
            | None => option_map (fun v => CMax v false) (given (p_value p))
            end
  | FEqual => option_map CEqual (given (p_value p))
  | FRegex => match given (p_value p) with
              | Some (VStr s) => option_map CRegex (parse_pat s)
              | _ => None
              end
  | FIn => option_map CIn (p_values p)
  | FCustom => None
  end.

(* ---------- the property ---------- *)
Definition applicable (names : list string) (f : filt) : bool := existsb (String.eqb (f_col f)) names.

Definition sat (f : filt) (r : row) : bool :=
  match denote f with Some c => holds c (get r (f_col f)) | None => false end.

Definition sat_all (names : list string) (fs : list filt) (r : row) : bool :=
  forallb (fun f => negb (applicable names f) || sat f r) fs.

Definition expected (names : list string) (fs : list filt) (t : table) : table := filter (sat_all names fs) t.

(* ---------- the domain on which the statement is made: column values comparable with the parameters ---------- *)
Definition comparable (a b : value) : bool := match vcmp a b with Some _ => true | None => false end.

Definition compat (c : cond) (x : value) : bool :=
  match x with
  | VNull => true
  | _ => match c with
         | CRange lo hi _ => comparable lo x && comparable x hi
         | CMin v => comparable v x
         | CMax v _ => comparable x v
         | CEqual _ | CIn _ => true
         | CRegex _ => match text x with Some _ => true | None => false end
         end
  end.

Definition typedb (c : cond) (col : string) (t : table) : bool := forallb (fun r => compat c (get r col)) t.

(* a filter is fine for a table: it denotes a condition and the column is comparable with its parameters *)
Definition fineb (f : filt) (t : table) : bool :=
  match denote f with Some c => typedb c (f_col f) t | None => false end.
