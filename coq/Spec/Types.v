(* Declared data types and the two documented compatibility tables (C17).
   Definitions only; no proofs in this file. *)
From Coq Require Import List Bool.
Import ListNotations.

Inductive dtype := INT32 | INT64 | FLOAT | DOUBLE | BOOLEAN | STRING | BINARY | DATE
                 | TIMESTAMP_MILLIS | TIMESTAMP_MICROS | DECIMAL.

Definition all_dtypes : list dtype :=
  [INT32; INT64; FLOAT; DOUBLE; BOOLEAN; STRING; BINARY; DATE; TIMESTAMP_MILLIS; TIMESTAMP_MICROS; DECIMAL].

Definition dtype_eqb (a b : dtype) : bool :=
  match a, b with
  | INT32, INT32 | INT64, INT64 | FLOAT, FLOAT | DOUBLE, DOUBLE | BOOLEAN, BOOLEAN | STRING, STRING
  | BINARY, BINARY | DATE, DATE | TIMESTAMP_MILLIS, TIMESTAMP_MILLIS | TIMESTAMP_MICROS, TIMESTAMP_MICROS
  | DECIMAL, DECIMAL => true
  | _, _ => false
  end.

Definition is_numeric (d : dtype) : bool :=
  match d with INT32 | INT64 | FLOAT | DOUBLE => true | _ => false end.
Definition is_timestamp (d : dtype) : bool :=
  match d with TIMESTAMP_MILLIS | TIMESTAMP_MICROS => true | _ => false end.

(* Lenient (default): same type, or both numeric, or both timestamp. *)
Definition lenient_spec (declared actual : dtype) : bool :=
  dtype_eqb declared actual || (is_numeric declared && is_numeric actual)
  || (is_timestamp declared && is_timestamp actual).

(* Strict: same type or the documented widening
     INT64 <- INT32;  DOUBLE <- INT32, INT64, FLOAT;  TIMESTAMP_MICROS <- TIMESTAMP_MILLIS. *)
Definition strict_spec (declared actual : dtype) : bool :=
  dtype_eqb declared actual ||
  match declared, actual with
  | INT64, INT32 => true
  | DOUBLE, (INT32 | INT64 | FLOAT) => true
  | TIMESTAMP_MICROS, TIMESTAMP_MILLIS => true
  | _, _ => false
  end.

(* The produced Arrow types the harness can make, and the documented DataType each denotes
   (None = not one of the 11 supported types: such columns are not type-checked). *)
Inductive atype := A_int8 | A_int16 | A_int32 | A_int64 | A_uint8 | A_float16 | A_float32 | A_float64 | A_bool
                 | A_string | A_large_string | A_binary | A_large_binary | A_date32 | A_date64
                 | A_ts_s | A_ts_ms | A_ts_us | A_ts_ns | A_ts_ms_tz | A_decimal128 | A_decimal256 | A_null | A_list_int.

Definition all_atypes : list atype :=
  [A_int8; A_int16; A_int32; A_int64; A_uint8; A_float16; A_float32; A_float64; A_bool; A_string; A_large_string;
   A_binary; A_large_binary; A_date32; A_date64; A_ts_s; A_ts_ms; A_ts_us; A_ts_ns; A_ts_ms_tz; A_decimal128;
   A_decimal256; A_null; A_list_int].

Definition from_arrow_spec (a : atype) : option dtype :=
  match a with
  | A_int32 => Some INT32 | A_int64 => Some INT64 | A_float32 => Some FLOAT | A_float64 => Some DOUBLE
  | A_bool => Some BOOLEAN | A_string | A_large_string => Some STRING | A_binary | A_large_binary => Some BINARY
  | A_date32 => Some DATE | A_ts_ms | A_ts_ms_tz => Some TIMESTAMP_MILLIS | A_ts_us => Some TIMESTAMP_MICROS
  | A_decimal128 | A_decimal256 => Some DECIMAL
  | _ => None
  end.
