(* n-ary inner-join trees over Spec/Rel.v: what "executing the links of a join tree in a given order" means, the
   well-formedness premises of the order-independence theorem (Props/C05nary.v), and the canonical comprehension.
   Definitions only (lemmas: Proofs/RelNaryP.v).  Standard library only.

   The executor (link, comp, find_comp, apply_link, number, join_in_order_with, join_in_order) is, word for word, the
   function harness/c05.py evaluates in its EXTRA block (and the one Spec/PlannerLJoinSpec.v join_in_order folds, which
   returns None where this one skips a link); the harness additionally checks on every generated tree that the two
   copies compute the same table (chk_same_fn).

   PLAN.  A plan for the links ls is a list of (link position, flip): the order in which the links are applied and, for
   every application, whether the link is used as written (component of its first table = LEFT operand) or with the
   sides exchanged (flip_link: component of its second table = LEFT operand, key lists exchanged).

   PREMISES (all boolean, evaluated by the harness on the real requests):
     uniform      every row of table i binds exactly the column list css[i] (same names, same order; values may be null)
     link_ok      every link is INNER, joins existing tables, and its key columns belong to the schemas of its tables
     tree         |ls| + 1 = |ts| and every link k is a BRIDGE: there is a set of tables side(k) containing the link's
                  first table and not its second one that no other link leaves (cut_ok).  side(k) is computed
                  (side_of: the tables reachable from the first table without link k), but the theorem only uses the
                  check, not how the set was found.
     overlap      the n-ary form of overlap_free: a column name bound by a table inside side(k) and by a table outside
                  of it is a key column of link k at one and the same key position (so matched rows agree on it). *)
From Coq Require Import List String ZArith Bool Arith Permutation.
Import ListNotations.
Require Import MV.Spec.Rel.
Open Scope string_scope.
Open Scope list_scope.

(* ---------------------------------------------------------------------------------------------------- *)
(* the executor (same text as harness/c05.py EXTRA) *)

Definition joinfn := jointype -> list col -> list col -> table -> table -> table.
Definition link := (jointype * nat * nat * list col * list col)%type.
Definition comp := (list nat * table)%type.
Definition nmem (i : nat) (l : list nat) : bool := existsb (Nat.eqb i) l.
Definition find_comp (cs : list comp) (i : nat) : option comp := find (fun c => nmem i (fst c)) cs.
Definition apply_link (J : joinfn) (cs : list comp) (l : link) : list comp :=
  match l with (jt, a, b, lk, rk) =>
    match find_comp cs a, find_comp cs b with
    | Some ca, Some cb =>
      if nmem b (fst ca) then cs
      else (fst ca ++ fst cb, J jt lk rk (snd ca) (snd cb))
           :: filter (fun c => negb (nmem a (fst c)) && negb (nmem b (fst c))) cs
    | _, _ => cs
    end end.
Fixpoint number {A} (n : nat) (l : list A) : list (nat * A) :=
  match l with [] => [] | x :: t => (n, x) :: number (S n) t end.
Definition init_comps (ts : list table) : list comp := map (fun it => ([fst it], snd it)) (number 0 ts).
Definition head_table (cs : list comp) : table := match cs with c :: _ => snd c | [] => [] end.
Definition join_in_order_with (J : joinfn) (ts : list table) (ls : list link) (order : list nat) : table :=
  let cs0 := map (fun it => ([fst it], snd it)) (number 0 ts) in
  let cs := fold_left (fun cs i => match nth_error ls i with Some l => apply_link J cs l | None => cs end) order cs0 in
  match cs with c :: _ => snd c | [] => [] end.
Definition join_in_order := join_in_order_with rel_join.

(* ---------------------------------------------------------------------------------------------------- *)
(* plans: order + orientation *)

Definition flip_link (l : link) : link := match l with (jt, a, b, lk, rk) => (jt, b, a, rk, lk) end.
Definition orient (l : link) (f : bool) : link := if f then flip_link l else l.
Definition plan := list (nat * bool).
Definition plan_step (J : joinfn) (ls : list link) (cs : list comp) (kf : nat * bool) : list comp :=
  match nth_error ls (fst kf) with Some l => apply_link J cs (orient l (snd kf)) | None => cs end.
Definition run_plan_comps (J : joinfn) (ts : list table) (ls : list link) (p : plan) : list comp :=
  fold_left (plan_step J ls) p (init_comps ts).
Definition run_plan (ts : list table) (ls : list link) (p : plan) : table :=
  head_table (run_plan_comps rel_join ts ls p).
(* every link exactly once *)
Definition is_plan (ls : list link) (p : plan) : Prop := Permutation (map fst p) (seq 0 (List.length ls)).
Definition unflipped (order : list nat) : plan := map (fun k => (k, false)) order.

(* all plans of m links (for checkers / examples): insertions, permutations, flips *)
Fixpoint insert_all {A} (x : A) (l : list A) : list (list A) :=
  match l with [] => [[x]] | y :: t => (x :: l) :: map (cons y) (insert_all x t) end.
Fixpoint perms {A} (l : list A) : list (list A) :=
  match l with [] => [[]] | x :: t => flat_map (insert_all x) (perms t) end.
Fixpoint flips (o : list nat) : list plan :=
  match o with [] => [[]] | k :: t => flat_map (fun p => [(k, false) :: p; (k, true) :: p]) (flips t) end.
Definition all_plans (m : nat) : list plan := flat_map flips (perms (seq 0 m)).

(* ---------------------------------------------------------------------------------------------------- *)
(* premises *)

Definition schema_of (T : table) : list col := match T with [] => [] | r :: _ => row_cols r end.
Fixpoint cols_eqb (a b : list col) : bool :=
  match a, b with
  | [], [] => true
  | x :: a', y :: b' => String.eqb x y && cols_eqb a' b'
  | _, _ => false
  end.
Definition uniformb (cs : list col) (T : table) : bool := forallb (fun r => cols_eqb (row_cols r) cs) T.
Definition uniform (cs : list col) (T : table) : Prop := forall r, In r T -> row_cols r = cs.
Definition subset (ks cs : list col) : bool := forallb (fun c => mem c cs) ks.
Definition is_inner (jt : jointype) : bool := match jt with JInner => true | _ => false end.
Definition schema (css : list (list col)) (i : nat) : list col := nth i css [].

Definition link_ok (n : nat) (css : list (list col)) (l : link) : bool :=
  match l with (jt, a, b, lk, rk) =>
    is_inner jt && Nat.ltb a n && Nat.ltb b n && subset lk (schema css a) && subset rk (schema css b) end.

(* side is a cut for link k: first table inside, second outside, no other link crosses it, and the column names shared
   across the cut are key columns of link k at the same key position *)
Definition cut_ok (n : nat) (css : list (list col)) (ls : list link) (k : nat) (side : list nat) : bool :=
  match nth_error ls k with
  | Some (_, a, b, lk, rk) =>
    nmem a side && negb (nmem b side) &&
    forallb (fun k' => Nat.eqb k' k ||
                       match nth_error ls k' with
                       | Some (_, a', b', _, _) => Bool.eqb (nmem a' side) (nmem b' side)
                       | None => true
                       end) (seq 0 (List.length ls)) &&
    forallb (fun i => negb (nmem i side) ||
              forallb (fun j => nmem j side ||
                        forallb (fun c => negb (mem c (schema css j)) || shared_key lk rk c) (schema css i))
                      (seq 0 n)) (seq 0 n)
  | None => false
  end.

(* every table is uniform with the given schema *)
Definition tables_uniform (css : list (list col)) (ts : list table) : bool :=
  Nat.eqb (List.length css) (List.length ts) && forallb (fun ct => uniformb (fst ct) (snd ct)) (combine css ts).
(* the links form a tree over the tables (certified by the cuts `sides`) and satisfy the overlap discipline *)
Definition tree_ok (css : list (list col)) (sides : nat -> list nat) (ts : list table) (ls : list link) : bool :=
  Nat.eqb (List.length ls + 1) (List.length ts) &&
  forallb (link_ok (List.length ts) css) ls &&
  forallb (fun k => cut_ok (List.length ts) css ls k (sides k)) (seq 0 (List.length ls)).
Definition nary_ok (css : list (list col)) (sides : nat -> list nat) (ts : list table) (ls : list link) : bool :=
  tables_uniform css ts && tree_ok css sides ts ls.

(* the tables reachable from the first table of link k without using link k *)
Definition dummyJ : joinfn := fun _ _ _ _ _ => [].
Definition side_of (n : nat) (ls : list link) (k : nat) : list nat :=
  let cs := fold_left (apply_link dummyJ) (firstn k ls ++ skipn (S k) ls) (init_comps (repeat [] n)) in
  match nth_error ls k with
  | Some (_, a, _, _, _) => match find_comp cs a with Some c => fst c | None => [] end
  | None => []
  end.

Definition nary_premises_s (css : list (list col)) (ts : list table) (ls : list link) : bool :=
  nary_ok css (side_of (List.length ts) ls) ts ls.
(* the form the harness evaluates: the schema of a table is read off its first row *)
Definition nary_premises (ts : list table) (ls : list link) : bool := nary_premises_s (map schema_of ts) ts ls.

(* ---------------------------------------------------------------------------------------------------- *)
(* the canonical comprehension: all tuples of rows, one per table, that satisfy every link (SQL key equality: null keys
   never match), each mapped to the union of its rows *)

Definition tuple := list (nat * row).
Fixpoint tget (i : nat) (t : tuple) : option row :=
  match t with [] => None | (j, r) :: t' => if Nat.eqb j i then Some r else tget i t' end.
Fixpoint prod (ts : list table) (S : list nat) : list tuple :=
  match S with
  | [] => [[]]
  | i :: S' => flat_map (fun r => map (cons (i, r)) (prod ts S')) (nth i ts [])
  end.
Definition link_sat (l : link) (t : tuple) : bool :=
  match l with (_, a, b, lk, rk) =>
    match tget a t, tget b t with Some ra, Some rb => matches lk rk ra rb | _, _ => true end end.
Definition sat (E : list link) (t : tuple) : bool := forallb (fun l => link_sat l t) E.
Definition urow (t : tuple) : row := fold_right (fun ir acc => row_union (snd ir) acc) [] t.
Definition all_matches (ts : list table) (ls : list link) : table :=
  map urow (filter (sat ls) (prod ts (seq 0 (List.length ts)))).
