(* C19 -- what the multi-framework built-in feature groups compute, stated once, over exact rationals and ASCII text,
   independently of any framework.  Definitions only.

   A column is a list of cells, a cell is `None` (null / NaN / pd.NA) or `Some q`.  Strings that occur in imputed
   columns and group keys are encoded by the harness as order-preserving integers, so one vocabulary serves both.

   Conventions fixed HERE (the frameworks disagree on some of them; see Model/BuiltinsFw.v and the known findings):
     * every aggregate ignores nulls; on a column without a non-null value it is null, except `count` (= 0);
     * var / std are the SAMPLE statistics (divisor n-1; null for n < 2)           [pandas, polars, statistics.stdev];
     * median of an even number of values is the mean of the two middle ones;
     * mode = the most frequent non-null value, ties broken by FIRST occurrence      [PythonDict, value_counts order];
     * a time window is the current row and the w-1 rows before it in TIME order (a row count: the time unit in the
       feature name is not used by any implementation), results are reported for the rows in their ORIGINAL order;
     * a null text cell cleans to the empty string; whitespace is what Python's `str.isspace` / `\s` say on ASCII. *)
From Coq Require Import QArith Qabs List Bool Arith ZArith Ascii String.
Import ListNotations.
Open Scope Q_scope.

(* ------------------------------------------------------------------------------------------------------------ *)
(* columns                                                                                                      *)
Definition cell := option Q.
Definition col := list cell.

Fixpoint vals (c : col) : list Q :=
  match c with [] => [] | Some q :: t => q :: vals t | None :: t => vals t end.

Definition no_null (c : col) : Prop := forall x, In x c -> x <> None.

(* ------------------------------------------------------------------------------------------------------------ *)
(* statistics of a list of rationals                                                                            *)
Definition qsum (l : list Q) : Q := fold_right Qplus 0 l.
Definition qlen (l : list Q) : Q := inject_Z (Z.of_nat (List.length l)).
Definition qmin (a b : Q) : Q := if Qle_bool a b then a else b.
Definition qmax (a b : Q) : Q := if Qle_bool a b then b else a.

Definition mean_l (l : list Q) : option Q := match l with [] => None | _ => Some (qsum l / qlen l) end.
Definition min_l (l : list Q) : option Q := match l with [] => None | x :: t => Some (fold_right qmin x t) end.
Definition max_l (l : list Q) : option Q := match l with [] => None | x :: t => Some (fold_right qmax x t) end.

Definition sqdev (m x : Q) : Q := (x - m) * (x - m).
(* sum of squared deviations from the mean, divided by n - ddof; null when n <= ddof *)
Definition var_l (ddof : nat) (l : list Q) : option Q :=
  if (List.length l <=? ddof)%nat then None
  else Some (qsum (map (sqdev (qsum l / qlen l)) l) / (qlen l - inject_Z (Z.of_nat ddof))).

Fixpoint insert (x : Q) (l : list Q) : list Q :=
  match l with [] => [x] | y :: t => if Qle_bool x y then x :: l else y :: insert x t end.
Definition sortq (l : list Q) : list Q := fold_right insert [] l.

Definition median_l (l : list Q) : option Q :=
  let s := sortq l in let n := List.length s in
  match n with
  | O => None
  | _ => if Nat.even n then Some ((nth (n / 2 - 1) s 0 + nth (n / 2) s 0) / 2) else Some (nth (n / 2) s 0)
  end.

Definition count_of (x : Q) (l : list Q) : nat := List.length (filter (Qeq_bool x) l).
(* the first value (in row order) that no other value beats in frequency *)
Definition mode_l (l : list Q) : option Q :=
  find (fun x => forallb (fun y => (count_of y l <=? count_of x l)%nat) l) l.

(* ------------------------------------------------------------------------------------------------------------ *)
(* aggregation vocabulary (aggregated_feature_group/base.py AGGREGATION_TYPES)                                  *)
Inductive aggop := ASum | AMin | AMax | AMean | ACount | AStd | AVar | AMedian.

(* AStd: the value returned here is the VARIANCE; the standard deviation is its non-negative square root
   (`is_root`), which is irrational in general and therefore only characterised, see `root_of`. *)
Definition agg_spec (op : aggop) (c : col) : option Q :=
  let l := vals c in
  match op with
  | ASum => match l with [] => None | _ => Some (qsum l) end
  | AMin => min_l l
  | AMax => max_l l
  | AMean => mean_l l
  | ACount => Some (qlen l)
  | AStd | AVar => var_l 1 l
  | AMedian => median_l l
  end.
Definition is_root (op : aggop) : bool := match op with AStd => true | _ => false end.
(* s is the value denoted by (op, v) *)
Definition root_of (op : aggop) (v s : Q) : Prop := if is_root op then 0 <= s /\ s * s == v else s == v.

Open Scope string_scope.
Definition agg_of_name (s : string) : option aggop :=
  if String.eqb s "sum" then Some ASum else if String.eqb s "min" then Some AMin
  else if String.eqb s "max" then Some AMax else if String.eqb s "avg" then Some AMean
  else if String.eqb s "mean" then Some AMean else if String.eqb s "count" then Some ACount
  else if String.eqb s "std" then Some AStd else if String.eqb s "var" then Some AVar
  else if String.eqb s "median" then Some AMedian else None.
Definition agg_vocab : list string := ["sum"; "min"; "max"; "avg"; "mean"; "count"; "std"; "var"; "median"].
Close Scope string_scope.

(* ------------------------------------------------------------------------------------------------------------ *)
(* missing-value imputation (data_quality/missing_value/base.py IMPUTATION_METHODS)                             *)
Inductive imethod := IMean | IMedian | IMode | IConst (k : Q) | IFfill | IBfill.

Definition fill_with (v : option Q) (c : col) : col :=
  map (fun x => match x with None => v | Some _ => x end) c.

Definition last_some (c : col) : option Q := last (map Some (vals c)) None.
Definition first_some (c : col) : option Q := hd None (map Some (vals c)).

(* cell i becomes the last non-null cell at a position <= i (itself when non-null) *)
Definition ffill_spec (c : col) : col := map (fun i => last_some (firstn (S i) c)) (seq 0 (List.length c)).
(* cell i becomes the first non-null cell at a position >= i *)
Definition bfill_spec (c : col) : col := map (fun i => first_some (skipn i c)) (seq 0 (List.length c)).

Definition impute_spec (m : imethod) (c : col) : col :=
  match m with
  | IMean => fill_with (mean_l (vals c)) c
  | IMedian => fill_with (median_l (vals c)) c
  | IMode => fill_with (mode_l (vals c)) c
  | IConst k => fill_with (Some k) c
  | IFfill => ffill_spec c
  | IBfill => bfill_spec c
  end.

(* grouped variants: the tuple of group-by cells of a row is its key (a null is an ordinary key value) *)
Definition key := list (option Z).
Definition ocell_eqb (a b : option Z) : bool :=
  match a, b with None, None => true | Some x, Some y => Z.eqb x y | _, _ => false end.
Fixpoint key_eqb (a b : key) : bool :=
  match a, b with
  | [], [] => true
  | x :: a', y :: b' => ocell_eqb x y && key_eqb a' b'
  | _, _ => false
  end.

(* the cells of the rows whose key is k, in row order *)
Definition members (keys : list key) (k : key) (c : col) : col :=
  map snd (filter (fun p => key_eqb k (fst p)) (combine keys c)).

(* statistic of the row's group; of the whole column when the group has no non-null value *)
Definition stat_fb (stat : list Q -> option Q) (keys : list key) (c : col) (k : key) : option Q :=
  match stat (vals (members keys k c)) with Some v => Some v | None => stat (vals c) end.

Definition fill_stat (stat : list Q -> option Q) (keys : list key) (c : col) : col :=
  map (fun p => match snd p with Some _ => snd p | None => stat_fb stat keys c (fst p) end) (combine keys c).

Definition impute_grouped_spec (m : imethod) (keys : list key) (c : col) : col :=
  match m with
  | IMean => fill_stat mean_l keys c
  | IMedian => fill_stat median_l keys c
  | IMode => fill_stat mode_l keys c
  | IConst k => fill_with (Some k) c
  | IFfill => map (fun i => last_some (members (firstn (S i) keys) (nth i keys []) (firstn (S i) c)))
                  (seq 0 (List.length c))
  | IBfill => map (fun i => first_some (members (skipn i keys) (nth i keys []) (skipn i c)))
                  (seq 0 (List.length c))
  end.

Open Scope string_scope.
Definition imp_vocab : list string := ["mean"; "median"; "mode"; "constant"; "ffill"; "bfill"].
Close Scope string_scope.

(* ------------------------------------------------------------------------------------------------------------ *)
(* row-count time windows (time_window/base.py WINDOW_FUNCTIONS)                                                *)
Inductive wop := WAgg (a : aggop) | WFirst | WLast.

(* value of one window (cells in time order) *)
Definition win_agg (op : wop) (w : col) : option Q :=
  match op with
  | WAgg a => agg_spec a w
  | WFirst => hd None w
  | WLast => last w None
  end.
Definition wop_is_root (op : wop) : bool := match op with WAgg a => is_root a | _ => false end.

(* the window of position i (0-based) in a time-sorted column: positions max(0, i-w+1) .. i *)
Definition window_at (w i : nat) (c : col) : col := skipn (S i - w) (firstn (S i) c).
Definition windows_sorted (op : wop) (w : nat) (c : col) : list (option Q) :=
  map (fun i => win_agg op (window_at w i c)) (seq 0 (List.length c)).

(* row indices in ascending time order (stable) *)
Fixpoint tinsert (p : Z * nat) (l : list (Z * nat)) : list (Z * nat) :=
  match l with [] => [p] | q :: t => if (fst p <? fst q)%Z then p :: l else q :: tinsert p t end.
Definition time_order (times : list Z) : list nat :=
  map snd (fold_left (fun acc p => tinsert p acc) (combine times (seq 0 (List.length times))) []).
(* rows are inserted in row order and a row goes BEFORE the first placed row with a strictly later time:
   equal times keep row order (stable) *)

Fixpoint pos_of (i : nat) (l : list nat) : nat :=
  match l with [] => O | x :: t => if Nat.eqb x i then O else S (pos_of i t) end.

Definition window_spec (op : wop) (w : nat) (times : list Z) (c : col) : list (option Q) :=
  let ord := time_order times in
  let sorted := map (fun i => nth i c None) ord in
  let res := windows_sorted op w sorted in
  map (fun i => nth (pos_of i ord) res None) (seq 0 (List.length c)).

Open Scope string_scope.
Definition wop_of_name (s : string) : option wop :=
  if String.eqb s "first" then Some WFirst else if String.eqb s "last" then Some WLast
  else option_map WAgg (agg_of_name s).
Definition win_vocab : list string :=
  ["sum"; "min"; "max"; "avg"; "mean"; "count"; "std"; "var"; "median"; "first"; "last"].
Close Scope string_scope.

(* ------------------------------------------------------------------------------------------------------------ *)
(* text cleaning on ASCII text (text_cleaning/base.py SUPPORTED_OPERATIONS).  `normalize` = lower-casing + accent
   stripping; on ASCII there is no accent, so it is lower-casing.  remove_stopwords / accents on non-ASCII text are NOT specified here (compared
   across frameworks only); remove_urls is specified on ASCII text (below).                                      *)
Definition text := list ascii.
Definition code (a : ascii) : nat := nat_of_ascii a.
Definition between (lo hi n : nat) : bool := (lo <=? n)%nat && (n <=? hi)%nat.
Definition is_upper (a : ascii) : bool := between 65 90 (code a).
Definition is_alnum (a : ascii) : bool := between 48 57 (code a) || between 65 90 (code a) || between 97 122 (code a).
(* string.punctuation *)
Definition is_punct (a : ascii) : bool :=
  between 33 47 (code a) || between 58 64 (code a) || between 91 96 (code a) || between 123 126 (code a).
(* ASCII characters for which Python's str.isspace() holds = what `\s` matches in a str pattern *)
Definition is_ws (a : ascii) : bool := between 9 13 (code a) || between 28 32 (code a).

Definition lower_char (a : ascii) : ascii := if is_upper a then ascii_of_nat (code a + 32) else a.
Definition lower (s : text) : text := map lower_char s.
Definition remove_punct (s : text) : text := filter (fun a => negb (is_punct a)) s.
Definition remove_special (s : text) : text := filter (fun a => is_alnum a || is_ws a) s.

(* s.split(): maximal runs of non-whitespace characters (cur = current word, reversed) *)
Fixpoint words_acc (cur : text) (s : text) : list text :=
  match s with
  | [] => match cur with [] => [] | _ => [rev cur] end
  | a :: t => if is_ws a then match cur with [] => words_acc [] t | _ => rev cur :: words_acc [] t end
              else words_acc (a :: cur) t
  end.
Definition words (s : text) : list text := words_acc [] s.
Definition space : ascii := ascii_of_nat 32.
Fixpoint join_sp (ws : list text) : text :=
  match ws with [] => [] | [w] => w | w :: t => w ++ space :: join_sp t end.
(* " ".join(s.split()) *)
Definition norm_ws (s : text) : text := join_sp (words s).

(* ---- remove_urls: "remove URLs and e-mail addresses", token by token (a token = a maximal run of non-whitespace
   characters; all whitespace stays where it is):
     1. a URL starts inside the token at the first place where `http://`, `https://` or `www.` is followed by at least
        one more character of the token; the token is cut there (the part before the URL stays: `see:http://x` -> `see:`;
        a bare `www.` / `http://` with nothing after it is not a URL);
     2. what is left of the token is dropped entirely if it is an e-mail address x@y.z with x, y, z non-empty.
   The ORDER matters when both overlap in one token: `admin@www.example.com` -> `admin@` (the URL goes first, the rest
   is no address).  base.py only says "Remove URLs and email addresses"; this two-step reading is what BOTH
   implementations compute on the unchanged tree (theorems C19_remove_urls_...). *)
Fixpoint strip_prefix (p s : text) : option text :=
  match p, s with
  | [], _ => Some s
  | a :: p', b :: s' => if Ascii.eqb a b then strip_prefix p' s' else None
  | _ :: _, [] => None
  end.
(* p occurs somewhere in s *)
Fixpoint has_sub (p s : text) : bool :=
  match strip_prefix p s with Some _ => true | None => match s with [] => false | _ :: t => has_sub p t end end.
Definition nonempty (o : option text) : bool := match o with Some (_ :: _) => true | _ => false end.
Definition lit (s : string) : text := list_ascii_of_string s.
Definition url_head (w : text) : bool :=
  nonempty (strip_prefix (lit "http://") w) || nonempty (strip_prefix (lit "https://") w)
  || nonempty (strip_prefix (lit "www.") w).
Fixpoint url_cut (w : text) : text :=
  match w with [] => [] | a :: t => if url_head w then [] else a :: url_cut t end.
Definition ch_at : ascii := ascii_of_nat 64.
Definition ch_dot : ascii := ascii_of_nat 46.
(* u holds a `.` with at least one character after it *)
Fixpoint dot_in (u : text) : bool :=
  match u with [] => false | d :: v => (Ascii.eqb d ch_dot && match v with [] => false | _ => true end) || dot_in v end.
(* r = y ++ "." ++ z with y, z non-empty *)
Definition dot_mid (r : text) : bool := match r with [] => false | _ :: u => dot_in u end.
(* r holds an `@` followed by y.z *)
Fixpoint at_in (r : text) : bool :=
  match r with [] => false | c :: u => (Ascii.eqb c ch_at && dot_mid u) || at_in u end.
(* w = x ++ "@" ++ y ++ "." ++ z with x, y, z non-empty *)
Definition is_email (w : text) : bool := match w with [] => false | _ :: r => at_in r end.
Definition email_keep (w : text) : text := if is_email w then [] else w.
Definition clean_token (w : text) : text := email_keep (url_cut w).
(* apply f to every token, keep the whitespace (cur = current token, reversed) *)
Fixpoint map_tokens (f : text -> text) (cur : text) (s : text) : text :=
  match s with
  | [] => f (rev cur)
  | a :: t => if is_ws a then f (rev cur) ++ a :: map_tokens f [] t else map_tokens f (a :: cur) t
  end.
Definition remove_urls (s : text) : text := map_tokens clean_token [] s.

Inductive cleanop := CNormalize | CPunct | CSpecial | CWhite | CUrls.
Definition clean_spec (o : cleanop) (s : text) : text :=
  match o with CNormalize => lower s | CPunct => remove_punct s | CSpecial => remove_special s | CWhite => norm_ws s
          | CUrls => remove_urls s end.
Definition clean_pipeline (ops : list cleanop) (s : text) : text := fold_left (fun acc o => clean_spec o acc) ops s.
(* a null cell is the empty text *)
Definition clean_cell (ops : list cleanop) (x : option text) : text :=
  clean_pipeline ops (match x with None => [] | Some s => s end).

Open Scope string_scope.
Definition clean_vocab : list string :=
  ["normalize"; "remove_stopwords"; "remove_punctuation"; "remove_special_chars"; "normalize_whitespace"; "remove_urls"].
Definition cleanop_of_name (s : string) : option cleanop :=
  if String.eqb s "normalize" then Some CNormalize else if String.eqb s "remove_punctuation" then Some CPunct
  else if String.eqb s "remove_special_chars" then Some CSpecial
  else if String.eqb s "normalize_whitespace" then Some CWhite
  else if String.eqb s "remove_urls" then Some CUrls else None.
Close Scope string_scope.
