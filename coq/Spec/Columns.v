(* C03 — "the result contains exactly the requested features' columns", stated without reference to the selection
   algorithm.  Definitions only. *)
From Coq Require Import List Bool String Ascii Sorting.Sorted.
Import ListNotations.
Open Scope string_scope.
Open Scope list_scope.

(* column c belongs to the feature named f: it is f itself or f~suffix *)
Definition owner (f c : string) : Prop := c = f \/ exists s, c = (f ++ "~" ++ s)%string.

(* columns that a request for the names [req] is entitled to, out of the available columns [cols] *)
Definition wanted (cols req : list string) (c : string) : Prop :=
  In c cols /\ exists f, In f req /\ owner f c.

Definition str_le (a b : string) : Prop := String.leb a b = true.
Definition str_lt (a b : string) : Prop := String.ltb a b = true.

(* "columns are sorted" *)
Definition alphabetical (out : list string) : Prop := StronglySorted str_le out.

(* "columns follow the request": out is the concatenation, in the order of [req], of one block per requested name; the
   block holds that feature's available columns that no EARLIER requested name owns, sorted, each once (so a column owned
   by several requested names stands where the first of them stands, and nowhere else) *)
Definition block_of (cols earlier : list string) (f : string) (b : list string) : Prop :=
  StronglySorted str_lt b /\
  forall c, In c b <-> wanted cols [f] c /\ ~ (exists g, In g earlier /\ owner g c).

Inductive follows_from (cols : list string) : list string -> list string -> list string -> Prop :=
| ff_nil : forall earlier, follows_from cols earlier [] []
| ff_cons : forall earlier f req b out,
    block_of cols earlier f b -> follows_from cols (earlier ++ [f]) req out ->
    follows_from cols earlier (f :: req) (b ++ out).

Definition follows_request (cols req out : list string) : Prop := follows_from cols [] req out.

(* a name contains no separator *)
Fixpoint no_tilde (s : string) : Prop :=
  match s with
  | EmptyString => True
  | String c t => c <> "~"%char /\ no_tilde t
  end.
