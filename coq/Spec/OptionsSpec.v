(* C15 — what is claimed about option dictionaries, written without reference to the algorithms.  Definitions only. *)
From Coq Require Import List Bool ZArith String.
Import ListNotations.
Require Import MV.Model.Options.

(* key k is present in dictionary d *)
Definition has_key (k : pykey) (d : dict) : Prop := kmem k (dkeys d) = true.

(* "A key cannot exist in both group and context simultaneously." *)
Definition disjoint_gc (s : ostate) : Prop := forall k, has_key k (og s) -> has_key k (oc s) -> False.

(* every key announced for propagation is a context key *)
Definition propagate_in_context (s : ostate) : Prop := forall k, kmem k (opk s) = true -> has_key k (oc s).

(* a Python dict never holds two equal keys *)
Fixpoint nodupkb (ks : list pykey) : bool :=
  match ks with [] => true | k :: t => negb (kmem k t) && nodupkb t end.
Definition nodupk (ks : list pykey) : Prop := nodupkb ks = true.
Definition dicts_wf (s : ostate) : Prop := nodupk (dkeys (og s)) /\ nodupk (dkeys (oc s)).

Definition options_inv (s : ostate) : Prop := disjoint_gc s /\ propagate_in_context s /\ dicts_wf s.

(* a value as Python can build it: dictionaries (at any depth) have pairwise different keys *)
Fixpoint wfvb (v : pyval) : bool :=
  match v with
  | VList l | VTuple l | VSet l | VFSet l => forallb wfvb l
  | VDict d => nodupkb (dkeys d) && forallb (fun kv => wfvb (snd kv)) d
  | _ => true
  end.
Definition wfv (v : pyval) : Prop := wfvb v = true.

(* the stated input fragment: no frozenset inside (frozensets are what _make_hashable produces) *)
Fixpoint nofsb (v : pyval) : bool :=
  match v with
  | VFSet _ => false
  | VList l | VTuple l | VSet l => forallb nofsb l
  | VDict d => forallb (fun kv => nofsb (snd kv)) d
  | _ => true
  end.
Definition nofs (v : pyval) : Prop := nofsb v = true.

(* where _make_hashable is total: every dictionary with two or more entries has only str keys or only int/bool keys *)
Fixpoint orderableb (v : pyval) : bool :=
  match v with
  | VList l | VTuple l | VSet l => forallb orderableb l
  | VDict d => sortable d && forallb (fun kv => orderableb (snd kv)) d
  | _ => true
  end.
Definition orderable (v : pyval) : Prop := orderableb v = true.

(* the keys update_with_protected_keys propagates from `other` *)
Definition propagating (other : ostate) (pk : list pykey) (k : pykey) : Prop :=
  has_key k (oc other) /\ kmem k (opk other) = true /\ kmem k pk = false.
