(* C16 — the three notations of one chain  src, [(g1, op1); ...; (gk, opk)]  (operations in application order).

   name      :  Feature("src__op1_suf1__...__opk_sufk")
   options   :  Feature(ph k, {key_k: op_k, in_features: W(Feature(ph (k-1), {..., in_features: ... V(src)}))})
                where V is a spelling of the source (str / frozenset / Feature / ...), W a spelling of a nested
                Feature (the Feature itself or a frozenset holding it), the two entries placed in the group
                options or in the context options
   JSON      :  k = 1:  [{"name": ph 1, "in_features": [src], "context_options": {key_1: op_1}}]
                k > 1:  [{"name": ph k, "options": {key_k: op_k, "in_features":
                           {"name": ph (k-1), "options": {key_(k-1): op_(k-1)}, "in_features": ... ["src"]}}}]
   ph : nat -> str gives the (arbitrary, separator-free) names of the option / JSON configured levels.            *)
From Coq Require Import List Bool Ascii Arith.
Import ListNotations.
Require Import MV.Model.ChainParser MV.Model.ConfigLoader MV.Spec.ChainName.
Open Scope list_scope.

(* a value of the in_features option that stands for exactly the feature `inner` *)
Definition good_spelling (v inner : pv) : Prop :=
  get_in_features v = Ok [inner] /\ check_required false [] v = Ok true.

Definition good_wrap (wrap : pv -> pv) : Prop := forall n g c, good_spelling (wrap (PFeat n g c)) (PFeat n g c).

(* one option-configured level *)
Definition opt_feature (in_group : bool) (name key op : str) (v : pv) : pv :=
  let d := [(key, PStr op); (k_in_features, v)] in
  if in_group then PFeat (PStr name) d [] else PFeat (PStr name) [] d.

(* rops: the chain from the outside in (last applied first) *)
Fixpoint opt_chain (gs : list grp) (ph : nat -> str) (in_group : bool) (wrap : pv -> pv) (v0 : pv)
                   (rops : list (nat * str)) : pv :=
  match rops with
  | [] => PNone
  | (i, op) :: inner =>
      opt_feature in_group (ph (List.length rops)) (g_key (grp_at gs i)) op
                  (match inner with [] => v0 | _ => wrap (opt_chain gs ph in_group wrap v0 inner) end)
  end.

(* the nested JSON description of a chain (from the outside in), for use under an "in_features" key *)
Fixpoint json_nested (gs : list grp) (ph : nat -> str) (src : str) (rops : list (nat * str)) : json :=
  match rops with
  | [] => JNull
  | (i, op) :: inner =>
      JObj [(k_name, JStr (ph (List.length rops)));
            (k_options, JObj [(g_key (grp_at gs i), JStr op)]);
            (k_in_features, match inner with [] => JArr [JStr src] | _ => json_nested gs ph src inner end)]
  end.

Definition json_chain (gs : list grp) (ph : nat -> str) (src : str) (rops : list (nat * str)) : json :=
  match rops with
  | [] => JArr []
  | [(i, op)] =>
      JArr [JObj [(k_name, JStr (ph 1)); (k_in_features, JArr [JStr src]);
                  (k_context_options, JObj [(g_key (grp_at gs i), JStr op)])]]
  | (i, op) :: inner =>
      JArr [JObj [(k_name, JStr (ph (List.length rops)));
                  (k_options, JObj [(g_key (grp_at gs i), JStr op); (k_in_features, json_nested gs ph src inner)])]]
  end.

(* conditions on a step for the option / JSON notations: the operation is one the group's mapping admits *)
Definition op_ok_cfg (gs : list grp) (x : nat * str) : bool :=
  (fst x <? List.length gs)
  && (negb (g_strict (grp_at gs (fst x)) || g_name_strict (grp_at gs (fst x)))
      || existsb (str_eqb (snd x)) (g_vocab (grp_at gs (fst x)))).

Definition walk_of (rops : list (nat * str)) (src : str) : walk :=
  WEnd (map (fun x => (fst x, PStr (snd x))) rops) (feat src).

(* ---- any description: what the theorem needs of the options of one configured level ---- *)

(* k is a key that some group of the universe reads: an operation key, in_features, or a key with a default *)
Definition mapped_key (gs : list grp) (k : str) : bool :=
  str_eqb k k_in_features || existsb (fun g => str_eqb k (g_key g) || existsb (str_eqb k) (g_defaults g)) gs.

(* the operation under the group's key, in_features = v, and no OTHER key that a group of the universe reads
   (keys nobody reads, e.g. feature_chainer_parser_key, are free; placement in group or context is free) *)
Definition level_options (gs : list grp) (gr cx : list (str * pv)) (key op : str) (v : pv) : Prop :=
  options_get key gr cx = PStr op /\ options_get k_in_features gr cx = v /\
  forall k, mapped_key gs k = true -> str_eqb k key = false -> str_eqb k k_in_features = false ->
            options_get k gr cx = PNone.

(* f describes the chain rops (from the outside in) over the source src *)
Inductive describes (gs : list grp) : list (nat * str) -> str -> pv -> Prop :=
| D_last : forall i op name gr cx v src,
    has_dunder name = false -> level_options gs gr cx (g_key (grp_at gs i)) op v -> good_spelling v (feat src) ->
    describes gs [(i, op)] src (PFeat (PStr name) gr cx)
| D_more : forall i op name gr cx v n' g' c' rops src,
    has_dunder name = false -> level_options gs gr cx (g_key (grp_at gs i)) op v ->
    good_spelling v (PFeat n' g' c') -> rops <> [] -> describes gs rops src (PFeat n' g' c') ->
    describes gs ((i, op) :: rops) src (PFeat (PStr name) gr cx).
