(* C10 — several features per request; classes created between requests: what must hold, stated without the algorithm.
   Definitions only.  (Rule for one feature on a fixed universe: Spec/ResolveRule.v.) *)
From Coq Require Import List Bool String Arith Permutation.
Require Import MV.Model.Resolve MV.Spec.ResolveRule MV.Model.ResolveHist.
Import ListNotations.
Open Scope string_scope.
Open Scope list_scope.

(* ---- Python sets of frameworks are compared as sets: two outcomes are the same if they name the same group and list the
        same frameworks in some order ---- *)
Definition result_equiv (r r' : result) : Prop :=
  match r, r' with
  | Chosen n gf, Chosen n' gf' => n = n' /\ Permutation gf gf'
  | Rejected a, Rejected b => a = b
  | _, _ => False
  end.
Definition answered_equiv (a b : (nat * list fw) * bool) : Prop :=
  fst (fst a) = fst (fst b) /\ Permutation (snd (fst a)) (snd (fst b)) /\ snd a = snd b.
Definition routcome_equiv (o o' : routcome) : Prop :=
  match o, o' with
  | RAnswered l, RAnswered l' => Forall2 answered_equiv l l'
  | RRejected a, RRejected b => a = b
  | _, _ => False
  end.

(* ---- a group admissible for ONE feature f of a request: the collector, the group's criteria evaluated on f's OWN name,
        group options and context options, f's domain, the links, and a framework from all four sources ---- *)
Definition x_admissible (e : env) (mrq : mrequest) (ls : option (list lk)) (f : feat) (c : xclass) : Prop :=
  collector_allows (as_request mrq ls f) (as_class f c) /\
  crit_eval (x_crit c) f = true /\
  (match eff_dom f with None => True | Some d => x_dom c = d end) /\
  links_allow (as_request mrq ls f) (as_class f c) /\
  exists x, admissible_fw e (as_request mrq ls f) (as_class f c) x.

(* ---- the request made of feature f alone ---- *)
Definition single (mrq : mrequest) (f : feat) : mrequest :=
  {| m_api := m_api mrq; m_collector := m_collector mrq; m_links := m_links mrq; m_feats := [f] |}.

(* ---- part of the input space in which the features of one request influence each other's resolution (decidable by
        definition): a feature that is not the last one carries a Link, and some class declares index columns (only such
        classes are filtered by links) ---- *)
Definition has_link (f : feat) : bool := match f_link f with Some _ => true | None => false end.
Definition has_idx (c : xclass) : bool := match x_idx c with Some _ => true | None => false end.
Definition kf_feature_link (u : list xclass) (fs : list feat) : bool :=
  existsb has_link (removelast fs) && existsb has_idx u.

(* ---- identity of requested features: name, group options, context options, domain, framework ---- *)
Definition feat_same (a b : feat) : bool :=
  base_same a b && odom_eqb (eff_dom a) (eff_dom b) && ofw_eqb (f_ffw a) (f_ffw b).
Fixpoint dup_free_from (seen fs : list feat) : bool :=
  match fs with [] => true | f :: t => negb (existsb (fun g => feat_same g f) seen) && dup_free_from (seen ++ [f]) t end.
Definition dup_free (fs : list feat) : bool := dup_free_from [] fs.
(* part of the input space in which the duplicate check itself fails: two features equal in name and options, one with
   and one without a domain *)
Definition feat_mix (a b : feat) : bool :=
  base_same a b && match eff_dom a, eff_dom b with None, Some _ | Some _, None => true | _, _ => false end.
Fixpoint kf_domain_mix_from (seen fs : list feat) : bool :=
  match fs with [] => false | f :: t => existsb (fun g => feat_mix g f) seen || kf_domain_mix_from (seen ++ [f]) t end.
Definition kf_domain_mix (fs : list feat) : bool := kf_domain_mix_from [] fs.

(* ---- histories ---- *)
Definition walk_ok (w : walk) : Prop :=
  (forall l, Permutation (wg w l) l) /\ (forall l, Permutation (wf w l) l) /\ (forall l, Permutation (wa w l) l).
Definition state_equiv (s s' : pstate) : Prop :=
  Permutation (p_groups s) (p_groups s') /\ Permutation (p_fws s) (p_fws s').
Definition is_def (o : op) : bool := match o with Request _ => false | _ => true end.
Definition defs (ops : list op) : list op := filter is_def ops.
