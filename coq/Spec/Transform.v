(* What C14 asks of the registry / chain logic, stated without reference to how chains are searched.  Definitions only. *)
From Coq Require Import List Bool Arith.
Import ListNotations.
Require Import MV.Model.Transform.

(* transformer d converts between exactly the two frameworks a and b (in one of the two directions) *)
Definition handles (d : tdecl) (a b : fw) : Prop :=
  (t_fw d = Some a /\ t_other d = Some b) \/ (t_fw d = Some b /\ t_other d = Some a).

(* a usable declaration: implemented and importable *)
Definition usable (d : tdecl) : Prop := check_imports d = true.

(* `c` is a path of registered transformers from framework a to framework b: every element is the transformer the
   registry holds for its own hop, handles exactly that hop, and the hops are consecutive *)
Inductive is_path (r : registry) : list tdecl -> fw -> fw -> Prop :=
| path_nil  : forall a, is_path r [] a a
| path_cons : forall d c a m b,
    lookup r (a, m) = Some d -> handles d a m -> is_path r c m b -> is_path r (d :: c) a b.

(* a typed list of conversions and what running it means, independent of the TFS loop *)
Definition hop := (tdecl * fw * fw)%type.
Definition hop_rev (h : hop) : hop := let '(d, a, b) := h in (d, b, a).
Definition rev_hops (l : list hop) : list hop := rev (map hop_rev l).

Inductive typed_hops : list hop -> fw -> fw -> Prop :=
| th_nil  : forall a, typed_hops [] a a
| th_cons : forall d a m b l, handles d a m -> a <> m -> typed_hops l m b -> typed_hops ((d, a, m) :: l) a b.

Section Data.
  Variable table : Type.
  Variable fwd bwd : tdecl -> table -> table.

  Fixpoint run_hops (l : list hop) (x : table) : option table :=
    match l with
    | [] => Some x
    | (d, a, b) :: l' => match transform table fwd bwd d a b x with Some y => run_hops l' y | None => None end
    end.

  (* The hypothesis under which round trips are the identity.  valid f x : x is a well-formed table of framework f.
     For a transformer d between f = framework() and o = other_framework(): both directions map valid tables to valid
     tables and are mutually inverse on them.  This is a statement about pandas / pyarrow conversion kernels; it is
     NOT proved anywhere -- harness/c14.py tests it on generated tables and lists where it fails. *)
  Variable valid : fw -> table -> Prop.
  Definition bijective_pair (d : tdecl) : Prop :=
    forall f o, t_fw d = Some f -> t_other d = Some o ->
      (forall x, valid f x -> valid o (fwd d x) /\ bwd d (fwd d x) = x) /\
      (forall y, valid o y -> valid f (bwd d y) /\ fwd d (bwd d y) = y).
  Definition registered (r : registry) (d : tdecl) : Prop := exists k, lookup r k = Some d.
  Definition bijective_registry (r : registry) : Prop := forall d, registered r d -> bijective_pair d.
End Data.
