(* C11 — what the planner has to hand to a feature-group step for the property to hold (checker on exported plans).
   Definitions only.

   The planner glue (GlobalFilter.identity_matched_filters, Engine._add_filter_feature,
   ExecutionPlan.add_single_filters_to_feature_set) is not modelled.  Instead the plan produced by the real
   `mloda.prepare` is exported and each feature-group step holding a requested feature is checked with `glue_okb`:
     cols   : the columns the step's feature group exposes,
     names  : FeatureSet.get_all_names() of the step,
     fsS    : FeatureSet.filters of the step,
     fs     : the global filters of the request.
   glue_okb says: the step carries exactly the global filters whose column the group exposes, and the column of each
   of them is among the step's feature names (otherwise apply_single_filters skips it).  Proofs/FilterP.v shows that
   this is sufficient for the step to return `expected cols fs t` (C11_plan_glue_sufficient). *)
From Coq Require Import List String ZArith Bool Arith.
Import ListNotations.
Require Import MV.Spec.Filter.

Definition value_eqb (a b : value) : bool :=
  match a, b with
  | VNull, VNull => true
  | VInt x, VInt y => Z.eqb x y
  | VFlt m e, VFlt n f => Z.eqb m n && Nat.eqb e f
  | VStr s, VStr t => String.eqb s t
  | _, _ => false
  end.
Definition ovalue_eqb (a b : option value) : bool :=
  match a, b with Some x, Some y => value_eqb x y | None, None => true | _, _ => false end.
Fixpoint values_eqb (a b : list value) : bool :=
  match a, b with [], [] => true | x :: a', y :: b' => value_eqb x y && values_eqb a' b' | _, _ => false end.
Definition ovalues_eqb (a b : option (list value)) : bool :=
  match a, b with Some x, Some y => values_eqb x y | None, None => true | _, _ => false end.
Definition ftype_eqb (a b : ftype) : bool :=
  match a, b with
  | FRange, FRange | FMin, FMin | FMax, FMax | FEqual, FEqual | FRegex, FRegex | FIn, FIn | FCustom, FCustom => true
  | _, _ => false
  end.
Definition params_eqb (p q : params) : bool :=
  ovalue_eqb (p_value p) (p_value q) && ovalues_eqb (p_values p) (p_values q) && ovalue_eqb (p_min p) (p_min q)
  && ovalue_eqb (p_max p) (p_max q) && Bool.eqb (p_excl p) (p_excl q).
Definition filt_eqb (f g : filt) : bool :=
  String.eqb (f_col f) (f_col g) && ftype_eqb (f_type f) (f_type g) && params_eqb (f_par f) (f_par g).

Definition memf (f : filt) (l : list filt) : bool := existsb (filt_eqb f) l.

Definition glue_okb (cols names : list string) (fsS fs : list filt) : bool :=
  forallb (fun f => memf f fs && applicable cols f) fsS            (* nothing foreign *)
  && forallb (fun f => negb (applicable cols f) || memf f fsS) fs  (* nothing applicable is missing *)
  && forallb (applicable names) fsS.                               (* none of them will be skipped *)
