(* C12 -- every framework's merge engine implements the same relational operators.
   Property theorems only (proofs in Proofs/RelLemmas.v and Proofs/MergePyDictP.v).

   Spec  : Spec/Rel.v        rel_join (inner / left / right / outer / append / union), bag_eq
   Model : Model/MergePyDict.v  merge_pydict = BaseMergeEngine.merge dispatch + PythonDictMergeEngine, faithful
   `ord` is the iteration order of the Python set `all_keys` in _outer_join (any rearrangement).
   rows_wf says that rows are dictionaries (no column bound twice) -- a well-formedness condition of the
   encoding, not a defect domain.

   FULL STATEMENT (refuted on the faithful model, see the four *_refuted theorems):
     forall ord jt L R lk rk, (forall l, Permutation (ord l) l) -> rows_wf L = true -> rows_wf R = true ->
       bag_eq (merge_pydict ord jt L R lk rk) (rel_join jt lk rk L R).
   PROVED: the same for all tables and key lists of any size OUTSIDE the four decidable known-defect domains
     kf_dup_key            two rows with equal key tuples on a side the engine turns into a {key: row} map
     kf_null_key           a left and a right row with equal key tuples containing None (None keys are joined)
     kf_overlap_cols       a column name in both tables that is not a key column of both at the same position
     kf_union_partial_dup  (union) "same key tuple" and "same row" disagree for two rows
   The pandas and pyarrow engines are library calls; they are compared with rel_join by the harness only. *)
From Coq Require Import List Bool ZArith String Permutation.
Import ListNotations.
Require Import MV.Spec.Rel MV.Model.MergePyDict MV.Model.MergeLibRef MV.Proofs.RelLemmas MV.Proofs.MergePyDictP
               MV.Proofs.MergeLibRefP.
Require Import MV.Model.RoutingJ MV.Model.JoinCall MV.Model.JoinCallEmpty MV.Proofs.JoinCallEmptyP.
Open Scope string_scope.
Open Scope list_scope.

Theorem pydict_merge_refines : forall ord jt L R lk rk,
  (forall l, Permutation (ord l) l) ->
  rows_wf L = true -> rows_wf R = true ->
  kf_dup_key jt L R lk rk = false ->
  kf_null_key jt L R lk rk = false ->
  kf_overlap_cols jt L R lk rk = false ->
  kf_union_partial_dup jt L R lk rk = false ->
  bag_eq (merge_pydict ord jt L R lk rk) (rel_join jt lk rk L R).
Proof. exact pydict_merge_refines_l. Qed.
Print Assumptions pydict_merge_refines.

(* one witness per domain; each lies in that domain only, and the model differs from the spec on it *)
Theorem kf_dup_key_refuted :
  kf_dup_key JInner wdup_L wdup_R ["k"] ["k"] = true /\
  kf_null_key JInner wdup_L wdup_R ["k"] ["k"] = false /\
  kf_overlap_cols JInner wdup_L wdup_R ["k"] ["k"] = false /\
  (forall jt, In jt [JInner; JLeft; JOuter] ->
     ~ bag_eq (merge_pydict idord jt wdup_L wdup_R ["k"] ["k"]) (rel_join jt ["k"] ["k"] wdup_L wdup_R)) /\
  kf_dup_key JRight wdup_R wdup_L ["k"] ["k"] = true /\
  ~ bag_eq (merge_pydict idord JRight wdup_R wdup_L ["k"] ["k"]) (rel_join JRight ["k"] ["k"] wdup_R wdup_L).
Proof. exact dup_key_refuted_l. Qed.
Print Assumptions kf_dup_key_refuted.

Theorem kf_null_key_refuted :
  kf_null_key JInner wnull_L wnull_R ["k"] ["k"] = true /\
  kf_dup_key JOuter wnull_L wnull_R ["k"] ["k"] = false /\
  kf_overlap_cols JInner wnull_L wnull_R ["k"] ["k"] = false /\
  (forall jt, is_join jt = true ->
     ~ bag_eq (merge_pydict idord jt wnull_L wnull_R ["k"] ["k"]) (rel_join jt ["k"] ["k"] wnull_L wnull_R)).
Proof. exact null_key_refuted_l. Qed.
Print Assumptions kf_null_key_refuted.

Theorem kf_overlap_cols_refuted :
  kf_overlap_cols JInner wov_L wov_R ["k"] ["k"] = true /\
  kf_dup_key JOuter wov_L wov_R ["k"] ["k"] = false /\
  kf_null_key JInner wov_L wov_R ["k"] ["k"] = false /\
  (forall jt, is_join jt = true ->
     ~ bag_eq (merge_pydict idord jt wov_L wov_R ["k"] ["k"]) (rel_join jt ["k"] ["k"] wov_L wov_R)).
Proof. exact overlap_cols_refuted_l. Qed.
Print Assumptions kf_overlap_cols_refuted.

Theorem kf_union_partial_dup_refuted :
  kf_union_partial_dup JUnion wun_L wun_R ["k"] ["k"] = true /\
  ~ bag_eq (merge_pydict idord JUnion wun_L wun_R ["k"] ["k"]) (rel_join JUnion ["k"] ["k"] wun_L wun_R) /\
  ~ bag_eq (merge_pydict idord JUnion wov_L wov_L ["k"] ["v"]) (rel_join JUnion ["k"] ["v"] wov_L wov_L).
Proof. exact union_partial_dup_refuted_l. Qed.
Print Assumptions kf_union_partial_dup_refuted.

(* The reference DESCRIPTION of the pandas engine used by the harness (Model/MergeLibRef.v: NaN keys equal, _x/_y
   suffixes) is the relational operator outside its two deviation domains.  Nothing is claimed about pandas itself:
   the description is tied to pandas only by the correspondence check. *)
Theorem pandas_ref_refines_partial : forall jt lk rk lcols rcols L R,
  pandas_overlap lk rk lcols rcols = [] ->
  kf_null_key jt L R lk rk = false ->
  bag_eq (pandas_ref jt lk rk lcols rcols L R) (rel_join jt lk rk L R).
Proof. exact pandas_ref_refines_partial_l. Qed.
Print Assumptions pandas_ref_refines_partial.

(* the same for the reference description of the pyarrow engine (Acero keeps one key set, mloda_right_index copy,
   append only for identical schemas, no union): outside arrow_dom it is the relational operator *)
Theorem arrow_ref_refines_partial : forall jt lk rk lcols rcols L R t,
  arrow_dom jt lk rk lcols rcols = false ->
  arrow_ref jt lk rk lcols rcols L R = Some t ->
  bag_eq t (rel_join jt lk rk L R).
Proof. exact arrow_ref_refines_partial_l. Qed.
Print Assumptions arrow_ref_refines_partial.

(* what bag_eq means: canonical rows are equal exactly when the rows read the same on every column,
   and the boolean test used by the correspondence checkers decides bag_eq *)
Theorem C12_canon_sound_complete : forall r1 r2, canon r1 = canon r2 <-> (forall c, get c r1 = get c r2).
Proof. exact canon_equiv. Qed.
Print Assumptions C12_canon_sound_complete.

Theorem C12_bag_eqb_decides : forall t1 t2, bag_eqb t1 t2 = true <-> bag_eq t1 t2.
Proof. exact bag_eqb_spec. Qed.
Print Assumptions C12_bag_eqb_decides.

(* algebra of the specification itself *)
Theorem C12_union_is_duplicate_free_concat : forall L R,
  NoDup (map canon (rel_union L R)) /\
  (forall x, In x (map canon (rel_union L R)) <-> In x (map canon (L ++ R))).
Proof. exact rel_union_spec. Qed.
Print Assumptions C12_union_is_duplicate_free_concat.

Theorem C12_union_idempotent : forall T, NoDup (map canon T) -> rel_union T T = T.
Proof. exact rel_union_idem_nodup. Qed.
Print Assumptions C12_union_idempotent.

Theorem C12_append_assoc : forall A B C, rel_append (rel_append A B) C = rel_append A (rel_append B C).
Proof. exact rel_append_assoc. Qed.
Print Assumptions C12_append_assoc.

Theorem C12_right_is_swapped_left : forall lk rk L R,
  overlap_free lk rk L R = true -> bag_eq (rel_join JRight lk rk L R) (rel_join JLeft rk lk R L).
Proof. exact rel_right_left_swap. Qed.
Print Assumptions C12_right_is_swapped_left.

Theorem C12_inner_commutative : forall lk rk L R,
  overlap_free lk rk L R = true -> bag_eq (rel_join JInner lk rk L R) (rel_join JInner rk lk R L).
Proof. exact rel_inner_comm. Qed.
Print Assumptions C12_inner_commutative.

Theorem C12_outer_commutative : forall lk rk L R,
  overlap_free lk rk L R = true -> bag_eq (rel_join JOuter lk rk L R) (rel_join JOuter rk lk R L).
Proof. exact rel_outer_comm. Qed.
Print Assumptions C12_outer_commutative.

(* the joins as nested loops (what an engine executes) are the declarative operators *)
Theorem C12_left_join_nested_loop : forall lk rk L R, Permutation (left_nested lk rk L R) (rel_join JLeft lk rk L R).
Proof. exact left_nested_perm. Qed.
Print Assumptions C12_left_join_nested_loop.

Theorem C12_right_join_nested_loop : forall lk rk L R, Permutation (right_nested lk rk L R) (rel_join JRight lk rk L R).
Proof. exact right_nested_perm. Qed.
Print Assumptions C12_right_join_nested_loop.

(* non-vacuity: an instance with matched, left-only, right-only and null-key rows and differently named keys
   lies outside every domain; the guarded theorem applies to it and the result is the expected table *)
Example C12_hypotheses_satisfiable :
  forallb (fun jt => negb (in_kf jt ex_L ex_R ["k"] ["j"])) [JInner; JLeft; JRight; JOuter; JAppend] = true /\
  rows_wf ex_L = true /\ rows_wf ex_R = true /\
  map canon (merge_pydict idord JOuter ex_L ex_R ["k"] ["j"]) =
    [ [("a", VInt 10); ("b", VStr "x"); ("j", VInt 1); ("k", VInt 1)];
      [("a", VInt 20); ("k", VInt 2)];
      [("a", VInt 30)];
      [("b", VStr "y"); ("j", VInt 3)] ]%Z /\
  forallb (fun jt => bag_eqb (merge_pydict idord jt ex_L ex_R ["k"] ["j"]) (rel_join jt ["k"] ["j"] ex_L ex_R))
          [JInner; JLeft; JRight; JOuter; JAppend] = true /\
  in_kf JUnion ex_UL ex_UR ["k"] ["k"] = false /\
  map canon (merge_pydict idord JUnion ex_UL ex_UR ["k"] ["k"]) =
    [ [("a", VInt 10); ("k", VInt 1)]; [("a", VInt 20); ("k", VInt 2)]; [("k", VInt 3)] ]%Z.
Proof. exact example_outside_domains_l. Qed.

(* ==================================================================================================================== *)
(* The EMPTY boundary: the operators when the right-hand table has 0 rows, and the JoinStep's engine call
   (Model/JoinCall.v merge_data, Model/JoinCallEmpty.v; proofs Proofs/JoinCallEmptyP.v).

   Schema of an empty table.  Spec/Rel.v has no schema: `table_cols [] = []`, an unbound column reads as null and bag_eq identifies
   a row with its null-padded versions.  That is a list-of-dicts framework (PythonDict: `[]` has no column names; known findings
   C14 kf_empty / C05-pydict-empty-join).  pandas DataFrames and pyarrow Tables KEEP their columns when they have 0 rows, and a
   LEFT / OUTER join with such a table adds its columns, null in every row.  Model/JoinCallEmpty.v therefore carries the schema
   explicitly (`stable` = (columns, rows); `srel_join` = rel_join on the rows + every row padded to `join_schema lcols rcols` =
   left columns ++ right columns the left table does not have).  The tie (harness/c12_pipe.py) compares BOTH the column set and
   the bag of rows. *)

(* schema-less model: for all left tables and key lists *)
Theorem C12_inner_join_empty_right : forall lk rk L,
  rel_join JInner lk rk L [] = [] /\ rel_join JRight lk rk L [] = [].
Proof. intros; split; [apply rel_join_inner_empty_right_l | apply rel_join_right_empty_right_l]. Qed.
Print Assumptions C12_inner_join_empty_right.

Theorem C12_left_outer_join_empty_right_schemaless : forall lk rk L,
  rel_join JLeft lk rk L [] = L /\ rel_join JOuter lk rk L [] = L.
Proof. intros; split; [apply rel_join_left_empty_right_l | apply rel_join_outer_empty_right_l]. Qed.
Print Assumptions C12_left_outer_join_empty_right_schemaless.

Theorem C12_append_empty_right : forall L, rel_append L [] = L.
Proof. exact rel_append_empty_right_l. Qed.
Print Assumptions C12_append_empty_right.

(* union with an empty table is NOT the identity: it removes the duplicate rows of the left table *)
Theorem C12_union_empty_right : forall L, rel_union L [] = distinct L.
Proof. exact rel_union_empty_right_l. Qed.
Print Assumptions C12_union_empty_right.

Theorem C12_union_empty_right_identity_iff : forall L, rel_union L [] = L <-> NoDup (map canon L).
Proof. exact rel_union_empty_right_id_iff_l. Qed.
Print Assumptions C12_union_empty_right_identity_iff.

(* with schemas: the columns of EVERY result (all join types, all tables) are the joint schema, and every row binds all of them *)
Theorem C12_result_columns : forall jt lk rk S T,
  st_cols (srel_join jt lk rk S T) = join_schema (st_cols S) (st_cols T) /\
  (forall c, In c (join_schema (st_cols S) (st_cols T)) <-> In c (st_cols S) \/ In c (st_cols T)) /\
  (forall r c, In r (st_rows (srel_join jt lk rk S T)) -> In c (st_cols S) \/ In c (st_cols T) -> has_col c r = true) /\
  bag_eq (st_rows (srel_join jt lk rk S T)) (rel_join jt lk rk (st_rows S) (st_rows T)).
Proof.
  intros. split; [apply srel_join_cols_l|]. split; [intros c; apply join_schema_in|].
  split; [apply srel_join_binds_schema_l | apply srel_join_rows_l].
Qed.
Print Assumptions C12_result_columns.

(* LEFT / OUTER (and APPEND) with an empty right table of schema rcols: the left rows padded to the joint schema *)
Theorem C12_left_outer_join_empty_right : forall jt lk rk lcols rcols L,
  jt = JLeft \/ jt = JOuter \/ jt = JAppend ->
  srel_join jt lk rk (lcols, L) (rcols, []) = (join_schema lcols rcols, map (pad (join_schema lcols rcols)) L).
Proof. exact srel_join_left_empty_right_l. Qed.
Print Assumptions C12_left_outer_join_empty_right.

(* uniform tables (every row binds exactly the schema: a DataFrame / Table): each left row followed by one null per column of
   the right schema that the left table does not have (incl. a differently named right key); the result is uniform again *)
Theorem C12_left_outer_join_empty_right_uniform : forall jt lk rk lcols rcols L,
  jt = JLeft \/ jt = JOuter \/ jt = JAppend -> uniform (lcols, L) ->
  st_rows (srel_join jt lk rk (lcols, L) (rcols, [])) = map (fun r => r ++ null_row (new_cols lcols rcols)) L /\
  uniform (srel_join jt lk rk (lcols, L) (rcols, [])).
Proof. exact uniform_left_empty_right_l. Qed.
Print Assumptions C12_left_outer_join_empty_right_uniform.

Theorem C12_left_outer_join_empty_right_values : forall jt lk rk lcols rcols L r,
  jt = JLeft \/ jt = JOuter \/ jt = JAppend -> uniform (lcols, L) ->
  In r (st_rows (srel_join jt lk rk (lcols, L) (rcols, []))) ->
  exists r0, In r0 L /\ (forall c, get c r = get c r0) /\
             (forall c, In c rcols -> mem c lcols = false -> lookup c r = Some VNull).
Proof. exact left_empty_right_values_l. Qed.
Print Assumptions C12_left_outer_join_empty_right_values.

Theorem C12_inner_join_empty_right_schema : forall jt lk rk lcols rcols L,
  jt = JInner \/ jt = JRight -> srel_join jt lk rk (lcols, L) (rcols, []) = (join_schema lcols rcols, []).
Proof. exact srel_join_inner_empty_right_l. Qed.
Print Assumptions C12_inner_join_empty_right_schema.

Theorem C12_union_empty_right_schema : forall lk rk lcols rcols L,
  srel_join JUnion lk rk (lcols, L) (rcols, []) = (join_schema lcols rcols, map (pad (join_schema lcols rcols)) (distinct L)).
Proof. exact srel_join_union_empty_right_l. Qed.
Print Assumptions C12_union_empty_right_schema.

(* JoinStep._merge_data has no special case: the engine is called for EVERY pair of tables (also 0-row ones), with the Link's
   join type and indexes; with the relational engine the step therefore writes the operator above *)
Theorem C12_merge_call_total : forall l,
  (forall (E : engine) target other, merge_data E l target other = E (ld_jt l) (ld_left l) (ld_right l) target other) /\
  (forall (E : sengine) target other, smerge_data E l target other = E (ld_jt l) (ld_left l) (ld_right l) target other) /\
  (forall S T, st_cols (smerge_data srel_join l S T) = join_schema (st_cols S) (st_cols T) /\
               bag_eq (st_rows (smerge_data srel_join l S T)) (merge_data rel_join l (st_rows S) (st_rows T))).
Proof. intros l. split; [reflexivity|]. split; [reflexivity|]. apply smerge_data_is_merge_data_l. Qed.
Print Assumptions C12_merge_call_total.

(* why ordinary runs cannot tell the early return ("left-preserving join type and 0 rows on the right: keep the target") from
   the code: it is the code whenever the other table has a row, and in the schema-less view (bags of rows, absent = null) also
   for LEFT / OUTER / APPEND with 0 rows - there only UNION differs.  The column set must be observed. *)
Theorem C12_merge_call_skip_invisible : forall l,
  (forall (E : sengine) target other, st_rows other <> [] ->
     smerge_data_skip_empty E l target other = smerge_data E l target other) /\
  (ld_jt l <> JUnion -> forall L R, merge_data_skip_empty rel_join l L R = merge_data rel_join l L R).
Proof. intros l. split; [intros; now apply skip_empty_same_nonempty_l | intros; now apply skip_empty_schemaless_l]. Qed.
Print Assumptions C12_merge_call_skip_invisible.

(* seed C12_r6: LEFT / OUTER lose the right table's columns (rid, rval); UNION keeps the duplicate row of the left table *)
Example C12_merge_call_skip_empty_right_refuted :
  st_cols (smerge_data srel_join we_left (we_lcols, we_L) (we_rcols, [])) = ["lid"; "lval"; "rid"; "rval"] /\
  st_cols (smerge_data_skip_empty srel_join we_left (we_lcols, we_L) (we_rcols, [])) = ["lid"; "lval"] /\
  forallb (fun r => has_col "rval" r && has_col "rid" r) (st_rows (smerge_data srel_join we_left (we_lcols, we_L) (we_rcols, []))) = true /\
  forallb (fun r => negb (has_col "rval" r) && negb (has_col "rid" r))
          (st_rows (smerge_data_skip_empty srel_join we_left (we_lcols, we_L) (we_rcols, []))) = true /\
  st_cols (smerge_data_skip_empty srel_join we_outer (we_lcols, we_L) (we_rcols, [])) = ["lid"; "lval"] /\
  List.length (merge_data rel_join we_union we_L []) = 2%nat /\
  List.length (merge_data_skip_empty rel_join we_union we_L []) = 3%nat /\
  ~ bag_eq (merge_data_skip_empty rel_join we_union we_L []) (merge_data rel_join we_union we_L []).
Proof. exact skip_empty_refuted_l. Qed.
Print Assumptions C12_merge_call_skip_empty_right_refuted.
