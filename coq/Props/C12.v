(* C12 -- every framework's merge engine implements the same relational operators.
   Property theorems only (proofs in Proofs/RelLemmas.v and Proofs/MergePyDictP.v).

   Spec  : Spec/Rel.v        rel_join (inner / left / right / outer / append / union), bag_eq
   Model : Model/MergePyDict.v  merge_pydict = BaseMergeEngine.merge dispatch + PythonDictMergeEngine, faithful
   `ord` is the iteration order of the Python set `all_keys` in _outer_join (any rearrangement).
   rows_wf says that rows are dictionaries (no column bound twice) -- a well-formedness condition of the
   encoding, not a defect domain.

   FULL STATEMENT (refuted on the faithful model, see the four *_refuted theorems):
     forall ord jt L R lk rk, (forall l, Permutation (ord l) l) -> rows_wf L = true -> rows_wf R = true ->
       bag_eq (merge_pydict ord jt L R lk rk) (rel_join jt lk rk L R).
   PROVED: the same for all tables and key lists of any size OUTSIDE the four decidable known-defect domains
     kf_dup_key            two rows with equal key tuples on a side the engine turns into a {key: row} map
     kf_null_key           a left and a right row with equal key tuples containing None (None keys are joined)
     kf_overlap_cols       a column name in both tables that is not a key column of both at the same position
     kf_union_partial_dup  (union) "same key tuple" and "same row" disagree for two rows
   The pandas and pyarrow engines are library calls; they are compared with rel_join by the harness only. *)
From Coq Require Import List Bool ZArith String Permutation.
Import ListNotations.
Require Import MV.Spec.Rel MV.Model.MergePyDict MV.Model.MergeLibRef MV.Proofs.RelLemmas MV.Proofs.MergePyDictP
               MV.Proofs.MergeLibRefP.
Open Scope string_scope.
Open Scope list_scope.

Theorem pydict_merge_refines : forall ord jt L R lk rk,
  (forall l, Permutation (ord l) l) ->
  rows_wf L = true -> rows_wf R = true ->
  kf_dup_key jt L R lk rk = false ->
  kf_null_key jt L R lk rk = false ->
  kf_overlap_cols jt L R lk rk = false ->
  kf_union_partial_dup jt L R lk rk = false ->
  bag_eq (merge_pydict ord jt L R lk rk) (rel_join jt lk rk L R).
Proof. exact pydict_merge_refines_l. Qed.
Print Assumptions pydict_merge_refines.

(* one witness per domain; each lies in that domain only, and the model differs from the spec on it *)
Theorem kf_dup_key_refuted :
  kf_dup_key JInner wdup_L wdup_R ["k"] ["k"] = true /\
  kf_null_key JInner wdup_L wdup_R ["k"] ["k"] = false /\
  kf_overlap_cols JInner wdup_L wdup_R ["k"] ["k"] = false /\
  (forall jt, In jt [JInner; JLeft; JOuter] ->
     ~ bag_eq (merge_pydict idord jt wdup_L wdup_R ["k"] ["k"]) (rel_join jt ["k"] ["k"] wdup_L wdup_R)) /\
  kf_dup_key JRight wdup_R wdup_L ["k"] ["k"] = true /\
  ~ bag_eq (merge_pydict idord JRight wdup_R wdup_L ["k"] ["k"]) (rel_join JRight ["k"] ["k"] wdup_R wdup_L).
Proof. exact dup_key_refuted_l. Qed.
Print Assumptions kf_dup_key_refuted.

Theorem kf_null_key_refuted :
  kf_null_key JInner wnull_L wnull_R ["k"] ["k"] = true /\
  kf_dup_key JOuter wnull_L wnull_R ["k"] ["k"] = false /\
  kf_overlap_cols JInner wnull_L wnull_R ["k"] ["k"] = false /\
  (forall jt, is_join jt = true ->
     ~ bag_eq (merge_pydict idord jt wnull_L wnull_R ["k"] ["k"]) (rel_join jt ["k"] ["k"] wnull_L wnull_R)).
Proof. exact null_key_refuted_l. Qed.
Print Assumptions kf_null_key_refuted.

Theorem kf_overlap_cols_refuted :
  kf_overlap_cols JInner wov_L wov_R ["k"] ["k"] = true /\
  kf_dup_key JOuter wov_L wov_R ["k"] ["k"] = false /\
  kf_null_key JInner wov_L wov_R ["k"] ["k"] = false /\
  (forall jt, is_join jt = true ->
     ~ bag_eq (merge_pydict idord jt wov_L wov_R ["k"] ["k"]) (rel_join jt ["k"] ["k"] wov_L wov_R)).
Proof. exact overlap_cols_refuted_l. Qed.
Print Assumptions kf_overlap_cols_refuted.

Theorem kf_union_partial_dup_refuted :
  kf_union_partial_dup JUnion wun_L wun_R ["k"] ["k"] = true /\
  ~ bag_eq (merge_pydict idord JUnion wun_L wun_R ["k"] ["k"]) (rel_join JUnion ["k"] ["k"] wun_L wun_R) /\
  ~ bag_eq (merge_pydict idord JUnion wov_L wov_L ["k"] ["v"]) (rel_join JUnion ["k"] ["v"] wov_L wov_L).
Proof. exact union_partial_dup_refuted_l. Qed.
Print Assumptions kf_union_partial_dup_refuted.

(* The reference DESCRIPTION of the pandas engine used by the harness (Model/MergeLibRef.v: NaN keys equal, _x/_y
   suffixes) is the relational operator outside its two deviation domains.  Nothing is claimed about pandas itself:
   the description is tied to pandas only by the correspondence check. *)
Theorem pandas_ref_refines_partial : forall jt lk rk lcols rcols L R,
  pandas_overlap lk rk lcols rcols = [] ->
  kf_null_key jt L R lk rk = false ->
  bag_eq (pandas_ref jt lk rk lcols rcols L R) (rel_join jt lk rk L R).
Proof. exact pandas_ref_refines_partial_l. Qed.
Print Assumptions pandas_ref_refines_partial.

(* the same for the reference description of the pyarrow engine (Acero keeps one key set, mloda_right_index copy,
   append only for identical schemas, no union): outside arrow_dom it is the relational operator *)
Theorem arrow_ref_refines_partial : forall jt lk rk lcols rcols L R t,
  arrow_dom jt lk rk lcols rcols = false ->
  arrow_ref jt lk rk lcols rcols L R = Some t ->
  bag_eq t (rel_join jt lk rk L R).
Proof. exact arrow_ref_refines_partial_l. Qed.
Print Assumptions arrow_ref_refines_partial.

(* what bag_eq means: canonical rows are equal exactly when the rows read the same on every column,
   and the boolean test used by the correspondence checkers decides bag_eq *)
Theorem C12_canon_sound_complete : forall r1 r2, canon r1 = canon r2 <-> (forall c, get c r1 = get c r2).
Proof. exact canon_equiv. Qed.
Print Assumptions C12_canon_sound_complete.

Theorem C12_bag_eqb_decides : forall t1 t2, bag_eqb t1 t2 = true <-> bag_eq t1 t2.
Proof. exact bag_eqb_spec. Qed.
Print Assumptions C12_bag_eqb_decides.

(* algebra of the specification itself *)
Theorem C12_union_is_duplicate_free_concat : forall L R,
  NoDup (map canon (rel_union L R)) /\
  (forall x, In x (map canon (rel_union L R)) <-> In x (map canon (L ++ R))).
Proof. exact rel_union_spec. Qed.
Print Assumptions C12_union_is_duplicate_free_concat.

Theorem C12_union_idempotent : forall T, NoDup (map canon T) -> rel_union T T = T.
Proof. exact rel_union_idem_nodup. Qed.
Print Assumptions C12_union_idempotent.

Theorem C12_append_assoc : forall A B C, rel_append (rel_append A B) C = rel_append A (rel_append B C).
Proof. exact rel_append_assoc. Qed.
Print Assumptions C12_append_assoc.

Theorem C12_right_is_swapped_left : forall lk rk L R,
  overlap_free lk rk L R = true -> bag_eq (rel_join JRight lk rk L R) (rel_join JLeft rk lk R L).
Proof. exact rel_right_left_swap. Qed.
Print Assumptions C12_right_is_swapped_left.

Theorem C12_inner_commutative : forall lk rk L R,
  overlap_free lk rk L R = true -> bag_eq (rel_join JInner lk rk L R) (rel_join JInner rk lk R L).
Proof. exact rel_inner_comm. Qed.
Print Assumptions C12_inner_commutative.

Theorem C12_outer_commutative : forall lk rk L R,
  overlap_free lk rk L R = true -> bag_eq (rel_join JOuter lk rk L R) (rel_join JOuter rk lk R L).
Proof. exact rel_outer_comm. Qed.
Print Assumptions C12_outer_commutative.

(* the joins as nested loops (what an engine executes) are the declarative operators *)
Theorem C12_left_join_nested_loop : forall lk rk L R, Permutation (left_nested lk rk L R) (rel_join JLeft lk rk L R).
Proof. exact left_nested_perm. Qed.
Print Assumptions C12_left_join_nested_loop.

Theorem C12_right_join_nested_loop : forall lk rk L R, Permutation (right_nested lk rk L R) (rel_join JRight lk rk L R).
Proof. exact right_nested_perm. Qed.
Print Assumptions C12_right_join_nested_loop.

(* non-vacuity: an instance with matched, left-only, right-only and null-key rows and differently named keys
   lies outside every domain; the guarded theorem applies to it and the result is the expected table *)
Example C12_hypotheses_satisfiable :
  forallb (fun jt => negb (in_kf jt ex_L ex_R ["k"] ["j"])) [JInner; JLeft; JRight; JOuter; JAppend] = true /\
  rows_wf ex_L = true /\ rows_wf ex_R = true /\
  map canon (merge_pydict idord JOuter ex_L ex_R ["k"] ["j"]) =
    [ [("a", VInt 10); ("b", VStr "x"); ("j", VInt 1); ("k", VInt 1)];
      [("a", VInt 20); ("k", VInt 2)];
      [("a", VInt 30)];
      [("b", VStr "y"); ("j", VInt 3)] ]%Z /\
  forallb (fun jt => bag_eqb (merge_pydict idord jt ex_L ex_R ["k"] ["j"]) (rel_join jt ["k"] ["j"] ex_L ex_R))
          [JInner; JLeft; JRight; JOuter; JAppend] = true /\
  in_kf JUnion ex_UL ex_UR ["k"] ["k"] = false /\
  map canon (merge_pydict idord JUnion ex_UL ex_UR ["k"] ["k"]) =
    [ [("a", VInt 10); ("k", VInt 1)]; [("a", VInt 20); ("k", VInt 2)]; [("k", VInt 3)] ]%Z.
Proof. exact example_outside_domains_l. Qed.
