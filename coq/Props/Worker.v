(* Orchestrator <-> worker protocol (Model/Worker.v; THREADING and MULTIPROCESSING back ends of mloda/core/runtime).
   Property theorems only.  Every statement holds for ALL plans, assignments of steps to workers, failure oracles and
   INTERLEAVINGS: `reach c st` = st is the state after some trace of the labelled transition system from the initial
   state (induction over traces; no bound on plan size, number of workers or trace length).
   plan_ok = the hypotheses of Model/Orch.v's theorems (distinct step ids, non-empty and pairwise disjoint produced
   sets); they follow from the executable check wf_plan that runs on every exported plan (Worker_wf_plan_ok). *)
From Coq Require Import List Bool Arith.
Import ListNotations.
Require Import MV.Model.Orch MV.Proofs.OrchP MV.Model.Worker MV.Spec.WorkerSpec.
Require Import MV.Proofs.WorkerP MV.Proofs.WorkerExitP MV.Proofs.WorkerRefP MV.Proofs.WorkerStaleP MV.Proofs.WorkerStreamP MV.Proofs.WorkerLiveP MV.Proofs.WorkerWitP.

Theorem Worker_wf_plan_ok : forall order p, wf_plan order p = true -> plan_ok p /\ NoDup (map sid p).
Proof. exact wf_plan_ok. Qed.
Print Assumptions Worker_wf_plan_ok.

(* ================================================================================================================== *)
(* (1) every submitted command yields at most one result message (success or error report) ...                        *)
Theorem Worker_at_most_one_reply : forall c, plan_ok (cplan c) -> forall st, reach c st -> forall s,
  n_replies st s <= 1 /\ (forall ok, In (s, ok) (replies st) -> exists w, In (w, s) (sent st)).
Proof. exact at_most_one_reply_l. Qed.
Print Assumptions Worker_at_most_one_reply.

(* ... a step is submitted at most once ... *)
Theorem Worker_submitted_once : forall c, plan_ok (cplan c) -> forall st, reach c st -> NoDup (map snd (sent st)).
Proof. exact submitted_once_l. Qed.
Print Assumptions Worker_submitted_once.

(* ... and, under the fairness premise "no worker transition is enabled in the last state of the trace", EXACTLY one -
   unless the worker that holds the command is dead (it failed on another command, was killed by terminate(), crashed in the
   drop path or exited after its last drop) and never answered it. *)
Theorem Worker_exactly_one_reply_fair : forall c, plan_ok (cplan c) -> forall st, reach c st -> quiescent c st ->
  forall w s, In (w, s) (sent st) -> n_replies st s = 1 \/ (n_replies st s = 0 /\ dead (phase (ws st w)) = true).
Proof. exact exactly_one_reply_l. Qed.
Print Assumptions Worker_exactly_one_reply_fair.

Theorem Worker_exactly_one_reply_live_worker : forall c, plan_ok (cplan c) -> forall st, reach c st -> quiescent c st ->
  forall w s, In (w, s) (sent st) -> alive (phase (ws st w)) = true -> n_replies st s = 1.
Proof. exact exactly_one_reply_alive_l. Qed.
Print Assumptions Worker_exactly_one_reply_live_worker.

(* ================================================================================================================== *)
(* (2) a failure inside a worker (the execution raised, or the upload of its dataset raised) is never lost and never
   turned into a success: the step is in the error register, never counts as done, no success message exists for it,
   and the call cannot return normally (C08 at protocol level). *)
Theorem Worker_failure_reported : forall c, plan_ok (cplan c) -> forall st s, reach c st -> In (s, false) (replies st) ->
  failure_reported st s.
Proof. exact failure_reported_l. Qed.
Print Assumptions Worker_failure_reported.

(* the error raised at the loop head names real failures only: a started step of the plan whose worker reported it *)
Theorem Worker_raised_head_origin : forall c, plan_ok (cplan c) -> forall st, reach c st -> xk (pc st) = Some XRaisedHead ->
  failed (o st) <> [] /\ forall s, In s (failed (o st)) ->
    In (s, false) (replies st) /\ In s (started_ids (o st)) /\ ~ In s (done (o st)) /\ exists t, In t (cplan c) /\ sid t = s.
Proof. exact raised_head_origin_l. Qed.
Print Assumptions Worker_raised_head_origin.

Theorem Worker_normal_exit_clean : forall c, plan_ok (cplan c) -> forall st, reach c st -> xk (pc st) = Some XNormal ->
  failed (o st) = [] /\ (forall s, ~ In (s, false) (replies st)) /\ forall t, In t (cplan c) -> In (sid t) (done (o st)).
Proof. exact normal_exit_clean_l. Qed.
Print Assumptions Worker_normal_exit_clean.

(* the source evaluates the while-condition BEFORE the error flag (an error could be missed if everything were finished):
   on reachable states this order is irrelevant *)
Theorem Worker_head_order_irrelevant : forall c, plan_ok (cplan c) -> forall st, reach c st ->
  head_src (cplan c) (o st) = loop_head (cplan c) (o st).
Proof. exact head_src_loop_head_l. Qed.
Print Assumptions Worker_head_order_irrelevant.

(* The ONE place where a failure inside a worker is lost: crash point CWorkerDrop (_handle_data_dropping is outside the
   try block of the worker loop).  The process dies silently, the main thread waits 5 s, the call returns normally. *)
Theorem Worker_drop_failure_lost_refuted : exists st, exec (wc_mp nof) pinit tr_workerdrop = Some st /\ pc st = PExited XNormal /\
  phase (ws st 5) = WCrashed /\ failed (o st) = [] /\ flight st = [].
Proof. exact worker_drop_failure_lost_refuted_l. Qed.
Print Assumptions Worker_drop_failure_lost_refuted.

(* ------------------------------------------------------------------------------------------------------------------ *)
(* (2b) Conversely: a run WITHOUT any failure does not raise.
   PRE-10693fe BEHAVIOUR (regression input; `exec_old` = the transition function with the poll_result_queues of the code
   before repair 10693fe, Model/Worker.v poll_old / step_old): a DROP_COMPLETE arriving after the 5 s timeout of
   wait_for_drop_completion was later taken by poll_result_queues, where UUID(("DROP_COMPLETE", uuid)) raised - a run in
   which NOTHING fails ended XRaisedBody.  Was known finding C06-mp-stale-drop-complete, now fixed:10693fe. *)
Theorem Worker_stale_drop_complete_old_refuted : exists st, exec_old wc_stale pinit tr_stale = Some st /\ pc st = PExited XRaisedBody /\
  failed (o st) = [] /\ replies st = [(1, true); (0, true)] /\ phase (ws st 6) = WKilled.
Proof. exact stale_drop_complete_old_refuted_l. Qed.
Print Assumptions Worker_stale_drop_complete_old_refuted.

(* The repaired code: that history is no longer a trace (its first label that is not enabled is the OArtifacts after the
   poll) ... *)
Theorem Worker_stale_old_history_rejected : exec wc_stale pinit tr_stale = None /\
  first_bad wc_stale pinit tr_stale 0 = Some (List.length tr_stale_prefix).
Proof. exact stale_old_history_rejected_l. Qed.
Print Assumptions Worker_stale_old_history_rejected.

(* ... and FOR ALL plans, assignments, oracles and interleavings: in a trace that contains no failure label (no WFail, no
   crash point of the main thread: OCollect false / OExec false / OSendFail / OArtifacts false - polls taking stale
   acknowledgements, timed-out waits, a swallowed final-drop failure and even a crashed drop in a worker are all allowed)
   the error register stays empty, no failure report exists, and the exit kind, if the run has left the loop, is
   XNormal or XAbandon - never XRaisedBody / XRaisedHead / XFinallyCrash. *)
Theorem Worker_stale_ack_harmless : forall c tr st, exec c pinit tr = Some st -> fault_free tr ->
  failed (o st) = [] /\ (forall s, ~ In (s, false) (replies st)) /\
  forall x, xk (pc st) = Some x -> x = XNormal \/ x = XAbandon.
Proof. exact stale_ack_harmless_l. Qed.
Print Assumptions Worker_stale_ack_harmless.

(* a poll never leaves the loop: it moves the main thread from the visit to its done-test, adds exactly the step results
   it took to `done` (a DROP_COMPLETE contributes nothing) and touches nothing but result queues *)
Theorem Worker_poll_never_raises : forall c st taken st', step c st (OPoll taken) = Some st' ->
  (exists i, pc st = PVisit i /\ pc st' = PPolled i) /\
  o st' = fold_left (fun a s => add_done s a) (polled_dones taken) (o st) /\
  (forall w, same_but_resq (ws st' w) (ws st w)) /\
  sc st' = sc st /\ tasks st' = tasks st /\ flight st' = flight st /\ sent st' = sent st /\ replies st' = replies st /\
  dropfail st' = dropfail st /\ undelivered st' = undelivered st.
Proof. exact poll_never_raises_l. Qed.
Print Assumptions Worker_poll_never_raises.

(* a stale acknowledgement taken by a poll - at WHATEVER position of the iteration over the result queues - changes nothing
   except that it has left worker w's result queue: the poll without it is enabled as well and leads to the same state
   with the DROP_COMPLETE still at the head of w's lane *)
Theorem Worker_stale_ack_only_queue : forall c st pre w post st', step c st (OPoll (pre ++ (w, RDropComplete) :: post)) = Some st' ->
  exists st'', step c st (OPoll (pre ++ post)) = Some st'' /\ differ_by_ack st' st'' w.
Proof. exact stale_ack_only_queue_l. Qed.
Print Assumptions Worker_stale_ack_only_queue.

(* the witness run of the old finding now completes: the acknowledgement is consumed, the third step is collected *)
Example Worker_ex_stale_fixed : exists st, exec wc_stale pinit tr_stale_fixed = Some st /\ pc st = PExited XNormal /\
  failed (o st) = [] /\ replies st = [(2, true); (1, true); (0, true)] /\ results (o st) = [2; 1; 0] /\ flight st = [] /\
  resq (ws st 5) = [] /\ phase (ws st 5) = WKilled /\ phase (ws st 6) = WExited.
Proof. exact stale_drop_complete_fixed_l. Qed.
Example Worker_ex_stale_fixed_fault_free : fault_free tr_stale_fixed.
Proof. exact stale_fixed_fault_free_l. Qed.

(* ================================================================================================================== *)
(* (3) refinement.  (a) Every `stable` invariant of Model/Orch.v (preserved by visit, bump, drain, worker_done - the form
   in which Proofs/OrchP.v proves start_requires, start_once, finished_sound, results_sound, ...) holds in EVERY reachable
   protocol state, also in the middle of a loop iteration. *)
Theorem Worker_transfer_stable : forall c, plan_ok (cplan c) -> forall I : ost -> Prop,
  stable false nofail (cplan c) I -> I init -> forall st, reach c st -> I (o st).
Proof. exact reach_stable. Qed.
Print Assumptions Worker_transfer_stable.

Theorem Worker_start_once : forall c, plan_ok (cplan c) -> forall st, reach c st -> NoDup (started_ids (o st)).
Proof. exact start_once_protocol_l. Qed.
Theorem Worker_start_requires : forall c, plan_ok (cplan c) -> forall st, reach c st ->
  forall e, In e (started (o st)) -> start_ok (cplan c) e.
Proof. exact start_requires_protocol_l. Qed.
Theorem Worker_results_sound : forall c, plan_ok (cplan c) -> forall st, reach c st -> I5 (cplan c) (o st).
Proof. exact results_sound_protocol_l. Qed.
Print Assumptions Worker_results_sound.

(* (b) Every trace projects (Model/Worker.v `proj`) to an event list of Model/Orch.v whose run is the protocol's
   orchestrator state: between iterations exactly (up to the ghost snapshot in `started` and the order of `done`); inside
   an iteration that has visited i steps: those i visits applied to the run, plus the buffered late completions. *)
Theorem Worker_refinement : forall c, plan_ok (cplan c) -> NoDup (map sid (cplan c)) ->
  forall tr st, exec c pinit tr = Some st -> refines c st (proj c pinit tr ([], [])).
Proof. exact refinement_l. Qed.
Print Assumptions Worker_refinement.

(* (c) same outcome: a run that leaves the loop at its head (normal exit / error raised) has the loop-head status of
   the projected Orch.v run - so C01 / C08 / C13 theorems about `run` (error_no_normal_exit, exit_all_done, exit_results,
   stream_equals_batch ...) speak about the protocol's exits. *)
Theorem Worker_refinement_outcome : forall c, plan_ok (cplan c) -> NoDup (map sid (cplan c)) ->
  forall tr st x s, exec c pinit tr = Some st -> xk (pc st) = Some x -> status_of x = Some s ->
  sc st = None /\ oeq (o st) (run (cstream c) false nofail (cplan c) (fst (proj c pinit tr ([], [])))) /\
  loop_head (cplan c) (run (cstream c) false nofail (cplan c) (fst (proj c pinit tr ([], [])))) = s.
Proof. exact refinement_outcome_l. Qed.
Print Assumptions Worker_refinement_outcome.

(* ================================================================================================================== *)
(* (4) EVERY exit path (normal, error at the loop head, exception in the loop body: CResult / CPrepare / CSend, consumer
   abandoning the stream) ends with every started worker terminated (processes) and joined, no worker alive - hence no
   worker waiting on a queue -, and every dataset key registered by a worker dropped (C09 at protocol level).
   Full statement: for every x.  It FAILS for x = XFinallyCrash and under a failing final drop (witnesses below), so: *)
Theorem Worker_exit_cleanup_partial : forall c st x, reach c st -> pc st = PExited x -> x <> XFinallyCrash ->
  all_joined c st /\ no_live_worker st /\ tasks_are_the_started_workers st /\
  (mp c = false -> flight st = []) /\ (mp c = true -> dropfail st = false -> flight st = []).
Proof. exact exit_cleanup_l. Qed.
Print Assumptions Worker_exit_cleanup_partial.

(* after such an exit nothing can happen any more (no late worker action, no message consumed) *)
Theorem Worker_exited_terminal : forall c st x l, reach c st -> pc st = PExited x -> x <> XFinallyCrash -> step c st l = None.
Proof. exact exited_terminal_l. Qed.
Print Assumptions Worker_exited_terminal.

(* crash point CArtifacts: set_artifacts(cfw_register.get_artifacts()) precedes self.join() inside the finally block; if
   it raises, join() is not reached: the worker is alive, neither terminated nor joined, its command still queued *)
Theorem Worker_cleanup_artifacts_refuted : exists st, exec (wc_mp nof) pinit tr_artifacts = Some st /\ pc st = PExited XFinallyCrash /\
  In 5 (tasks st) /\ alive (phase (ws st 5)) = true /\ joined (ws st 5) = false /\ terminated (ws st 5) = false /\
  cmdq (ws st 5) = [CStep 0].
Proof. exact cleanup_artifacts_refuted_l. Qed.
Print Assumptions Worker_cleanup_artifacts_refuted.

(* crash point CFinalDrop: an exception of drop_tables in _drop_uploaded_datasets is logged and swallowed: the key stays *)
Theorem Worker_store_leak_final_drop_refuted : exists st, exec (wc_mp nof) pinit tr_finaldrop = Some st /\ pc st = PExited XNormal /\
  flight st = [5] /\ dropfail st = true.
Proof. exact store_leak_final_drop_refuted_l. Qed.
Print Assumptions Worker_store_leak_final_drop_refuted.

(* ================================================================================================================== *)
(* (5) what the consumer of compute_stream receives.  The drain of one loop iteration hands its items over one at a time
   (PYield pending: the consumer holds the head of `pending`; ONext = it asks for the next one).  In every reachable state:
   the pending items are a segment of Orch.v's `yielded`; results are lost (ghost `undelivered` non-empty) ONLY when the
   consumer closed the stream (exit kind XAbandon, or XFinallyCrash when set_artifacts raised after that), and what is lost is
   exactly the part of that drain behind the item the consumer held - at least one item of the drain (`pre`) was delivered.
   No hypothesis about the plan. *)
Theorem Worker_stream_delivery : forall c st, reach c st ->
  (forall pend, pc st = PYield pend ->
     pend <> [] /\ undelivered st = [] /\ exists pre rest, yielded (o st) = pre ++ pend ++ rest) /\
  (undelivered st <> [] ->
     (xk (pc st) = Some XAbandon \/ pc st = PExited XFinallyCrash) /\
     exists pre rest, pre <> [] /\ yielded (o st) = pre ++ undelivered st ++ rest).
Proof. exact stream_delivery_l. Qed.
Print Assumptions Worker_stream_delivery.

(* what is lost was a properly collected result (a completed collecting step of the plan whose outputs are finished) and was
   not also delivered (`yielded` has no duplicates): received = yielded minus undelivered, as counted by chk_proto *)
Theorem Worker_undelivered_sound : forall c, plan_ok (cplan c) -> forall st, reach c st -> forall x, In x (undelivered st) ->
  NoDup (yielded (o st)) /\ In x (yielded (o st)) /\
  exists s, In s (cplan c) /\ sid s = x /\ collects s = true /\ In x (done (o st)) /\ incl (uuids s) (finished (o st)).
Proof. exact undelivered_sound_l. Qed.
Print Assumptions Worker_undelivered_sound.

(* ================================================================================================================== *)
(* (6) what the protocol never does.
   (a) A step result that wait_for_drop_completion took from a result queue and put back (ORequeue) stays in the worker's
   put-back lane until a POLL takes it: no other transition removes it - in particular a timed-out wait (OTimeout) changes
   the program counter and nothing else.  Stated for one transition and for a whole trace. *)
Theorem Worker_requeued_survive_timeout : forall c, plan_ok (cplan c) -> forall st, reach c st -> forall l st', step c st l = Some st' ->
  forall w s, In s (requeued (ws st w)) ->
  In s (requeued (ws st' w)) \/ exists taken, l = OPoll taken /\ In (w, RDone s) taken.
Proof. exact step_requeued. Qed.
Print Assumptions Worker_requeued_survive_timeout.

Theorem Worker_requeued_until_polled : forall c, plan_ok (cplan c) -> forall tr st st', reach c st -> exec c st tr = Some st' ->
  forall w s, In s (requeued (ws st w)) ->
  In s (requeued (ws st' w)) \/ exists taken, In (OPoll taken) tr /\ In (w, RDone s) taken.
Proof. exact exec_requeued. Qed.
Print Assumptions Worker_requeued_until_polled.

Theorem Worker_timeout_changes_only_pc : forall c st w st', step c st (OTimeout w) = Some st' ->
  ws st' = ws st /\ o st' = o st /\ tasks st' = tasks st /\ flight st' = flight st /\ sent st' = sent st /\ replies st' = replies st /\
  exists i, pc st = PWait i w /\ pc st' = PVisit (S i).
Proof. exact timeout_keeps_l. Qed.
Print Assumptions Worker_timeout_changes_only_pc.

(* a put-back result is the success report of a step that does not count as done yet: the run cannot exit normally while
   it is pending (so losing it would make the run spin for ever: every step must be done at a normal exit) *)
Theorem Worker_requeued_pending : forall c, plan_ok (cplan c) -> forall st, reach c st -> forall w s, In s (requeued (ws st w)) ->
  In (s, true) (replies st) /\ ~ In s (done (o st)) /\ xk (pc st) <> Some XNormal.
Proof. exact requeued_pending_l. Qed.
Print Assumptions Worker_requeued_pending.

(* (b) A worker only ends by a failure of its step (WFail), a crash in its drop path (WDropCrash), its LAST drop
   (WDropAck _ true _), terminate() in the finally block (OTerminate) or - THREADING, one thread per step - by finishing its
   step (WDone).  There is no transition by which an idle worker gives up waiting for a command, however long the main
   thread (e.g. suspended at a yield by a slow consumer) sends none.  No hypothesis about the plan. *)
Theorem Worker_death_causes : forall c st, reach c st -> forall l st' w, step c st l = Some st' ->
  dead (phase (ws st w)) = false -> dead (phase (ws st' w)) = true -> death_cause c w l.
Proof. exact death_causes_l. Qed.
Print Assumptions Worker_death_causes.

(* ================================================================================================================== *)
(* non-vacuity *)
Example Worker_ex_plan_ok : plan_ok wp2 /\ NoDup (map sid wp2).
Proof. exact wp2_ok. Qed.
Example Worker_ex_plan3_ok : plan_ok wp3 /\ NoDup (map sid wp3).
Proof. exact wp3_ok. Qed.
(* a complete fault-free MULTIPROCESSING run: 2 commands, 2 results, 2 drop commands, worker exits after the last drop *)
Example Worker_ex_mp_run : exists st, exec (wc_mp nof) pinit tr_mp_ok = Some st /\ pc st = PExited XNormal /\ flight st = [] /\
  replies st = [(1, true); (0, true)] /\ results (o st) = [1; 0] /\ phase (ws st 5) = WExited /\ joined (ws st 5) = true.
Proof. exact ex_mp_ok_l. Qed.
(* THREADING with a failing step: raised at the loop head, both threads joined *)
Example Worker_ex_thr_fail : exists st, exec (wc_thr fail1) pinit tr_thr_fail = Some st /\ pc st = PExited XRaisedHead /\
  failed (o st) = [1] /\ done (o st) = [0] /\ results (o st) = [] /\ joined (ws st 0) = true /\ joined (ws st 1) = true.
Proof. exact ex_thr_fail_l. Qed.
(* crash point CSend (repair d86b7a0: a step that cannot be pickled raises in send_command): the run raises, the worker
   that was already started - with or without an earlier command - is terminated and joined *)
Example Worker_ex_sendfail : exists st, exec (wc_mp nof) pinit tr_sendfail = Some st /\ pc st = PExited XRaisedBody /\
  sent st = [(5, 0)] /\ phase (ws st 5) = WKilled /\ joined (ws st 5) = true /\ running (o st) = [2; 1].
Proof. exact ex_sendfail_l. Qed.
Example Worker_ex_sendfail_new_worker : exists st, exec (wc_mp nof) pinit tr_sendfail_new = Some st /\ pc st = PExited XRaisedBody /\
  sent st = [] /\ tasks st = [5] /\ phase (ws st 5) = WKilled /\ joined (ws st 5) = true.
Proof. exact ex_sendfail_new_l. Qed.
(* a THREADING stream closed after the first of two items of one drain: the second result is lost, both threads joined;
   the same run consumed to the end *)
Example Worker_ex_partial_abandon : exists st, exec wc_thr_stream pinit tr_partial_abandon = Some st /\ pc st = PExited XAbandon /\
  yielded (o st) = [1; 0] /\ undelivered st = [0] /\ joined (ws st 0) = true /\ joined (ws st 1) = true.
Proof. exact ex_partial_abandon_l. Qed.
Example Worker_ex_partial_full : exists st, exec wc_thr_stream pinit tr_partial_full = Some st /\ pc st = PExited XNormal /\
  yielded (o st) = [1; 0] /\ undelivered st = [].
Proof. exact ex_partial_full_l. Qed.
(* the projection of the fault-free run and its Orch.v outcome *)
Example Worker_ex_projection : fst (proj (wc_mp nof) pinit tr_mp_ok ([], [])) = [EScan; EDone 0 true; EDone 1 true; EScan] /\
  loop_head wp2 (run false false nofail wp2 (fst (proj (wc_mp nof) pinit tr_mp_ok ([], [])))) = ExitNormal.
Proof. exact ex_projection_l. Qed.
