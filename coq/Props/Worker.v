(* placeholder: replaced by the theorem statements *)
Require Import MV.Model.Worker.
