(* C13 — streaming yields the same results as the batch call.  Property theorems only.
   `run true ...` is compute_stream (results drained to the consumer after every loop iteration), `run false ...` is
   compute; both consume the SAME event trace (same schedule of worker completions / failures). *)
From Coq Require Import List Bool Arith.
Import ListNotations.
Require Import MV.Model.Orch MV.Proofs.OrchP.

(* for every plan, back end, failure oracle and trace: what has been yielded equals what the batch run has collected,
   and both runs are in the same loop state (exit / raise / looping) *)
Theorem C13_stream_equals_batch : forall inline fails p es,
  yielded (run true inline fails p es) = results (run false inline fails p es) /\
  loop_head p (run true inline fails p es) = loop_head p (run false inline fails p es).
Proof. exact stream_equals_batch_l. Qed.
Print Assumptions C13_stream_equals_batch.

(* nothing is held back at an iteration boundary, in particular at exit *)
Theorem C13_nothing_held_back : forall inline fails p es, results (run true inline fails p es) = [].
Proof. exact stream_results_empty_l. Qed.
Print Assumptions C13_nothing_held_back.

(* nothing is yielded twice, and every yielded item is the result of one requested feature-group step whose execution
   had completed and whose features were all finished when it was collected *)
Theorem C13_items_complete_and_unique : forall stream inline fails p,
  (forall s s', In s p -> In s' p -> sid s = sid s' -> s = s') ->
  forall es,
  NoDup (results (run stream inline fails p es) ++ yielded (run stream inline fails p es)) /\
  forall x, In x (results (run stream inline fails p es) ++ yielded (run stream inline fails p es)) ->
    exists s, In s p /\ sid s = x /\ collects s = true /\ In x (done (run stream inline fails p es)) /\
              incl (uuids s) (finished (run stream inline fails p es)).
Proof. exact results_sound_l. Qed.
Print Assumptions C13_items_complete_and_unique.

(* nothing is lost: at normal exit the yielded/collected items are exactly the requested feature-group steps *)
Theorem C13_nothing_lost : forall stream inline fails p,
  (forall s s', In s p -> In s' p -> sid s = sid s' -> s = s') ->
  (forall s, In s p -> uuids s <> []) ->
  (forall s s' u, In s p -> In s' p -> In u (uuids s) -> In u (uuids s') -> s = s') ->
  forall es, loop_head p (run stream inline fails p es) = ExitNormal ->
  NoDup (results (run stream inline fails p es) ++ yielded (run stream inline fails p es)) /\
  forall x, In x (results (run stream inline fails p es) ++ yielded (run stream inline fails p es)) <->
            exists s, In s p /\ sid s = x /\ collects s = true.
Proof. exact exit_results_l. Qed.
Print Assumptions C13_nothing_lost.

Definition ex13 : plan :=
  [ {| sid := 0; skind := KFG; uuids := [1]; req := []; requested := true |};
    {| sid := 1; skind := KFG; uuids := [2]; req := [1]; requested := true |} ].
Example C13_example :
  yielded (run true true (fun _ => false) ex13 (repeat EScan 3)) = [1; 0] /\
  results (run false true (fun _ => false) ex13 (repeat EScan 3)) = [1; 0] /\
  loop_head ex13 (run true true (fun _ => false) ex13 (repeat EScan 3)) = ExitNormal.
Proof. vm_compute. repeat split. Qed.

(* ------------------------------------------------------------------------------------------------------------
   LIVE runs: several streamed runs of ONE prepared session that exist at the same time and are advanced by the consumer in
   an arbitrary interleaving (Model/SessionLive.v; `lexec true reset` is the code: Engine.compute gives every run its own deep
   copy of the plan, incl. the step_is_done flags).  Spec/SessionLiveSpec.v: `sexec` = ONE run executed alone, `solo i n ops` =
   the part of the interleaved history that concerns run i, `sevents` = the events between its open and its close. *)
Require Import MV.Model.Session MV.Model.SessionLive MV.Spec.SessionLiveSpec MV.Proofs.SessionLiveP.

(* for EVERY history -- any number of runs, any interleaving of their loop iterations and worker completions, opens and closes
   anywhere, batch runs in between -- from ANY session state, and every run number i: run i is exactly the run the alone
   machine produces from its own part of the history *)
Theorem C13_live_interleaving_invariant : forall reset ops s i,
  nth_error (v_runs (lexec true reset s ops)) i =
  sexec reset (v_plan s) (v_api s) (v_flags s) (nth_error (v_runs s) i) (solo i (List.length (v_runs s)) ops).
Proof. exact live_interleaving_invariant_l. Qed.
Print Assumptions C13_live_interleaving_invariant.

(* two interleavings that agree on what concerns run i leave run i in the same state (what the other runs do, and when, is
   invisible to it) *)
Theorem C13_live_interleavings_agree : forall reset p a0 ops1 ops2 i, solo i 0 ops1 = solo i 0 ops2 ->
  nth_error (v_runs (lexec true reset (lprepare p a0) ops1)) i = nth_error (v_runs (lexec true reset (lprepare p a0) ops2)) i.
Proof. exact live_interleavings_agree_l. Qed.
Print Assumptions C13_live_interleavings_agree.

(* hence every live run is the orchestrator run of Model/Orch.v on its own events, and a streamed one has yielded exactly what
   the batch loop collects on the same events, in the same loop state (exit / raise / looping): C13_stream_equals_batch holds
   for each of the interleaved streams *)
Theorem C13_live_runs_equal_batch : forall reset p a0 ops i r,
  nth_error (v_runs (lexec true reset (lprepare p a0) ops)) i = Some r ->
  let es := sevents false (solo i 0 ops) in
  l_st r = run (l_stream r) (l_inline r) (memf (l_fails r)) p es /\
  (l_stream r = true ->
     yielded (l_st r) = results (run false (l_inline r) (memf (l_fails r)) p es) /\
     loop_head p (l_st r) = loop_head p (run false (l_inline r) (memf (l_fails r)) p es)).
Proof. exact live_runs_equal_batch_l. Qed.
Print Assumptions C13_live_runs_equal_batch.

(* the session's own step_is_done flags are never written by a live run *)
Theorem C13_live_master_flags : forall reset ops s, v_flags (lexec true reset s ops) = v_flags s.
Proof. exact live_master_flags_l. Qed.
Print Assumptions C13_live_master_flags.

(* the statement depends on the private copies.  Shared step objects whose flags are reset when a run is opened (a shallow
   plan copy + `step.step_is_done = False`; passes every strictly sequential history): SYNC, chain of three requested steps,
   2 items of stream 1, stream 2 opened and 1 item taken, stream 1 resumed -- for EVERY number n of further loop iterations
   stream 1 is still looping and has yielded 2 of its 3 items; with private copies one iteration ends it with all three *)
Theorem C13_live_shared_reset_refuted : forall n,
  (exists r, nth_error (v_runs (lexec false true (lprepare chain3 None) (ops_overlap ++ repeat (LStep 0 EScan) n))) 0 = Some r /\
             run_status chain3 r = Looping /\ run_items r = [0; 1]) /\
  (exists r, nth_error (v_runs (lexec true true (lprepare chain3 None) (ops_overlap ++ repeat (LStep 0 EScan) (S n)))) 0 = Some r /\
             run_status chain3 r = ExitNormal /\ run_items r = [0; 1; 2]).
Proof. exact live_shared_reset_refuted_l. Qed.
Print Assumptions C13_live_shared_reset_refuted.

(* shared step objects without a reset, THREADING: stream 2 yields the result of step 0 although its own events are two loop
   iterations and NO worker completion (it found the flag stream 1's worker had set); with private copies it yields nothing *)
Theorem C13_live_shared_flags_refuted :
  (exists r, nth_error (v_runs (lexec false false (lprepare chain3 None) ops_stale)) 1 = Some r /\
             run_items r = [0] /\ sevents false (solo 1 0 ops_stale) = [EScan; EScan]) /\
  (exists r, nth_error (v_runs (lexec true false (lprepare chain3 None) ops_stale)) 1 = Some r /\ run_items r = []).
Proof. exact live_shared_flags_refuted_l. Qed.
Print Assumptions C13_live_shared_flags_refuted.

(* non-trivial instance: three streams of one session, interleaved iteration by iteration, one closed midway; each has yielded
   what it yields alone; and the observation checker accepts exactly the run of the code's model on the seed's history *)
Example C13_live_example :
  let ops := [LOpen true None true []; LStep 0 EScan; LStep 0 EScan; LOpen true None false []; LStep 1 EScan; LStep 0 EScan;
              LOpen true None true []; LStep 2 EScan; LStep 1 (EDone 0 true); LStep 2 EScan; LClose 2; LStep 1 EScan;
              LStep 2 EScan; LStep 0 EScan; LStep 2 EScan] in
  map run_items (v_runs (lexec true false (lprepare chain3 None) ops)) = [[0; 1; 2]; [0]; [0]] /\
  map l_closed (v_runs (lexec true false (lprepare chain3 None) ops)) = [false; false; true] /\
  chk_live (chain3, [AOpen true true []; ANext 0 (Some 0) 2; ANext 0 (Some 1) 1; AOpen true true []; ANext 1 (Some 0) 2;
                     ANext 0 (Some 2) 1; ANext 0 None 0; ANext 1 (Some 1) 1; AClose 1]) = true /\
  chk_live (chain3, [AOpen true true []; ANext 0 (Some 0) 2; ANext 0 (Some 1) 1; AOpen true true []; ANext 1 (Some 0) 2;
                     AHang 0]) = false /\
  chk_live_shared true (chain3, [AOpen true true []; ANext 0 (Some 0) 2; ANext 0 (Some 1) 1; AOpen true true [];
                                 ANext 1 (Some 0) 2; AHang 0]) = true.
Proof. vm_compute. repeat split. Qed.
