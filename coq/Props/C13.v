(* C13 — streaming yields the same results as the batch call.  Property theorems only.
   `run true ...` is compute_stream (results drained to the consumer after every loop iteration), `run false ...` is
   compute; both consume the SAME event trace (same schedule of worker completions / failures). *)
From Coq Require Import List Bool Arith.
Import ListNotations.
Require Import MV.Model.Orch MV.Proofs.OrchP.

(* for every plan, back end, failure oracle and trace: what has been yielded equals what the batch run has collected,
   and both runs are in the same loop state (exit / raise / looping) *)
Theorem C13_stream_equals_batch : forall inline fails p es,
  yielded (run true inline fails p es) = results (run false inline fails p es) /\
  loop_head p (run true inline fails p es) = loop_head p (run false inline fails p es).
Proof. exact stream_equals_batch_l. Qed.
Print Assumptions C13_stream_equals_batch.

(* nothing is held back at an iteration boundary, in particular at exit *)
Theorem C13_nothing_held_back : forall inline fails p es, results (run true inline fails p es) = [].
Proof. exact stream_results_empty_l. Qed.
Print Assumptions C13_nothing_held_back.

(* nothing is yielded twice, and every yielded item is the result of one requested feature-group step whose execution
   had completed and whose features were all finished when it was collected *)
Theorem C13_items_complete_and_unique : forall stream inline fails p,
  (forall s s', In s p -> In s' p -> sid s = sid s' -> s = s') ->
  forall es,
  NoDup (results (run stream inline fails p es) ++ yielded (run stream inline fails p es)) /\
  forall x, In x (results (run stream inline fails p es) ++ yielded (run stream inline fails p es)) ->
    exists s, In s p /\ sid s = x /\ collects s = true /\ In x (done (run stream inline fails p es)) /\
              incl (uuids s) (finished (run stream inline fails p es)).
Proof. exact results_sound_l. Qed.
Print Assumptions C13_items_complete_and_unique.

(* nothing is lost: at normal exit the yielded/collected items are exactly the requested feature-group steps *)
Theorem C13_nothing_lost : forall stream inline fails p,
  (forall s s', In s p -> In s' p -> sid s = sid s' -> s = s') ->
  (forall s, In s p -> uuids s <> []) ->
  (forall s s' u, In s p -> In s' p -> In u (uuids s) -> In u (uuids s') -> s = s') ->
  forall es, loop_head p (run stream inline fails p es) = ExitNormal ->
  NoDup (results (run stream inline fails p es) ++ yielded (run stream inline fails p es)) /\
  forall x, In x (results (run stream inline fails p es) ++ yielded (run stream inline fails p es)) <->
            exists s, In s p /\ sid s = x /\ collects s = true.
Proof. exact exit_results_l. Qed.
Print Assumptions C13_nothing_lost.

Definition ex13 : plan :=
  [ {| sid := 0; skind := KFG; uuids := [1]; req := []; requested := true |};
    {| sid := 1; skind := KFG; uuids := [2]; req := [1]; requested := true |} ].
Example C13_example :
  yielded (run true true (fun _ => false) ex13 (repeat EScan 3)) = [1; 0] /\
  results (run false true (fun _ => false) ex13 (repeat EScan 3)) = [1; 0] /\
  loop_head ex13 (run true true (fun _ => false) ex13 (repeat EScan 3)) = ExitNormal.
Proof. vm_compute. repeat split. Qed.
