(* C11 — the path from GlobalFilter.add_filter(...) to the column an engine reads.
   Property theorems only (proofs in Proofs/FilterPathP.v).

   Spec/FilterPath.v  : a global filter on column c restricts exactly the tables of the feature groups that expose c
                        (declared name or sub-column base~i of one) and is evaluated ON COLUMN c (`path_expected`).
   Model/FilterPath.v : identity_matched_filters (criteria / domain / compute framework / unify_options / copies),
                        Engine._add_filter_feature (rename with ANY set_feature_name, collection),
                        the feature set's names, the gate of apply_single_filters, the column the engines read.
   `rename : options -> string -> string` is universally quantified: the default set_feature_name
   (`fun _ => default_rename supported`) and every overriding feature group are instances.
   The list order of the filters stands for the iteration order of the Python sets on the path. *)
From Coq Require Import List Bool ZArith String.
Import ListNotations.
Require Import MV.Spec.Filter MV.Spec.FilterPath MV.Model.FilterPyDict MV.Model.FilterPath.
Require Import MV.Proofs.FilterPathP.
Open Scope string_scope.

(* ---- the spec is Spec/Filter.v's row predicate, applied to the filters whose column the group exposes ---- *)
Theorem C11path_spec_refines_filter_spec : forall D fs t,
  path_expected D fs t = expected (exposed_columns D fs) fs t.
Proof. exact path_spec_refines_l. Qed.
Print Assumptions C11path_spec_refines_filter_spec.

(* ---- MAIN: for every renaming function, every table, every filter type and any number of filters given by column
        name: the rows that come out of the path are exactly the rows of the table that satisfy every filter whose
        column the group exposes, EACH EVALUATED ON THE COLUMN THE USER NAMED.
        Full statement (does NOT hold on the unchanged tree, see C11path_collapse_refuted):
          forall rename g feat requested fs t, tilde_free (declared g) -> plain_feature feat -> (fine filters) ->
            run_path rename g feat requested (map plain_filter fs) t = Done (Ok (path_expected (declared g) fs t)).
        Proved outside the decidable domain kf_collapse (two copies that differ in the user's column become equal by
        the rename).  plain_feature: the processed feature has no context option (known finding
        C11-context-options-filter-lost, C11path_context_option_refuted) and its group options have distinct keys;
        tilde_free: no declared feature name contains "~". ---- *)
Theorem C11path_rows_on_user_column_partial : forall (rename : options -> string -> string) g feat requested fs t,
  tilde_free (declared g) -> plain_feature feat ->
  kf_collapse rename g feat (map plain_filter fs) = false ->
  (forall f, In f fs -> exposes (declared g) (f_col f) = true -> fineb f t = true) ->
  run_path rename g feat requested (map plain_filter fs) t = Done (Ok (path_expected (declared g) fs t)).
Proof. exact path_rows_l. Qed.
Print Assumptions C11path_rows_on_user_column_partial.

(* inside kf_collapse: emb~1 >= 3 and emb~2 >= 3 on a multi-column feature with the default set_feature_name; only the
   filter that comes first in the set order is applied (rows 0,2,3 or rows 0,1,4); the spec keeps row 0 *)
Theorem C11path_collapse_refuted :
  kf_collapse wA_rename wA_group w_feat (map plain_filter [wC_f1; wC_f2]) = true /\
  fineb wC_f1 wC_table = true /\ fineb wC_f2 wC_table = true /\
  w_ids (run_path wA_rename wA_group w_feat ["id"] (map plain_filter [wC_f1; wC_f2]) wC_table) = Some [VInt 0; VInt 2; VInt 3] /\
  w_ids (run_path wA_rename wA_group w_feat ["id"] (map plain_filter [wC_f2; wC_f1]) wC_table) = Some [VInt 0; VInt 1; VInt 4] /\
  map (fun r => get r "id") (path_expected (declared wA_group) [wC_f1; wC_f2] wC_table) = [VInt 0].
Proof. exact collapse_refuted_l. Qed.
Print Assumptions C11path_collapse_refuted.

(* the iteration order of the sets on the path is irrelevant (outside kf_collapse) *)
Theorem C11path_order_irrelevant : forall (rename : options -> string -> string) g feat requested fs fs' t,
  tilde_free (declared g) -> plain_feature feat ->
  (forall f, In f fs <-> In f fs') ->
  kf_collapse rename g feat (map plain_filter fs) = false -> kf_collapse rename g feat (map plain_filter fs') = false ->
  (forall f, In f fs -> exposes (declared g) (f_col f) = true -> fineb f t = true) ->
  run_path rename g feat requested (map plain_filter fs) t = run_path rename g feat requested (map plain_filter fs') t.
Proof. exact path_order_irrelevant_l. Qed.
Print Assumptions C11path_order_irrelevant.

(* ---- the gate of apply_single_filters fires iff the feature set contains the (renamed) FEATURE-level name ---- *)
Theorem C11path_gate_iff : forall names m, gate names m = true <-> In (ff_name (m_feature m)) names.
Proof. exact gate_iff_l. Qed.
Print Assumptions C11path_gate_iff.

(* ---- whatever reaches an engine was added by the user: it is gated on set_feature_name(unified options, user's
        name) and the engine reads SingleFilter.name = the name captured when the user added the filter (any filter
        features: options, domains, frameworks; any renaming function; no side condition) ---- *)
Theorem C11path_engine_reads_user_column : forall rename g feat requested gfs names ms m,
  plan_path rename g feat requested gfs = Done (names, ms) -> In m ms ->
  exists gf, In gf gfs /\ read_column m = gf_name gf /\ m_type m = gf_type gf /\ m_par m = gf_par gf
             /\ ff_name (m_feature m) = rename (unify_options (r_opts feat) (ff_opts (gf_feature gf))) (ff_name (gf_feature gf)).
Proof. exact engine_reads_user_column_l. Qed.
Print Assumptions C11path_engine_reads_user_column.

(* ---- the model is NOT the variant "evaluate on the renamed name" (seeded regression C11_r2): with the default
        set_feature_name the variant reads the non-existing column emb and drops every row; with an overriding
        group it silently returns another row ---- *)
Theorem C11path_renamed_column_refuted :
  (w_ids (run_path wA_rename wA_group w_feat ["id"] (map plain_filter [wA_range]) wA_table) = Some [VInt 1; VInt 2] /\
   map (fun r => get r "id") (path_expected (declared wA_group) [wA_range] wA_table) = [VInt 1; VInt 2] /\
   w_ids (run_path_with renamed_column wA_rename wA_group w_feat ["id"] (map plain_filter [wA_range]) wA_table) = Some []) /\
  (w_ids (run_path wB_rename wB_group w_feat ["id"; "R1"] (map plain_filter [wB_equal]) wB_table) = Some [VInt 2] /\
   map (fun r => get r "id") (path_expected (declared wB_group) [wB_equal] wB_table) = [VInt 2] /\
   w_ids (run_path_with renamed_column wB_rename wB_group w_feat ["id"; "R1"] (map plain_filter [wB_equal]) wB_table) = Some [VInt 0]).
Proof. exact (conj renamed_column_refuted_default_l renamed_column_refuted_override_l). Qed.
Print Assumptions C11path_renamed_column_refuted.

(* ---- scope: a group that does not expose the filter columns is untouched — any filter features, any renaming
        function, malformed or ill-typed parameters, and also for the variant column selector ---- *)
Theorem C11path_scope : forall sel rename g feat requested gfs t,
  (forall gf, In gf gfs -> exposes (declared g) (ff_name (gf_feature gf)) = false) ->
  run_path_with sel rename g feat requested gfs t = Done (Ok t).
Proof. exact path_scope_l. Qed.
Print Assumptions C11path_scope.

(* ---- matching by name is "the group exposes the column" ---- *)
Theorem C11path_criteria_is_exposes : forall g n, tilde_free (declared g) -> criteria g n = exposes (declared g) n.
Proof. exact criteria_is_exposes_l. Qed.
Print Assumptions C11path_criteria_is_exposes.

(* ---- the default set_feature_name: a sub-column of a supported base name is normalised to the base, every other
        name is unchanged ---- *)
Theorem C11path_default_rename_sub_column : forall sup b s,
  In b sup -> base_name b = b -> default_rename sup (b ++ "~" ++ s) = b.
Proof. exact default_rename_sub_column_l. Qed.
Print Assumptions C11path_default_rename_sub_column.

Theorem C11path_default_rename_otherwise : forall sup n,
  (base_name n = n -> default_rename sup n = n) /\ (~ In (base_name n) sup -> default_rename sup n = n) /\
  (default_rename sup n = n \/ (default_rename sup n = base_name n /\ In (base_name n) sup)).
Proof. exact default_rename_otherwise_l. Qed.
Print Assumptions C11path_default_rename_otherwise.

(* ---- unify_options: the filter feature keeps its own options (its value wins), its context is untouched, and every
        key of the processed feature is present afterwards ---- *)
Theorem C11path_unify_options : forall feat filt,
  (forall k v, lookup k (o_group filt) = Some v -> lookup k (o_group (unify_options feat filt)) = Some v) /\
  o_context (unify_options feat filt) = o_context filt /\
  (forall kv, In kv (o_group feat ++ o_context feat) -> opt_contains (unify_options feat filt) (fst kv) = true).
Proof. exact unify_options_l. Qed.
Print Assumptions C11path_unify_options.

(* ---- domains.  Full statement (does not hold): a filter feature with a domain is matched iff the effective domain of
        the processed feature (its own, else the group's) is that domain, and is ignored otherwise.
        Proved where GlobalFilter.domain does not raise; it raises exactly when the filter has a domain, the processed
        feature has none and the group's domain differs (known finding C11-filter-domain-compare-raises). ---- *)
Theorem C11path_domain_match_partial : forall fd featd gd, domain_match fd featd gd <> MRaise ->
  is_yes (domain_match fd featd gd) = match fd with None => true | Some d => String.eqb d (effective_domain featd gd) end.
Proof. exact domain_match_meaning_l. Qed.
Print Assumptions C11path_domain_match_partial.

Theorem C11path_domain_raises_iff : forall fd featd gd,
  domain_match fd featd gd = MRaise <-> exists d, fd = Some d /\ featd = None /\ domain_name gd <> d.
Proof. exact domain_raises_iff_l. Qed.
Print Assumptions C11path_domain_raises_iff.

Theorem C11path_domain_raises_refuted :
  kf_domain_raises wD_group w_feat [wD_filter] = true /\
  run_path (fun _ n => n) wD_group w_feat ["id"] [wD_filter] wD_table = Raises /\
  run_path (fun _ n => n) wD_group {| r_opts := no_options; r_domain := Some "B"; r_cfw := "PyArrowTable" |} ["id"] [wD_filter] wD_table
    = Done (Ok wD_table).
Proof. exact domain_raises_refuted_l. Qed.
Print Assumptions C11path_domain_raises_refuted.

(* ---- the known finding C11-context-options-filter-lost as this model reproduces it: a context option of the
        processed feature lands in the GROUP options of the filter feature, the gate stays shut, all rows come back ---- *)
Theorem C11path_context_option_refuted :
  w_ids (run_path (fun _ n => n) wE_group wE_feat ["id"] (map plain_filter [wE_filter]) wD_table) = Some [VInt 0; VInt 1] /\
  map (fun r => get r "id") (path_expected (declared wE_group) [wE_filter] wD_table) = [VInt 1] /\
  w_ids (run_path (fun _ n => n) wE_group w_feat ["id"] (map plain_filter [wE_filter]) wD_table) = Some [VInt 1].
Proof. exact context_option_refuted_l. Qed.
Print Assumptions C11path_context_option_refuted.

(* ---- the model is NOT the variant without the deepcopy in identity_matched_filters: there the rename done for one
        feature group hides the filter from the next one ---- *)
Theorem C11path_shared_filter_refuted :
  let good := run_two_groups wF_r1 wF_r2 wF_g1 wF_g2 w_feat ["id1"] ["id2"] (map plain_filter [wE_filter]) wD_table wD_table in
  let shared := run_two_groups_shared wF_r1 wF_r2 wF_g1 wF_g2 w_feat ["id1"] ["id2"] (map plain_filter [wE_filter]) wD_table wD_table in
  w_ids (fst good) = Some [VInt 1] /\ w_ids (snd good) = Some [VInt 1] /\
  w_ids (fst shared) = Some [VInt 1] /\ w_ids (snd shared) = Some [VInt 0; VInt 1].
Proof. exact shared_filter_refuted_l. Qed.
Print Assumptions C11path_shared_filter_refuted.

(* ---- non-vacuity: the hypotheses of the main theorem hold on an instance with three filters (two sub-columns of a
        multi-column feature, one column no group exposes), and the plan is what the text says ---- *)
Example C11path_example :
  kf_collapse wA_rename wA_group w_feat (map plain_filter [wA_range; wG_max; wG_other]) = false /\
  forallb (fun f => negb (exposes (declared wA_group) (f_col f)) || fineb f wA_table) [wA_range; wG_max; wG_other] = true /\
  plan_path wA_rename wA_group w_feat ["id"] (map plain_filter [wA_range; wG_max; wG_other])
    = Done (["id"; "emb"; "emb"],
            [renamed wA_rename (matched_of w_feat None wA_range); renamed wA_rename (matched_of w_feat None wG_max)]) /\
  w_ids (run_path wA_rename wA_group w_feat ["id"] (map plain_filter [wA_range; wG_max; wG_other]) wA_table) = Some [VInt 1; VInt 2] /\
  default_rename ["emb"] "emb~1" = "emb" /\ default_rename ["emb"] "other~1" = "other~1" /\
  default_rename [] "emb~1" = "emb~1" /\ base_name "a~1~2" = "a".
Proof. exact path_example_l. Qed.
