(* C05 — a consumer of several sources sees exactly the join its Links describe.   Property theorems only.

   What the proof assistant contributes here: the relational specification rel_join (Spec/Rel.v, shared with C12) and its
   algebra - which is what makes "the join the Links describe" well defined independently of the order in which a planner
   applies the links (further associativity theorems: Props/C05alg.v).  The planner code that assigns left/right roles and
   frameworks (run_link, resolve_trekked_links, invert_link, fill_tfs_by_joinstep) is NOT modelled: whether the consumer
   really receives rel_join is decided by end-to-end correspondence against this specification, evaluated in Coq
   (harness/c05.py), with the recorded known-defect domains. *)
From Coq Require Import List Bool Permutation String ZArith.
Import ListNotations.
Require Import MV.Spec.Rel MV.Proofs.RelLemmas.
Open Scope string_scope. Open Scope list_scope.

(* a RIGHT link is the LEFT join with roles swapped: there is exactly one table it can denote *)
Theorem C05_right_is_swapped_left : forall lk rk L R,
  overlap_free lk rk L R = true -> bag_eq (rel_join JRight lk rk L R) (rel_join JLeft rk lk R L).
Proof. exact rel_right_left_swap. Qed.
Print Assumptions C05_right_is_swapped_left.

(* inner and full outer joins do not depend on which side is called left *)
Theorem C05_inner_commutative : forall lk rk L R,
  overlap_free lk rk L R = true -> bag_eq (rel_join JInner lk rk L R) (rel_join JInner rk lk R L).
Proof. exact rel_inner_comm. Qed.
Print Assumptions C05_inner_commutative.

Theorem C05_outer_commutative : forall lk rk L R,
  overlap_free lk rk L R = true -> bag_eq (rel_join JOuter lk rk L R) (rel_join JOuter rk lk R L).
Proof. exact rel_outer_comm. Qed.
Print Assumptions C05_outer_commutative.

(* LEFT is NOT symmetric: swapping roles changes the result (so 'left/right roles are honoured' has content) *)
Example C05_left_not_symmetric :
  let L := [[("k", VInt 1%Z); ("a", VInt 10%Z)]] in
  let R := [[("k", VInt 2%Z); ("b", VInt 20%Z)]] in
  bag_eqb (rel_join JLeft ["k"] ["k"] L R) (rel_join JLeft ["k"] ["k"] R L) = false.
Proof. vm_compute. reflexivity. Qed.
