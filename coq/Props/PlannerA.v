(* PlannerA — the planner on the strict Stage-A fragment produces well-formed, order-independent plans.
   Property theorems only (proofs in Proofs/PlannerA*.v).

   Fragment: every feature group has the same single compute framework, no Links, no global filter, no declared data
   types, default options only.  All statements are for EVERY finite acyclic feature graph (any size), every insertion
   order of Engine.feature_link_parents, every iteration order of the parent sets, and every order oracle `ord` for the
   set iterations inside the planner.

   Reading guide (Model/PlannerA.v, Spec/PlannerASpec.v):
     fgraph                 the engine's feature graph after de-duplication: nodes (uuid, group, direct inputs, requested,
                            framework) in dict order, inputs in set order
     graph_ok g             distinct uuids, inputs are nodes, input lists are sets, acyclic;  strict g: one framework
     parent g p c / anc g a c   direct input / proper ancestor (transitive closure)
     closure g c            Graph.parent_to_children_mapping.get(c, set())
     queue_of g             Graph.queue after iterate_nodes_and_edges (DFS from the roots)
     plan_of ord g          the execution plan (list of Orch.step: sid, KFG, uuids, req, requested)
     prepare_A ord g        Planned p | RejectedIncomplete | RejectedCycle (the two ValueErrors of the validation) |
                            OutsideFragment (add_tfs would create a transform step)
     runsim / runsim_accepts  the run simulation of _validate_steps_do_not_wait_in_a_cycle; sim_order: its start order
     group_dag g            the feature GROUPS depend on each other acyclically (inputs inside one group do not count)
     graph_equiv g g'       the same graph in other dict / set orders;  plan_equiv: same steps up to order / ids
     request_graph defs rq  the graph the engine recursion builds for a request (declarative; tied by correspondence)

   HISTORY.  Before /repo commit 12fe10c prepare accepted strict-fragment requests whose plan could never run: when two
   groups depend on each other through features that are unrelated inside each group (a1 -> b1, b2 -> a2), each group is
   ONE step and the two steps require each other (PlannerA_plan_wf_refuted is about that UNVALIDATED plan).  12fe10c added
   a run-simulation validation; the model follows it (runsim), and the theorems are now at full strength: every accepted
   plan is well formed, and a request is accepted exactly when its plan is well formed for some order. *)
From Coq Require Import List Bool Arith Lia Permutation.
Import ListNotations.
Require Import MV.Model.Orch MV.Model.OrchCheck MV.Model.PlannerA MV.Spec.PlannerASpec.
Require Import MV.Proofs.OrchP MV.Proofs.OrchTermP.
Require Import MV.Proofs.PlannerAGraph MV.Proofs.PlannerAQueue MV.Proofs.PlannerALevels MV.Proofs.PlannerAP.
Require Import MV.Proofs.PlanSimP MV.Proofs.PlannerADet MV.Proofs.PlannerAReq.

(* ---- 1. the ancestor closure ---- *)
(* parents_by_direct_[c] is exactly the set of direct inputs of c (the redundant recursion adds nothing else) *)
Theorem PlannerA_pbd_correct : forall g c p, In p (aget0 c (pbd_of g)) <-> parent g p c.
Proof. exact pbd_correct. Qed.
Print Assumptions PlannerA_pbd_correct.

(* parent_to_children_mapping[c] is exactly the set of proper ancestors of c; in particular the recursion depth bound
   (fuel) of the model is never reached on an acyclic graph *)
Theorem PlannerA_closure_correct : forall g, graph_ok g -> forall a c, In a (closure g c) <-> anc g a c.
Proof. exact closure_correct. Qed.
Print Assumptions PlannerA_closure_correct.

(* ---- 2. the queue ---- *)
(* the DFS queue contains exactly the features of the graph (every node is reachable from a root; fuel suffices) *)
Theorem PlannerA_queue_complete : forall g, graph_ok g -> forall u, In u (queue_of g) <-> In u (ids g).
Proof. exact queue_complete. Qed.
Print Assumptions PlannerA_queue_complete.

(* the planned queue lists every feature group of the queue exactly once, with all its features *)
Theorem PlannerA_planned_queue_spec : forall g q,
  NoDup (map fst (planned_queue g q)) /\
  (forall e, In e (planned_queue g q) -> snd e = members g q (fst e) /\ exists u, In u q /\ grp_of g u = fst e) /\
  (forall u, In u q -> exists e, In e (planned_queue g q) /\ fst e = grp_of g u /\ In u (snd e)).
Proof. exact planned_queue_spec. Qed.
Print Assumptions PlannerA_planned_queue_spec.

(* ---- 3. dependency levels ---- *)
(* one call of _split_features_by_dependency_levels on acyclic input: no fallback, the levels are non-empty and
   partition the features, and every intra-group ancestor of a feature of a level lies in an earlier level *)
Theorem PlannerA_split_levels_spec : forall (cl : nat -> list nat) (F : list nat) (rk : nat -> nat),
  F <> [] -> (forall u a, In u F -> In a (cl u) -> rk a < rk u) ->
  snd (split_levels cl F) = false /\
  Permutation (concat (fst (split_levels cl F))) F /\
  (forall l, In l (fst (split_levels cl F)) -> l <> []) /\
  lv_ok (intra_of cl F) [] (fst (split_levels cl F)).
Proof. exact split_levels_spec. Qed.
Print Assumptions PlannerA_split_levels_spec.

(* in the plan: two features of one group, one an ancestor of the other, are computed by DIFFERENT steps, the ancestor's
   step comes EARLIER in the plan list and the descendant's step requires the ancestor *)
Theorem PlannerA_levels_sound : forall ord g, ord_ok ord -> graph_ok g -> strict g ->
  forall a f, In a (ids g) -> In f (ids g) -> grp_of g a = grp_of g f -> anc g a f ->
  exists i j sa sf, i < j /\ nth_error (plan_of ord g) i = Some sa /\ nth_error (plan_of ord g) j = Some sf /\
                    In a (uuids sa) /\ In f (uuids sf) /\ In a (req sf) /\ ~ In f (uuids sa).
Proof. exact levels_sound. Qed.
Print Assumptions PlannerA_levels_sound.

(* the `if not ready: ready = remaining` fallback is unreachable *)
Theorem PlannerA_fallback_unreachable : forall ord g, ord_ok ord -> graph_ok g -> strict g -> fallback_used ord g = false.
Proof. exact fallback_unreachable. Qed.
Print Assumptions PlannerA_fallback_unreachable.

(* ---- 4. the plan ---- *)
(* the produced sets partition the features of the graph *)
Theorem PlannerA_plan_uuids : forall ord g, ord_ok ord -> graph_ok g -> strict g ->
  Permutation (all_uuids (plan_of ord g)) (ids g).
Proof. exact plan_uuids. Qed.
Print Assumptions PlannerA_plan_uuids.

(* distinct step ids; non-empty, pairwise disjoint produced sets covering exactly the features; every requirement is
   produced; a step requires exactly the proper ancestors of its features *)
Theorem PlannerA_plan_facts : forall ord g, ord_ok ord -> graph_ok g -> strict g ->
  NoDup (map sid (plan_of ord g)) /\
  (forall s, In s (plan_of ord g) -> uuids s <> [] /\ skind s = KFG) /\
  NoDup (all_uuids (plan_of ord g)) /\
  (forall u, In u (all_uuids (plan_of ord g)) <-> In u (ids g)) /\
  (forall s a, In s (plan_of ord g) -> In a (req s) -> In a (all_uuids (plan_of ord g))) /\
  (forall s a, In s (plan_of ord g) -> (In a (req s) <-> exists u, In u (uuids s) /\ anc g a u)).
Proof. exact plan_facts. Qed.
Print Assumptions PlannerA_plan_facts.

(* add_joinstep / add_tfs add nothing in the fragment and the produced-check of _validate_required_uuids_are_produced
   passes: the outcome is decided by the run simulation alone, and it is Planned (with exactly the feature-group steps)
   or the cycle error - never the incomplete-plan error, never a transform step *)
Theorem PlannerA_prepare_outcome : forall ord g, ord_ok ord -> graph_ok g -> strict g ->
  prepare_A ord g = if runsim_accepts (plan_of ord g) then Planned (plan_of ord g) else RejectedCycle.
Proof. exact prepare_outcome. Qed.
Print Assumptions PlannerA_prepare_outcome.

(* the structure of the plan is fine and no step requires one of its own features *)
Theorem PlannerA_plan_no_self_req : forall ord g, ord_ok ord -> graph_ok g -> strict g ->
  wf_struct (plan_of ord g) = true /\ no_self_req (plan_of ord g) = true.
Proof. intros ord g H1 H2 H3. split; [exact (plan_struct ord g H1 H2 H3) | exact (plan_no_self_req ord g H1 H2 H3)]. Qed.
Print Assumptions PlannerA_plan_no_self_req.

(* T3's req_covers is a theorem on the fragment *)
Theorem PlannerA_plan_req_covers : forall ord g, ord_ok ord -> graph_ok g -> strict g ->
  req_covers (plan_of ord g) (adj_of g) = true.
Proof. exact plan_req_covers. Qed.
Print Assumptions PlannerA_plan_req_covers.

(* ---- 5. the validation, for arbitrary plans (any kind of steps; usable on every exported plan) ---- *)
(* rejected => there is NO order for which the plan is well formed *)
Theorem PlannerA_runsim_complete : forall order p, wf_plan order p = true -> runsim_accepts p = true.
Proof. exact sim_complete. Qed.
Print Assumptions PlannerA_runsim_complete.

(* accepted => well formed for the order in which the simulation starts the steps, provided the structure is fine *)
Theorem PlannerA_runsim_sound : forall p, runsim_accepts p = true -> wf_struct p = true -> wf_plan (sim_order p) p = true.
Proof. exact sim_sound. Qed.
Print Assumptions PlannerA_runsim_sound.

Theorem PlannerA_runsim_accepts_iff : forall p, wf_struct p = true ->
  (runsim_accepts p = true <-> exists order, wf_plan order p = true).
Proof. exact runsim_accepts_iff. Qed.
Print Assumptions PlannerA_runsim_accepts_iff.

(* one executable predicate for every exported plan (T3): wf_struct p && runsim_accepts p *)
Theorem PlannerA_plan_accepted_wf_iff : forall p, plan_accepted_wf p = true <-> exists order, wf_plan order p = true.
Proof. exact plan_accepted_wf_iff. Qed.
Print Assumptions PlannerA_plan_accepted_wf_iff.

(* a step requiring one of its own uuids can never start; since /repo 7287741 the validation uses the orchestrator's start
   condition unchanged and rejects such a plan (before, it subtracted the step's own uuids and accepted it) *)
Example PlannerA_runsim_self_req_rejected :
  runsim_accepts p_selfreq = false /\ wf_struct p_selfreq = true /\ no_self_req p_selfreq = false /\
  wf_plan_auto p_selfreq = false /\
  loop_head p_selfreq (run false true (fun _ => false) p_selfreq (repeat EScan 50)) = Looping.
Proof. exact sim_self_req_rejected. Qed.

(* well-formedness for some order is invariant under plan_equiv *)
Theorem PlannerA_wf_exists_equiv : forall p p', plan_equiv p p' -> wf_struct p' = true ->
  (exists order, wf_plan order p = true) -> exists order', wf_plan order' p' = true.
Proof. exact wf_exists_equiv. Qed.
Print Assumptions PlannerA_wf_exists_equiv.

(* ---- 5b. well-formedness of planned requests, at full strength ---- *)
Theorem PlannerA_plan_wf : forall ord g p, ord_ok ord -> graph_ok g -> strict g -> prepare_A ord g = Planned p ->
  exists order, wf_plan order p = true.
Proof. exact plan_wf. Qed.
Print Assumptions PlannerA_plan_wf.

(* accepted EXACTLY when the unvalidated plan is well formed for some order *)
Theorem PlannerA_prepare_accepts_iff : forall ord g, ord_ok ord -> graph_ok g -> strict g ->
  (prepare_A ord g = Planned (plan_of ord g) <-> exists order, wf_plan order (plan_of ord g) = true).
Proof. exact prepare_accepts_iff. Qed.
Print Assumptions PlannerA_prepare_accepts_iff.

(* sufficient on the graph: the feature groups form a DAG.  The converse does NOT hold (PlannerA_ex_group_cycle_accepted:
   a group cycle that the level split resolves). *)
Definition kf_group_cycle (g : fgraph) : bool := negb (group_dagb g).
Theorem PlannerA_prepare_accepts_dag : forall ord g, ord_ok ord -> graph_ok g -> strict g -> group_dag g ->
  prepare_A ord g = Planned (plan_of ord g).
Proof. exact prepare_accepts_dag. Qed.
Print Assumptions PlannerA_prepare_accepts_dag.

Example PlannerA_ex_group_cycle_accepted :
  defs_okb ex2_defs [3] = true /\ defs_group_dagb ex2_defs = false /\ group_dagb (request_graph ex2_defs [3]) = false /\
  prepare_A ord_id (request_graph ex2_defs [3]) = Planned (plan_of ord_id (request_graph ex2_defs [3])) /\
  List.length (plan_of ord_id (request_graph ex2_defs [3])) = 4.
Proof. exact ex2_accepted_l. Qed.

(* why the validation is needed: the UNVALIDATED plan of an acyclic strict graph can be well formed for NO order (the
   orchestrator model is still looping after 200 iterations on it); the validation rejects exactly this *)
Theorem PlannerA_plan_wf_refuted :
  graph_ok g_cross /\ strict g_cross /\ group_dagb g_cross = false /\
  prepare_A ord_id g_cross = RejectedCycle /\
  (forall order, wf_plan order (plan_of ord_id g_cross) = false) /\
  (forall n, n <= 200 -> loop_head (plan_of ord_id g_cross)
                           (run false true (fun _ => false) (plan_of ord_id g_cross) (repeat EScan n)) = Looping).
Proof. exact plan_wf_refuted. Qed.
Print Assumptions PlannerA_plan_wf_refuted.

(* ---- 6. determinism ---- *)
(* any two choices of all order parameters give the same plan up to the order of the steps, the order inside
   get_uuids() / required_uuids, and the step ids; holds inside the defect domain too *)
Theorem PlannerA_plan_deterministic : forall ord ord' g g', ord_ok ord -> ord_ok ord' -> graph_ok g -> strict g ->
  graph_equiv g g' -> plan_equiv (plan_of ord g) (plan_of ord' g').
Proof. exact plan_deterministic. Qed.
Print Assumptions PlannerA_plan_deterministic.

(* ... and so is the accept / reject decision *)
Theorem PlannerA_prepare_deterministic : forall ord ord' g g', ord_ok ord -> ord_ok ord' -> graph_ok g -> strict g -> graph_equiv g g' ->
  (prepare_A ord g = Planned (plan_of ord g) <-> prepare_A ord' g' = Planned (plan_of ord' g')) /\
  (prepare_A ord g = RejectedCycle <-> prepare_A ord' g' = RejectedCycle) /\
  plan_equiv (plan_of ord g) (plan_of ord' g').
Proof. exact prepare_deterministic. Qed.
Print Assumptions PlannerA_prepare_deterministic.

(* the levels of one group do not depend on the iteration orders *)
Theorem PlannerA_split_levels_perm : forall cl cl' F F', (forall u a, In a (cl u) <-> In a (cl' u)) -> Permutation F F' ->
  Forall2 (@Permutation nat) (fst (split_levels cl F)) (fst (split_levels cl' F')).
Proof. exact split_levels_perm. Qed.
Print Assumptions PlannerA_split_levels_perm.

(* ---- 7. end to end ---- *)
(* every feature is computed after all of its ancestors: whenever a step of the plan starts (ANY back end, failure oracle,
   event trace), every proper ancestor of each of its features is finished and was produced by a completed step *)
Theorem PlannerA_features_after_ancestors : forall ord g, ord_ok ord -> graph_ok g -> strict g ->
  forall stream inline fails es i fs ds,
  In (i, (fs, ds)) (started (run stream inline fails (plan_of ord g) es)) ->
  exists s, In s (plan_of ord g) /\ sid s = i /\
    forall f a, In f (uuids s) -> anc g a f ->
      In a fs /\ exists s', In s' (plan_of ord g) /\ In a (uuids s') /\ In (sid s') ds.
Proof. exact features_after_ancestors. Qed.
Print Assumptions PlannerA_features_after_ancestors.

Theorem PlannerA_graph_terminates : forall ord g p, ord_ok ord -> graph_ok g -> strict g -> g <> [] ->
  prepare_A ord g = Planned p ->
  forall stream, exists n, n <= 2 * List.length p + 1 /\
    loop_head p (run stream true (fun _ => false) p (repeat EScan n)) = ExitNormal.
Proof. exact graph_terminates. Qed.
Print Assumptions PlannerA_graph_terminates.

(* requests: feature definitions (name -> group, input names, framework) + requested names *)
Theorem PlannerA_request_graph_ok : forall defs rq, defs_ok defs rq ->
  graph_ok (request_graph defs rq) /\ strict (request_graph defs rq).
Proof. exact request_graph_ok. Qed.
Print Assumptions PlannerA_request_graph_ok.

Theorem PlannerA_request_group_dag : forall defs rq, defs_ok defs rq -> defs_group_dag defs ->
  group_dag (request_graph defs rq).
Proof. exact request_group_dag. Qed.
Print Assumptions PlannerA_request_group_dag.

(* g = the engine's graph for the request in whatever orders it came out (the harness checks graph_equiv on every case).
   Decision: accepted or the cycle error; the same as for the request in canonical orders; the plan is the plan of the
   request up to order; accepted whenever the groups of the definitions form a DAG *)
Theorem PlannerA_requests_decided : forall defs rq ord g, defs_ok defs rq -> ord_ok ord -> graph_equiv (request_graph defs rq) g ->
  (prepare_A ord g = Planned (plan_of ord g) \/ prepare_A ord g = RejectedCycle) /\
  (prepare_A ord g = Planned (plan_of ord g) <->
   prepare_A ord_id (request_graph defs rq) = Planned (plan_of ord_id (request_graph defs rq))) /\
  plan_equiv (plan_of ord_id (request_graph defs rq)) (plan_of ord g) /\
  (defs_group_dag defs -> prepare_A ord g = Planned (plan_of ord g)).
Proof. exact requests_decided. Qed.
Print Assumptions PlannerA_requests_decided.

(* EVERY accepted request: the plan is well formed, the SYNC run exits normally within 2n+1 iterations, and C01's
   start_requires holds in terms of the feature graph *)
Theorem PlannerA_requests_terminate : forall defs rq ord g p, defs_ok defs rq -> rq <> [] -> ord_ok ord ->
  graph_equiv (request_graph defs rq) g -> prepare_A ord g = Planned p ->
  p = plan_of ord g /\
  (exists order, wf_plan order p = true) /\
  (forall stream, exists n, n <= 2 * List.length p + 1 /\
     loop_head p (run stream true (fun _ => false) p (repeat EScan n)) = ExitNormal) /\
  (forall stream inline fails es i fs ds,
     In (i, (fs, ds)) (started (run stream inline fails p es)) ->
     exists s, In s p /\ sid s = i /\
       forall f a, In f (uuids s) -> anc g a f ->
         In a fs /\ exists s', In s' p /\ In a (uuids s') /\ In (sid s') ds).
Proof. exact requests_terminate. Qed.
Print Assumptions PlannerA_requests_terminate.

(* ---- 8. the decidable forms of the hypotheses evaluated by the harness are sound ---- *)
Theorem PlannerA_graph_okb_sound : forall g, graph_okb g = true -> graph_ok g.
Proof. exact graph_okb_sound. Qed.
Print Assumptions PlannerA_graph_okb_sound.
Theorem PlannerA_strictb_sound : forall g, strictb g = true -> strict g.
Proof. exact strictb_sound. Qed.
Print Assumptions PlannerA_strictb_sound.
Theorem PlannerA_group_dagb_sound : forall g, NoDup (ids g) -> group_dagb g = true -> group_dag g.
Proof. exact group_dagb_sound. Qed.
Print Assumptions PlannerA_group_dagb_sound.

(* ---- Examples: a non-trivial request ----
   (ex_defs, ex_rq are defined in Proofs/PlannerAReq.v)
   names: a=0 (root group 0); b=1, c=2 (group 1, inputs a); d=3 (group 2, inputs b, c)  -- a diamond;
          f1=4 <- a, f2=5 <- f1, f3=6 <- f2, f1 (group 3)                                -- an intra-group chain;
   requested: d, f3 and f2 (f2 is also a dependency of f3: two different nodes 10 and 11). *)
Definition ex_g : fgraph := request_graph ex_defs ex_rq.

Example PlannerA_ex_hypotheses : graph_ok ex_g /\ strict ex_g /\ group_dag ex_g.
Proof.
  assert (H : graph_ok ex_g) by (apply graph_okb_sound; vm_compute; reflexivity).
  split; [exact H|]. split; [apply strictb_sound; vm_compute; reflexivity|].
  apply group_dagb_sound; [exact (proj1 H) | vm_compute; reflexivity].
Qed.

(* nodes: requested d=7, f3=13, f2=11; dependencies b=2, c=4, a=0, f2=10, f1=8.  Six steps: the root, group 1 ({b, c}),
   the requested d, and group 3 split into three levels {f1}, {f2 requested, f2 dependency}, {f3}.
   Five loop iterations are needed in SYNC (a step started in one iteration is marked finished in the next). *)
Example PlannerA_ex_plan : plan_of ord_id ex_g =
  [ {| sid := 0; skind := KFG; uuids := [0];      req := [];              requested := false |};
    {| sid := 1; skind := KFG; uuids := [2; 4];   req := [0];             requested := false |};
    {| sid := 2; skind := KFG; uuids := [7];      req := [2; 4; 0];       requested := true |};
    {| sid := 3; skind := KFG; uuids := [8];      req := [0];             requested := false |};
    {| sid := 4; skind := KFG; uuids := [11; 10]; req := [8; 0];          requested := true |};
    {| sid := 5; skind := KFG; uuids := [13];     req := [10; 8; 0];      requested := true |} ].
Proof. vm_compute. reflexivity. Qed.

Example PlannerA_ex_checks :
  wf_plan_auto (plan_of ord_id ex_g) = true /\ req_covers (plan_of ord_id ex_g) (adj_of ex_g) = true /\
  fallback_used ord_id ex_g = false /\ kf_group_cycle ex_g = false /\
  loop_head (plan_of ord_id ex_g) (run false true (fun _ => false) (plan_of ord_id ex_g) (repeat EScan 5)) = ExitNormal /\
  loop_head (plan_of ord_id ex_g) (run false true (fun _ => false) (plan_of ord_id ex_g) (repeat EScan 4)) = Looping.
Proof. vm_compute. repeat split; reflexivity. Qed.

(* the same graph in the reverse dict order, with reversed input sets and an oracle that reverses every set: other step
   order, other list orders, the same plan in the sense of plan_equiv *)
Definition ex_g' : fgraph :=
  rev (map (fun n => {| fid := fid n; fgrp := fgrp n; fins := rev (fins n); freq := freq n; fcfw := fcfw n |}) ex_g).
Definition ord_rev : oparam := fun _ l => rev l.
Example PlannerA_ex_other_order :
  plan_of ord_rev ex_g' <> plan_of ord_id ex_g /\ map sid (plan_of ord_rev ex_g') = [0; 1; 2; 3; 4; 5] /\
  map uuids (plan_of ord_rev ex_g') = [[0]; [8]; [11; 10]; [13]; [2; 4]; [7]] /\
  map req (plan_of ord_rev ex_g') = [[]; [0]; [0; 8]; [0; 8; 10]; [0]; [0; 2; 4]].
Proof. vm_compute. repeat split; try reflexivity. discriminate. Qed.

(* the hypotheses of the request-level theorem are satisfiable *)
Example PlannerA_ex_defs_ok : defs_ok ex_defs ex_rq /\ defs_group_dag ex_defs.
Proof. exact ex_defs_ok_l. Qed.

(* ... and so are the decidable forms evaluated by the harness on every observed request *)
Theorem PlannerA_defs_okb_sound : forall defs rq, defs_okb defs rq = true -> defs_ok defs rq.
Proof. exact defs_okb_sound. Qed.
Print Assumptions PlannerA_defs_okb_sound.
Theorem PlannerA_defs_group_dagb_sound : forall defs, NoDup (map dname defs) -> defs_group_dagb defs = true -> defs_group_dag defs.
Proof. exact defs_group_dagb_sound. Qed.
Print Assumptions PlannerA_defs_group_dagb_sound.
