(* C05both - a consumer whose compute_framework_rule ADMITS SEVERAL frameworks, over two linked sources on different frameworks.
   Property theorems only (proofs in Proofs/PlannerLBoth.v; model Model/PlannerLM.v = Model/PlannerL.v with the admitted sets
   cm0 of such features as the initial map of ResolveComputeFrameworks.links and the resolution rule as a parameter).

   Reading guide:
     prepare_LM ord g mro links rtl cm0   the modelled prepare(); rtl_code = resolve_trekked_links as the code has it ("keep the
                                          left framework if possible"), cm0 = [(f, cfws)]: feature f admits the frameworks cfws
     star_g rs f C ca ps                  the requested consumer f (class C) over one feature of each root in rs
     two_plan ... ca                      Spec/PlannerLSpec.v: the two root steps, the TransformFrameworkStep, ONE JoinStep, the consumer
   The statements are for the TWO-ROOT request shape (two sources on two different frameworks, one Link, one consumer feature) -
   the shape the correspondence family `both_frameworks` (harness/c05_both.py) exercises - for every join type except RIGHT,
   every key naming (lidx / ridx of the Link are arbitrary), every admitted set containing the left source's framework, every
   uuid / class / framework numbering and every set-iteration oracle.  Not proved: n roots / several Links with multi-framework
   consumers; RIGHT links (the recorded finding C05-right-join-not-honoured covers them for pinned consumers). *)
From Coq Require Import List Bool Arith Lia Permutation String.
Import ListNotations.
Require Import MV.Model.Orch MV.Model.OrchCheck MV.Model.PlannerA MV.Model.LinkSel MV.Model.PlannerL MV.Model.PlannerLM.
Require Import MV.Spec.PlannerASpec MV.Spec.PlannerLSpec.
Require MV.Spec.Rel.
Require Import MV.Proofs.PlannerLWitness MV.Proofs.PlannerLBoth.
Open Scope nat_scope.
Open Scope list_scope.

(* conservative extension: no multi-framework feature and the rule of the code = PlannerL, for every request *)
Theorem PlannerLM_conservative : forall ord g mro links, prepare_LM ord g mro links rtl_code [] = prepare_L ord g mro links.
Proof. exact prepare_LM_conservative. Qed.
Print Assumptions PlannerLM_conservative.

(* a consumer admitting the LEFT source's framework (alone, with the right source's, with any others) is planned EXACTLY like a
   consumer pinned to the left source's framework ... *)
Theorem PlannerL_two_root_both_as_pinned : forall ord mro l ra rb rs f C ps cfws,
  ord_ok ord -> Permutation [ra; rb] rs -> star_ok rs f C ps -> links_ok [l] (f :: map sr_id rs) -> flat_roots mro rs ->
  lfg (pl_l l) = sr_grp ra -> rfg (pl_l l) = sr_grp rb -> sr_cfw ra <> sr_cfw rb ->
  jt (pl_l l) <> RIGHT -> In (sr_cfw ra) cfws ->
  prepare_LM ord (star_g rs f C (sr_cfw ra) ps) mro [l] rtl_code [(f, cfws)] = prepare_L ord (star_g rs f C (sr_cfw ra) ps) mro [l].
Proof. exact two_root_both_eq. Qed.
Print Assumptions PlannerL_two_root_both_as_pinned.

(* ... that is: APPEND / UNION are refused, otherwise the plan is the UN-INVERTED two-root plan with the consumer on the LEFT
   source's framework ... *)
Theorem PlannerL_two_root_both_frameworks : forall ord mro l ra rb rs f C ps cfws,
  ord_ok ord -> Permutation [ra; rb] rs -> star_ok rs f C ps -> links_ok [l] (f :: map sr_id rs) -> flat_roots mro rs ->
  lfg (pl_l l) = sr_grp ra -> rfg (pl_l l) = sr_grp rb -> sr_cfw ra <> sr_cfw rb ->
  jt (pl_l l) <> RIGHT -> In (sr_cfw ra) cfws ->
  prepare_LM ord (star_g rs f C (sr_cfw ra) ps) mro [l] rtl_code [(f, cfws)] =
    if is_set_jt (jt (pl_l l)) then LRejected e_appendunion []
    else LPlanned (number_L 0 (two_plan ord (star_g rs f C (sr_cfw ra) ps) l ra rb ps f C (sr_cfw ra))).
Proof. exact two_root_both_frameworks. Qed.
Print Assumptions PlannerL_two_root_both_frameworks.

(* ... in which the JoinStep's LEFT table is the Link's LEFT source (on its own framework), its RIGHT table the Link's right
   source (converted by the TransformFrameworkStep right framework -> left framework), and the consumer computes on the left
   framework: a LEFT join keeps its roles, for every join type and key naming *)
Theorem PlannerL_two_root_both_left_kept : forall ord l ra rb rs f C ps,
  jt (pl_l l) <> RIGHT ->
  two_plan ord (star_g rs f C (sr_cfw ra) ps) l ra rb ps f C (sr_cfw ra) =
    map (two_root_step (star_g rs f C (sr_cfw ra) ps)) ps ++
    [two_tfs_step l ps (sr_cfw ra) (sr_cfw rb); two_join_step l ps (sr_cfw ra) (sr_cfw rb) [sr_id ra] [sr_id rb]] ++
    [two_cons_step ord (star_g rs f C (sr_cfw ra) ps) l ps f C (sr_cfw ra)].
Proof. intros ord l ra rb rs f C ps H. exact (two_plan_left_kept ord l ra rb rs f C ps H). Qed.
Print Assumptions PlannerL_two_root_both_left_kept.

(* "prefer the right framework when both are admitted" (rtl_prefer_right: the right framework first, the trekker key inverted,
   guarded by equal index names) does NOT have this property: Link LEFT(R0, R1) on k = k, consumer admitting both frameworks.
   Under the rule of the code the consumer is on R0's framework and the JoinStep is (R0 LEFT, R1 RIGHT); under the alternative
   the consumer is on R1's framework, the JoinStep is (R1 LEFT, R0 RIGHT) with join type LEFT, and R1 left-join R0 differs from
   R0 left-join R1 (inverted links hand join type and roles to the merge engine unswapped). *)
Theorem PlannerL_prefer_right_framework_refuted :
  left_of_join (prepare_LM ord_id (g2x 1) mro_flat [mkl 100 LEFT 1 2] rtl_code [(7, [1; 2])]) = [(LEFT, [0], [2])] /\
  cfw_of_class 4 (prepare_LM ord_id (g2x 1) mro_flat [mkl 100 LEFT 1 2] rtl_code [(7, [1; 2])]) = [1] /\
  roles_follow_links (g2x 1) [mkl 100 LEFT 1 2] (prepare_LM ord_id (g2x 1) mro_flat [mkl 100 LEFT 1 2] rtl_code [(7, [1; 2])]) = true /\
  left_of_join (prepare_LM ord_id (g2x 1) mro_flat [mkl 100 LEFT 1 2] rtl_prefer_right [(7, [1; 2])]) = [(LEFT, [2], [0])] /\
  cfw_of_class 4 (prepare_LM ord_id (g2x 1) mro_flat [mkl 100 LEFT 1 2] rtl_prefer_right [(7, [1; 2])]) = [2] /\
  roles_follow_links (g2x 1) [mkl 100 LEFT 1 2] (prepare_LM ord_id (g2x 1) mro_flat [mkl 100 LEFT 1 2] rtl_prefer_right [(7, [1; 2])]) = false /\
  MV.Spec.Rel.bag_eqb (MV.Spec.Rel.rel_join MV.Spec.Rel.JLeft ["k"%string] ["k"%string] Tb Ta)
                      (MV.Spec.Rel.rel_join MV.Spec.Rel.JLeft ["k"%string] ["k"%string] Ta Tb) = false.
Proof. exact w_prefer_right_flips. Qed.
Print Assumptions PlannerL_prefer_right_framework_refuted.

(* the alternative rule is invisible to consumers pinned to one framework (why the existing families could not see it) *)
Example PlannerL_prefer_right_same_when_pinned :
  prepare_LM ord_id (g2x 1) mro_flat [mkl 100 LEFT 1 2] rtl_prefer_right [] = prepare_L ord_id (g2x 1) mro_flat [mkl 100 LEFT 1 2] /\
  prepare_LM ord_id (g2x 2) mro_flat [mkl 100 LEFT 1 2] rtl_prefer_right [] = prepare_L ord_id (g2x 2) mro_flat [mkl 100 LEFT 1 2].
Proof. exact w_prefer_right_same_when_pinned. Qed.

(* the hypotheses are satisfiable *)
Example PlannerL_both_hyps :
  Permutation [ra2; rb2] [ra2; rb2] /\ star_ok [ra2; rb2] 7 4 [0; 2] /\ links_ok [mkl 100 LEFT 1 2] (7 :: map sr_id [ra2; rb2]) /\
  flat_roots mro_flat [ra2; rb2] /\ sr_cfw ra2 <> sr_cfw rb2 /\ jt (pl_l (mkl 100 LEFT 1 2)) <> RIGHT /\ In (sr_cfw ra2) [1; 2].
Proof. exact ex_both_hyps. Qed.
