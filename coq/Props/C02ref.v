(* C02 (reference value) - `ref_eval` is always a solution; it is THE solution.   Property theorems only
   (proofs in Proofs/RefEvalP.v).

   Spec/RefEval.v: `ref_eval n src defs` iterates |defs|+1 rounds, each defining every not yet defined feature whose inputs
   are all defined; `solution n src defs e` is the executable check that e contains the source columns and satisfies the
   defining equation of every definition it binds.  Spec/RefEvalWf.v: `wf_request src defs` = source names and definition
   names pairwise distinct (each bound once) AND definitions in dependency order.

   Proved for ALL row counts n, sources, definitions:
     - for every request with distinct names and EVERY number of rounds the iteration is a solution (no order needed);
     - if SOME permutation `ord` of defs satisfies wf_request (= the dependency relation is acyclic and every input is
       a source or a definition), |defs|+1 rounds define every feature, source bindings are unchanged, and exactly the
       source and definition names are bound; for defs already in dependency order (ord = defs) one round suffices;
     - two solutions agree on every feature both define; hence every solution gives a feature the column ref_eval gives
       it - "the reference value" is well defined;
     - any successful execution of the data-plane model (Model/DataPlane.v) whose side conditions hold yields exactly
       ref_eval's columns.
   This discharges the item of DESIGN.md section 8 "`ref_eval` is always a solution - checked per case, not proved". *)
From Coq Require Import List Bool ZArith Arith Permutation.
Import ListNotations.
Require Import MV.Spec.RefEval MV.Spec.RefEvalWf MV.Model.DataPlane MV.Proofs.RefEvalP.
Local Open Scope nat_scope.

(* ---- 1. definitions in dependency order ---- *)
Theorem C02ref_ref_eval_solution_topo : forall n src defs, wf_request src defs = true ->
  solution n src defs (ref_eval n src defs) = true
  /\ (forall d, In d defs -> lookup (ref_eval n src defs) (fname d) <> None)
  /\ (forall f c, lookup src f = Some c -> lookup (ref_eval n src defs) f = Some c).
Proof. exact ref_eval_solution_topo_l. Qed.
Print Assumptions C02ref_ref_eval_solution_topo.

Theorem C02ref_one_round_suffices : forall n src defs, wf_request src defs = true ->
  forall d, In d defs -> lookup (round n defs src) (fname d) <> None.
Proof. exact one_round_complete_l. Qed.
Print Assumptions C02ref_one_round_suffices.

(* ---- 2. definitions in arbitrary order, acyclic dependencies ---- *)
Theorem C02ref_ref_eval_solution_acyclic : forall n src defs ord, Permutation defs ord -> wf_request src ord = true ->
  solution n src defs (ref_eval n src defs) = true
  /\ (forall d, In d defs -> lookup (ref_eval n src defs) (fname d) <> None)
  /\ (forall f c, lookup src f = Some c -> lookup (ref_eval n src defs) f = Some c).
Proof. exact ref_eval_solution_acyclic_l. Qed.
Print Assumptions C02ref_ref_eval_solution_acyclic.

(* the solution part needs neither order nor acyclicity nor a particular number of rounds *)
Theorem C02ref_any_fuel_solution : forall n src defs fuel, NoDup (map fst src ++ map fname defs) ->
  solution n src defs (ref_eval_fuel fuel n defs src) = true.
Proof. exact ref_eval_fuel_solution_l. Qed.
Print Assumptions C02ref_any_fuel_solution.

(* progress of one round *)
Theorem C02ref_round_progress : forall n defs e d, In d defs -> (forall i, In i (inputs d) -> lookup e i <> None) ->
  lookup (round n defs e) (fname d) <> None.
Proof. exact round_progress_l. Qed.
Print Assumptions C02ref_round_progress.

Theorem C02ref_ref_eval_domain : forall n src defs ord, Permutation defs ord -> wf_request src ord = true ->
  forall f, lookup (ref_eval n src defs) f <> None <-> In f (map fst src) \/ In f (map fname defs).
Proof. exact ref_eval_domain_l. Qed.
Print Assumptions C02ref_ref_eval_domain.

(* ---- 3. uniqueness ---- *)
Theorem C02ref_solution_unique : forall n src defs e1 e2,
  solution n src defs e1 = true -> solution n src defs e2 = true -> wf_request src defs = true ->
  forall d, In d defs -> lookup e1 (fname d) <> None -> lookup e2 (fname d) <> None ->
  lookup e1 (fname d) = lookup e2 (fname d).
Proof. exact solution_unique_l. Qed.
Print Assumptions C02ref_solution_unique.

Theorem C02ref_solution_unique_acyclic : forall n src defs ord e1 e2, Permutation defs ord -> wf_request src ord = true ->
  solution n src defs e1 = true -> solution n src defs e2 = true ->
  forall d, In d defs -> lookup e1 (fname d) <> None -> lookup e2 (fname d) <> None ->
  lookup e1 (fname d) = lookup e2 (fname d).
Proof. exact solution_unique_acyclic_l. Qed.
Print Assumptions C02ref_solution_unique_acyclic.

Theorem C02ref_solution_equals_ref_eval : forall n src defs ord e, Permutation defs ord -> wf_request src ord = true ->
  solution n src defs e = true ->
  forall d c, In d defs -> lookup e (fname d) = Some c -> lookup (ref_eval n src defs) (fname d) = Some c.
Proof. exact solution_equals_ref_eval_l. Qed.
Print Assumptions C02ref_solution_equals_ref_eval.

(* ---- 4. the data plane computes the reference value ---- *)
Theorem C02_exec_equals_ref_eval : forall n src defs ord acts s', Permutation defs ord -> wf_request src ord = true ->
  forallb (action_ok src defs (ref_eval n src defs)) acts = true -> exec n [] acts = Ok s' ->
  forall o t f c, In (o, t) s' -> lookup t f = Some c -> lookup (ref_eval n src defs) f = Some c.
Proof. exact exec_equals_ref_eval_l. Qed.
Print Assumptions C02_exec_equals_ref_eval.

(* ---- the premises are satisfiable: the diamond of Props/C02.v, in dependency order and reversed ---- *)
Definition rx_src : env := [(0, [Some 1%Z; Some 2%Z; None])].
Definition rx_defs : list fdef :=
  [ {| fname := 1; inputs := [0]; c0 := 1%Z; coefs := [1%Z] |};
    {| fname := 2; inputs := [0]; c0 := 0%Z; coefs := [2%Z] |};
    {| fname := 3; inputs := [1; 2]; c0 := 5%Z; coefs := [1%Z; (-1)%Z] |} ].

Example C02ref_wf_satisfiable :
  wf_request rx_src rx_defs = true
  /\ wf_request rx_src (rev rx_defs) = false                  (* reversed: not in dependency order ... *)
  /\ Permutation (rev rx_defs) rx_defs                        (* ... but acyclic: rx_defs is a witness order *)
  /\ lookup (ref_eval 3 rx_src (rev rx_defs)) 3 = Some [Some 5%Z; Some 4%Z; None]
  /\ lookup (round 3 (rev rx_defs) rx_src) 3 = None.          (* and one round is NOT enough there *)
Proof.
  split; [vm_compute; reflexivity|]. split; [vm_compute; reflexivity|].
  split; [apply Permutation_sym, Permutation_rev|]. split; vm_compute; reflexivity.
Qed.
Print Assumptions C02ref_wf_satisfiable.

Example C02ref_instance :
  solution 3 rx_src (rev rx_defs) (ref_eval 3 rx_src (rev rx_defs)) = true
  /\ forall d, In d (rev rx_defs) -> lookup (ref_eval 3 rx_src (rev rx_defs)) (fname d) <> None.
Proof.
  destruct C02ref_wf_satisfiable as (H1 & _ & H3 & _).
  destruct (C02ref_ref_eval_solution_acyclic 3 rx_src (rev rx_defs) rx_defs H3 H1) as (A & B & _). split; assumption.
Qed.
Print Assumptions C02ref_instance.

(* the premises can fail: a name bound twice, an input that nothing defines, a cycle *)
Example C02ref_wf_rejects :
  wf_request rx_src [ {| fname := 0; inputs := []; c0 := 0%Z; coefs := [] |} ] = false
  /\ wf_request rx_src [ {| fname := 1; inputs := [9]; c0 := 0%Z; coefs := [1%Z] |} ] = false
  /\ wf_request rx_src [ {| fname := 1; inputs := [2]; c0 := 0%Z; coefs := [1%Z] |};
                         {| fname := 2; inputs := [1]; c0 := 0%Z; coefs := [1%Z] |} ] = false
  /\ wf_request rx_src [ {| fname := 2; inputs := [1]; c0 := 0%Z; coefs := [1%Z] |};
                         {| fname := 1; inputs := [2]; c0 := 0%Z; coefs := [1%Z] |} ] = false.
Proof. vm_compute. repeat split. Qed.
Print Assumptions C02ref_wf_rejects.
