(* C15 — group options split computations, context never does; identities are consistent.
   Property theorems only (proofs in Proofs/OptionsP.v, CanonP.v, IdentityP.v, GroupingP.v).
   Models: Model/Options.v (option values, Python ==, _make_hashable, Options operations), Model/Identity.v (what
   __eq__ / __hash__ of Feature, Link, Index, SingleFilter look at), Model/Grouping.v
   (group_features_by_compute_framework_and_options, as repaired by fixes/C15-grouping-by-equality.patch).
   All statements are for ALL inputs of the stated fragment. *)
From Coq Require Import List Bool ZArith String Arith Permutation.
Import ListNotations.
Require Import MV.Model.Options MV.Model.Identity MV.Model.Grouping MV.Spec.OptionsSpec MV.Spec.GroupingSpec.
Require Import MV.Proofs.OptionsP MV.Proofs.CanonP MV.Proofs.IdentityP MV.Proofs.GroupingP.
Open Scope Z_scope.

(* ================= 1. Options: group/context disjointness ================= *)

(* An option key is never present in both group and context: true for every Options object the constructor accepts, and
   after ANY sequence of add / add_to_group / add_to_context / set / update_with_protected_keys / merge_options calls,
   whether they raise or not (o_run keeps the state a raising call leaves behind). *)
Theorem C15_options_disjoint_inv : forall g c p s ops, o_init g c p = inl s -> disjoint_gc (o_run s ops).
Proof. exact options_disjoint_inv_l. Qed.
Print Assumptions C15_options_disjoint_inv.

(* the same for one step from any state satisfying the invariant (Inv s -> Inv (op s)), and for the full invariant:
   disjointness + propagate_context_keys are context keys + no dictionary holds a key twice *)
Theorem C15_options_inv_step : forall s o, options_inv s -> options_inv (fst (o_step s o)).
Proof. exact inv_step. Qed.
Print Assumptions C15_options_inv_step.

Theorem C15_options_inv_init : forall g c p s, o_init g c p = inl s -> options_inv s.
Proof. exact inv_init. Qed.
Print Assumptions C15_options_inv_init.

Theorem C15_options_inv_every_state : forall g c p s ops, o_init g c p = inl s ->
  Forall (fun r => options_inv (fst r)) (o_trace s ops).
Proof. intros g c p s ops H. exact (inv_trace ops s (inv_init _ _ _ _ H)). Qed.
Print Assumptions C15_options_inv_every_state.

(* the constructor raises exactly for overlapping dictionaries or propagate keys missing from the context *)
Theorem C15_init_rejects : forall g c p,
  (exists e, o_init g c p = inr e) <->
  (exists k, has_key k (dict_of_list g) /\ has_key k (dict_of_list c)) \/
  (exists k, kmem k p = true /\ ~ has_key k (dict_of_list c)).
Proof. exact init_rejects_l. Qed.
Print Assumptions C15_init_rejects.

(* ================= 2. update_with_protected_keys / merge_options ================= *)
(* pk = the protected keys in force: the explicit argument, or {in_features} + the keys listed under
   feature_chainer_parser_key of self (eff_prot) *)

(* protected keys of `other` never overwrite self, neither in group nor in context, whatever the outcome *)
Theorem C15_protected_keys_kept : forall other prot s pk, eff_prot prot s = Some pk ->
  forall k, kmem k pk = true ->
  dget k (og (fst (o_update other prot s))) = dget k (og s) /\ dget k (oc (fst (o_update other prot s))) = dget k (oc s).
Proof. exact update_protected. Qed.
Print Assumptions C15_protected_keys_kept.

(* a non-protected group key of `other` that is a context key of self: ValueError, nothing changed *)
Theorem C15_group_context_conflict_is_error : forall other prot s pk, eff_prot prot s = Some pk ->
  forall k, has_key k (og other) -> kmem k pk = false -> has_key k (oc s) -> o_update other prot s = (s, Some EValue).
Proof. exact update_group_context_conflict. Qed.
Print Assumptions C15_group_context_conflict_is_error.

(* without exception: every non-protected group entry of `other` is now in self, all other group entries are untouched *)
Theorem C15_update_success_group : forall other prot s pk, eff_prot prot s = Some pk ->
  snd (o_update other prot s) = None -> forall k,
  (has_key k (og other) -> kmem k pk = false -> nodupk (dkeys (og other)) ->
     dget k (og (fst (o_update other prot s))) = dget k (og other)) /\
  ((~ has_key k (og other) \/ kmem k pk = true) -> dget k (og (fst (o_update other prot s))) = dget k (og s)).
Proof. exact update_success_group. Qed.
Print Assumptions C15_update_success_group.

(* context propagation. Rule 1: only context keys of `other` that are announced in propagate_context_keys and are not
   protected travel; every other context key of self stays as it was *)
Theorem C15_propagate_only_announced : forall other prot s pk, eff_prot prot s = Some pk ->
  forall k, ~ propagating other pk k -> dget k (oc (fst (o_update other prot s))) = dget k (oc s).
Proof. exact propagate_local. Qed.
Print Assumptions C15_propagate_only_announced.

(* Rule 2: a propagating key that is a group key of self (before or after the group merge) is an error *)
Theorem C15_propagate_into_group_is_error : forall other prot s pk, eff_prot prot s = Some pk ->
  forall k, propagating other pk k -> (has_key k (og s) \/ (has_key k (og other) /\ kmem k pk = false)) ->
  snd (o_update other prot s) = Some EValue /\ oc (fst (o_update other prot s)) = oc s.
Proof. exact propagate_into_group. Qed.
Print Assumptions C15_propagate_into_group_is_error.

(* Rule 3: a propagating key that self already has in its context with a different value is an error; with no
   exception the key arrives with other's value *)
Theorem C15_propagate_value_conflict_is_error : forall other prot s pk, eff_prot prot s = Some pk ->
  forall k v v0, propagating other pk k -> dget k (oc other) = Some v -> dget k (oc s) = Some v0 -> py_eq v0 v = false ->
  snd (o_update other prot s) = Some EValue /\ oc (fst (o_update other prot s)) = oc s.
Proof. exact propagate_value_conflict. Qed.
Print Assumptions C15_propagate_value_conflict_is_error.

Theorem C15_propagate_arrives : forall other prot s pk, eff_prot prot s = Some pk ->
  snd (o_update other prot s) = None -> forall k, propagating other pk k -> nodupk (dkeys (oc other)) ->
  dget k (oc (fst (o_update other prot s))) = dget k (oc other).
Proof. exact propagate_arrives. Qed.
Print Assumptions C15_propagate_arrives.

(* a raising update never changed the context *)
Theorem C15_update_error_keeps_context : forall other prot s pk, eff_prot prot s = Some pk ->
  forall e, snd (o_update other prot s) = Some e -> oc (fst (o_update other prot s)) = oc s.
Proof. exact update_error_context. Qed.
Print Assumptions C15_update_error_keeps_context.

(* Features.merge_options (child options into an input feature's options) = its own conflict check, then the update *)
Theorem C15_merge_cases : forall child s,
  (exists e, o_merge child s = (s, Some e)) \/ o_merge child s = o_update child None s.
Proof. exact merge_cases_l. Qed.
Print Assumptions C15_merge_cases.

Theorem C15_merge_value_conflict_is_error : forall child s pk k v k' v',
  default_protected s = Some pk -> In (k, v) (o_items child) -> In (k', v') (o_items s) ->
  key_eqb k k' = true -> kmem k' pk = false -> py_eq v v' = false -> o_merge child s = (s, Some EValue).
Proof. exact merge_value_conflict_l. Qed.
Print Assumptions C15_merge_value_conflict_is_error.

Theorem C15_merge_protected_keys_kept : forall child s pk k, default_protected s = Some pk -> kmem k pk = true ->
  dget k (og (fst (o_merge child s))) = dget k (og s) /\ dget k (oc (fst (o_merge child s))) = dget k (oc s).
Proof. exact merge_protected_l. Qed.
Print Assumptions C15_merge_protected_keys_kept.

(* ================= 3. equality and hashing ================= *)

(* _make_hashable respects Python ==, for all values of the fragment (None, bool, int, str, list, tuple, set, dict with
   atomic keys, opaque objects; wfv = dictionaries hold no key twice, which Python guarantees; nofs = no frozenset in the
   input) on which it is defined at all *)
Theorem C15_canon_respects_eq : forall a b ca cb, wfv a -> wfv b -> nofs a -> nofs b ->
  py_eq a b = true -> canon a = Some ca -> canon b = Some cb -> py_eq ca cb = true.
Proof. exact canon_respects_eq_l. Qed.
Print Assumptions C15_canon_respects_eq.

(* ... and it is defined exactly on the values in which every dictionary with two or more entries has only str keys or
   only int/bool keys (otherwise sorted() raises TypeError) *)
Theorem C15_canon_total_iff : forall v, (exists c, canon v = Some c) <-> orderable v.
Proof. intros v. split; [intros [c H]; exact (canon_total_conv_l v c H) | exact (canon_total_l v)]. Qed.
Print Assumptions C15_canon_total_iff.

(* equal Options hash equal, for ANY hash function that gives equal results on equal canonical forms *)
Theorem C15_options_eq_hash : forall (h : pyval -> Z), (forall x y, py_eq x y = true -> h x = h y) ->
  forall a b ha hb, wf_opts a -> wf_opts b ->
  opt_eq a b = true -> opt_hash_key a = Some ha -> opt_hash_key b = Some hb -> h ha = h hb.
Proof. intros h Hh a b ha hb Ha Hb He H1 H2. apply Hh. exact (opt_eq_hash_l a b ha hb Ha Hb He H1 H2). Qed.
Print Assumptions C15_options_eq_hash.

(* Feature: equality additionally compares the context of the feature's own options, the hash ignores it -- coherent in
   the required direction.  feat_eq = Some true excludes the comparisons that raise (Domain vs None).  The statement
   covers child_options[in_features] holding Feature objects (a frozenset of any size in any iteration order, or a single
   Feature) when it is a GROUP entry of the child options.
   FULL STATEMENT (no guard kf_child_ctx_inf):
     forall a b ha hb, wf_feat a -> wf_feat b -> feat_eq a b = Some true -> feat_hkey a = Some ha -> feat_hkey b = Some hb
                       -> py_eq ha hb = true
   REFUTED on the faithful model (known finding C15-feature-hash-child-context-infeatures): when the Feature-valued
   in_features is a CONTEXT entry of the child options, __eq__ (group only) ignores it but __hash__ copies it into the
   group.  PROVED outside that domain. *)
Theorem C15_feature_eq_hash_partial : forall (h : pyval -> Z), (forall x y, py_eq x y = true -> h x = h y) ->
  forall a b ha hb, wf_feat a -> wf_feat b -> kf_child_ctx_inf a = false -> kf_child_ctx_inf b = false ->
  feat_eq a b = Some true -> feat_hkey a = Some ha -> feat_hkey b = Some hb -> h ha = h hb.
Proof. intros h Hh a b ha hb Ha Hb Ka Kb He H1 H2. apply Hh. exact (feat_eq_hash_l a b ha hb Ha Hb Ka Kb He H1 H2). Qed.
Print Assumptions C15_feature_eq_hash_partial.

Theorem C15_feature_eq_hash_refuted :
  feat_eq (ctx_child "p") (ctx_child "q") = Some true /\
  kf_child_ctx_inf (ctx_child "p") = true /\
  exists ha hb, feat_hkey (ctx_child "p") = Some ha /\ feat_hkey (ctx_child "q") = Some hb /\ py_eq ha hb = false.
Proof. exact feat_hash_child_context_refuted_l. Qed.
Print Assumptions C15_feature_eq_hash_refuted.

(* the value Feature.__hash__ substitutes for a frozenset of Features does not depend on the iteration order of that
   frozenset, whatever its size (code as repaired in /repo 17adca0; the former known finding
   C15-feature-hash-infeatures-order) ... *)
Theorem C15_feature_hash_infeatures_order_independent : forall l l', Permutation l l' ->
  inf_rewrite (InfSet l) = inf_rewrite (InfSet l').
Proof. exact infeatures_order_independent_l. Qed.
Print Assumptions C15_feature_hash_infeatures_order_independent.

(* ... and equal in_features values (equal frozensets of Features written in any order, equal single Features) are
   replaced by the same value *)
Theorem C15_feature_hash_infeatures_eq : forall x y, inf_wf x -> inf_wf y -> inf_eq x y = true -> inf_rewrite x = inf_rewrite y.
Proof. exact inf_rewrite_eq. Qed.
Print Assumptions C15_feature_hash_infeatures_eq.

Theorem C15_link_eq_hash : forall a b, plink_eq a b = true -> py_eq (plink_hkey a) (plink_hkey b) = true.
Proof. exact plink_eq_hash_l. Qed.
Print Assumptions C15_link_eq_hash.

Theorem C15_index_eq_hash : forall a b, idx_eq a b = true -> py_eq (idx_hkey a) (idx_hkey b) = true.
Proof. exact idx_eq_hash_l. Qed.
Print Assumptions C15_index_eq_hash.

Theorem C15_filter_eq_hash : forall a b ha hb, wf_feat (sf_feat a) -> wf_feat (sf_feat b) ->
  kf_child_ctx_inf (sf_feat a) = false -> kf_child_ctx_inf (sf_feat b) = false ->
  sf_eq a b = Some true -> sf_hkey a = Some ha -> sf_hkey b = Some hb -> py_eq ha hb = true.
Proof. exact sf_eq_hash_l. Qed.
Print Assumptions C15_filter_eq_hash.

(* FULL STATEMENT: every SingleFilter with a hashable feature has a hash (filters live in a set: GlobalFilter.filters):
     forall f hf, feat_hkey (sf_feat f) = Some hf -> exists hk, sf_hkey f = Some hk.
   REFUTED on the faithful model (known finding C15-filter-unhashable-parameter); PROVED outside the domain
   "some parameter value is unhashable (list / set / dict)". *)
Theorem C15_filter_hashable_partial : forall f hf, forallb (fun kv => hashable (snd kv)) (sf_raw f) = true ->
  feat_hkey (sf_feat f) = Some hf -> exists hk, sf_hkey f = Some hk.
Proof. exact sf_hashable_partial_l. Qed.
Print Assumptions C15_filter_hashable_partial.

Theorem C15_filter_hashable_refuted : exists f, wit_filter = Some f /\ sf_eq f f = Some true /\ sf_hkey f = None.
Proof. exact sf_hash_refuted_l. Qed.
Print Assumptions C15_filter_hashable_refuted.

(* ================= 4. which features share a calculation step ================= *)
(* its = the features of one feature group in the iteration order of the Python set (ANY order); it_kb = class of
   (group options, compute frameworks) under ==, it_ty = declared data type.  Context options are not in an item. *)

(* the partition computed by the code is exactly share_spec: same anchor key; anchor = the feature itself if typed,
   else the first typed feature in iteration order with the same (group options, framework) *)
Theorem C15_grouping_spec : forall its a b, In a its -> In b its ->
  (same_group (group_items its) a b <-> share_spec its a b = true).
Proof. exact grouping_spec_l. Qed.
Print Assumptions C15_grouping_spec.

(* two typed features share a step iff group options, framework and type agree *)
Theorem C15_typed_share_iff : forall its a b ta tb, In a its -> In b its -> it_ty a = Some ta -> it_ty b = Some tb ->
  (same_group (group_items its) a b <-> it_kb a = it_kb b /\ ta = tb).
Proof. exact typed_share_iff_l. Qed.
Print Assumptions C15_typed_share_iff.

(* an untyped feature joins the FIRST compatible typed feature of the iteration order (so with two compatible typed
   groups the step composition depends on the set order: see known finding / property C04) *)
Theorem C15_untyped_joins_first : forall its u t, In u its -> it_ty u = None ->
  find (fun t => is_typed t && Nat.eqb (it_kb t) (it_kb u)) its = Some t -> same_group (group_items its) u t.
Proof. exact untyped_joins_first_l. Qed.
Print Assumptions C15_untyped_joins_first.

(* without a compatible typed feature, untyped features are grouped by (group options, framework) among themselves *)
Theorem C15_untyped_alone : forall its u v, In u its -> In v its -> it_ty u = None ->
  find (fun t => is_typed t && Nat.eqb (it_kb t) (it_kb u)) its = None ->
  (same_group (group_items its) u v <-> it_ty v = None /\ it_kb u = it_kb v).
Proof. exact untyped_alone_l. Qed.
Print Assumptions C15_untyped_alone.

(* members of one group agree on (group options, framework); typed members also on the type; every feature is placed *)
Theorem C15_group_members_agree : forall its g a b, In g (group_items its) -> In a g -> In b g ->
  it_kb a = it_kb b /\ (is_typed a = true -> is_typed b = true -> it_ty a = it_ty b).
Proof. exact group_members_agree_l. Qed.
Print Assumptions C15_group_members_agree.

Theorem C15_every_feature_placed : forall its x, In x its -> exists g, In g (group_items its) /\ In x g.
Proof. exact every_feature_placed_l. Qed.
Print Assumptions C15_every_feature_placed.

(* FULL STATEMENT (the property text): two features share a step exactly when group options, framework and type agree,
   an undeclared type agreeing with any:
     forall its a b, In a its -> In b its -> (same_group (group_items its) a b <-> agreeb a b = true).
   REFUTED on the faithful model (known finding C15-untyped-joins-first-typed-group: with typed features of two
   different types and an untyped one on the same options, "agrees with any" is not transitive; the code puts the
   untyped feature with whichever typed group comes first in set order).  PROVED outside that domain. *)
Theorem C15_share_iff_agree_partial : forall its, kf_ambiguous its = false -> forall a b, In a its -> In b its ->
  (same_group (group_items its) a b <-> agreeb a b = true).
Proof. exact share_iff_agree_partial_l. Qed.
Print Assumptions C15_share_iff_agree_partial.

Theorem C15_share_iff_agree_refuted :
  kf_ambiguous [amb_t1; amb_t2; amb_u] = true /\ agreeb amb_u amb_t2 = true /\
  ~ same_group (group_items [amb_t1; amb_t2; amb_u]) amb_u amb_t2 /\
  same_group (group_items [amb_t2; amb_t1; amb_u]) amb_u amb_t2.
Proof. exact share_iff_agree_refuted_l. Qed.
Print Assumptions C15_share_iff_agree_refuted.

(* from items back to features: it_kb is the index of the class of features with the same dictionary key
   (options, frameworks): a Python dict finds a key by hash integer AND == (base_eqb = hash_eqb && opts_agree; code as
   repaired by fixes/C15-grouping-by-equality.patch -- before, only the integers were compared).  Model/Grouping.v says
   which (options, frameworks) get one integer: those with == canonical forms (canon_eqb), and those whose canonical
   forms differ only in atoms CPython hashes alike (hnorm: -1 ~ -2, "" ~ 0 ~ False, z ~ z mod 2^61-1, Enum member ~ its
   name; everything else assumed collision-free and tested by the correspondence).
   Equal options have the same hash integer (so the dict never splits them) ... *)
Theorem C15_equal_options_same_hash : forall a b,
  wfv (VDict (g_group a)) -> wfv (VDict (g_group b)) -> nofs (VDict (g_group a)) -> nofs (VDict (g_group b)) ->
  hash_key (VDict (g_group a)) <> None -> hash_key (VDict (g_group b)) <> None ->
  opts_agree a b = true -> hash_eqb a b = true.
Proof. exact equal_options_same_hash_l. Qed.
Print Assumptions C15_equal_options_same_hash.

(* ... hence: one class <-> equal (group options, frameworks).  This is the full statement whose direction -> the
   unrepaired code violated in two ways (former known findings C15-grouping-conflates-list-tuple and
   C15-grouping-hash-collision, both fixed by fixes/C15-grouping-by-equality.patch). *)
Theorem C15_same_class_iff_equal_options : forall a b,
  wfv (VDict (g_group a)) -> wfv (VDict (g_group b)) -> nofs (VDict (g_group a)) -> nofs (VDict (g_group b)) ->
  hash_key (VDict (g_group a)) <> None -> hash_key (VDict (g_group b)) <> None ->
  (base_eqb a b = true <-> opts_agree a b = true).
Proof. exact same_class_iff_equal_options_l. Qed.
Print Assumptions C15_same_class_iff_equal_options.

Theorem C15_equal_options_same_class : forall a b,
  wfv (VDict (g_group a)) -> wfv (VDict (g_group b)) -> nofs (VDict (g_group a)) -> nofs (VDict (g_group b)) ->
  hash_key (VDict (g_group a)) <> None -> hash_key (VDict (g_group b)) <> None ->
  opts_agree a b = true -> base_eqb a b = true.
Proof. exact equal_options_same_class_l. Qed.
Print Assumptions C15_equal_options_same_class.

(* two features have the same it_kb iff they are in one class (for any equivalence on the request) *)
Theorem C15_base_class_iff : forall fs a b,
  (forall x, In x fs -> base_eqb x x = true) ->
  (forall x y, In x fs -> In y fs -> base_eqb x y = true -> base_eqb y x = true) ->
  (forall x y z, In x fs -> In y fs -> In z fs -> base_eqb x y = true -> base_eqb y z = true -> base_eqb x z = true) ->
  In a fs -> In b fs -> (base_class fs a = base_class fs b <-> base_eqb a b = true).
Proof. exact base_class_iff_l. Qed.
Print Assumptions C15_base_class_iff.

(* FULL STATEMENT (was C15_grouping_by_equality_partial, proved only outside kf_hash_conflation): the code groups by
   EQUALITY of (group options, frameworks) -- group_features_eq is the same two passes over classes of opts_agree
   (Spec/GroupingSpec.v) -- for every request with hashable options and every iteration order. *)
Theorem C15_grouping_by_equality : forall fs, hashable_request fs -> group_features fs = group_features_eq fs.
Proof. exact grouping_by_equality_l. Qed.
Print Assumptions C15_grouping_by_equality.

(* the requests on which the hash integer alone would conflate unequal options are exactly the two former
   known-defect domains *)
Theorem C15_conflation_domains : forall fs, hashable_request fs ->
  kf_hash_conflation fs = kf_canon_conflation fs || kf_hash_collision fs.
Proof. exact kf_split_l. Qed.
Print Assumptions C15_conflation_domains.

(* regression witnesses (the _refuted theorems of the unrepaired model): unequal options with one hash integer are
   computed in two steps.  {"c": [1, 2]} and {"c": (1, 2)}: one canonical form *)
Theorem C15_hash_class_regression :
  opts_agree hc_a hc_b = false /\ canon_eqb hc_a hc_b = true /\ hash_eqb hc_a hc_b = true /\ base_eqb hc_a hc_b = false /\
  kf_canon_conflation [hc_a; hc_b] = true /\ kf_hash_collision [hc_a; hc_b] = false /\ kf_hash_conflation [hc_a; hc_b] = true /\
  group_features [hc_a; hc_b] = [[0]; [1]]%nat.
Proof. exact hash_conflation_regression_l. Qed.
Print Assumptions C15_hash_class_regression.

(* {"c": -1} and {"c": -2}: different canonical forms, hash(-1) = hash(-2) = -2 *)
Theorem C15_hash_collision_regression :
  opts_agree hc_e hc_f = false /\ canon_eqb hc_e hc_f = false /\ hash_eqb hc_e hc_f = true /\ base_eqb hc_e hc_f = false /\
  kf_hash_collision [hc_e; hc_f] = true /\ kf_canon_conflation [hc_e; hc_f] = false /\ kf_hash_conflation [hc_e; hc_f] = true /\
  group_features [hc_e; hc_f] = [[0]; [1]]%nat.
Proof. exact hash_collision_regression_l. Qed.
Print Assumptions C15_hash_collision_regression.

(* the same for every other collision of the modelled hash ("" / 0, 2^61-1 / 0, Enum member / its name, inside tuples,
   lists, nested dicts, sets): one hash integer, not equal, two steps *)
Theorem C15_hash_collision_pairs_regression :
  forallb (fun p => let a := gf1 0 (fst p) in let b := gf1 1 (snd p) in
                    hash_eqb a b && negb (canon_eqb a b) && negb (opts_agree a b) && negb (base_eqb a b)
                    && all2 (all2 Nat.eqb) (group_features [a; b]) [[0]; [1]]%nat) collide_pairs = true.
Proof. exact hash_collision_pairs_l. Qed.
Print Assumptions C15_hash_collision_pairs_regression.

(* context options never separate (or join) anything: changing the context of any features leaves the grouping as is *)
Theorem C15_context_never_splits : forall fs fs', Forall2 same_but_context fs fs' -> group_features fs = group_features fs'.
Proof. exact context_irrelevant_l. Qed.
Print Assumptions C15_context_never_splits.

(* ================= non-vacuity ================= *)
Definition ex_parent : ostate :=
  match o_init [(KStr "a", VInt 1); (KStr "feature_chainer_parser_key", VList [VStr "win"])] [(KStr "dbg", VBool true)] [] with
  | inl s => s | inr _ => {| og := []; oc := []; opk := [] |} end.
Definition ex_child : ostate :=
  match o_init [(KStr "win", VInt 7); (KStr "in_features", VStr "x"); (KStr "b", VInt 2)]
               [(KStr "sid", VStr "s1"); (KStr "local", VInt 0)] [KStr "sid"] with
  | inl s => s | inr _ => {| og := []; oc := []; opk := [] |} end.
Example C15_examples :
  (* protected keys in force for the parent *)
  default_protected ex_parent = Some [KStr "in_features"; KStr "win"] /\
  (* merge: b arrives, win / in_features do not, sid propagates, local does not *)
  snd (o_merge ex_child ex_parent) = None /\
  dget (KStr "b") (og (fst (o_merge ex_child ex_parent))) = Some (VInt 2) /\
  dget (KStr "win") (og (fst (o_merge ex_child ex_parent))) = None /\
  dget (KStr "sid") (oc (fst (o_merge ex_child ex_parent))) = Some (VStr "s1") /\
  dget (KStr "local") (oc (fst (o_merge ex_child ex_parent))) = None /\
  (* adding a context key to the group is refused, the object is unchanged *)
  o_add_group (KStr "dbg") (VInt 1) ex_parent = (ex_parent, Some EValue) /\
  (* {True: [1, {2}], "x"...}: equal values written differently have equal canonical forms *)
  py_eq (VDict [(KStr "a", VSet [VInt 1; VInt 2]); (KStr "b", VBool true)])
        (VDict [(KStr "b", VInt 1); (KStr "a", VSet [VInt 2; VBool true])]) = true /\
  canon (VDict [(KStr "b", VInt 1); (KStr "a", VList [VInt 2])]) =
    Some (VTuple [VTuple [VStr "a"; VTuple [VInt 2]]; VTuple [VStr "b"; VInt 1]]) /\
  canon (VDict [(KStr "b", VInt 1); (KInt 2, VInt 2)]) = None /\
  (* grouping: ids 0,1 typed int (class 0), 2 typed double (class 0), 3 untyped class 0, 4 untyped class 1 *)
  map (map it_id) (group_items [ {| it_id := 0; it_kb := 0; it_ty := Some 1%nat |}; {| it_id := 2; it_kb := 0; it_ty := Some 3%nat |};
                                 {| it_id := 3; it_kb := 0; it_ty := None |}; {| it_id := 1; it_kb := 0; it_ty := Some 1%nat |};
                                 {| it_id := 4; it_kb := 1; it_ty := None |} ]) = [[0; 1; 3]; [2]; [4]]%nat.
Proof. vm_compute. repeat split. Qed.

(* ================= 5. which features of ONE split share a step: dependency levels ================= *)
(* Section 4 says which features form one split (same feature group, equal group options, frameworks, type).  The
   property sentence continues "... and neither depends on the other": inside a split the code
   (ExecutionPlan._split_features_by_dependency_levels = Model/PlannerA.v split_levels, the planner model of C04) cuts
   the features into successive steps.  Model/LevelDepth.v states WHICH cut the property wants, independently of the
   loop: the level of a feature is its DEPTH, the length of the longest chain of in-split ancestors below it.
   cl u = all ancestors of u (parent_to_children_mapping), F = the features of the split in any iteration order;
   acyclic_in: some rank decreases along cl inside F (every acyclic relation has one). *)
Require Import MV.Model.Orch MV.Model.PlannerA MV.Model.LevelDepth MV.Proofs.PlannerALevels MV.Proofs.LevelDepthP.
Close Scope Z_scope.
Open Scope nat_scope.

(* depth_of is the depth: above every in-split ancestor, and exactly one above some ancestor (or 0 without ancestors) *)
Theorem C15_depth_spec : forall cl F, acyclic_in cl F -> forall u, In u F ->
  (forall a, In a (intra_of cl F u) -> depth_of cl F a < depth_of cl F u) /\
  (depth_of cl F u = 0 \/ exists a, In a (intra_of cl F u) /\ depth_of cl F u = S (depth_of cl F a)).
Proof. exact depth_of_spec. Qed.
Print Assumptions C15_depth_spec.

(* ... = the length of the longest chain of in-split ancestors *)
Theorem C15_depth_longest_chain : forall cl F, acyclic_in cl F -> forall f, In f F ->
  (exists l, chain (intra_of cl F) f l /\ List.length l = depth_of cl F f) /\
  (forall l, chain (intra_of cl F) f l -> List.length l <= depth_of cl F f).
Proof. exact depth_of_longest_chain. Qed.
Print Assumptions C15_depth_longest_chain.

(* the step (level) of a feature in the code's split IS its depth; level i holds exactly the features of depth i *)
Theorem C15_level_is_depth : forall cl F, acyclic_in cl F -> forall f, In f F ->
  level_of (fst (split_levels cl F)) f = depth_of cl F f.
Proof. exact level_is_depth. Qed.
Print Assumptions C15_level_is_depth.

Theorem C15_level_members : forall cl F, acyclic_in cl F -> F <> [] ->
  forall i l, nth_error (fst (split_levels cl F)) i = Some l -> forall x, In x l <-> In x F /\ depth_of cl F x = i.
Proof. exact level_members. Qed.
Print Assumptions C15_level_members.

(* computed together (one step, one calculate_feature call) IFF same depth *)
Theorem C15_same_step_iff_same_depth : forall cl F, acyclic_in cl F -> forall f g, In f F -> In g F ->
  ((exists l, In l (fst (split_levels cl F)) /\ In f l /\ In g l) <-> depth_of cl F f = depth_of cl F g).
Proof. exact same_step_iff_same_depth. Qed.
Print Assumptions C15_same_step_iff_same_depth.

(* the property sentence, both directions: features sharing a step never depend on each other, and two features at the
   same depth (in particular two that need exactly the same earlier steps) that do not depend on each other ARE computed
   together -- however many ancestors each of them has *)
Theorem C15_same_step_independent : forall cl F, acyclic_in cl F -> forall f g l, In f F -> In g F ->
  In l (fst (split_levels cl F)) -> In f l -> In g l -> ~ In f (intra_of cl F g) /\ ~ In g (intra_of cl F f).
Proof. exact same_step_independent. Qed.
Print Assumptions C15_same_step_independent.

Theorem C15_same_depth_computed_together : forall cl F, acyclic_in cl F -> forall f g, In f F -> In g F ->
  depth_of cl F f = depth_of cl F g -> exists l, In l (fst (split_levels cl F)) /\ In f l /\ In g l.
Proof. intros cl F H f g Hf Hg E. apply (same_step_iff_same_depth cl F H f g Hf Hg). exact E. Qed.
Print Assumptions C15_same_depth_computed_together.

(* number of steps of a split = 1 + the maximal depth ... *)
Theorem C15_levels_count : forall cl F, acyclic_in cl F -> F <> [] ->
  List.length (fst (split_levels cl F)) = S (list_max (map (depth_of cl F) F)).
Proof. exact levels_count_max. Qed.
Print Assumptions C15_levels_count.

(* ... and that is minimal: every split in which each feature's in-split ancestors lie in earlier levels has at least as
   many levels (lv_ok: Proofs/PlannerALevels.v, the soundness condition PlannerA/PlannerO prove of the code's split) *)
Theorem C15_levels_minimal : forall cl F, acyclic_in cl F -> F <> [] -> forall L,
  incl F (List.concat L) -> lv_ok (intra_of cl F) [] L -> List.length (fst (split_levels cl F)) <= List.length L.
Proof. exact levels_minimal. Qed.
Print Assumptions C15_levels_minimal.

(* the split does not depend on the iteration orders (Props/PlannerA.v PlannerA_split_levels_perm, restated) *)
Theorem C15_levels_order_independent : forall cl cl' F F', (forall u a, In a (cl u) <-> In a (cl' u)) -> Permutation F F' ->
  Forall2 (@Permutation nat) (fst (split_levels cl F)) (fst (split_levels cl' F')).
Proof. exact split_levels_perm. Qed.
Print Assumptions C15_levels_order_independent.

(* REFUTED alternative (seed C15_r5): level = NUMBER of in-split ancestors.  It is a valid order (lv_ok) but not the
   level: d_a=0, d_b=1 (no ancestors), d_one=2 <- d_a, d_two=3 <- d_a, d_b.  d_one and d_two have the same depth and do
   not depend on each other, the code's split computes them together in 2 steps; the count gives 3 steps and separates
   them -- more steps than the minimum of C15_levels_minimal. *)
Example C15_rank_by_ancestor_count_refuted :
  acyclic_in ex_cl [0; 1; 2; 3] /\
  fst (split_levels ex_cl [0; 1; 2; 3]) = [[0; 1]; [2; 3]] /\
  depth_of ex_cl [0; 1; 2; 3] 2 = depth_of ex_cl [0; 1; 2; 3] 3 /\
  ~ In 2 (intra_of ex_cl [0; 1; 2; 3] 3) /\ ~ In 3 (intra_of ex_cl [0; 1; 2; 3] 2) /\
  split_by_count ex_cl [0; 1; 2; 3] = [[0; 1]; [2]; [3]] /\
  lv_ok (intra_of ex_cl [0; 1; 2; 3]) [] (split_by_count ex_cl [0; 1; 2; 3]) /\
  same_level (split_by_count ex_cl [0; 1; 2; 3]) 2 3 = false /\
  List.length (fst (split_levels ex_cl [0; 1; 2; 3])) < List.length (split_by_count ex_cl [0; 1; 2; 3]).
Proof. exact rank_by_count_refuted. Qed.
Print Assumptions C15_rank_by_ancestor_count_refuted.

(* non-vacuity: a diamond over a chain, depths 0,1,1,2,3 in a scrambled order *)
Definition ex_cl2 (u : nat) : list nat :=
  match u with 1 => [0] | 2 => [0] | 3 => [0; 1; 2] | 4 => [0; 1; 2; 3; 9] | _ => [] end.
Example C15_levels_example :
  fst (split_levels ex_cl2 [4; 2; 0; 3; 1]) = [[0]; [2; 1]; [3]; [4]] /\
  map (depth_of ex_cl2 [4; 2; 0; 3; 1]) [0; 1; 2; 3; 4] = [0; 1; 1; 2; 3] /\
  split_by_count ex_cl2 [4; 2; 0; 3; 1] = [[0]; [2; 1]; [3]; [4]].
Proof. vm_compute. repeat split. Qed.
