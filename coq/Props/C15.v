(* C15 stub *)
Require Import MV.Model.Options.
