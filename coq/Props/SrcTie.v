(* Source-text tie.  coq/Gen/Src.v is regenerated on every run from the CURRENT Python source text by the fail-closed
   translator harness/py2coq.py (no code is evaluated).  Each theorem says that a regenerated definition IS the hand-written
   model the property theorems (Props/C03, C04, C16, C17, C18) are about, for ALL inputs.  A semantic change of the Python
   function changes the regenerated definition and the proof below stops checking; a construct outside the translated
   subset removes the definition (Definition translation_failed_<target>) and the theorem stops compiling.
   Statements only (proofs in Proofs/SrcTie*P.v). *)
From Coq Require Import List Bool ZArith String Ascii Permutation.
Import ListNotations.
Require Import MV.Model.PySem MV.Spec.Types MV.Model.LinkSel MV.Gen.Src MV.Gen.SrcPlan MV.Gen.SrcOpt MV.Gen.SrcName MV.Gen.TypeTables
  MV.Gen.SrcTfs MV.Gen.SrcFilter MV.Gen.SrcWorker MV.Proofs.SrcTieP.
Require MV.Model.Orch MV.Model.Naming MV.Model.ChainParser MV.Model.PlannerA MV.Model.PlannerL MV.Model.PyObj.
Require MV.Model.Options MV.Model.PyObjOpt MV.Spec.OptionsSpec.
Require MV.Model.PlannerB MV.Model.PyObjR3 MV.Model.FilterAttach MV.Model.FilterPath MV.Model.Worker.

(* ---------------- C18: mloda/core/abstract_plugins/components/index/index.py ---------------- *)
(* Index.is_a_part_of_ never raises (the t[i] it contains stays in range) and is the model C18_index_prefix is about *)
Theorem SrcTie_index_is_a_part_of : forall self other, Index_is_a_part_of_ self other = Ok (is_a_part_of self other).
Proof. exact index_is_a_part_of_src. Qed.
Print Assumptions SrcTie_index_is_a_part_of.

Theorem SrcTie_index_is_multi_index : forall i, Index_is_multi_index i = true <-> exists a b r, i = a :: b :: r.
Proof. exact index_is_multi_index_src. Qed.
Print Assumptions SrcTie_index_is_multi_index.

(* ---------------- C18: components/validators/link_validator.py, components/link.py ---------------- *)
(* each of the three pair checks raises ValueError exactly when the model's pair predicate holds for some ordered pair;
   raises_iff b = if b then Raise ValueError else Ok tt *)
Theorem SrcTie_validate_no_double_joins : forall ls,
  LinkValidator_validate_no_double_joins ls = raises_iff (any_pair double_join ls).
Proof. exact validate_no_double_joins_src. Qed.
Print Assumptions SrcTie_validate_no_double_joins.

Theorem SrcTie_validate_no_conflicting_join_types : forall ls,
  LinkValidator_validate_no_conflicting_join_types ls = raises_iff (any_pair conflicting_jt ls).
Proof. exact validate_no_conflicting_join_types_src. Qed.
Print Assumptions SrcTie_validate_no_conflicting_join_types.

Theorem SrcTie_validate_right_join_constraints : forall ls,
  LinkValidator_validate_right_join_constraints ls = raises_iff (any_pair right_conflict ls).
Proof. exact validate_right_join_constraints_src. Qed.
Print Assumptions SrcTie_validate_right_join_constraints.

Theorem SrcTie_validate_links : forall ls,
  validate_rejects ls = true <->
  (LinkValidator_validate_no_double_joins ls <> Ok tt \/ LinkValidator_validate_no_conflicting_join_types ls <> Ok tt
   \/ LinkValidator_validate_right_join_constraints ls <> Ok tt).
Proof. exact validate_links_src. Qed.
Print Assumptions SrcTie_validate_links.

Theorem SrcTie_link_matches_exact : forall l lf rf, Link_matches_exact l lf rf = matches_exact l lf rf.
Proof. exact link_matches_exact_src. Qed.
Print Assumptions SrcTie_link_matches_exact.

(* ---------------- C01 / C04: mloda/core/runtime/run.py ---------------- *)
Theorem SrcTie_is_step_done : forall uuids finished, Orch_is_step_done uuids finished = Orch.subset uuids finished.
Proof. exact is_step_done_src. Qed.
Print Assumptions SrcTie_is_step_done.

(* _can_run_step returns (result, currently_running_steps as left behind) *)
Theorem SrcTie_can_run_step : forall req uuids finished running,
  fst (Orch_can_run_step req uuids finished running) = (Orch.subset req finished && Orch.disjoint uuids running)%bool.
Proof. exact can_run_step_src. Qed.
Print Assumptions SrcTie_can_run_step.

Theorem SrcTie_can_run_step_running : forall req uuids finished running x,
  Orch.mem x (snd (Orch_can_run_step req uuids finished running))
  = Orch.mem x (if (Orch.subset req finished && Orch.disjoint uuids running)%bool then uuids ++ running else running).
Proof. exact can_run_step_running_src. Qed.
Print Assumptions SrcTie_can_run_step_running.

(* the loop body of the model performs exactly these tests *)
Theorem SrcTie_visit_uses_source_tests : forall inline fails st s,
  Orch_is_step_done (Orch.uuids s) (Orch.finished st) = false -> Orch.cur_running s st = false ->
  (fst (Orch_can_run_step (Orch.req s) (Orch.uuids s) (Orch.finished st) (Orch.running st)) = false ->
     Orch.visit inline fails st s = st) /\
  (fst (Orch_can_run_step (Orch.req s) (Orch.uuids s) (Orch.finished st) (Orch.running st)) = true ->
     forall x, Orch.mem x (Orch.running (Orch.visit inline fails st s))
               = Orch.mem x (snd (Orch_can_run_step (Orch.req s) (Orch.uuids s) (Orch.finished st) (Orch.running st)))).
Proof. exact visit_uses_source_tests. Qed.
Print Assumptions SrcTie_visit_uses_source_tests.

(* ---------------- C17: components/validators/datatype_validator.py ---------------- *)
(* the relations read from the literal sets in the source text = the documented tables ... *)
Theorem SrcTie_types_strict : forall d a, DataTypeValidator_types_compatible d a = strict_spec d a.
Proof. exact types_strict_src. Qed.
Print Assumptions SrcTie_types_strict.

Theorem SrcTie_types_lenient : forall d a, DataTypeValidator_types_loosely_compatible d a = lenient_spec d a.
Proof. exact types_lenient_src. Qed.
Print Assumptions SrcTie_types_lenient.

(* ... and = the tables obtained by evaluating the code (T1): two independent routes from the source to one relation *)
Theorem SrcTie_types_strict_two_routes : forall d a, gen_strict d a = Some (DataTypeValidator_types_compatible d a).
Proof. exact types_strict_two_routes. Qed.
Print Assumptions SrcTie_types_strict_two_routes.

Theorem SrcTie_types_lenient_two_routes : forall d a, gen_lenient d a = Some (DataTypeValidator_types_loosely_compatible d a).
Proof. exact types_lenient_two_routes. Qed.
Print Assumptions SrcTie_types_lenient_two_routes.

(* ---------------- C03 / C16: feature_group.py, feature_chainer/feature_chain_parser.py ---------------- *)
Theorem SrcTie_column_base_feature : forall s, FeatureGroup_get_column_base_feature s = Ok (Naming.base_feature s).
Proof. exact column_base_feature_src. Qed.
Print Assumptions SrcTie_column_base_feature.

Theorem SrcTie_column_base : forall s,
  option_map list_ascii_of_string (match FeatureGroup_get_column_base_feature s with Ok b => Some b | Raise _ => None end)
  = Some (ChainParser.column_base (list_ascii_of_string s)).
Proof. exact column_base_src. Qed.
Print Assumptions SrcTie_column_base.

Theorem SrcTie_is_chained_feature : forall s,
  FeatureChainParser_is_chained_feature s = ChainParser.has_dunder (list_ascii_of_string s).
Proof. exact is_chained_feature_src. Qed.
Print Assumptions SrcTie_is_chained_feature.

(* ---------------- C03 (round 2): abstract_plugins/compute_framework.py  identify_naming_convention (coq/Gen/SrcName.v) ---------------- *)
(* Optional[str] ordering with a default, a set comprehension, f-strings, sorted / list.sort, list.extend with a generator that
   reads the list it extends, a result that is a set (inl) or a list (inr): the function IS Naming.identify - ValueError exactly
   when the model says RErr - for every iteration order of the FeatureName set (iter: the model's parameter), every set of
   columns and every order in which the two sets the function builds itself are iterated (ord: any permutation) *)
Theorem SrcTie_identify_naming_convention : forall ord, (forall s l, Permutation (ord s l) l) ->
  forall iter cols o, NoDup cols ->
  ComputeFramework_identify_naming_convention ord iter cols o = of_result (Naming.identify iter cols (ordering_of o)).
Proof. exact identify_naming_convention_src. Qed.
Print Assumptions SrcTie_identify_naming_convention.

(* ---------------- C04, the planner (round 2): coq/Gen/SrcPlan.v; data model of the planner objects: Model/PyObj.v ---------------- *)
(* mloda/core/core/step/join_step.py  JoinStep.get_uuids = the uuids PlannerL gives its LJOIN step *)
Theorem SrcTie_joinstep_get_uuids : forall s, JoinStep_get_uuids s = [PlannerL.js_uid (fst s); fst s].
Proof. exact joinstep_get_uuids_src. Qed.
Print Assumptions SrcTie_joinstep_get_uuids.

(* mloda/core/prepare/joinstep_collection.py  similar_dependent_joins_uuids: the dict is iterated in insertion order (its
   keys), the result is PlannerL.jc_required of those keys - the same list, not only the same set *)
Theorem SrcTie_similar_dependent_joins_uuids : forall collection lf rf,
  JoinStepCollection_similar_dependent_joins_uuids collection lf rf = PlannerL.jc_required (py_dict_keys collection) lf rf.
Proof. exact similar_dependent_joins_uuids_src. Qed.
Print Assumptions SrcTie_similar_dependent_joins_uuids.

(* JoinStepCollection.add: collection[join_step] = similar_dependent_joins_uuids(...); for a JoinStep that is not a key yet
   (JoinStep.__eq__ compares the uuid4 of the object) the entry is appended: exactly the jc / jr of PlannerL.add_joinstep *)
Theorem SrcTie_joinstep_collection_add : forall collection js,
  JoinStepCollection_add collection js
  = (tt, py_dict_set PyObj.jstep_eqb collection js
           (PlannerL.jc_required (py_dict_keys collection) (PyObj.js_left js) (PyObj.js_right js))).
Proof. exact joinstep_collection_add_src. Qed.
Print Assumptions SrcTie_joinstep_collection_add.

Theorem SrcTie_joinstep_collection_add_fresh : forall collection js,
  py_dict_mem PyObj.jstep_eqb js collection = false ->
  JoinStepCollection_add collection js
  = (tt, collection ++ [(js, PlannerL.jc_required (py_dict_keys collection) (PyObj.js_left js) (PyObj.js_right js))]).
Proof. exact joinstep_collection_add_fresh. Qed.
Print Assumptions SrcTie_joinstep_collection_add_fresh.

(* mloda/core/prepare/resolve_compute_frameworks.py  ResolveComputeFrameworks.order_queue_by_trekker_order: the five nested
   loops with the `breaker` flags, the defaultdict of postponed links and the inner `k` that shadows the outer one ARE
   PlannerL.order_queue (blocked / iadd / oq_step), for every planned queue, every LinkTrekker.order and every order oracle;
   in particular the function never raises.  The set of links postponed under link k is iterated in the order
   PlannerL.ordk ord (site_issue k) - the one place where the order is not determined by the program. *)
Theorem SrcTie_order_queue_by_trekker_order : forall ord planned_queue link_trekker,
  ResolveComputeFrameworks_order_queue_by_trekker_order ord planned_queue link_trekker
  = PlannerL.order_queue ord (PlannerL.t_order link_trekker) planned_queue.
Proof. exact order_queue_by_trekker_order_src. Qed.
Print Assumptions SrcTie_order_queue_by_trekker_order.

(* mloda/core/prepare/resolve_links.py  LinkTrekker.order_links_by_frameworks.  The method ends with a call of
   self.drop_dependency_in_case_of_circular_dependencies(), which is not translated (nested function, sets shared between
   self.order and the loop variables): the callee is a PARAMETER of the generated definition.  For EVERY callee the method
   is: self.order := PlannerL.olbf self.data self.order (the KeyError of self.order[k].add cannot happen), then the call. *)
Theorem SrcTie_order_links_by_frameworks : forall (drop : PlannerL.trek -> res unit * PlannerL.trek) self,
  LinkTrekker_order_links_by_frameworks drop self
  = drop (PyObj.trek_set_order self (PlannerL.olbf (PlannerL.t_data self) (PlannerL.t_order self))).
Proof. exact order_links_by_frameworks_src. Qed.
Print Assumptions SrcTie_order_links_by_frameworks.

(* with the callee as PlannerL models it (drop_model: drop_circular, None = the ValueError 'Link not found in data!') the
   method is PlannerL.order_links_by_frameworks *)
Theorem SrcTie_order_links_by_frameworks_model : forall self,
  LinkTrekker_order_links_by_frameworks drop_model self
  = match PlannerL.order_links_by_frameworks (PlannerL.t_data self) (PlannerL.t_order self) with
    | Some o => (Ok tt, PyObj.trek_set_order self o)
    | None => (Raise ValueError, PyObj.trek_set_order self (PlannerL.olbf (PlannerL.t_data self) (PlannerL.t_order self)))
    end.
Proof. exact order_links_by_frameworks_model. Qed.
Print Assumptions SrcTie_order_links_by_frameworks_model.

(* LinkTrekker.order_ordered_ids_by_relation (Optional[int] latest_position, pos_marker: Dict[int, Tuple[UUID, Set[UUID]]],
   range, max, OrderedDict.move_to_end) IS PlannerL.reorder_rel, for every order whose keys are pairwise different (self.order
   is a dict): it never raises (no KeyError, no ValueError of max) and leaves self.order = reorder_rel self.order *)
Theorem SrcTie_order_ordered_ids_by_relation : forall self, NoDup (map fst (PlannerL.t_order self)) ->
  LinkTrekker_order_ordered_ids_by_relation self
  = (Ok tt, PyObj.trek_set_order self (PlannerL.reorder_rel (PlannerL.t_order self))).
Proof. exact order_ordered_ids_by_relation_src. Qed.
Print Assumptions SrcTie_order_ordered_ids_by_relation.

(* LinkTrekker.get_ordered_data: for EVERY three callees it calls them in the order order_links_by_frameworks,
   order_ordered_ids_by_relation, create_data_ordered, stops at the first that raises and returns self.data_ordered *)
Theorem SrcTie_get_ordered_data : forall f1 f2 f3 self,
  LinkTrekker_get_ordered_data f1 f2 f3 self
  = seq_call f1 (seq_call f2 (seq_call f3 (fun s => (Ok (PlannerL.t_dor s), s)))) self.
Proof. exact get_ordered_data_src. Qed.
Print Assumptions SrcTie_get_ordered_data.

(* with the callees as PlannerL models them it is PlannerL.get_ordered_data *)
Theorem SrcTie_get_ordered_data_model : forall t,
  match PlannerL.get_ordered_data t with
  | PlannerL.Ok t' => LinkTrekker_get_ordered_data olbf_model reorder_model cdo_model t = (Ok (PlannerL.t_dor t'), t')
  | PlannerL.Err _ => exists e s, LinkTrekker_get_ordered_data olbf_model reorder_model cdo_model t = (Raise e, s)
  end.
Proof. exact get_ordered_data_model. Qed.
Print Assumptions SrcTie_get_ordered_data_model.

(* mloda/core/prepare/execution_plan.py  ExecutionPlan._validate_required_uuids_are_produced.  It ends with the call of
   _validate_steps_do_not_wait_in_a_cycle (a `while` loop: outside the subset), a PARAMETER here.  For EVERY callee:
   ValueError and the plan untouched unless PlannerA.validate_A holds, otherwise the call.  step.get_uuids() is dispatched on
   the step class: the data model reads it as Orch.uuids. *)
Theorem SrcTie_validate_required_uuids_are_produced : forall (cyc : Orch.plan -> res unit * Orch.plan) p,
  ExecutionPlan_validate_required_uuids_are_produced cyc p = if PlannerA.validate_A p then cyc p else (Raise ValueError, p).
Proof. exact validate_required_uuids_are_produced_src. Qed.
Print Assumptions SrcTie_validate_required_uuids_are_produced.

(* with the callee as PlannerA models it (cycle_model: runsim_accepts) the plan is accepted iff the last two tests of
   prepare_A / prepare_L pass *)
Theorem SrcTie_validate_required_uuids_are_produced_model : forall p,
  fst (ExecutionPlan_validate_required_uuids_are_produced cycle_model p) = Ok tt
  <-> (PlannerA.validate_A p && PlannerA.runsim_accepts p = true)%bool.
Proof. exact validate_required_uuids_are_produced_model. Qed.
Print Assumptions SrcTie_validate_required_uuids_are_produced_model.

(* ---------------- C15, options (round 2): coq/Gen/SrcOpt.v; data model of the objects: Model/PyObjOpt.v ---------------- *)
(* components/options.py  Options.get never raises (self.group[key] is read under `if key in self.group`) and is o_get *)
Theorem SrcTie_options_get : forall s k, Options_get s k = Ok (Options.o_get k s).
Proof. exact options_get_src. Qed.
Print Assumptions SrcTie_options_get.

Theorem SrcTie_options_items : forall s, Options_items s = Options.o_items s.
Proof. exact options_items_src. Qed.
Print Assumptions SrcTie_options_items.

(* components/validators/options_validator.py  validate_can_add_to_group = the two tests of o_add_group *)
Theorem SrcTie_validate_can_add_to_group : forall k v g c,
  OptionsValidator_validate_can_add_to_group k v g c = if add_group_rejects k v g c then Raise ValueError else Ok tt.
Proof. exact validate_can_add_to_group_src. Qed.
Print Assumptions SrcTie_validate_can_add_to_group.

(* Options.add_to_group / Options.add: the object left behind and the exception, as Model/Options.v has them
   (PyObjOpt.of_oerr: (s, None) = (Ok tt, s), (s, Some EValue) = (Raise ValueError, s), (s, Some EType) = (Raise TypeError, s)) *)
Theorem SrcTie_options_add_to_group : forall s k v, Options_add_to_group s k v = PyObjOpt.of_oerr (Options.o_add_group k v s).
Proof. exact options_add_to_group_src. Qed.
Print Assumptions SrcTie_options_add_to_group.

Theorem SrcTie_options_add : forall s k v, Options_add s k v = PyObjOpt.of_oerr (Options.o_step s (Options.OpAdd k v)).
Proof. exact options_add_src. Qed.
Print Assumptions SrcTie_options_add.

Theorem SrcTie_validate_can_add_to_context : forall k v g c,
  OptionsValidator_validate_can_add_to_context k v g c = if add_group_rejects k v c g then Raise ValueError else Ok tt.
Proof. exact validate_can_add_to_context_src. Qed.
Print Assumptions SrcTie_validate_can_add_to_context.

Theorem SrcTie_options_add_to_context : forall s k v,
  Options_add_to_context s k v = PyObjOpt.of_oerr (Options.o_add_context k v s).
Proof. exact options_add_to_context_src. Qed.
Print Assumptions SrcTie_options_add_to_context.

(* Options.set never raises and leaves o_set's state *)
Theorem SrcTie_options_set : forall s k v,
  Options_set s k v = (tt, fst (Options.o_set k v s)) /\ snd (Options.o_set k v s) = None.
Proof. exact options_set_src. Qed.
Print Assumptions SrcTie_options_set.

(* components/feature_collection.py  Features.merge_options.  The final call feature_options.update_with_protected_keys(child)
   is a PARAMETER (not translated: dict comprehension with a filter, del, default argument).  For EVERY callee: TypeError when
   the value under feature_chainer_parser_key cannot be iterated, ValueError when a key that is not protected has different
   values on the two sides - nothing is changed in both cases -, otherwise the call *)
Theorem SrcTie_merge_options : forall (upd : Options.ostate -> Options.ostate -> res unit * Options.ostate) s child,
  Features_merge_options upd s child
  = match Options.default_protected s with
    | None => (Raise TypeError, s)
    | Some pk => if merge_conflict pk s child then (Raise ValueError, s) else upd s child
    end.
Proof. exact merge_options_src. Qed.
Print Assumptions SrcTie_merge_options.

(* with the callee as Model/Options.v has it (o_update with the default protected keys) the method is o_merge *)
Theorem SrcTie_merge_options_model : forall s child,
  Features_merge_options update_model s child = PyObjOpt.of_oerr (Options.o_merge child s).
Proof. exact merge_options_model. Qed.
Print Assumptions SrcTie_merge_options_model.

(* validators/options_validator.py  the two conflict checks of update_with_protected_keys *)
Theorem SrcTie_validate_no_group_context_conflicts : forall a b,
  OptionsValidator_validate_no_group_context_conflicts a b
  = if existsb (fun k => Options.kmem k b) a then Raise ValueError else Ok tt.
Proof. exact validate_no_group_context_conflicts_src. Qed.
Print Assumptions SrcTie_validate_no_group_context_conflicts.

Theorem SrcTie_validate_no_context_group_conflicts : forall a b,
  OptionsValidator_validate_no_context_group_conflicts a b
  = if existsb (fun k => Options.kmem k b) a then Raise ValueError else Ok tt.
Proof. exact validate_no_context_group_conflicts_src. Qed.
Print Assumptions SrcTie_validate_no_context_group_conflicts.

(* components/options.py  Options.update_with_protected_keys (default argument, `Set[str] | None` re-bound in the None branch,
   `for key in <Any>`, dict.copy, del, dict comprehension with a filter, `k in d and d[k] != v`, dict.update) IS Options.o_update:
   the object left behind AND the exception, for every state, every other Options whose group is a dict (pairwise different
   keys) and every order in which the value under feature_chainer_parser_key and the set of protected keys are iterated (ord: any
   function that returns the same keys) *)
Theorem SrcTie_update_with_protected_keys : forall ord, (forall site l k, Options.kmem k (ord site l) = Options.kmem k l) ->
  forall s other prot, OptionsSpec.nodupk (Options.dkeys (Options.og other)) ->
  Options_update_with_protected_keys ord s other prot = PyObjOpt.of_oerr (Options.o_update other prot s).
Proof. exact update_with_protected_keys_src. Qed.
Print Assumptions SrcTie_update_with_protected_keys.

(* merge_options with the callee it really calls: update_with_protected_keys(child) with the default argument *)
Theorem SrcTie_merge_options_full : forall ord, (forall site l k, Options.kmem k (ord site l) = Options.kmem k l) ->
  forall s child, OptionsSpec.nodupk (Options.dkeys (Options.og child)) ->
  Features_merge_options (fun fo co => Options_update_with_protected_keys ord fo co None) s child
  = PyObjOpt.of_oerr (Options.o_merge child s).
Proof. exact merge_options_full. Qed.
Print Assumptions SrcTie_merge_options_full.

(* ---------------- C04 / C05 (round 3): core/step/transform_frame_work_step.py (coq/Gen/SrcTfs.v; objects: Model/PyObjR3.v) ---------------- *)
(* TransformFrameworkStep.__eq__ on two steps IS the de-duplication key of PlannerB's add_tfs (`new_tfs not in self.tfs_collecion`):
   from framework, to framework, from feature group AND to feature group - for all pairs of steps *)
Theorem SrcTie_tfs_eq : forall a b, TransformFrameworkStep_eq a (Some b) = PlannerB.tkey_eqb a b.
Proof. exact tfs_eq_src. Qed.
Print Assumptions SrcTie_tfs_eq.

Theorem SrcTie_tfs_eq_other : forall a, TransformFrameworkStep_eq a None = false.
Proof. exact tfs_eq_other_src. Qed.
Print Assumptions SrcTie_tfs_eq_other.

Theorem SrcTie_tfs_eq_components : forall a b,
  TransformFrameworkStep_eq a (Some b) = true <->
  PyObjR3.tk_from a = PyObjR3.tk_from b /\ PyObjR3.tk_to a = PyObjR3.tk_to b /\
  PyObjR3.tk_fgrp a = PyObjR3.tk_fgrp b /\ PyObjR3.tk_tgrp a = PyObjR3.tk_tgrp b.
Proof. exact tfs_eq_components. Qed.
Print Assumptions SrcTie_tfs_eq_components.

(* __hash__ hashes the tuple of the same four components, so: equal <-> equal hashed tuple *)
Theorem SrcTie_tfs_hash : forall a,
  TransformFrameworkStep_hash a = [PyObjR3.tk_from a; PyObjR3.tk_to a; PyObjR3.tk_fgrp a; PyObjR3.tk_tgrp a].
Proof. exact tfs_hash_src. Qed.
Print Assumptions SrcTie_tfs_hash.

Theorem SrcTie_tfs_eq_iff_hash : forall a b,
  TransformFrameworkStep_eq a (Some b) = true <-> TransformFrameworkStep_hash a = TransformFrameworkStep_hash b.
Proof. exact tfs_eq_iff_hash. Qed.
Print Assumptions SrcTie_tfs_eq_iff_hash.

(* membership in tfs_collecion as the model has it (PlannerB.kmem, used by tfs_loop / add_tfs) is membership under the source's __eq__ *)
Theorem SrcTie_tfs_collection_mem : forall k keys,
  PlannerB.kmem k keys = existsb (fun k' => TransformFrameworkStep_eq k (Some k')) keys.
Proof. exact tfs_collection_mem_src. Qed.
Print Assumptions SrcTie_tfs_collection_mem.

(* ---------------- C11 (round 3): prepare/execution_plan.py  add_single_filters_to_feature_set (coq/Gen/SrcFilter.v) ---------------- *)
(* Which steps get which single filters.  The final call feature_set.add_filters(relevant_filters) is a PARAMETER.  For EVERY
   callee, every Optional[GlobalFilter] (None / its collection), every group and every feature set: nothing without a filter or
   with an empty collection; ValueError (feature set untouched) when two gated entries hold different sets; otherwise add_filters
   receives Model/FilterAttach.attach over the names of ALL features of the set (requested or not) *)
Theorem SrcTie_add_single_filters_to_feature_set :
  forall (add_filters : PyObjR3.fset -> list nat -> res unit * PyObjR3.fset) gf fg fs,
  ExecutionPlan_add_single_filters_to_feature_set add_filters gf fg fs
  = match gf with
    | None => (Ok tt, fs)
    | Some [] => (Ok tt, fs)
    | Some c => match FilterAttach.attach c fg (map PyObjR3.ft_name (PyObjR3.fs_features fs)) with
                | None => (Raise ValueError, fs)
                | Some s => add_filters fs s
                end
    end.
Proof. exact add_single_filters_to_feature_set_src. Qed.
Print Assumptions SrcTie_add_single_filters_to_feature_set.

(* with FeatureSet.add_filters on a fresh feature set: .filters becomes attach *)
Theorem SrcTie_add_single_filters_to_feature_set_model : forall c fg feats s,
  c <> [] -> FilterAttach.attach c fg (map PyObjR3.ft_name feats) = Some s ->
  ExecutionPlan_add_single_filters_to_feature_set add_filters_model (Some c) fg
    {| PyObjR3.fs_features := feats; PyObjR3.fs_filters := None |}
  = (Ok tt, {| PyObjR3.fs_features := feats; PyObjR3.fs_filters := Some s |}).
Proof. exact add_single_filters_to_feature_set_model. Qed.
Print Assumptions SrcTie_add_single_filters_to_feature_set_model.

(* the gate of the model: an entry (group, feature name) of the collection is attached iff the step is of that group and SOME
   feature of its feature set has that name - the membership test of FilterPath.gate (C11path_gate_iff) *)
Theorem SrcTie_attach_gate_iff : forall fg names k,
  FilterAttach.attach_gate fg names k = true <-> fst k = fg /\ In (snd k) names.
Proof. exact attach_gate_iff. Qed.
Print Assumptions SrcTie_attach_gate_iff.

Theorem SrcTie_attach_gate_filterpath_gate : forall g names m,
  FilterAttach.attach_gate g names (g, FilterPath.ff_name (FilterPath.m_feature m)) = FilterPath.gate names m.
Proof. exact attach_gate_filterpath_gate. Qed.
Print Assumptions SrcTie_attach_gate_filterpath_gate.

(* every gated entry reaches the step: the step's filters are its set; without a gated entry the step gets the empty set *)
Theorem SrcTie_attach_sound : forall c fg names s e,
  FilterAttach.attach c fg names = Some s -> In e c -> FilterAttach.attach_gate fg names (fst e) = true -> snd e <> [] ->
  FilterAttach.set_eqb s (snd e) = true.
Proof. exact attach_sound. Qed.
Print Assumptions SrcTie_attach_sound.

Theorem SrcTie_attach_none_gated : forall fg names c,
  (forall e, In e c -> FilterAttach.attach_gate fg names (fst e) = false) -> FilterAttach.attach c fg names = Some [].
Proof. exact attach_none_gated. Qed.
Print Assumptions SrcTie_attach_none_gated.

(* ---------------- C01 / C08 (round 3): runtime/worker/thread_worker.py, core/cfw_manager.py set_error (coq/Gen/SrcWorker.v) ---------------- *)
Theorem SrcTie_set_error : forall r m x,
  CfwManager_set_error r m x = (tt, {| PyObjR3.wr_error := true; PyObjR3.wr_msg := m; PyObjR3.wr_exc := x |}).
Proof. exact set_error_src. Qed.
Print Assumptions SrcTie_set_error.

(* The worker function (try / except Exception as e: PySem.py_try).  command.execute(...) is a PARAMETER: for EVERY execute -
   whatever it raises and whatever it does to the step and the register -
     it completes                 -> command.step_is_done := True, the register as execute left it, the worker returns
     it raises an Exception       -> set_error on the register, step_is_done NOT written, Exception(msg, exc_info) propagates
     it raises a non-Exception    -> no register is written, the exception propagates *)
Theorem SrcTie_thread_worker : forall execute c r a b,
  Worker_thread_worker execute c r a b
  = match execute c r a b with
    | (Ok _, (c', r')) => (Ok tt, PyObjR3.wcmd_set_done c' true, r')
    | (Raise e, (c', r')) => if py_is_exception e then (Raise OtherError, c', errored r') else (Raise e, c', r')
    end.
Proof. exact thread_worker_src. Qed.
Print Assumptions SrcTie_thread_worker.

(* the two registers the orchestrator polls, as a function of the outcome of execute (an execute that does not write them
   itself): done is set exactly on success, error exactly on failure *)
Theorem SrcTie_thread_worker_registers : forall execute c r a b,
  keeps_registers execute -> raises_exception_only (fst (execute c r a b)) ->
  let ok := is_ok (fst (execute c r a b)) in
  let out := Worker_thread_worker execute c r a b in
  is_ok (fst (fst out)) = ok /\ PyObjR3.wc_done (snd (fst out)) = (PyObjR3.wc_done c || ok)%bool /\
  PyObjR3.wr_error (snd out) = (PyObjR3.wr_error r || negb ok)%bool.
Proof. exact thread_worker_registers. Qed.
Print Assumptions SrcTie_thread_worker_registers.

(* = Model/Orch.v worker_done (the EDone s ok event of a THREADING worker) *)
Theorem SrcTie_thread_worker_worker_done : forall execute c r a b st s,
  keeps_registers execute -> raises_exception_only (fst (execute c r a b)) ->
  PyObjR3.wc_done c = false -> PyObjR3.wr_error r = false ->
  Orch.mem s (Orch.started_ids st) = true -> Orch.mem s (Orch.done st) = false -> Orch.mem s (Orch.failed st) = false ->
  let ok := is_ok (fst (execute c r a b)) in
  let out := Worker_thread_worker execute c r a b in
  PyObjR3.wc_done (snd (fst out)) = Orch.mem s (Orch.done (Orch.worker_done st s ok)) /\
  PyObjR3.wr_error (snd out) = Orch.mem s (Orch.failed (Orch.worker_done st s ok)).
Proof. exact thread_worker_worker_done. Qed.
Print Assumptions SrcTie_thread_worker_worker_done.

(* = Model/Worker.v, THREADING: the label the worker takes (WDone on success, WFail on failure) emits the completion event
   (s, value of the done register); the error register is its negation *)
Theorem SrcTie_thread_worker_labels : forall execute c r a b (cf : Worker.cfg) (ps : Worker.pst) w s cp,
  keeps_registers execute -> raises_exception_only (fst (execute c r a b)) ->
  PyObjR3.wc_done c = false -> PyObjR3.wr_error r = false ->
  Worker.mp cf = false -> Worker.phase (Worker.ws ps w) = Worker.WRun s ->
  let ok := is_ok (fst (execute c r a b)) in
  let out := Worker_thread_worker execute c r a b in
  Worker.evs_of cf ps (if ok then Worker.WDone w else Worker.WFail w cp) = [(s, PyObjR3.wc_done (snd (fst out)))] /\
  PyObjR3.wr_error (snd out) = negb (PyObjR3.wc_done (snd (fst out))).
Proof. exact thread_worker_labels. Qed.
Print Assumptions SrcTie_thread_worker_labels.

Theorem SrcTie_thread_worker_nonexception : forall execute c r a b c' r',
  execute c r a b = (Raise NonException, (c', r')) -> Worker_thread_worker execute c r a b = (Raise NonException, c', r').
Proof. exact thread_worker_nonexception. Qed.
Print Assumptions SrcTie_thread_worker_nonexception.

(* non-vacuity: the regenerated definitions compute, on both sides of each decision *)
Example SrcTie_examples :
  Index_is_a_part_of_ ["a"%string] ["a"%string; "b"%string] = Ok true /\
  Index_is_a_part_of_ ["a"%string; "b"%string] ["a"%string] = Ok false /\
  Index_is_a_part_of_ ["b"%string] ["a"%string; "b"%string] = Ok false /\
  Index_is_multi_index ["a"%string] = false /\
  Orch_is_step_done [1; 2]%nat [2; 1; 3]%nat = true /\ Orch_is_step_done [1; 4]%nat [2; 1; 3]%nat = false /\
  Orch_can_run_step [1]%nat [5]%nat [1]%nat [6]%nat = (true, [6; 5]%nat) /\
  Orch_can_run_step [1]%nat [5]%nat [1]%nat [5]%nat = (false, [5]%nat) /\
  DataTypeValidator_types_compatible INT64 INT32 = true /\ DataTypeValidator_types_compatible INT32 INT64 = false /\
  DataTypeValidator_types_loosely_compatible INT32 DOUBLE = true /\
  FeatureGroup_get_column_base_feature "f~1~2"%string = Ok "f"%string /\
  FeatureChainParser_is_chained_feature "a__b"%string = true /\ FeatureChainParser_is_chained_feature "a_b_"%string = false /\
  LinkValidator_validate_no_double_joins
    [ {| jt := INNER; lfg := 0%nat; rfg := 1%nat; lidx := ["k"%string]; ridx := ["k"%string] |};
      {| jt := LEFT; lfg := 1%nat; rfg := 0%nat; lidx := ["k"%string]; ridx := ["k"%string] |} ] = Raise ValueError.
Proof. vm_compute. repeat split. Qed.

(* the planner targets compute: link 4 waits for link 0 and arrives first, so it is postponed and follows directly behind it;
   two join steps that share framework 1: the second one requires the uuids of the first *)
Example SrcTie_plan_examples :
  ResolveComputeFrameworks_order_queue_by_trekker_order PlannerA.ord_id
    [PlannerL.PL (4, (1, 2)); PlannerL.PG 7 [3]; PlannerL.PL (0, (0, 1))]%nat
    {| PlannerL.t_data := []; PlannerL.t_dor := []; PlannerL.t_order := [(0, [4])]%nat |}
  = [PlannerL.PG 7 [3]; PlannerL.PL (0, (0, 1)); PlannerL.PL (4, (1, 2))]%nat /\
  JoinStepCollection_similar_dependent_joins_uuids [((0, (0, 1)), []); ((4, (2, 3)), [])]%nat 1%nat 5%nat = [1; 0]%nat /\
  snd (JoinStepCollection_add [((0, (0, 1)), [])]%nat (4, (1, 2))%nat) = [((0, (0, 1)), []); ((4, (1, 2)), [1; 0])]%nat /\
  (* link 0 (frameworks 0 -> 1) has to come before link 4 (frameworks 1 -> 2): order = {4: {0}} *)
  PlannerL.t_order (snd (LinkTrekker_order_links_by_frameworks (fun s => (Ok tt, s))
    {| PlannerL.t_data := [((0, (0, 1)), [9]); ((4, (1, 2)), [9])]%nat; PlannerL.t_dor := []; PlannerL.t_order := [] |}))
  = [(4, [0])]%nat /\
  (* {8: {4}, 4: {0}} is turned round: 4 is a dependent of a later entry *)
  PlannerL.t_order (snd (LinkTrekker_order_ordered_ids_by_relation
    {| PlannerL.t_data := []; PlannerL.t_dor := []; PlannerL.t_order := [(4, [0]); (8, [4])]%nat |}))
  = [(8, [4]); (4, [0])]%nat.
Proof. vm_compute. repeat split. Qed.

(* the option targets compute: a child value that differs under a key that is not protected is a ValueError and leaves the
   parent as it was; under a key listed by the parent's feature_chainer_parser_key it is not *)
Example SrcTie_opt_examples :
  let a := Options.KStr "a" in
  let parent v := {| Options.og := (a, Options.VInt 1) :: v; Options.oc := []; Options.opk := [] |} in
  let child := {| Options.og := [(a, Options.VInt 2)]; Options.oc := []; Options.opk := [] |} in
  fst (Features_merge_options update_model (parent []) child) = Raise ValueError /\
  fst (Features_merge_options update_model (parent [(Options.k_chainer, Options.VList [Options.VStr "a"])]) child) = Ok tt /\
  Options_get (parent []) a = Ok (Options.VInt 1) /\
  fst (Options_add (parent []) a (Options.VInt 2)) = Raise ValueError /\
  fst (Options_add (parent []) a (Options.VBool true)) = Ok tt /\
  (* update with protected key a: the child's a is not merged; without: it replaces the parent's *)
  Options.og (snd (Options_update_with_protected_keys (fun _ l => l) (parent []) child (Some [a]))) = [(a, Options.VInt 1)] /\
  Options.og (snd (Options_update_with_protected_keys (fun _ l => rev l) (parent []) child None)) = [(a, Options.VInt 2)].
Proof. vm_compute. repeat split. Qed.

Example SrcTie_name_examples :
  ComputeFramework_identify_naming_convention (fun _ l => rev l) ["f"%string; "g"%string] ["g~2"%string; "x"%string; "f"%string; "g~1"%string]
    (Some "request_order"%string) = Ok (inr ["f"%string; "g~1"%string; "g~2"%string]) /\
  ComputeFramework_identify_naming_convention (fun _ l => l) ["f"%string] ["x"%string] None = Raise ValueError /\
  ComputeFramework_identify_naming_convention (fun _ l => l) ["f"%string] ["f"%string] (Some "other"%string) = Raise ValueError.
Proof. vm_compute. repeat split. Qed.

(* round 3: two transform steps that differ only in the consumer group are different keys; the worker on the three outcomes of
   execute; a filter entry keyed by a NON-requested feature of the step's feature set is attached *)
Example SrcTie_r3_examples :
  TransformFrameworkStep_eq (1, 2, 3, 4)%nat (Some (1, 2, 3, 5)%nat) = false /\
  TransformFrameworkStep_eq (1, 2, 3, 4)%nat (Some (1, 2, 3, 4)%nat) = true /\
  TransformFrameworkStep_hash (1, 2, 3, 4)%nat <> TransformFrameworkStep_hash (1, 2, 3, 5)%nat /\
  (let c := {| PyObjR3.wc_sid := 7; PyObjR3.wc_done := false |} in
   let r := {| PyObjR3.wr_error := false; PyObjR3.wr_msg := py_msg; PyObjR3.wr_exc := py_msg |} in
   Worker_thread_worker (fun c r _ _ => (Ok tt, (c, r))) c r 0%nat 0%nat = (Ok tt, PyObjR3.wcmd_set_done c true, r) /\
   Worker_thread_worker (fun c r _ _ => (Raise ValueError, (c, r))) c r 0%nat 0%nat = (Raise OtherError, c, errored r) /\
   Worker_thread_worker (fun c r _ _ => (Raise NonException, (c, r))) c r 0%nat 0%nat = (Raise NonException, c, r)) /\
  (let fs := {| PyObjR3.fs_features := [{| PyObjR3.ft_name := "k_id"; PyObjR3.ft_init := false |};
                                        {| PyObjR3.ft_name := "k_v"; PyObjR3.ft_init := false |}];
                PyObjR3.fs_filters := None |} in
   ExecutionPlan_add_single_filters_to_feature_set add_filters_model (Some [((3%nat, "k_id"%string), [9%nat])]) 3%nat fs
   = (Ok tt, {| PyObjR3.fs_features := PyObjR3.fs_features fs; PyObjR3.fs_filters := Some [9%nat] |}) /\
   ExecutionPlan_add_single_filters_to_feature_set add_filters_model (Some [((4%nat, "k_id"%string), [9%nat])]) 3%nat fs
   = (Ok tt, {| PyObjR3.fs_features := PyObjR3.fs_features fs; PyObjR3.fs_filters := Some [] |}) /\
   fst (ExecutionPlan_add_single_filters_to_feature_set add_filters_model
          (Some [((3%nat, "k_id"%string), [9%nat]); ((3%nat, "k_v"%string), [8%nat])]) 3%nat fs) = Raise ValueError).
Proof. vm_compute. repeat split; discriminate. Qed.
