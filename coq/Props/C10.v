(* C10 — each feature resolves to one admissible group and framework, or is rejected.
   Property theorems only (proofs in Proofs/ResolveP.v; model Model/Resolve.v; rule Spec/ResolveRule.v).
   Every statement holds for ALL environments e (existing / available frameworks), ALL universes u of feature-group
   classes (any size, any inheritance relation `supers`, any match sets, domains, framework rules, index columns) and ALL
   requests rq (API framework list, collector, feature name / domain / framework, links).  Python set/dict iteration
   order = list order; `next(iter(set))` = the parameter `choice`. *)
From Coq Require Import List Bool String Arith Permutation.
Import ListNotations.
Require Import MV.Model.Resolve MV.Spec.ResolveRule MV.Proofs.ResolveP.
Open Scope string_scope.
Open Scope list_scope.

(* ---- resolve_spec: sound and complete w.r.t. "the unique admissible group after preferring subclasses that have the
        same framework set" (the rule the code implements; `preferred` in Spec/ResolveRule.v).  NoDup (map cid u): the
        classes of a universe are distinct objects. ---- *)
Theorem C10_resolve_spec : forall e u rq, NoDup (map cid u) -> precheck e u rq = None ->
  outcome_ok e u rq (resolve e u rq).
Proof. exact resolve_sound_l. Qed.
Print Assumptions C10_resolve_spec.

Theorem C10_resolve_complete : forall e u rq, NoDup (map cid u) -> precheck e u rq = None ->
  (forall c, preferred e u rq c -> (forall c', preferred e u rq c' -> c' = c) ->
             exists gf, resolve e u rq = Chosen (cid c) gf) /\
  ((~ exists c, preferred e u rq c) -> resolve e u rq = Rejected ENoGroup) /\
  (forall c c', preferred e u rq c -> preferred e u rq c' -> c <> c' -> resolve e u rq = Rejected EMultiple).
Proof. exact resolve_complete_l. Qed.
Print Assumptions C10_resolve_complete.

(* ---- rejection exactly when no group or more than one group remains; a group is chosen exactly when one remains ---- *)
Theorem C10_rejected_iff_zero_or_many : forall e u rq, NoDup (map cid u) -> precheck e u rq = None ->
  (resolve e u rq = Rejected ENoGroup <-> ~ exists c, preferred e u rq c) /\
  (resolve e u rq = Rejected EMultiple <-> exists c c', preferred e u rq c /\ preferred e u rq c' /\ c <> c') /\
  ((exists n gf, resolve e u rq = Chosen n gf) <->
   exists c, preferred e u rq c /\ forall c', preferred e u rq c' -> c' = c).
Proof. exact resolve_rejection_l. Qed.
Print Assumptions C10_rejected_iff_zero_or_many.

(* request-level rejections (before any group is looked at) are exactly the four documented conditions *)
Theorem C10_request_errors_sound : forall e u rq er, precheck e u rq = Some er -> request_error e u rq er.
Proof. exact precheck_sound_l. Qed.
Print Assumptions C10_request_errors_sound.

Theorem C10_request_errors_complete : forall e u rq, precheck e u rq = None <-> forall er, ~ request_error e u rq er.
Proof. exact precheck_complete_l. Qed.
Print Assumptions C10_request_errors_complete.

(* the two remaining raise statements (validate: "has no compute framework"; set_compute_framework: "does not support
   compute framework") are unreachable *)
Theorem C10_no_dead_errors : forall e u rq,
  resolve e u rq <> Rejected ENoFramework /\ resolve e u rq <> Rejected EFwUnsupported.
Proof. exact dead_errors_l. Qed.
Print Assumptions C10_no_dead_errors.

(* ---- resolve_perm_invariant: class definition order / hashing (= iteration order of the class dict) cannot matter;
        no hypothesis on u at all ---- *)
Theorem C10_resolve_perm_invariant : forall e rq u u', Permutation u u' -> resolve e u rq = resolve e u' rq.
Proof. exact resolve_perm_invariant_l. Qed.
Print Assumptions C10_resolve_perm_invariant.

(* the groups listed in the "Multiple feature groups" message are the same set under every order *)
Theorem C10_survivors_perm : forall e rq u u', Permutation u u' -> Permutation (survivors e rq u) (survivors e rq u').
Proof. exact survivors_perm_l. Qed.
Print Assumptions C10_survivors_perm.

(* ---- framework_admissible: the feature's framework set is the intersection of API argument, feature-group rule,
        feature setting and availability; whatever next(iter(..)) picks lies in it ---- *)
Theorem C10_framework_admissible : forall e u rq n gf, resolve e u rq = Chosen n gf ->
  exists c, In c u /\ cid c = n /\ admissible e rq c /\
            forall x, In x (feature_fws rq gf) <-> admissible_fw e rq c x.
Proof. exact framework_admissible_l. Qed.
Print Assumptions C10_framework_admissible.

Theorem C10_run_framework_admissible : forall choice : list fw -> fw, (forall l, l <> [] -> In (choice l) l) ->
  forall e u rq n gf, resolve e u rq = Chosen n gf ->
  exists c, In c u /\ cid c = n /\ admissible_fw e rq c (run_fw choice rq gf).
Proof. exact run_fw_admissible_l. Qed.
Print Assumptions C10_run_framework_admissible.

(* ---- UNCONDITIONAL subclass preference (a subclass always replaces its ancestor; this is how the docstrings of
   filter_subclasses and plugin_docs.resolve_feature describe it, and the strongest reading of "after preferring
   subclasses" in the property text: exactly one group left => that group is chosen).
   FULL STATEMENT (refuted on the faithful model, see C10_unconditional_preference_refuted):
     forall e u rq, NoDup (map cid u) -> precheck e u rq = None -> outcome_literal e u rq (resolve e u rq).
   PROVED: the same outside kf_fw_mismatch (an admissible proper subclass whose usable framework set differs from that
   of its admissible ancestor; decidable: kf_fw_mismatch_b).  Inside that domain the implementation keeps both classes and
   REJECTS the request; the property as worded permits a rejection, so this is a recorded deviation, not a violation. ---- *)
Theorem C10_unconditional_preference_partial : forall e u rq, NoDup (map cid u) -> precheck e u rq = None ->
  ~ kf_fw_mismatch e u rq -> outcome_literal e u rq (resolve e u rq).
Proof. exact resolve_literal_partial_l. Qed.
Print Assumptions C10_unconditional_preference_partial.

Theorem C10_kf_fw_mismatch_decidable : forall e u rq, kf_fw_mismatch_b e u rq = true <-> kf_fw_mismatch e u rq.
Proof. exact kf_b_spec. Qed.
Print Assumptions C10_kf_fw_mismatch_decidable.

Theorem C10_unconditional_preference_refuted :
  NoDup (map cid wit_u) /\ precheck wit_e wit_u wit_rq = None /\ kf_fw_mismatch wit_e wit_u wit_rq /\
  resolve wit_e wit_u wit_rq = Rejected EMultiple /\
  preferred_literal wit_e wit_u wit_rq wit_C /\ (forall c, preferred_literal wit_e wit_u wit_rq c -> c = wit_C) /\
  ~ outcome_literal wit_e wit_u wit_rq (resolve wit_e wit_u wit_rq).
Proof. exact literal_refuted_l. Qed.
Print Assumptions C10_unconditional_preference_refuted.

(* ---- the diagnostic API plugin_docs.resolve_feature: unique most specific class matching the name ---- *)
Theorem C10_doc_resolve_spec : forall u name, NoDup (map cid u) -> doc_outcome u name (doc_resolve u name).
Proof. exact doc_resolve_sound_l. Qed.
Print Assumptions C10_doc_resolve_spec.

(* ... and it agrees with the engine on unrestricted requests outside kf_fw_mismatch, but not inside *)
Theorem C10_doc_engine_agree_partial : forall e u rq, NoDup (map cid u) -> precheck e u rq = None ->
  collector rq = None -> fdom rq = None -> ffw rq = None -> links rq = None ->
  (forall c, In c u -> In (fname rq) (accepts c) -> exists x, group_fw e rq c x) ->
  ~ kf_fw_mismatch e u rq ->
  forall n, (exists gf, resolve e u rq = Chosen n gf) <-> doc_resolve u (fname rq) = Some (Some n).
Proof. exact doc_engine_agree_l. Qed.
Print Assumptions C10_doc_engine_agree_partial.

Theorem C10_doc_engine_differ_refuted :
  doc_resolve wit_u "f" = Some (Some 1) /\ resolve wit_e wit_u wit_rq = Rejected EMultiple.
Proof. exact doc_engine_differ_l. Qed.
Print Assumptions C10_doc_engine_differ_refuted.

(* ---- non-vacuity: frameworks 0 = PyArrowTable, 1 = PandasDataFrame, 2 = PythonDictFramework, 3 = exists but is not
   available.  Chain A(0) <- B(1) <- C(2), all matching "f", plus D(3) matching "f" in another domain and E(4) = a copy of
   the situation with an explicit rule. ---- *)
Definition ex_e := {| existing := [0; 1; 2; 3]; available := [0; 1; 2] |}.
Definition ex_cls i sup acc d r := {| cid := i; supers := sup; accepts := acc; dom := d; rule := r; idxcols := None |}.
Definition ex_u := [ex_cls 0 [] ["f"; "g"] "default_domain" None; ex_cls 1 [0] ["f"] "default_domain" None;
                    ex_cls 2 [1; 0] ["f"] "default_domain" None; ex_cls 3 [] ["f"; "g"] "dA" (Some [1; 3])].
Definition ex_rq a col d f := {| api := a; collector := col; fname := "f"; fdom := d; ffw := f; links := None |}.
Example C10_examples :
  NoDup (map cid ex_u) /\
  (* the deepest subclass wins inside one domain; all three available frameworks stay admissible *)
  resolve ex_e ex_u (ex_rq [] None (Some "default_domain") None) = Chosen 2 [0; 1; 2] /\
  (* no domain given: the chain and D compete -> rejected *)
  resolve ex_e ex_u (ex_rq [] None None None) = Rejected EMultiple /\
  (* the other domain: D on Pandas only (framework 3 exists but is unavailable) *)
  resolve ex_e ex_u (ex_rq [] None (Some "dA") None) = Chosen 3 [1] /\
  (* a feature-level framework that D does not offer -> no group *)
  resolve ex_e ex_u (ex_rq [] None (Some "dA") (Some 0)) = Rejected ENoGroup /\
  (* collector disabling the leaf: the middle class is chosen *)
  resolve ex_e ex_u (ex_rq [] (Some ([], [2])) (Some "default_domain") None) = Chosen 1 [0; 1; 2] /\
  (* API list restricted to Pandas: D and the chain now have the same set but are unrelated -> rejected *)
  resolve ex_e ex_u (ex_rq [1] None None None) = Rejected EMultiple /\
  (* request-level rejections *)
  resolve ex_e ex_u (ex_rq [7] None None None) = Rejected ENoApiFramework /\
  resolve ex_e ex_u (ex_rq [0] None None (Some 1)) = Rejected EFeatureFwNotInApi /\
  resolve ex_e ex_u (ex_rq [] (Some ([2], [2])) None None) = Rejected ENoAccessible /\
  (* the hypotheses of the spec theorems hold here, and the order of the universe is irrelevant *)
  precheck ex_e ex_u (ex_rq [] None (Some "default_domain") None) = None /\
  kf_fw_mismatch_b ex_e ex_u (ex_rq [] None (Some "default_domain") None) = false /\
  resolve ex_e (rev ex_u) (ex_rq [] None (Some "default_domain") None) = Chosen 2 [0; 1; 2] /\
  (* restricting the API list turns the refutation witness into a unique choice *)
  resolve wit_e wit_u {| api := [0]; collector := None; fname := "f"; fdom := None; ffw := None; links := None |}
    = Chosen 1 [0].
Proof. split; [repeat constructor; cbn; intuition discriminate | vm_compute; repeat split]. Qed.
