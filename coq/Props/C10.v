(* C10 — each feature resolves to one admissible group and framework, or is rejected.
   Property theorems only (proofs in Proofs/ResolveP.v; model Model/Resolve.v; rule Spec/ResolveRule.v).
   Every statement holds for ALL environments e (existing / available frameworks), ALL universes u of feature-group
   classes (any size, any inheritance relation `supers`, any match sets, domains, framework rules, index columns) and ALL
   requests rq (API framework list, collector, feature name / domain / framework, links).  Python set/dict iteration
   order = list order; `next(iter(set))` = the parameter `choice`.
   A compute framework is a class OBJECT (identity, `fw`) with a class NAME (`cname e x`); names need not be unique among the
   existing classes (same-named twins).  An entry of the API list is a string (AName: selects by name) or a class object
   (AClass: selects by identity); everything else compares class objects. *)
From Coq Require Import List Bool String Arith Permutation.
Import ListNotations.
Require Import MV.Model.Resolve MV.Spec.ResolveRule MV.Proofs.ResolveP MV.Proofs.ResolveNamesP.
Require Import MV.Model.ResolveHist MV.Spec.ResolveHistRule MV.Proofs.ResolveHistP.
Open Scope string_scope.
Open Scope list_scope.

(* ---- resolve_spec: sound and complete w.r.t. "the unique admissible group after preferring subclasses that have the
        same framework set" (the rule the code implements; `preferred` in Spec/ResolveRule.v).  NoDup (map cid u): the
        classes of a universe are distinct objects. ---- *)
Theorem C10_resolve_spec : forall e u rq, NoDup (map cid u) -> precheck e u rq = None ->
  outcome_ok e u rq (resolve e u rq).
Proof. exact resolve_sound_l. Qed.
Print Assumptions C10_resolve_spec.

Theorem C10_resolve_complete : forall e u rq, NoDup (map cid u) -> precheck e u rq = None ->
  (forall c, preferred e u rq c -> (forall c', preferred e u rq c' -> c' = c) ->
             exists gf, resolve e u rq = Chosen (cid c) gf) /\
  ((~ exists c, preferred e u rq c) -> resolve e u rq = Rejected ENoGroup) /\
  (forall c c', preferred e u rq c -> preferred e u rq c' -> c <> c' -> resolve e u rq = Rejected EMultiple).
Proof. exact resolve_complete_l. Qed.
Print Assumptions C10_resolve_complete.

(* ---- rejection exactly when no group or more than one group remains; a group is chosen exactly when one remains ---- *)
Theorem C10_rejected_iff_zero_or_many : forall e u rq, NoDup (map cid u) -> precheck e u rq = None ->
  (resolve e u rq = Rejected ENoGroup <-> ~ exists c, preferred e u rq c) /\
  (resolve e u rq = Rejected EMultiple <-> exists c c', preferred e u rq c /\ preferred e u rq c' /\ c <> c') /\
  ((exists n gf, resolve e u rq = Chosen n gf) <->
   exists c, preferred e u rq c /\ forall c', preferred e u rq c' -> c' = c).
Proof. exact resolve_rejection_l. Qed.
Print Assumptions C10_rejected_iff_zero_or_many.

(* request-level rejections (before any group is looked at) are exactly the four documented conditions *)
Theorem C10_request_errors_sound : forall e u rq er, precheck e u rq = Some er -> request_error e u rq er.
Proof. exact precheck_sound_l. Qed.
Print Assumptions C10_request_errors_sound.

Theorem C10_request_errors_complete : forall e u rq, precheck e u rq = None <-> forall er, ~ request_error e u rq er.
Proof. exact precheck_complete_l. Qed.
Print Assumptions C10_request_errors_complete.

(* the two remaining raise statements (validate: "has no compute framework"; set_compute_framework: "does not support
   compute framework") are unreachable *)
Theorem C10_no_dead_errors : forall e u rq,
  resolve e u rq <> Rejected ENoFramework /\ resolve e u rq <> Rejected EFwUnsupported.
Proof. exact dead_errors_l. Qed.
Print Assumptions C10_no_dead_errors.

(* ---- resolve_perm_invariant: class definition order / hashing (= iteration order of the class dict) cannot matter;
        no hypothesis on u at all ---- *)
Theorem C10_resolve_perm_invariant : forall e rq u u', Permutation u u' -> resolve e u rq = resolve e u' rq.
Proof. exact resolve_perm_invariant_l. Qed.
Print Assumptions C10_resolve_perm_invariant.

(* the groups listed in the "Multiple feature groups" message are the same set under every order *)
Theorem C10_survivors_perm : forall e rq u u', Permutation u u' -> Permutation (survivors e rq u) (survivors e rq u').
Proof. exact survivors_perm_l. Qed.
Print Assumptions C10_survivors_perm.

(* ---- framework_admissible: the feature's framework set is the intersection of API argument, feature-group rule,
        feature setting and availability; whatever next(iter(..)) picks lies in it ---- *)
Theorem C10_framework_admissible : forall e u rq n gf, resolve e u rq = Chosen n gf ->
  exists c, In c u /\ cid c = n /\ admissible e rq c /\
            forall x, In x (feature_fws rq gf) <-> admissible_fw e rq c x.
Proof. exact framework_admissible_l. Qed.
Print Assumptions C10_framework_admissible.

Theorem C10_run_framework_admissible : forall choice : list fw -> fw, (forall l, l <> [] -> In (choice l) l) ->
  forall e u rq n gf, resolve e u rq = Chosen n gf ->
  exists c, In c u /\ cid c = n /\ admissible_fw e rq c (run_fw choice rq gf).
Proof. exact run_fw_admissible_l. Qed.
Print Assumptions C10_run_framework_admissible.

(* ---- UNCONDITIONAL subclass preference (a subclass always replaces its ancestor; this is how the docstrings of
   filter_subclasses and plugin_docs.resolve_feature describe it, and the strongest reading of "after preferring
   subclasses" in the property text: exactly one group left => that group is chosen).
   FULL STATEMENT (refuted on the faithful model, see C10_unconditional_preference_refuted):
     forall e u rq, NoDup (map cid u) -> precheck e u rq = None -> outcome_literal e u rq (resolve e u rq).
   PROVED: the same outside kf_fw_mismatch (an admissible proper subclass whose usable framework set differs from that
   of its admissible ancestor; decidable: kf_fw_mismatch_b).  Inside that domain the implementation keeps both classes and
   REJECTS the request; the property as worded permits a rejection, so this is a recorded deviation, not a violation. ---- *)
Theorem C10_unconditional_preference_partial : forall e u rq, NoDup (map cid u) -> precheck e u rq = None ->
  ~ kf_fw_mismatch e u rq -> outcome_literal e u rq (resolve e u rq).
Proof. exact resolve_literal_partial_l. Qed.
Print Assumptions C10_unconditional_preference_partial.

Theorem C10_kf_fw_mismatch_decidable : forall e u rq, kf_fw_mismatch_b e u rq = true <-> kf_fw_mismatch e u rq.
Proof. exact kf_b_spec. Qed.
Print Assumptions C10_kf_fw_mismatch_decidable.

Theorem C10_unconditional_preference_refuted :
  NoDup (map cid wit_u) /\ precheck wit_e wit_u wit_rq = None /\ kf_fw_mismatch wit_e wit_u wit_rq /\
  resolve wit_e wit_u wit_rq = Rejected EMultiple /\
  preferred_literal wit_e wit_u wit_rq wit_C /\ (forall c, preferred_literal wit_e wit_u wit_rq c -> c = wit_C) /\
  ~ outcome_literal wit_e wit_u wit_rq (resolve wit_e wit_u wit_rq).
Proof. exact literal_refuted_l. Qed.
Print Assumptions C10_unconditional_preference_refuted.

(* ---- the diagnostic API plugin_docs.resolve_feature: unique most specific class matching the name ---- *)
Theorem C10_doc_resolve_spec : forall u name, NoDup (map cid u) -> doc_outcome u name (doc_resolve u name).
Proof. exact doc_resolve_sound_l. Qed.
Print Assumptions C10_doc_resolve_spec.

(* ... and it agrees with the engine on unrestricted requests outside kf_fw_mismatch, but not inside *)
Theorem C10_doc_engine_agree_partial : forall e u rq, NoDup (map cid u) -> precheck e u rq = None ->
  collector rq = None -> fdom rq = None -> ffw rq = None -> links rq = None ->
  (forall c, In c u -> In (fname rq) (accepts c) -> exists x, group_fw e rq c x) ->
  ~ kf_fw_mismatch e u rq ->
  forall n, (exists gf, resolve e u rq = Chosen n gf) <-> doc_resolve u (fname rq) = Some (Some n).
Proof. exact doc_engine_agree_l. Qed.
Print Assumptions C10_doc_engine_agree_partial.

Theorem C10_doc_engine_differ_refuted :
  doc_resolve wit_u "f" = Some (Some 1) /\ resolve wit_e wit_u wit_rq = Rejected EMultiple.
Proof. exact doc_engine_differ_l. Qed.
Print Assumptions C10_doc_engine_differ_refuted.

(* ---- non-vacuity: frameworks 0 = PyArrowTable, 1 = PandasDataFrame, 2 = PythonDictFramework, 3 = exists but is not
   available.  Chain A(0) <- B(1) <- C(2), all matching "f", plus D(3) matching "f" in another domain and E(4) = a copy of
   the situation with an explicit rule. ---- *)
Definition ex_e := {| existing := [0; 1; 2; 3]; available := [0; 1; 2]; cname := fun x => x |}.
Definition ex_cls i sup acc d r := {| cid := i; supers := sup; accepts := acc; dom := d; rule := r; idxcols := None |}.
Definition ex_u := [ex_cls 0 [] ["f"; "g"] "default_domain" None; ex_cls 1 [0] ["f"] "default_domain" None;
                    ex_cls 2 [1; 0] ["f"] "default_domain" None; ex_cls 3 [] ["f"; "g"] "dA" (Some [1; 3])].
Definition ex_rq a col d f := {| api := a; collector := col; fname := "f"; fdom := d; ffw := f; links := None |}.
Example C10_examples :
  NoDup (map cid ex_u) /\
  (* the deepest subclass wins inside one domain; all three available frameworks stay admissible *)
  resolve ex_e ex_u (ex_rq [] None (Some "default_domain") None) = Chosen 2 [0; 1; 2] /\
  (* no domain given: the chain and D compete -> rejected *)
  resolve ex_e ex_u (ex_rq [] None None None) = Rejected EMultiple /\
  (* the other domain: D on Pandas only (framework 3 exists but is unavailable) *)
  resolve ex_e ex_u (ex_rq [] None (Some "dA") None) = Chosen 3 [1] /\
  (* a feature-level framework that D does not offer -> no group *)
  resolve ex_e ex_u (ex_rq [] None (Some "dA") (Some 0)) = Rejected ENoGroup /\
  (* collector disabling the leaf: the middle class is chosen *)
  resolve ex_e ex_u (ex_rq [] (Some ([], [2])) (Some "default_domain") None) = Chosen 1 [0; 1; 2] /\
  (* API list restricted to Pandas: D and the chain now have the same set but are unrelated -> rejected *)
  resolve ex_e ex_u (ex_rq [AName 1] None None None) = Rejected EMultiple /\
  (* request-level rejections *)
  resolve ex_e ex_u (ex_rq [AName 7] None None None) = Rejected ENoApiFramework /\
  resolve ex_e ex_u (ex_rq [AClass 0] None None (Some 1)) = Rejected EFeatureFwNotInApi /\
  resolve ex_e ex_u (ex_rq [] (Some ([2], [2])) None None) = Rejected ENoAccessible /\
  (* the hypotheses of the spec theorems hold here, and the order of the universe is irrelevant *)
  precheck ex_e ex_u (ex_rq [] None (Some "default_domain") None) = None /\
  kf_fw_mismatch_b ex_e ex_u (ex_rq [] None (Some "default_domain") None) = false /\
  resolve ex_e (rev ex_u) (ex_rq [] None (Some "default_domain") None) = Chosen 2 [0; 1; 2] /\
  (* restricting the API list turns the refutation witness into a unique choice *)
  resolve wit_e wit_u {| api := [AClass 0]; collector := None; fname := "f"; fdom := None; ffw := None; links := None |}
    = Chosen 1 [0].
Proof. split; [repeat constructor; cbn; intuition discriminate | vm_compute; repeat split]. Qed.

(* =====================================================================================================================
   IDENTITY vs. NAME of compute frameworks (Proofs/ResolveNamesP.v).  All statements hold for every environment, in
   particular for environments in which several existing classes carry the same class name.
   ===================================================================================================================== *)

(* what the API argument selects (SetupComputeFramework.filter_user_set_in_available_sub_classes), in one line: the existing
   classes some entry admits BY THE ENTRY'S KIND - a string by name, a class object by identity *)
Theorem C10_api_set_char : forall e rq s, In s (api_set e rq) <-> In s (existing e) /\ api_allows e rq s.
Proof. exact api_set_char_l. Qed.
Print Assumptions C10_api_set_char.

(* ---- a class OBJECT in the API list selects exactly that class - never a same-named twin ---- *)
Theorem C10_api_class_entry_selects_exactly_that_class : forall e rq, api rq <> [] ->
  (forall a, In a (api rq) -> exists x, a = AClass x) ->
  forall s, In s (api_set e rq) <-> In (AClass s) (api rq) /\ In s (existing e).
Proof. exact api_class_entries_l. Qed.
Print Assumptions C10_api_class_entry_selects_exactly_that_class.

Theorem C10_api_single_class_entry : forall e rq x, api rq = [AClass x] ->
  forall s, In s (api_set e rq) <-> s = x /\ In x (existing e).
Proof. exact api_class_entry_l. Qed.
Print Assumptions C10_api_single_class_entry.

Theorem C10_api_class_entry_excludes_twin : forall e rq x y, api rq = [AClass x] -> y <> x -> ~ In y (api_set e rq).
Proof. exact api_class_entry_excludes_twin_l. Qed.
Print Assumptions C10_api_class_entry_excludes_twin.

(* ---- a STRING in the API list selects every existing class of that name ---- *)
Theorem C10_api_name_entry_selects_all_of_that_name : forall e rq n, api rq = [AName n] ->
  forall s, In s (api_set e rq) <-> In s (existing e) /\ cname e s = n.
Proof. exact api_name_entry_l. Qed.
Print Assumptions C10_api_name_entry_selects_all_of_that_name.

(* ---- admissibility stated with identities, without the Spec vocabulary: every framework in the feature's set after
        resolution is a class object that (1) the API list is empty or one of its entries admits BY ITS KIND, (2) exists and
        is available, (3) is in the rule set of the chosen group (or the rule is True), (4) is the feature's own class ---- *)
Theorem C10_framework_admissible_by_identity : forall e u rq n gf, resolve e u rq = Chosen n gf ->
  forall x, In x (feature_fws rq gf) ->
    (api rq = [] \/ exists a, In a (api rq) /\ match a with AName m => cname e x = m | AClass y => x = y end) /\
    In x (existing e) /\ In x (available e) /\
    (exists c, In c u /\ cid c = n /\ match rule c with None => True | Some s => In x s end) /\
    match ffw rq with None => True | Some y => x = y end.
Proof. exact framework_admissible_identity_l. Qed.
Print Assumptions C10_framework_admissible_by_identity.

(* ---- the theorems separate implementations: selecting class entries BY NAME ("normalise the request to names", Model:
        names_only; NOT the implementation) admits the twin: twins 0 and 1 carry name 7, the API list is {class 0}.
        GB (rule {1}) must be rejected and is computed on 1; XA/XB (rules {0}/{1}) have one admissible group and become
        ambiguous; the any-rule group T gets {0, 1}.  Framework 1 is not admitted by the API list. ---- *)
Example C10_class_entries_by_name_admit_twin_refuted :
  resolve tw_e tw_u (tw_rq [AClass 0] "a") = Chosen 0 [0] /\
  resolve tw_e tw_u (tw_rq [AClass 0] "b") = Rejected ENoGroup /\
  resolve tw_e tw_u (tw_rq [AClass 0] "x") = Chosen 2 [0] /\
  resolve tw_e tw_u (tw_rq [AClass 0] "t") = Chosen 4 [0] /\
  resolve tw_e tw_u (names_only tw_e (tw_rq [AClass 0] "b")) = Chosen 1 [1] /\
  resolve tw_e tw_u (names_only tw_e (tw_rq [AClass 0] "x")) = Rejected EMultiple /\
  resolve tw_e tw_u (names_only tw_e (tw_rq [AClass 0] "t")) = Chosen 4 [0; 1] /\
  ~ api_allows tw_e (tw_rq [AClass 0] "b") 1 /\
  In 1 (api_set tw_e (names_only tw_e (tw_rq [AClass 0] "b"))) /\
  resolve tw_e tw_u (tw_rq [AName 7] "t") = Chosen 4 [0; 1] /\
  resolve tw_e tw_u (tw_rq [AName 7] "b") = Chosen 1 [1].
Proof. exact names_only_refuted_l. Qed.
Print Assumptions C10_class_entries_by_name_admit_twin_refuted.

(* ---- Feature(name, compute_framework="N") / options["compute_framework"]: the class put into feature.compute_frameworks
        carries that name and exists; there is none exactly when the request is rejected with "not found" ---- *)
Theorem C10_feature_framework_name_sound : forall e u rq n0 g gf, resolve_named e u rq (Some n0) = Chosen g gf ->
  exists x, feature_fw_of_name e n0 = Some x /\ cname e x = n0 /\ In x (existing e) /\
            resolve e u (with_ffw rq (Some x)) = Chosen g gf /\ feature_fws (with_ffw rq (Some x)) gf = [x].
Proof. exact resolve_named_chosen_l. Qed.
Print Assumptions C10_feature_framework_name_sound.

Theorem C10_feature_framework_name_unknown : forall e u rq n0,
  (forall x, In x (existing e) -> cname e x <> n0) -> resolve_named e u rq (Some n0) = Rejected EFwUnknown.
Proof. exact resolve_named_unknown_l. Qed.
Print Assumptions C10_feature_framework_name_unknown.

(* ---- ... and the answer does not depend on class definition order / hashing.
   FULL STATEMENT (refuted on the faithful model, see C10_feature_framework_name_order_refuted):
     forall e e' u u' rq fn, Permutation u u' -> Permutation (existing e) (existing e') ->
       Permutation (available e) (available e') -> (forall x, cname e x = cname e' x) ->
       result_equiv (resolve_named e u rq fn) (resolve_named e' u' rq fn).
   PROVED outside kf_ffw_name_twins (the feature names a framework NAME that at least two existing classes carry; decidable
   by definition): FeatureValidator.validate_and_resolve_compute_framework returns the FIRST class of that name in the
   iteration order of a set of class objects. ---- *)
Theorem C10_feature_framework_name_order_partial : forall e e' u u' rq fn, Permutation u u' ->
  Permutation (existing e) (existing e') -> Permutation (available e) (available e') -> (forall x, cname e x = cname e' x) ->
  kf_ffw_name_twins e fn = false -> result_equiv (resolve_named e u rq fn) (resolve_named e' u' rq fn).
Proof. intros e e' u u' rq fn Hu H1 H2 H3 K. apply resolve_named_order_l; [exact Hu | split; [|split]; assumption | exact K]. Qed.
Print Assumptions C10_feature_framework_name_order_partial.

Theorem C10_feature_framework_name_order_refuted :
  Permutation (existing tw_e) (existing tw_e') /\ kf_ffw_name_twins tw_e (Some 7) = true /\
  feature_fw_of_name tw_e 7 = Some 0 /\ feature_fw_of_name tw_e' 7 = Some 1 /\
  resolve_named tw_e tw_u (tw_rq [] "a") (Some 7) = Chosen 0 [0] /\
  resolve_named tw_e' tw_u (tw_rq [] "a") (Some 7) = Rejected ENoGroup /\
  resolve_named tw_e tw_u (tw_rq [] "x") (Some 7) = Chosen 2 [0] /\
  resolve_named tw_e' tw_u (tw_rq [] "x") (Some 7) = Chosen 3 [1] /\
  kf_ffw_name_twins tw_e (Some 8) = false /\
  resolve_named tw_e tw_u (tw_rq [] "t") (Some 8) = Chosen 4 [0; 1; 2] /\
  resolve_named tw_e' tw_u (tw_rq [] "t") (Some 8) = Chosen 4 [1; 0; 2].
Proof. exact ffw_name_twins_refuted_l. Qed.
Print Assumptions C10_feature_framework_name_order_refuted.

(* =====================================================================================================================
   SEVERAL FEATURES IN ONE REQUEST, AND CLASSES THAT COME INTO EXISTENCE BETWEEN THE REQUESTS OF ONE PROCESS
   (Model/ResolveHist.v, Spec/ResolveHistRule.v, Proofs/ResolveHistP.v).  A generated group's match_feature_group_criteria
   is a term `crit` over the feature's name, GROUP options and CONTEXT options; a request is a LIST of features; the universe
   is the list of classes created so far in the process.
   ===================================================================================================================== *)

(* ---- the order in which a subclass walk yields the compute frameworks cannot matter (frameworks as sets) ---- *)
Theorem C10_resolve_env_order_invariant : forall e e' u u' rq, Permutation u u' ->
  Permutation (existing e) (existing e') -> Permutation (available e) (available e') -> (forall x, cname e x = cname e' x) ->
  result_equiv (resolve e u rq) (resolve e' u' rq).
Proof. intros e e' u u' rq Hu H1 H2 H3. apply resolve_perm_equiv_l; [exact Hu | split; [|split]; assumption]. Qed.
Print Assumptions C10_resolve_env_order_invariant.

(* ... nor the order of the API framework list, of the collector's sets, of the links *)
Theorem C10_resolve_request_sets_invariant : forall e u rq rq', req_equiv rq rq' -> resolve e u rq = resolve e u rq'.
Proof. exact resolve_req_equiv. Qed.
Print Assumptions C10_resolve_request_sets_invariant.

(* ---- a feature is computed by a group whose criteria hold for ITS OWN name, group options and context options (and
        domain, collector, links), on frameworks from all four sources: whatever else the request contains (ls = the links in
        force when the feature is looked at) ---- *)
Theorem C10_feature_group_matches_own_options : forall e u mrq ls f n gf, resolve_feat e u mrq ls f = Chosen n gf ->
  exists c, In c u /\ x_cid c = n /\ x_admissible e mrq ls f c /\
            forall x, In x (feature_fws (as_request mrq ls f) gf) <-> admissible_fw e (as_request mrq ls f) (as_class f c) x.
Proof. exact resolve_feat_chosen_l. Qed.
Print Assumptions C10_feature_group_matches_own_options.

(* the single-feature theorems above apply to every feature of a request through this reading of `admissible` *)
Theorem C10_x_admissible_char : forall e mrq ls f c,
  admissible e (as_request mrq ls f) (as_class f c) <-> x_admissible e mrq ls f c.
Proof. exact x_admissible_char. Qed.
Print Assumptions C10_x_admissible_char.

(* ---- resolve_all = map resolve.
   FULL STATEMENT (refuted on the faithful model, see C10_resolve_all_map_refuted):
     forall e u mrq, map fst (resolve_all e u mrq) = map (resolve_feat e u mrq (m_links mrq)) (m_feats mrq).
   PROVED outside kf_feature_link (a feature other than the last carries a Link AND some class declares index columns):
   Engine.add_feature_link_to_links adds a feature's Link to the links the FOLLOWING features are filtered with. ---- *)
Theorem C10_resolve_all_map_partial : forall e u mrq, kf_feature_link u (m_feats mrq) = false ->
  map fst (resolve_all e u mrq) = map (resolve_feat e u mrq (m_links mrq)) (m_feats mrq).
Proof. exact resolve_all_map_l. Qed.
Print Assumptions C10_resolve_all_map_partial.

(* every feature of a request is resolved like the request that consists of this feature alone *)
Theorem C10_resolve_all_each_alone_partial : forall e u mrq, kf_feature_link u (m_feats mrq) = false ->
  forall i f, nth_error (m_feats mrq) i = Some f ->
  option_map (fun r => [r]) (nth_error (map fst (resolve_all e u mrq)) i) = Some (map fst (resolve_all e u (single mrq f))).
Proof. exact resolve_all_each_alone_l. Qed.
Print Assumptions C10_resolve_all_each_alone_partial.

(* ... and the order in which the features are listed does not matter *)
Theorem C10_resolve_all_order_partial : forall e u mrq fs fs', Permutation fs fs' ->
  kf_feature_link u fs = false -> kf_feature_link u fs' = false ->
  Permutation (map fst (resolve_all e u (with_feats mrq fs))) (map fst (resolve_all e u (with_feats mrq fs'))).
Proof. exact resolve_all_order_l. Qed.
Print Assumptions C10_resolve_all_order_partial.

Theorem C10_resolve_all_map_refuted :
  kf_feature_link hw_u [hw_x; hw_r] = true /\
  map fst (resolve_all hw_e hw_u (single (hw_rq [hw_x; hw_r]) hw_r)) = [Rejected EMultiple] /\
  map fst (resolve_all hw_e hw_u (hw_rq [hw_x; hw_r])) = [Chosen 3 [0]; Chosen 2 [0]] /\
  map fst (resolve_all hw_e hw_u (hw_rq [hw_x; hw_r])) <>
    map (resolve_feat hw_e hw_u (hw_rq [hw_x; hw_r]) None) [hw_x; hw_r] /\
  request_outcome hw_e hw_u (hw_rq [hw_x; hw_r]) = RAnswered [((3, [0]), true); ((2, [0]), true)] /\
  request_outcome hw_e hw_u (hw_rq [hw_r; hw_x]) = RRejected (RErr EMultiple).
Proof. exact feature_link_refuted_l. Qed.
Print Assumptions C10_resolve_all_map_refuted.

(* ---- what prepare reports for the request: answered exactly when the features are pairwise different and every one of
        them is resolved; a reported resolution error is the outcome of one of the request's features ---- *)
Theorem C10_request_answered : forall e u mrq l, request_outcome e u mrq = RAnswered l ->
  features_check (m_feats mrq) = None /\
  map (fun x => Chosen (fst (fst x)) (snd (fst x))) l = map fst (resolve_all e u mrq) /\
  map snd l = map snd (resolve_all e u mrq).
Proof. exact request_answered_l. Qed.
Print Assumptions C10_request_answered.

Theorem C10_request_answered_complete : forall e u mrq, features_check (m_feats mrq) = None ->
  (forall r, In r (map fst (resolve_all e u mrq)) -> exists n gf, r = Chosen n gf) ->
  request_outcome e u mrq = RAnswered (answered_of (resolve_all e u mrq)).
Proof. exact request_accepted_l. Qed.
Print Assumptions C10_request_answered_complete.

Theorem C10_request_rejection_is_a_features_outcome : forall e u mrq er, request_outcome e u mrq = RRejected (RErr er) ->
  In (Rejected er) (map fst (resolve_all e u mrq)).
Proof. exact request_rejected_l. Qed.
Print Assumptions C10_request_rejection_is_a_features_outcome.

(* ---- the duplicate check of Features(...).
   FULL STATEMENT (refuted, see C10_features_check_refuted): features_check fs = if dup_free fs then None else Some RDuplicate
   PROVED outside kf_domain_mix (two features equal in name, group and context options, one with and one without a
   domain): there Feature.__eq__ reaches Domain.__eq__(None), which raises. ---- *)
Theorem C10_features_check_partial : forall fs, kf_domain_mix fs = false ->
  features_check fs = if dup_free fs then None else Some RDuplicate.
Proof. exact features_check_partial_l. Qed.
Print Assumptions C10_features_check_partial.

Theorem C10_features_check_refuted :
  kf_domain_mix [hw_r; hw_rd] = true /\ dup_free [hw_r; hw_rd] = true /\
  features_check [hw_r; hw_rd] = Some RDomainCompare /\
  request_outcome hw_e [hw_cls 2 ["r"] None] (hw_rq [hw_r]) = RAnswered [((2, [0]), true)] /\
  request_outcome hw_e [hw_cls 2 ["r"] None] (hw_rq [hw_rd]) = RAnswered [((2, [0]), true)] /\
  request_outcome hw_e [hw_cls 2 ["r"] None] (hw_rq [hw_r; hw_rd]) = RRejected RDomainCompare.
Proof. exact domain_mix_refuted_l. Qed.
Print Assumptions C10_features_check_refuted.

(* ---- whole requests: class definition order / hash order of feature groups and of compute frameworks ---- *)
Theorem C10_request_outcome_order_invariant : forall e e' u u' mrq, Permutation u u' ->
  Permutation (existing e) (existing e') -> Permutation (available e) (available e') -> (forall x, cname e x = cname e' x) ->
  routcome_equiv (request_outcome e u mrq) (request_outcome e' u' mrq).
Proof. intros e e' u u' mrq Hu H1 H2 H3. apply request_outcome_equiv; [exact Hu | split; [|split]; assumption]. Qed.
Print Assumptions C10_request_outcome_order_invariant.

(* ---- history_invariant: for every sequence of operations (class definitions and requests, any length) and whatever
        order each subclass walk of each request yields, the process state is exactly the classes defined so far (fold_left
        invariant) and every request is answered as the specification lists: by the rule applied to the classes that exist
        at that moment ---- *)
Theorem C10_history_invariant : forall nm ws, (forall k, walk_ok (ws k)) -> forall st ops,
  fst (run_history nm ws st ops) = final_state st ops /\
  Forall2 routcome_equiv (snd (run_history nm ws st ops)) (spec_answers nm st ops).
Proof. exact history_invariant_l. Qed.
Print Assumptions C10_history_invariant.

(* ---- history_independent: two histories of the same process image that define the same classes (in any order, with any
        requests in between) answer a final request alike, and alike to the rule on the final class set: in particular
        like a fresh process in which the classes are defined first (h2 := defs h1) ---- *)
Theorem C10_history_independent : forall nm ws ws', (forall k, walk_ok (ws k)) -> (forall k, walk_ok (ws' k)) ->
  forall st h1 h2 rq, Permutation (defs h1) (defs h2) ->
  exists a1 a2, last (snd (run_history nm ws st (h1 ++ [Request rq]))) (RRejected RDuplicate) = a1 /\
                last (snd (run_history nm ws' st (h2 ++ [Request rq]))) (RRejected RDuplicate) = a2 /\
                routcome_equiv a1 a2 /\
                routcome_equiv a1 (request_outcome (env_of nm (p_fws (final_state st h1))) (p_groups (final_state st h1)) rq).
Proof. exact history_independent_l. Qed.
Print Assumptions C10_history_independent.

(* the two history theorems separate implementations: a process that remembers the frameworks of open-rule groups until a
   DIRECT subclass of ComputeFramework appears (Model/ResolveHist.run_memo; NOT the implementation) violates them *)
Theorem C10_history_memo_process_refuted :
  spec_answers hm_nm hm_st [Request (hm_rq [AClass 0]); DefFw hm_late; Request (hm_rq [AClass 5])]
    = [RAnswered [((2, [0]), true)]; RAnswered [((2, [5]), true)]] /\
  snd (run_history hm_nm (fun _ => id_walk) hm_st [Request (hm_rq [AClass 0]); DefFw hm_late; Request (hm_rq [AClass 5])])
    = [RAnswered [((2, [0]), true)]; RAnswered [((2, [5]), true)]] /\
  run_memo hm_nm hm_st [Request (hm_rq [AClass 0]); DefFw hm_late; Request (hm_rq [AClass 5])]
    = [RAnswered [((2, [0]), true)]; RRejected (RErr ENoGroup)] /\
  run_memo hm_nm hm_st [DefFw hm_late; Request (hm_rq [AClass 5])] = [RAnswered [((2, [5]), true)]].
Proof. exact memo_refuted_l. Qed.
Print Assumptions C10_history_memo_process_refuted.

(* ---- frame: a class whose criteria reject the feature does not influence its resolution (this is what lets the
        correspondence fold every class outside the generated universe into one non-matching background record) ---- *)
Theorem C10_nonmatching_class_irrelevant : forall e u rq c, criteria rq c = false -> precheck e u rq = None ->
  resolve e (c :: u) rq = resolve e u rq.
Proof. exact resolve_frame_l. Qed.
Print Assumptions C10_nonmatching_class_irrelevant.

(* ---- non-vacuity: two groups serve the name "r", selected by the CONTEXT option unit; a third reads a GROUP option ---- *)
Definition ex_xc i cr := {| x_cid := i; x_supers := []; x_crit := cr; x_dom := "default_domain"; x_rule := None; x_idx := None |}.
Definition ex_xu := [ex_xc 1 (CAnd (CNames ["r"]) (CCtx "unit" "c")); ex_xc 2 (CAnd (CNames ["r"]) (CCtx "unit" "k"));
                     ex_xc 3 (CAnd (CNames ["r"]) (CGroup "src" "p"))].
Definition ex_f g c := {| f_name := "r"; f_group := g; f_ctx := c; f_dom := None; f_ffw := None; f_link := None |}.
Definition ex_m fs := {| m_api := [AName 0]; m_collector := None; m_links := None; m_feats := fs |}.
Example C10_multi_examples :
  walk_ok id_walk /\
  (* both variants in one request: each by its own group, in either order *)
  request_outcome ex_e ex_xu (ex_m [ex_f [] [("unit", "c")]; ex_f [] [("unit", "k")]])
    = RAnswered [((1, [0]), true); ((2, [0]), true)] /\
  request_outcome ex_e ex_xu (ex_m [ex_f [] [("unit", "k")]; ex_f [] [("unit", "c")]])
    = RAnswered [((2, [0]), true); ((1, [0]), true)] /\
  (* a variant no group serves makes the request fail, wherever it stands *)
  request_outcome ex_e ex_xu (ex_m [ex_f [] [("unit", "c")]; ex_f [] [("unit", "z")]]) = RRejected (RErr ENoGroup) /\
  (* group option and context option together: two groups match -> rejected *)
  request_outcome ex_e ex_xu (ex_m [ex_f [("src", "p")] [("unit", "c")]]) = RRejected (RErr EMultiple) /\
  (* the same feature twice *)
  request_outcome ex_e ex_xu (ex_m [ex_f [] [("unit", "c")]; ex_f [] [("unit", "c")]]) = RRejected RDuplicate /\
  kf_feature_link ex_xu [ex_f [] [("unit", "c")]; ex_f [] [("unit", "k")]] = false /\
  kf_domain_mix [ex_f [] [("unit", "c")]; ex_f [] [("unit", "k")]] = false.
Proof. split; [exact id_walk_ok | vm_compute; repeat split]. Qed.
