(* C05alg -- engine-independent algebra of the relational operators of Spec/Rel.v used by C05
   ("for associative join sets the result does not depend on the order the planner picks").
   Property theorems only (proofs in Proofs/RelAssocP.v).  All statements hold for tables of ANY size.

   Key lists: rel_join never renames a column (differently named keys are both retained, equally named keys stay one
   column), so a link X.kx = Y.ky is applied to an intermediate result with the same key lists kx / ky; there is no
   "keys renamed by an earlier join" premise.  What is needed is that the key columns can be read back from a joined row:
     keys_present ks T          every row of T binds every column of ks (the value may be null)
     overlap_free lk rk L R     (Spec/Rel.v) the only names L and R share are key columns at the same key position
     star_ok A B C              a name shared by B and C is bound by every row of A
     unique_match_keys rk R     no two rows of R have SQL-equal (non-null) keys
   All premises are boolean; C05alg_premises_satisfiable shows an instance.

   NOT provable / false:
   * rel_join is not a congruence for bag_eq of its INPUTS (a row binding x to null is row_equiv to a row not binding
     x, but shadows x of the right operand in row_union); results are therefore stated for explicit plans and proved
     through comprehension forms, and the general n-table tree statement is not proved (see the final report).
   * chains / sets of LEFT or OUTER links are not order independent in general: C05alg_left_not_order_independent. *)
From Coq Require Import List Bool ZArith String Permutation.
Import ListNotations.
Require Import MV.Spec.Rel MV.Proofs.RelLemmas MV.Proofs.RelAssocP.
Open Scope string_scope.
Open Scope list_scope.

(* 1a. chain A -k1- B -k2- C (the second link's left keys k2a live in B) *)
Theorem inner_assoc : forall k1a k1b k2a k2b A B C,
  overlap_free k1a k1b A B = true -> keys_present k1b B = true -> keys_present k2a B = true ->
  bag_eq (rel_join JInner k2a k2b (rel_join JInner k1a k1b A B) C)
         (rel_join JInner k1a k1b A (rel_join JInner k2a k2b B C)).
Proof. exact inner_chain_assoc_l. Qed.
Print Assumptions inner_assoc.

(* 1b. star: both links anchored at A *)
Theorem inner_star_comm : forall k1a k1b k2a k2b A B C,
  keys_present k1a A = true -> keys_present k2a A = true -> star_ok A B C = true ->
  bag_eq (rel_join JInner k2a k2b (rel_join JInner k1a k1b A B) C)
         (rel_join JInner k1a k1b (rel_join JInner k2a k2b A C) B).
Proof. exact inner_star_comm_l. Qed.
Print Assumptions inner_star_comm.

(* 2. three tables (a tree on three tables is a path A -k1- B -k2- C): all eight admissible plans -- which link is
      executed first, and for each of the two steps which operand is the left one -- give the same bag.
      chain_plan first o_in o_out =  if first then jn o_out k2a k2b (jn o_in k1a k1b A B) C
                                     else           jn o_out k1a k1b A (jn o_in k2a k2b B C)
      jn Fwd lk rk L R = rel_join JInner lk rk L R ;  jn Rev lk rk L R = rel_join JInner rk lk R L *)
Theorem inner_tree3_order_independent : forall k1a k1b k2a k2b A B C,
  overlap_free k1a k1b A (B ++ C) = true -> overlap_free k2a k2b (A ++ B) C = true ->
  keys_present k1b B = true -> keys_present k2a B = true ->
  forall f o1 o2 f' o1' o2',
  bag_eq (chain_plan k1a k1b k2a k2b A B C f o1 o2) (chain_plan k1a k1b k2a k2b A B C f' o1' o2').
Proof. exact inner_tree3_order_independent_l. Qed.
Print Assumptions inner_tree3_order_independent.

(* 3a. left / outer links are not order independent in general (kernel-checked witnesses):
      (i) A left B vs B left A; (ii) (A left B) |x| C vs A left (B |x| C); (iii) two left links into the same table:
      C left (A left B) vs A left (C left B); (iv) as (ii) with a full outer link *)
Theorem C05alg_left_not_order_independent :
  ~ bag_eq (rel_join JLeft ["ka"] ["kb"] tA []) (rel_join JLeft ["kb"] ["ka"] [] tA) /\
  ~ bag_eq (rel_join JInner ["jb"] ["jc"] (rel_join JLeft ["ka"] ["kb"] tA tB) tC)
           (rel_join JLeft ["ka"] ["kb"] tA (rel_join JInner ["jb"] ["jc"] tB tC)) /\
  ~ bag_eq (rel_join JLeft ["jc"] ["jb"] tC (rel_join JLeft ["ka"] ["kb"] tA []))
           (rel_join JLeft ["ka"] ["kb"] tA (rel_join JLeft ["jc"] ["jb"] tC [])) /\
  ~ bag_eq (rel_join JInner ["jb"] ["jc"] (rel_join JOuter ["ka"] ["kb"] tA tB) tC)
           (rel_join JOuter ["ka"] ["kb"] tA (rel_join JInner ["jb"] ["jc"] tB tC)).
Proof. exact left_not_order_independent_l. Qed.
Print Assumptions C05alg_left_not_order_independent.

(* 3b. left joins anchored at the same table commute *)
Theorem left_star_comm : forall k1a k1b k2a k2b A B C,
  keys_present k1a A = true -> keys_present k2a A = true -> star_ok A B C = true ->
  bag_eq (rel_join JLeft k2a k2b (rel_join JLeft k1a k1b A B) C)
         (rel_join JLeft k1a k1b (rel_join JLeft k2a k2b A C) B).
Proof. exact left_star_comm_l. Qed.
Print Assumptions left_star_comm.

(* 4. row counts *)
Theorem join_row_count_inner_le : forall lk rk L R,
  (List.length (rel_join JInner lk rk L R) <= List.length L * List.length R)%nat.
Proof. exact inner_count_le_l. Qed.
Print Assumptions join_row_count_inner_le.

Theorem join_row_count_left_ge : forall lk rk L R,
  (List.length L <= List.length (rel_join JLeft lk rk L R))%nat.
Proof. exact left_count_ge_l. Qed.
Print Assumptions join_row_count_left_ge.

Theorem join_row_count_left_unique : forall lk rk L R,
  unique_match_keys rk R = true -> List.length (rel_join JLeft lk rk L R) = List.length L.
Proof. exact left_count_unique_l. Qed.
Print Assumptions join_row_count_left_unique.

(* the premises hold on an instance with matched, unmatched, duplicate-key and null-key rows; the chain result is
   the expected four rows; (observation on this instance only: the pure left chain and the pure outer chain are
   associative here -- with null-rejecting equi-keys the refutations above need a mixed or converging link set) *)
Example C05alg_premises_satisfiable :
  overlap_free ["ka"] ["kb"] eA (eB ++ tC7) = true /\ overlap_free ["jb"] ["jc"] (eA ++ eB) tC7 = true /\
  keys_present ["kb"] eB = true /\ keys_present ["jb"] eB = true /\
  map canon (rel_join JInner ["jb"] ["jc"] (rel_join JInner ["ka"] ["kb"] eA eB) tC7) =
    [ [("a", VInt 10); ("b", VInt 20); ("c", VInt 30); ("ja", VInt 7); ("jb", VInt 7); ("jc", VInt 7); ("ka", VInt 1); ("kb", VInt 1)];
      [("a", VInt 10); ("b", VInt 20); ("c", VInt 31); ("ja", VInt 7); ("jb", VInt 7); ("jc", VInt 7); ("ka", VInt 1); ("kb", VInt 1)];
      [("a", VInt 12); ("b", VInt 20); ("c", VInt 30); ("ja", VInt 8); ("jb", VInt 7); ("jc", VInt 7); ("ka", VInt 1); ("kb", VInt 1)];
      [("a", VInt 12); ("b", VInt 20); ("c", VInt 31); ("ja", VInt 8); ("jb", VInt 7); ("jc", VInt 7); ("ka", VInt 1); ("kb", VInt 1)] ]%Z /\
  keys_present ["ka"] eA = true /\ keys_present ["ja"] eA = true /\ star_ok eA eB tC7 = true /\
  List.length (rel_join JLeft ["ja"] ["jc"] (rel_join JLeft ["ka"] ["kb"] eA eB) tC7) = 7%nat /\
  unique_match_keys ["jb"] [[("jb", VInt 1)]; [("jb", VNull)]; [("jb", VNull)]; [("jb", VInt 2)]]%Z = true /\
  unique_match_keys ["kb"] eB = false.
Proof. exact premises_satisfiable_l. Qed.

Example C05alg_pure_chains_agree_on_instance :
  bag_eqb (rel_join JLeft ["jb"] ["jc"] (rel_join JLeft ["ka"] ["kb"] eA eB) tC7)
          (rel_join JLeft ["ka"] ["kb"] eA (rel_join JLeft ["jb"] ["jc"] eB tC7)) = true /\
  bag_eqb (rel_join JOuter ["jb"] ["jc"] (rel_join JOuter ["ka"] ["kb"] eA eB) tC7)
          (rel_join JOuter ["ka"] ["kb"] eA (rel_join JOuter ["jb"] ["jc"] eB tC7)) = true.
Proof. exact pure_chains_agree_l. Qed.
