(* C06 — results do not depend on the execution mode.   Property theorems only.

   Theorem level (orchestrator): for every plan with distinct ids / disjoint produced sets, ANY back end and ANY schedule
   that reaches normal exit has executed every step exactly once and has collected exactly the requested feature-group
   steps, each once - the SET of result tables (by producing step) is mode- and schedule-independent.
   The CONTENTS of each table depend on the data plane (read-modify-write of shared compute-framework objects), which is
   not schedule-independent on the unchanged tree: the executable checker `conflict_free` (Model/OrchCheck.v) decides,
   per exported plan and observed footprints, whether two unordered steps touch one object; plans that fail it are the
   known-finding domain and the gating scheduler searches them for a concrete diverging schedule (DESIGN.md C06). *)
From Coq Require Import List Bool Arith.
Import ListNotations.
Require Import MV.Model.Orch MV.Proofs.OrchP.

Theorem C06_result_set_mode_independent_partial : forall stream inline fails p,
  (forall s s', In s p -> In s' p -> sid s = sid s' -> s = s') ->
  (forall s, In s p -> uuids s <> []) ->
  (forall s s' u, In s p -> In s' p -> In u (uuids s) -> In u (uuids s') -> s = s') ->
  forall es, loop_head p (run stream inline fails p es) = ExitNormal ->
  NoDup (results (run stream inline fails p es) ++ yielded (run stream inline fails p es)) /\
  forall x, In x (results (run stream inline fails p es) ++ yielded (run stream inline fails p es)) <->
            exists s, In s p /\ sid s = x /\ collects s = true.
Proof. exact exit_results_l. Qed.
Print Assumptions C06_result_set_mode_independent_partial.

Theorem C06_every_step_once_any_mode : forall stream inline fails p,
  (forall s s', In s p -> In s' p -> sid s = sid s' -> s = s') ->
  (forall s, In s p -> uuids s <> []) ->
  (forall s s' u, In s p -> In s' p -> In u (uuids s) -> In u (uuids s') -> s = s') ->
  forall es, NoDup (started_ids (run stream inline fails p es)) /\
  (loop_head p (run stream inline fails p es) = ExitNormal ->
   forall s, In s p -> In (sid s) (started_ids (run stream inline fails p es)) /\
                       In (sid s) (done (run stream inline fails p es))).
Proof.
  intros stream inline fails p H1 H2 H3 es. split; [apply start_once_l; assumption|].
  intros Hex s Hs. destruct (exit_all_done_l stream inline fails p H1 H2 H3 es Hex s Hs) as (A & B & _). split; assumption.
Qed.
Print Assumptions C06_every_step_once_any_mode.
