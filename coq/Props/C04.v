(* C04 — planning is deterministic and every accepted plan can run to completion.  Property theorems only.

   What is a theorem here: for EVERY plan that passes the executable well-formedness check wf_plan (each prerequisite
   is produced by some step, the wait-for relation is acyclic w.r.t. a given order, produced sets non-empty and
   disjoint), the run terminates: SYNC within 2*|plan|+1 loop iterations; any back end cannot spin without progress as
   long as started steps eventually report (no_deadlock); and conversely a plan with a dangling prerequisite NEVER exits
   normally - which is why the check runs wf_plan_auto on every plan the real planner accepts (T3).
   What is NOT a theorem: determinism of the real planner (its algorithm is not modelled; it is explored by repeated
   preparation across fresh uuids and hash seeds) - see DESIGN.md C04. *)
From Coq Require Import List Bool Arith.
Import ListNotations.
Require Import MV.Model.Orch MV.Proofs.OrchP MV.Proofs.OrchTermP.

Theorem C04_wf_plan_meaning : forall order p, wf_plan order p = true ->
  (forall s s', In s p -> In s' p -> sid s = sid s' -> s = s') /\
  (forall s, In s p -> uuids s <> []) /\
  (forall s s' u, In s p -> In s' p -> In u (uuids s) -> In u (uuids s') -> s = s') /\
  (forall s u, In s p -> In u (req s) -> exists s', In s' p /\ In u (uuids s')) /\
  (forall s u, In s p -> In u (req s) ->
     exists s' i j, In s' p /\ In u (uuids s') /\
                    pos (sid s) order = Some i /\ pos (sid s') order = Some j /\ j < i).
Proof. exact wf_plan_props. Qed.
Print Assumptions C04_wf_plan_meaning.

Theorem C04_terminates_sync : forall order stream p, p <> [] -> wf_plan order p = true ->
  exists n, n <= 2 * length p + 1 /\
            loop_head p (run stream true (fun _ => false) p (repeat EScan n)) = ExitNormal.
Proof. exact terminates_sync. Qed.
Print Assumptions C04_terminates_sync.

Theorem C04_no_deadlock : forall order stream inline fails p es,
  wf_plan order p = true -> p <> [] ->
  failed (run stream inline fails p es) = [] ->
  loop_head p (run stream inline fails p es) = Looping ->
  (exists s, In s (started_ids (run stream inline fails p es)) /\ ~ In s (done (run stream inline fails p es))) \/
  mu p (run stream inline fails p es) < mu p (run stream inline fails p (es ++ [EScan])).
Proof. exact no_deadlock. Qed.
Print Assumptions C04_no_deadlock.

Theorem C04_dangling_never_exits : forall stream inline fails p es s u,
  (forall s s', In s p -> In s' p -> sid s = sid s' -> s = s') ->
  (forall s, In s p -> uuids s <> []) ->
  (forall s s' u, In s p -> In s' p -> In u (uuids s) -> In u (uuids s') -> s = s') ->
  In s p -> In u (req s) -> produced p u = false ->
  loop_head p (run stream inline fails p es) <> ExitNormal.
Proof. exact dangling_never_exits. Qed.
Print Assumptions C04_dangling_never_exits.

(* a failing run does not spin either: once the error flag is set every later loop head raises *)
Theorem C04_error_raises : forall stream inline fails p es es' x,
  In x (failed (run stream inline fails p es)) -> loop_head p (run stream inline fails p (es ++ es')) = Raised.
Proof. exact error_no_normal_exit_l. Qed.
Print Assumptions C04_error_raises.

(* the empty plan is outside the statement (1..n source groups): the batch loop never exits on it *)
Example C04_empty_plan_spins : forall n, loop_head [] (run false true (fun _ => false) [] (repeat EScan n)) = Looping.
Proof. exact empty_plan_spins_l. Qed.

(* ---------- determinism of link selection (Model/LinkSel.v = C18's model of ResolveLinks._find_matching_links /
   _select_most_specific_links, Model/LinkSelReq.v) ----------
   self.links is a Python set of Link whose iteration order depends on PYTHONHASHSEED; in the model the iteration order is the
   order of the list `links`.  The links selected for a pair of feature-group classes - and the joins (pair, link) of a whole
   request - are the same multiset for EVERY iteration order, for every class hierarchy, link set and pair. *)
From Coq Require Import ZArith String Permutation.
Require Import MV.Model.LinkSel MV.Model.LinkSelReq MV.Proofs.LinkSelReqP.

Theorem C04_link_selection_order_independent : forall mro links links' lf rf,
  Permutation links links' -> Permutation (find_matching mro links lf rf) (find_matching mro links' lf rf).
Proof. exact find_matching_perm_l. Qed.
Print Assumptions C04_link_selection_order_independent.

(* the same, said about sets: two duplicate-free listings of one link set select the same links; the NUMBER of joins of a pair
   is order independent as well *)
Theorem C04_link_selection_function_of_set : forall mro links links' lf rf,
  NoDup links -> NoDup links' -> (forall x, In x links <-> In x links') ->
  Permutation (find_matching mro links lf rf) (find_matching mro links' lf rf).
Proof. exact find_matching_set_l. Qed.
Print Assumptions C04_link_selection_function_of_set.

Theorem C04_link_selection_same_members : forall mro links links' lf rf l,
  Permutation links links' -> In l (find_matching mro links lf rf) <-> In l (find_matching mro links' lf rf).
Proof. exact find_matching_in_perm_l. Qed.
Print Assumptions C04_link_selection_same_members.

(* whole request: `pairs` = the ordered pairs of feature-group classes for which a link is looked up (also iterated in set /
   dict order); the multiset of joins (pair, selected link) does not depend on either order *)
Theorem C04_request_joins_order_independent : forall mro links links' pairs pairs',
  Permutation links links' -> Permutation pairs pairs' ->
  Permutation (request_joins mro links pairs) (request_joins mro links' pairs').
Proof. exact request_joins_perm_l. Qed.
Print Assumptions C04_request_joins_order_independent.

Theorem C04_request_joins_meaning : forall mro links pairs ab l,
  In (ab, l) (request_joins mro links pairs) <-> In ab pairs /\ In l (find_matching mro links (fst ab) (snd ab)).
Proof. exact request_joins_in_l. Qed.
Print Assumptions C04_request_joins_meaning.

(* REFUTED ALTERNATIVE "the single most specific link wins" = min(link_distances, key=distance), i.e. the first link of minimal
   distance in iteration order (find_matching_first).  It only ever returns links the real rule returns (so soundness checks
   do not see it) ... *)
Theorem C04_first_of_minimal_is_sound : forall mro links lf rf l,
  In l (find_matching_first mro links lf rf) -> In l (find_matching mro links lf rf).
Proof. exact first_subset_l. Qed.
Print Assumptions C04_first_of_minimal_is_sound.

(* ... but it is NOT a function of the link set: BaseCustomers(0) <- Customers(2), BaseOrders(1) <- Orders(3); the valid link
   set { INNER(BaseCustomers, Orders), LEFT(Customers, BaseOrders) } ties at distance 1 for (Customers, Orders); the two
   iteration orders select two different links (an INNER join in one process, a LEFT join in another). *)
Example C04_link_selection_first_of_minimal_refuted :
  Permutation [tie_inner; tie_left] [tie_left; tie_inner] /\
  validate_rejects [tie_inner; tie_left] = false /\
  find_matching_first tie_mro [tie_inner; tie_left] 2%nat 3%nat = [tie_inner] /\
  find_matching_first tie_mro [tie_left; tie_inner] 2%nat 3%nat = [tie_left] /\
  ~ Permutation (find_matching_first tie_mro [tie_inner; tie_left] 2%nat 3%nat)
                (find_matching_first tie_mro [tie_left; tie_inner] 2%nat 3%nat) /\
  find_matching tie_mro [tie_inner; tie_left] 2%nat 3%nat = [tie_inner; tie_left] /\
  find_matching tie_mro [tie_left; tie_inner] 2%nat 3%nat = [tie_left; tie_inner].
Proof. exact first_refuted_l. Qed.
