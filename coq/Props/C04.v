(* C04 — planning is deterministic and every accepted plan can run to completion.  Property theorems only.

   What is a theorem here: for EVERY plan that passes the executable well-formedness check wf_plan (each prerequisite
   is produced by some step, the wait-for relation is acyclic w.r.t. a given order, produced sets non-empty and
   disjoint), the run terminates: SYNC within 2*|plan|+1 loop iterations; any back end cannot spin without progress as
   long as started steps eventually report (no_deadlock); and conversely a plan with a dangling prerequisite NEVER exits
   normally - which is why the check runs wf_plan_auto on every plan the real planner accepts (T3).
   What is NOT a theorem: determinism of the real planner (its algorithm is not modelled; it is explored by repeated
   preparation across fresh uuids and hash seeds) - see DESIGN.md C04. *)
From Coq Require Import List Bool Arith.
Import ListNotations.
Require Import MV.Model.Orch MV.Proofs.OrchP MV.Proofs.OrchTermP.

Theorem C04_wf_plan_meaning : forall order p, wf_plan order p = true ->
  (forall s s', In s p -> In s' p -> sid s = sid s' -> s = s') /\
  (forall s, In s p -> uuids s <> []) /\
  (forall s s' u, In s p -> In s' p -> In u (uuids s) -> In u (uuids s') -> s = s') /\
  (forall s u, In s p -> In u (req s) -> exists s', In s' p /\ In u (uuids s')) /\
  (forall s u, In s p -> In u (req s) ->
     exists s' i j, In s' p /\ In u (uuids s') /\
                    pos (sid s) order = Some i /\ pos (sid s') order = Some j /\ j < i).
Proof. exact wf_plan_props. Qed.
Print Assumptions C04_wf_plan_meaning.

Theorem C04_terminates_sync : forall order stream p, p <> [] -> wf_plan order p = true ->
  exists n, n <= 2 * length p + 1 /\
            loop_head p (run stream true (fun _ => false) p (repeat EScan n)) = ExitNormal.
Proof. exact terminates_sync. Qed.
Print Assumptions C04_terminates_sync.

Theorem C04_no_deadlock : forall order stream inline fails p es,
  wf_plan order p = true -> p <> [] ->
  failed (run stream inline fails p es) = [] ->
  loop_head p (run stream inline fails p es) = Looping ->
  (exists s, In s (started_ids (run stream inline fails p es)) /\ ~ In s (done (run stream inline fails p es))) \/
  mu p (run stream inline fails p es) < mu p (run stream inline fails p (es ++ [EScan])).
Proof. exact no_deadlock. Qed.
Print Assumptions C04_no_deadlock.

Theorem C04_dangling_never_exits : forall stream inline fails p es s u,
  (forall s s', In s p -> In s' p -> sid s = sid s' -> s = s') ->
  (forall s, In s p -> uuids s <> []) ->
  (forall s s' u, In s p -> In s' p -> In u (uuids s) -> In u (uuids s') -> s = s') ->
  In s p -> In u (req s) -> produced p u = false ->
  loop_head p (run stream inline fails p es) <> ExitNormal.
Proof. exact dangling_never_exits. Qed.
Print Assumptions C04_dangling_never_exits.

(* a failing run does not spin either: once the error flag is set every later loop head raises *)
Theorem C04_error_raises : forall stream inline fails p es es' x,
  In x (failed (run stream inline fails p es)) -> loop_head p (run stream inline fails p (es ++ es')) = Raised.
Proof. exact error_no_normal_exit_l. Qed.
Print Assumptions C04_error_raises.

(* the empty plan is outside the statement (1..n source groups): the batch loop never exits on it *)
Example C04_empty_plan_spins : forall n, loop_head [] (run false true (fun _ => false) [] (repeat EScan n)) = Looping.
Proof. exact empty_plan_spins_l. Qed.
