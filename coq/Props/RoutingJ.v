(* Routing with JoinSteps and the relational data plane (C05).   Property theorems only; model in Model/RoutingJ.v
   (CfwManager.cfw_merge_relation / add_to_merge_relation / find_leftmost, the JoinStep branches of
   ComputeFrameworkExecutor.prepare_execute_step / prepare_tfs_and_joinstep, JoinStep.execute with the merge = Spec/Rel.rel_join),
   proofs in Proofs/RoutingJP.v.

   1. RoutingJ_conservative: on steps that are not joins and an empty merge relation the lookups are exactly Model/Routing.v's
      (so everything proved in Props/Routing.v carries over to join-free runs), and such steps never change the relation.
   2. RoutingJ_never_diverges: CfwManager.find_leftmost is a `while` loop with no bound.  For EVERY plan with distinct step
      ids, every begin order and every content of the uuid sets, no lookup of the run diverges (and none meets a missing key):
      the invariant InvJ (object names distinct; every chain of the merge relation reaches a root in at most |relation| steps;
      classes are constant along chains; entries carry their object's class) holds initially and is preserved by every step,
      because a JoinStep only ever attaches one tree ROOT under another (both come out of find_leftmost).
      RoutingJ_cycle_diverges: on a relation with a cycle the loop does spin - the hypothesis is needed, not decorative.
   3. RoutingJ_find_leftmost_root: on such relations find_leftmost returns the ROOT of the chain.
      RoutingJ_redirect: after JoinStep(left object l, right object r) every lookup that lands on r is redirected to l - the
      consumer of right-hand features finds the merged table.
   4. RoutingJ_two_way_join (instance): root L, root R on another framework, transform, join, consumer - the table the
      consumer's object holds when it begins is rel_join of the two source tables with the Link's keys and join type.
   The tie: for every C05 run (all families, all known-defect domains) the footprints the model computes from the exported
   plan equal the observed ones (chk_route_x), and outside the engine-defect domains the rows the consumer received equal the
   model's table (chk_seen).  NOT covered: how the planner chooses left/right and the join order (Stage B of the planner). *)
From Coq Require Import List Bool ZArith Arith String.
Import ListNotations.
Require Import MV.Spec.RefEval MV.Model.DataPlane MV.Model.Routing MV.Spec.Rel MV.Model.RoutingJ MV.Proofs.RoutingJP.
Open Scope nat_scope.
Open Scope list_scope.

(* ---- 1 ---- *)
Theorem RoutingJ_conservative : forall reg st tab,
  route_x reg [] (XB st tab) = match route reg st with Routed r w rd => RoutedJ r w rd | RouteErr => RouteErrJ end.
Proof. exact route_x_nil_l. Qed.
Print Assumptions RoutingJ_conservative.

Theorem RoutingJ_non_join_keeps_relation : forall s st tab s' out, exec_x s (XB st tab) = (s', out) -> x_rel s' = x_rel s.
Proof. exact exec_x_rel_XB. Qed.
Print Assumptions RoutingJ_non_join_keeps_relation.

(* ---- 2 ---- *)
Theorem RoutingJ_never_diverges : forall steps s' out, NoDup (map xsid steps) ->
  run_x x_init steps = (s', out) -> forall sid, out <> XDiverges sid.
Proof. exact run_x_from_init_never_diverges_l. Qed.
Print Assumptions RoutingJ_never_diverges.

Theorem RoutingJ_invariant : forall steps s s' out, InvJ (x_reg s) (x_rel s) ->
  NoDup (map xsid steps) -> (forall o, In o (map fst (x_reg s)) -> ~ In o (map xsid steps)) ->
  run_x s steps = (s', out) -> InvJ (x_reg s') (x_rel s') /\ (forall sid, out <> XDiverges sid).
Proof. exact run_x_never_diverges_l. Qed.
Print Assumptions RoutingJ_invariant.

Theorem RoutingJ_join_keeps_forest : forall rel l r c, bounded rel -> mparent rel l = l -> mparent rel r = r ->
  bounded (mrel_add rel l r c).
Proof. exact bounded_add. Qed.
Print Assumptions RoutingJ_join_keeps_forest.

Example RoutingJ_cycle_diverges : find_leftmost 50 [(1, (2, 7)); (2, (1, 7))] 1 7 = None.
Proof. exact find_leftmost_cycle_diverges. Qed.

(* ---- 3 ---- *)
Theorem RoutingJ_find_leftmost_root : forall rel o cls, bounded rel -> homog rel ->
  (forall p0 c0, mrel_get rel o = Some (p0, c0) -> c0 = cls) ->
  exists rho, find_leftmost (fuel_of rel) rel o cls = Some rho /\ mparent rel rho = rho.
Proof. exact find_leftmost_root_l. Qed.
Print Assumptions RoutingJ_find_leftmost_root.

Theorem RoutingJ_redirect : forall rel l r c fuel, l <> r -> mparent rel l = l ->
  (forall p cl, mrel_get rel l = Some (p, cl) -> cl = c) -> 2 <= fuel ->
  find_leftmost fuel (mrel_add rel l r c) r c = Some l.
Proof. exact find_leftmost_redirect_l. Qed.
Print Assumptions RoutingJ_redirect.

(* ---- 4: the plan mloda produces for  L(PyArrow) --INNER k=k--> R(Pandas), consumer on PyArrow  (observed, harness/c05) ---- *)
Open Scope string_scope.
Definition tj_L : table := [[("a", VInt 13); ("k", VInt 7)]; [("a", VInt 6); ("k", VInt 4)]; [("a", VInt 31); ("k", VInt 6)]].
Definition tj_R : table := [[("b", VInt 51); ("k", VInt 7)]; [("b", VInt 9); ("k", VInt 6)]].
Definition fgs (sid cls any : nat) (cir tfs req : list nat) : rstep :=
  {| rs_sid := sid; rs_kind := RFG; rs_cls := cls; rs_from := 0; rs_any := any; rs_cir := cir; rs_tfs := tfs; rs_req := req;
     rs_right := None; rs_link := None; rs_root := None; rs_defs := [] |}.
Definition tj_steps : list xstep :=
  [ XB (fgs 0 1 1 [1; 6] [] []) (Some tj_L);
    XB (fgs 1 2 2 [2; 6] [] []) (Some tj_R);
    XB {| rs_sid := 2; rs_kind := RTFS; rs_cls := 1; rs_from := 2; rs_any := 0; rs_cir := []; rs_tfs := []; rs_req := [1; 2];
          rs_right := Some 2; rs_link := Some 5; rs_root := None; rs_defs := [] |} None;
    XJ {| j_sid := 3; j_cls := 1; j_left := [1]; j_right := [2]; j_link := 5; j_jt := JInner; j_lk := ["k"]; j_rk := ["k"] |};
    XB (fgs 4 1 6 [6] [] [1; 2; 5]) None ].

Example RoutingJ_two_way_join :
  let (s, out) := run_x x_init tj_steps in
  out = XOk
  /\ x_feet s = [(0, 0, None); (1, 1, None); (2, 2, Some 1); (3, 0, Some 2); (4, 0, None)]
  /\ NoDup (map xsid tj_steps)
  /\ match find (fun p => Nat.eqb (fst p) 4) (x_seen s) with
     | Some (_, t) => bag_eqb t (rel_join JInner ["k"] ["k"] tj_L tj_R) && Nat.eqb (List.length t) 2
     | None => false
     end = true.
Proof.
  vm_compute. split; [reflexivity|]. split; [reflexivity|]. split; [|reflexivity].
  repeat (constructor; [cbn; intuition discriminate|]). constructor.
Qed.
Print Assumptions RoutingJ_two_way_join.
