(* C06 / C01 (data plane) - IN-PLACE calculations: conflict_free can be weakened to conflict_free_ip.
   Property theorems only (proofs in Proofs/InPlaceTraceP.v, InPlaceSimP.v, InPlaceP.v).

   Model/DataPlaneInPlace.v (header: which source lines each event mirrors): compute-framework objects refer to MUTABLE
   frames by reference (heap: object -> reference -> table).  A step is
     XRepl a            replacing: ERead (handle) .. ECalc (reads the frame, builds a new table) .. EWrite (fresh frame)
     XInpl Mutate o ds  in place:  ERead (handle) .. per column EIns (read inputs from / insert into the frame behind the
                                   handle) .. EWrite (stores the handle again)
     XInpl Series o ds  in place:  as Mutate, but EIns inserts into the frame the object refers to NOW
                                   (PandasDataFrame.transform: self.data[name] = series; return self.data)
   `base x` is the atomic DataPlane action of the step (what SYNC does: the style is invisible).  xrun runs any event list.
   wf_x: every step reads once, then calculates once / inserts each column once, then writes once.  scheduled_x: a step
   reads only after every `before`-predecessor wrote.  xindep x y: the footprints are independent (C06conf) OR both are in
   place on ONE object, write different columns and neither reads a column the other writes.  self_ok: an in-place step
   computes >= 1 distinct columns and reads none of them.

   Results, for all plans, stores, row counts and interleavings:
     1. C06inplace_interleaving_effects: a legal scheduled interleaving of a plan whose non-xindep steps are ordered computes
        EXACTLY DataPlane.exec over the atomic actions of its events (ECalc -> the step, EIns i k -> ACalc o [d_k]) in event
        order - same tables, same failure.
     2. C06inplace_schedules: ... and therefore what EVERY sequential order compatible with `before` computes (SYNC is one), up
        to the order of columns (table_eqv).  By the Mazurkiewicz argument of C06conf over (step, column) items.
     3. C06inplace_conflict_free_ip_confluent: for `before` = the orchestrator's wait-for relation and plans accepted by the
        executable classifiers OrchCheck.conflict_free_ip && ip_cols_ok (evaluated by the C06/C01 harness on every plan).
     4. C06inplace_conflict_free_weaker: conflict_free => conflict_free_ip (the new domain is a superset).
     5. `_refuted`: in place next to replacing on one object loses a column - the in-place step's or the replacing step's,
        depending on the order; the outcome equals no sequential order.  Turning the Series branch into a replacing one
        (self.data.assign) moves a plan from the theorem's domain into this one. *)
From Coq Require Import List Bool ZArith Arith Permutation.
Import ListNotations.
Require MV.Model.Orch MV.Model.OrchCheck.
Require Import MV.Spec.RefEval MV.Model.DataPlane MV.Model.DataPlaneConc MV.Model.DataPlaneInPlace.
Require Import MV.Proofs.ConfluenceP MV.Proofs.InPlaceTraceP MV.Proofs.InPlaceSimP MV.Proofs.InPlaceP.
Local Open Scope nat_scope.

(* ---- atomic level ---- *)
(* two calculations on one object that write different columns and do not read each other's columns commute *)
Theorem C06inplace_pair_commute : forall n s a b, aindep a b = true -> outcome_eqv (exec n s [a; b]) (exec n s [b; a]).
Proof. exact aindep_commute. Qed.
Print Assumptions C06inplace_pair_commute.

(* a calculation of several columns = its one-column calculations, one after the other *)
Theorem C06inplace_one_column_at_a_time : forall n xs s, (forall x, In x xs -> self_ok x = true) ->
  outcome_eqv (exec n s (flat_map expand xs)) (exec n s (map base xs)).
Proof. exact expand_all. Qed.
Print Assumptions C06inplace_one_column_at_a_time.

(* ---- micro level ---- *)
Theorem C06inplace_interleaving_effects : forall n before steps ev st0 s0,
  NoDup (map fst steps) -> wf_x steps ev -> scheduled_x before steps ev -> xdep_ordered before steps ->
  hst_wf st0 -> (forall o, obs st0 o = get_obj s0 o) ->
  xout_rel (xrun n steps st0 [] ev) (exec n s0 (flat_map (eff steps) ev)).
Proof. exact xrun_exec_l. Qed.
Print Assumptions C06inplace_interleaving_effects.

Theorem C06inplace_schedules : forall n before steps ev lin st0 s0,
  NoDup (map fst steps) -> (forall x, In x steps -> self_ok (snd x) = true) -> xdep_ordered before steps ->
  wf_x steps ev -> scheduled_x before steps ev ->
  Permutation steps lin -> respects_x before lin ->
  hst_wf st0 -> (forall o, obs st0 o = get_obj s0 o) ->
  xoutcome_eqv (xrun n steps st0 [] ev) (exec n s0 (map base (map snd lin))).
Proof. exact inplace_schedules_l. Qed.
Print Assumptions C06inplace_schedules.

(* ---- the executable classifier ---- *)
Theorem C06inplace_conflict_free_ip_premises : forall p steps,
  NoDup (map fst steps) ->
  (forall i, In i (map fst steps) -> exists st, In st p /\ Orch.sid st = i) ->
  OrchCheck.conflict_free_ip p (foot_of_xsteps steps) (styles_of_xsteps steps) = true ->
  OrchCheck.ip_cols_ok p (foot_of_xsteps steps) (styles_of_xsteps steps) (cols_of_xsteps steps) = true ->
  xdep_ordered (waits_before p) steps /\ (forall x, In x steps -> self_ok (snd x) = true).
Proof. exact conflict_free_ip_premises_l. Qed.
Print Assumptions C06inplace_conflict_free_ip_premises.

Theorem C06inplace_conflict_free_ip_confluent : forall n p steps s ev lin,
  NoDup (map fst steps) ->
  (forall i, In i (map fst steps) -> exists st, In st p /\ Orch.sid st = i) ->
  OrchCheck.conflict_free_ip p (foot_of_xsteps steps) (styles_of_xsteps steps) = true ->
  OrchCheck.ip_cols_ok p (foot_of_xsteps steps) (styles_of_xsteps steps) (cols_of_xsteps steps) = true ->
  wf_x steps ev -> scheduled_x (waits_before p) steps ev ->
  Permutation steps lin -> respects_x (waits_before p) lin ->
  xoutcome_eqv (xrun n steps (inject s) [] ev) (exec n s (map base (map snd lin))).
Proof. exact conflict_free_ip_confluent_l. Qed.
Print Assumptions C06inplace_conflict_free_ip_confluent.

Theorem C06inplace_conflict_free_weaker : forall p f y,
  OrchCheck.conflict_free p f = true -> OrchCheck.conflict_free_ip p f y = true.
Proof. exact conflict_free_ip_weaker. Qed.
Print Assumptions C06inplace_conflict_free_weaker.

(* ---- the premise is necessary: in place next to replacing ----
   w_mr = [(1, in place (Mutate): column 1 := col0); (2, replacing: column 2 := 2*col0)] on object 0 = {column 0}.
   Both sequential orders produce columns 1 and 2.
   wev_a = R1 R2 C2 I1 W1 W2: step 2 copied before step 1 inserted and writes last          -> column 1 (in place) lost
   wev_b = R1 R2 C2 W2 I1 W1: step 1 inserts into the old frame and stores the old handle    -> column 2 (replacing) lost
   wev_d = R1 R2 I1 C2 W1 W2: step 2 copies after the insertion                              -> nothing lost *)
Theorem C06inplace_inplace_vs_replacing_refuted :
  wf_x w_mr wev_a /\ wf_x w_mr wev_b /\ wf_x w_mr wev_d
  /\ xindep w_m1 w_r2 = false
  /\ has_col (exec 2 lu_store [base w_m1; base w_r2]) 0 1 = true /\ has_col (exec 2 lu_store [base w_m1; base w_r2]) 0 2 = true
  /\ has_col (exec 2 lu_store [base w_r2; base w_m1]) 0 1 = true /\ has_col (exec 2 lu_store [base w_r2; base w_m1]) 0 2 = true
  /\ hhas_col (xrun 2 w_mr (inject lu_store) [] wev_a) 0 1 = false /\ hhas_col (xrun 2 w_mr (inject lu_store) [] wev_a) 0 2 = true
  /\ hhas_col (xrun 2 w_mr (inject lu_store) [] wev_b) 0 1 = true /\ hhas_col (xrun 2 w_mr (inject lu_store) [] wev_b) 0 2 = false
  /\ hhas_col (xrun 2 w_mr (inject lu_store) [] wev_d) 0 1 = true /\ hhas_col (xrun 2 w_mr (inject lu_store) [] wev_d) 0 2 = true.
Proof.
  split; [apply wf_xb_sound; vm_compute; reflexivity|]. split; [apply wf_xb_sound; vm_compute; reflexivity|].
  split; [apply wf_xb_sound; vm_compute; reflexivity|]. vm_compute. repeat split.
Qed.
Print Assumptions C06inplace_inplace_vs_replacing_refuted.

(* hence these interleavings agree with NO sequential order of the two steps *)
Theorem C06inplace_inplace_vs_replacing_no_order : forall ev l,
  ev = wev_a \/ ev = wev_b -> l = [base w_m1; base w_r2] \/ l = [base w_r2; base w_m1] ->
  ~ xoutcome_eqv (xrun 2 w_mr (inject lu_store) [] ev) (exec 2 lu_store l).
Proof.
  intros ev l He Hl E.
  pose proof (xoutcome_eqv_has_col _ _ 0 1 E) as C1. pose proof (xoutcome_eqv_has_col _ _ 0 2 E) as C2.
  destruct He as [-> | ->], Hl as [-> | ->]; vm_compute in C1, C2; discriminate.
Qed.
Print Assumptions C06inplace_inplace_vs_replacing_no_order.

(* the Series variant inserts into the frame the object refers to NOW: wev_b loses nothing, but a replacing write between its
   insertion and its own write (wev_c = R1 R2 C2 I1 W2 W1) is overwritten by the handle it re-read: column 2 lost *)
Theorem C06inplace_series_vs_replacing_refuted :
  wf_x w_sr wev_b /\ wf_x w_sr wev_c /\ xindep w_s1 w_r2 = false
  /\ hhas_col (xrun 2 w_sr (inject lu_store) [] wev_b) 0 1 = true /\ hhas_col (xrun 2 w_sr (inject lu_store) [] wev_b) 0 2 = true
  /\ hhas_col (xrun 2 w_sr (inject lu_store) [] wev_c) 0 1 = true /\ hhas_col (xrun 2 w_sr (inject lu_store) [] wev_c) 0 2 = false
  /\ hhas_col (xrun 2 w_sr (inject lu_store) [] wev_a) 0 1 = false.
Proof.
  split; [apply wf_xb_sound; vm_compute; reflexivity|]. split; [apply wf_xb_sound; vm_compute; reflexivity|].
  vm_compute. repeat split.
Qed.
Print Assumptions C06inplace_series_vs_replacing_refuted.

(* the regression the C06/C01 checks must see: two in-place siblings (Series + Mutate: xindep, every interleaving keeps both
   columns); after the Series branch was turned into a replacing one (w_rm) the pair is no longer xindep and the
   interleaving R1 R2 C1 I2 W2 W1 loses column 2 *)
Theorem C06inplace_series_made_replacing_refuted :
  xindep w_s1 w_m2 = true /\ wf_x w_sm wev_ii
  /\ hhas_col (xrun 2 w_sm (inject lu_store) [] wev_ii) 0 1 = true /\ hhas_col (xrun 2 w_sm (inject lu_store) [] wev_ii) 0 2 = true
  /\ xindep w_r1 w_m2 = false /\ wf_x w_rm wev_reg
  /\ hhas_col (xrun 2 w_rm (inject lu_store) [] wev_reg) 0 1 = true /\ hhas_col (xrun 2 w_rm (inject lu_store) [] wev_reg) 0 2 = false.
Proof.
  split; [vm_compute; reflexivity|]. split; [apply wf_xb_sound; vm_compute; reflexivity|].
  split; [vm_compute; reflexivity|]. split; [vm_compute; reflexivity|]. split; [vm_compute; reflexivity|].
  split; [apply wf_xb_sound; vm_compute; reflexivity|]. vm_compute. split; reflexivity.
Qed.
Print Assumptions C06inplace_series_made_replacing_refuted.

(* ---- the premises are satisfiable by a non-trivial plan (Model/DataPlaneInPlace.v, definitions xe_steps, xe_plan, xe_ev) ----
   a root, three unordered in-place siblings on its object (Mutate, Series, Mutate with two columns), a replacing consumer of
   all of them, an unrelated root; xe_ev interleaves the column insertions of the siblings with each other and with the
   unrelated step.  The OLD classifier rejects the plan (conflict_free = false: C06conf does not apply). *)
Definition xe_lin : list xstep := xe_steps.     (* the SYNC order: plan order *)

Example C06inplace_premises_hold :
  NoDup (map fst xe_steps)
  /\ (forall i, In i (map fst xe_steps) -> exists st, In st xe_plan /\ Orch.sid st = i)
  /\ OrchCheck.conflict_free xe_plan (foot_of_xsteps xe_steps) = false
  /\ OrchCheck.conflict_free_ip xe_plan (foot_of_xsteps xe_steps) (styles_of_xsteps xe_steps) = true
  /\ OrchCheck.ip_cols_ok xe_plan (foot_of_xsteps xe_steps) (styles_of_xsteps xe_steps) (cols_of_xsteps xe_steps) = true
  /\ wf_x xe_steps xe_ev /\ scheduled_x (waits_before xe_plan) xe_steps xe_ev
  /\ Permutation xe_steps xe_lin /\ respects_x (waits_before xe_plan) xe_lin.
Proof.
  split; [apply wf_xb_sound with (ev := xe_ev); vm_compute; reflexivity|].
  split.
  { assert (F : forallb (fun i => existsb (fun st => Nat.eqb (Orch.sid st) i) xe_plan) (map fst xe_steps) = true) by (vm_compute; reflexivity).
    rewrite forallb_forall in F. intros i Hi. specialize (F i Hi). apply existsb_exists in F. destruct F as [st [F1 F2]].
    exists st. split; [exact F1 | apply Nat.eqb_eq; exact F2]. }
  split; [vm_compute; reflexivity|]. split; [vm_compute; reflexivity|]. split; [vm_compute; reflexivity|].
  split; [apply wf_xb_sound; vm_compute; reflexivity|].
  split; [apply scheduled_xb_sound; vm_compute; reflexivity|].
  split; [apply Permutation_refl|].
  apply respects_xb_sound. vm_compute. reflexivity.
Qed.
Print Assumptions C06inplace_premises_hold.

(* the theorem applied: the interleaved run shows the tables of the SYNC run; the values, explicitly *)
Example C06inplace_instance :
  xoutcome_eqv (xrun 2 xe_steps (inject []) [] xe_ev) (exec 2 [] (map base (map snd xe_lin)))
  /\ (exists st, xrun 2 xe_steps (inject []) [] xe_ev = XOk st
        /\ obs st 0 = Some [(5, [Some 17%Z; None]); (3, [Some 2%Z; None]); (2, [Some 2%Z; None]); (1, [Some 13%Z; None]);
                            (4, [Some (-1)%Z; None]); (0, [Some 1%Z; None])]
        /\ obs st 1 = Some [(7, [Some 4%Z; Some 5%Z])])
  /\ (exists s, exec 2 [] (map base (map snd xe_lin)) = Ok s
        /\ get_obj s 0 = Some [(5, [Some 17%Z; None]); (3, [Some 2%Z; None]); (4, [Some (-1)%Z; None]); (2, [Some 2%Z; None]);
                               (1, [Some 13%Z; None]); (0, [Some 1%Z; None])]).
Proof.
  destruct C06inplace_premises_hold as (H1 & H2 & _ & H4 & H5 & H6 & H7 & H8 & H9).
  split; [exact (C06inplace_conflict_free_ip_confluent 2 xe_plan xe_steps [] xe_ev xe_lin H1 H2 H4 H5 H6 H7 H8 H9)|].
  split; eexists; vm_compute; repeat split.
Qed.
Print Assumptions C06inplace_instance.
