(* C14 — moving data between compute frameworks preserves it.   Property theorems only (proofs: Proofs/TransformP.v,
   Proofs/RegistryP.v).

   WHAT IS AND IS NOT PROVED HERE.  The property has two halves.
   (1) Routing: which transformers are registered, which chain is returned for a pair of frameworks, in which direction
       each transformer is run, how the step loop finds the intermediate type.  That is mloda code; it is modelled in
       Model/Transform.v and everything below is proved about it, for every list of transformer declarations in every
       order, and re-proved on every run for the registry regenerated from the working tree (Gen/Registry.v).
   (2) Values: that pandas / pyarrow conversions keep column names, rows and values.  That is library behaviour.  It
       enters ONLY as the hypothesis `bijective_registry` of C14_roundtrip_*; nothing in Coq establishes it.  The harness
       (harness/c14.py) tests it on generated tables in Python and reports where it fails (see known_findings.json).
   So: the theorems say "if every registered pairwise transformer is a bijection with its reverse direction as inverse,
   then every route mloda takes, followed by the route back, is the identity, and no route mis-dispatches". *)
From Coq Require Import List Bool Arith String Permutation ZArith.
Import ListNotations.
Require Import MV.Model.Transform MV.Spec.Transform MV.Proofs.TransformP MV.Gen.Registry MV.Proofs.RegistryP.

(* ---------- for every registry built by `add` from any list of declarations ---------- *)

(* every returned chain is a path of registered transformers from source to target whose hops are consecutive *)
Theorem C14_chain_sound : forall ds hub r a b c,
  build ds = Some r -> get_chain hub r a b = Some c -> is_path r c a b.
Proof. exact chain_sound_l. Qed.
Print Assumptions C14_chain_sound.

Theorem C14_chain_length : forall hub r a b c, get_chain hub r a b = Some c -> List.length c = 1 \/ List.length c = 2.
Proof. exact chain_length_l. Qed.

(* a chain is returned exactly when a usable transformer is declared for the pair, or two through the hub *)
Theorem C14_chain_exists_iff : forall ds hub r a b, build ds = Some r ->
  ((exists c, get_chain hub r a b = Some c) <->
   (declared ds a b \/ exists pa, hub = Some pa /\ declared ds a pa /\ declared ds pa b)).
Proof. exact chain_exists_iff_l. Qed.
Print Assumptions C14_chain_exists_iff.

Theorem C14_chain_complete_two_hop : forall ds pa r a b, build ds = Some r ->
  (declared ds a b \/ (declared ds a pa /\ declared ds pa b)) -> exists c, get_chain (Some pa) r a b = Some c.
Proof. exact chain_complete_two_hop_l. Qed.
Print Assumptions C14_chain_complete_two_hop.

(* content of the registry: the usable declared transformer of the pair, in both directions *)
Theorem C14_registry_content : forall ds r a b d, build ds = Some r ->
  (lookup r (a, b) = Some d <-> In d ds /\ usable d /\ handles d a b).
Proof. exact lookup_built_iff. Qed.
Print Assumptions C14_registry_content.

(* get_all_subclasses returns a set: the order in which transformers are added is arbitrary; the content is not *)
Theorem C14_registry_order_independent : forall ds ds' r r',
  Permutation ds ds' -> build ds = Some r -> build ds' = Some r' -> forall k, lookup r k = lookup r' k.
Proof. exact registry_content_order_independent_l. Qed.
Print Assumptions C14_registry_order_independent.

(* ... and so is whether the constructor raises its ValueError (two different usable classes for one pair) *)
Theorem C14_constructor_failure_order_independent : forall ds ds',
  Permutation ds ds' -> build ds = None -> build ds' = None.
Proof. exact build_failure_order_independent_l. Qed.
Print Assumptions C14_constructor_failure_order_independent.

(* identify_orientation: for a <> b the two directions never get the same answer, and its two ValueErrors are
   unreachable; "left" is exactly framework() -> other_framework() *)
Theorem C14_orientation_total : forall d a b, a <> b ->
  match identify_orientation d a b with
  | ODir o => identify_orientation d b a = ODir (flip o)
  | ONotMine => identify_orientation d b a = ONotMine
  | OSame | OUnsupported => False
  end.
Proof. exact orientation_total_l. Qed.
Print Assumptions C14_orientation_total.

Theorem C14_orientation_direction : forall d a b, a <> b ->
  (identify_orientation d a b = ODir OLeft <-> t_fw d = Some a /\ t_other d = Some b) /\
  (identify_orientation d a b = ODir ORight <-> t_fw d = Some b /\ t_other d = Some a).
Proof. exact orientation_dir_iff. Qed.
Print Assumptions C14_orientation_direction.

(* the step loop never mis-dispatches: whenever a chain exists the loop finds the intermediate type and every
   transformer accepts its (from, to) -- none of the "How did you get here" errors, no unbound target_fw *)
Theorem C14_transform_total : forall table fwd bwd ds hub r a b c x,
  build ds = Some r -> a <> b -> get_chain hub r a b = Some c ->
  exists y, tfs_transform table fwd bwd hub r a b x = TOk table y.
Proof. exact tfs_total_l. Qed.
Print Assumptions C14_transform_total.

(* by induction on the chain: a typed chain followed by the reversed chain is the identity, GIVEN bijective hops *)
Theorem C14_roundtrip_hops : forall table fwd bwd valid l a b, typed_hops l a b ->
  (forall d a' b', In (d, a', b') l -> bijective_pair table fwd bwd valid d) ->
  forall x, valid a x -> exists y, run_hops table fwd bwd l x = Some y /\ valid b y /\
                                  run_hops table fwd bwd (rev_hops l) y = Some x.
Proof. exact roundtrip_hops_l. Qed.
Print Assumptions C14_roundtrip_hops.

(* the route TransformFrameworkStep.transform takes from a to b, then the route it takes from b to a *)
Theorem C14_roundtrip_under_bijection : forall table fwd bwd valid ds hub r a b x y,
  build ds = Some r -> bijective_registry table fwd bwd valid r -> a <> b -> valid a x ->
  tfs_transform table fwd bwd hub r a b x = TOk table y ->
  valid b y /\ tfs_transform table fwd bwd hub r b a y = TOk table x.
Proof. exact roundtrip_under_bijection_l. Qed.
Print Assumptions C14_roundtrip_under_bijection.

(* the map.get((from,to)) + transform idiom of upload_table / convert_flyserver_data_back / cfw.transform *)
Theorem C14_direct_roundtrip : forall table fwd bwd valid ds r a b x y,
  build ds = Some r -> bijective_registry table fwd bwd valid r -> a <> b -> valid a x ->
  direct_transform table fwd bwd r a b x = Some (Some y) ->
  valid b y /\ direct_transform table fwd bwd r b a y = Some (Some x).
Proof. exact direct_roundtrip_l. Qed.
Print Assumptions C14_direct_roundtrip.

(* ---------- T1: the registry of the working tree (regenerated on this run) ---------- *)
Theorem C14_gen_ok : gen_ok = true.
Proof. exact gen_ok_l. Qed.

(* the three base frameworks are available and every available framework names a data type *)
Theorem C14_base_frameworks_installed : base_installed_b = true.
Proof. exact base_installed_l. Qed.

(* the model's `add`, folded over the real declarations, yields the real transformer_map *)
Theorem C14_registry_is_model_registry :
  exists r, build gen_decls = Some r /\ forall k, lookup r k = lookup gen_registry k.
Proof. exact gen_registry_is_built. Qed.
Print Assumptions C14_registry_is_model_registry.

Theorem C14_chain_exists_installed : forall a b, In a installed_fws -> In b installed_fws -> a <> b ->
  exists c, get_chain gen_hub gen_registry a b = Some c.
Proof. exact chain_exists_installed_l. Qed.
Print Assumptions C14_chain_exists_installed.

Theorem C14_installed_transform_total : forall a b, In a installed_fws -> In b installed_fws ->
  exists tr, tfs_trace gen_hub gen_registry a b = TOk _ tr.
Proof. exact tfs_ok_installed_l. Qed.
Print Assumptions C14_installed_transform_total.

Theorem C14_installed_roundtrip : forall table fwd bwd valid a b x y,
  bijective_registry table fwd bwd valid gen_registry -> a <> b -> valid a x ->
  tfs_transform table fwd bwd gen_hub gen_registry a b x = TOk table y ->
  valid b y /\ tfs_transform table fwd bwd gen_hub gen_registry b a y = TOk table x.
Proof. exact installed_roundtrip_l. Qed.
Print Assumptions C14_installed_roundtrip.

(* ---------- non-vacuity ---------- *)
(* three frameworks 0 (hub), 1, 2; transformers 1<->0 and 2<->0, a third class that is not importable *)
Definition ex_d1 := {| t_id := 10; t_fw := Some 1; t_other := Some 0; t_imp := true |}.
Definition ex_d2 := {| t_id := 11; t_fw := Some 2; t_other := Some 0; t_imp := true |}.
Definition ex_d3 := {| t_id := 12; t_fw := None; t_other := Some 0; t_imp := false |}.
Definition ex_reg := match build [ex_d3; ex_d1; ex_d2] with Some r => r | None => [] end.

Example C14_examples :
  build [ex_d3; ex_d1; ex_d2] = Some ex_reg /\
  get_chain (Some 0) ex_reg 1 2 = Some [ex_d1; ex_d2] /\ get_chain (Some 0) ex_reg 2 1 = Some [ex_d2; ex_d1] /\
  get_chain (Some 0) ex_reg 1 0 = Some [ex_d1] /\ get_chain None ex_reg 1 2 = None /\
  tfs_trace (Some 0) ex_reg 1 2 = TOk _ [(10, OLeft); (11, ORight)] /\
  tfs_trace (Some 0) ex_reg 2 1 = TOk _ [(11, OLeft); (10, ORight)] /\
  (* a second, different class for an already registered pair is a ValueError *)
  build [ex_d1; {| t_id := 13; t_fw := Some 0; t_other := Some 1; t_imp := true |}] = None.
Proof. vm_compute. repeat split. Qed.

(* the bijection hypothesis is satisfiable by non-identity conversions: tables = integers, every forward conversion
   adds its class number, every backward conversion subtracts it *)
Example C14_hypothesis_satisfiable :
  let fwd := fun d (x : Z) => (x + Z.of_nat (t_id d))%Z in
  let bwd := fun d (x : Z) => (x - Z.of_nat (t_id d))%Z in
  bijective_registry Z fwd bwd (fun _ _ => True) ex_reg /\
  tfs_transform Z fwd bwd (Some 0) ex_reg 1 2 100%Z = TOk Z 99%Z /\
  tfs_transform Z fwd bwd (Some 0) ex_reg 2 1 99%Z = TOk Z 100%Z.
Proof.
  split; [|vm_compute; split; reflexivity].
  intros d _ f o _ _. split; intros x _; (split; [exact I|]); cbv beta; ring.
Qed.
