(* C08 — a failure anywhere in a run is reported to the caller, never swallowed.  Property theorems only.
   For every plan, back end, failure oracle and event trace (worker completions and failures interleaved arbitrarily
   with loop iterations). *)
From Coq Require Import List Bool Arith.
Import ListNotations.
Require Import MV.Model.Orch MV.Proofs.OrchP.

(* once a failure is recorded, every later loop head raises: the call can no longer return normally *)
Theorem C08_error_no_normal_exit : forall stream inline fails p es es' x,
  In x (failed (run stream inline fails p es)) -> loop_head p (run stream inline fails p (es ++ es')) = Raised.
Proof. exact error_no_normal_exit_l. Qed.
Print Assumptions C08_error_no_normal_exit.

(* bounded: after the failure is recorded no further step is ever started (the current iteration was the last) *)
Theorem C08_error_stops_starts : forall stream inline fails p es es' x,
  In x (failed (run stream inline fails p es)) ->
  started (run stream inline fails p (es ++ es')) = started (run stream inline fails p es).
Proof. exact error_stops_starts_l. Qed.
Print Assumptions C08_error_stops_starts.

(* the reported failure stems from a step that was really started, did not complete, and (SYNC) really raised *)
Theorem C08_error_origin : forall stream inline fails p,
  (forall s s', In s p -> In s' p -> sid s = sid s' -> s = s') ->
  (forall s, In s p -> uuids s <> []) ->
  (forall s s' u, In s p -> In s' p -> In u (uuids s) -> In u (uuids s') -> s = s') ->
  forall es x, In x (failed (run stream inline fails p es)) ->
  In x (started_ids (run stream inline fails p es)) /\ ~ In x (done (run stream inline fails p es)) /\
  (inline = true -> fails x = true).
Proof. exact error_origin_l. Qed.
Print Assumptions C08_error_origin.

(* no stale success: the failing step's outputs never count as finished, so nothing downstream of it runs, and
   a normal exit implies that nothing failed and everything completed *)
Theorem C08_failed_never_finished : forall stream inline fails p,
  (forall s s', In s p -> In s' p -> sid s = sid s' -> s = s') ->
  (forall s, In s p -> uuids s <> []) ->
  (forall s s' u, In s p -> In s' p -> In u (uuids s) -> In u (uuids s') -> s = s') ->
  forall es s, In s p -> In (sid s) (failed (run stream inline fails p es)) ->
  forall u, In u (uuids s) -> ~ In u (finished (run stream inline fails p es)).
Proof. exact failed_never_finished_l. Qed.
Print Assumptions C08_failed_never_finished.

Theorem C08_normal_exit_means_no_failure : forall stream inline fails p,
  (forall s s', In s p -> In s' p -> sid s = sid s' -> s = s') ->
  (forall s, In s p -> uuids s <> []) ->
  (forall s s' u, In s p -> In s' p -> In u (uuids s) -> In u (uuids s') -> s = s') ->
  forall es, loop_head p (run stream inline fails p es) = ExitNormal ->
  forall s, In s p -> In (sid s) (started_ids (run stream inline fails p es)) /\
                      In (sid s) (done (run stream inline fails p es)) /\ failed (run stream inline fails p es) = [].
Proof. exact exit_all_done_l. Qed.
Print Assumptions C08_normal_exit_means_no_failure.

(* non-vacuity: a 3-step chain whose middle step fails under THREADING: raised, last step never started *)
Definition ex_chain : plan :=
  [ {| sid := 0; skind := KFG; uuids := [1]; req := []; requested := false |};
    {| sid := 1; skind := KFG; uuids := [2]; req := [1]; requested := false |};
    {| sid := 2; skind := KFG; uuids := [3]; req := [2]; requested := true |} ].
Example C08_chain_fails :
  let st := run false false (fun _ => false) ex_chain [EScan; EDone 0 true; EScan; EScan; EDone 1 false; EScan; EScan] in
  loop_head ex_chain st = Raised /\ rev (started_ids st) = [0; 1] /\ failed st = [1] /\ results st = [].
Proof. vm_compute. repeat split. Qed.
