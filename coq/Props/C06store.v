(* C06 (MULTIPROCESSING store protocol) - what a reader in another worker process gets.   Property theorems only
   (model: Model/MpStore.v, proofs: Proofs/MpStoreP.v).

   One compute-framework object o; its worker runs feature-group steps on it (DataPlane actions on the worker's local store);
   a step flagged `need` (FeatureGroupStep.need_to_upload / requested features) uploads the object's table to the Flight store
   under the object's key AFTER its calculation (rule pol_code); readers in other workers get the stored table (`pub`).
     * the worker's local objects are the SYNC data plane (DataPlane.exec) whatever the upload rule;
     * a reader that reads right after an uploading step gets exactly the table SYNC's reader (from_cfw.get_data()) gets;
     * C06_reader_sees_all_finished_steps: a reader that starts after the upload of step k and reads at ANY later moment -
       the object having run further steps that extend its table, uploading or not - gets a table that contains every column
       of the object's SYNC table after step k (the store is never staler than the last finished uploading step), and so does the
       SYNC reader at that moment;
     * the "publish once" rule pol_once (upload only if the object is not yet registered in uuid_flyway_datasets) violates
       this: the reader after step 2 gets step 1's table, the column of step 2 is missing. *)
From Coq Require Import List Bool ZArith Arith.
Import ListNotations.
Require Import MV.Spec.RefEval MV.Model.DataPlane MV.Model.MpStore MV.Proofs.MpStoreP.
Local Open Scope nat_scope.

Theorem C06_worker_objects_are_sync_data_plane : forall pol n o l m m',
  mp_run pol n o m l = Some m' -> exec n (loc m) (map fst l) = Ok (loc m').
Proof. exact mp_run_loc_l. Qed.
Print Assumptions C06_worker_objects_are_sync_data_plane.

Theorem C06_read_after_upload_equals_sync : forall n o l a s m,
  mp_run pol_code n o (init s) (l ++ [(a, true)]) = Some m ->
  mp_read pol_code n o s (l ++ [(a, true)]) = sync_read n o s (l ++ [(a, true)]).
Proof. exact mp_read_after_upload_is_sync_l. Qed.
Print Assumptions C06_read_after_upload_equals_sync.

Theorem C06_reader_sees_all_finished_steps : forall n o s pre a post m,
  touches o a = true -> forallb (extends o) post = true ->
  mp_run pol_code n o (init s) (pre ++ (a, true) :: post) = Some m ->
  exists tk, sync_read n o s (pre ++ [(a, true)]) = Some tk /\
             mp_read pol_code n o s (pre ++ [(a, true)]) = Some tk /\
             ocovers tk (pub m) /\ ocovers tk (sync_read n o s (pre ++ (a, true) :: post)).
Proof. exact reader_sees_all_finished_steps_l. Qed.
Print Assumptions C06_reader_sees_all_finished_steps.

Theorem C06_store_versions_are_uploading_steps : forall calcs r,
  versions pol_code r calcs = map fst (filter (fun c => snd c) calcs).
Proof. exact versions_code_l. Qed.
Print Assumptions C06_store_versions_are_uploading_steps.

(* publish once: MP reader after step 2 gets step 1's table; SYNC's reader gets both columns; the code's rule agrees with SYNC *)
Theorem C06_publish_once_stale_refuted :
  mp_read pol_once 2 0 [] ex_steps = Some [(0, [Some 1; Some 2]%Z)] /\
  sync_read 2 0 [] ex_steps = Some [(1, [Some 7; Some 14]%Z); (0, [Some 1; Some 2]%Z)] /\
  mp_read pol_code 2 0 [] ex_steps = sync_read 2 0 [] ex_steps /\
  (exists t, mp_read pol_once 2 0 [] ex_steps = Some t /\ lookup t 1 = None).
Proof. exact publish_once_stale_l. Qed.
Print Assumptions C06_publish_once_stale_refuted.

Example C06_replay_checker_instances :
  chk_replay ([([0;1], true); ([0;1;2], true)], [[0;1]; [0;1;2]], [(1, 1, [0;1], [0;1]); (2, 2, [0;1;2], [0;2])]) = true /\
  chk_replay ([([0;1], true); ([0;1;2], true)], [[0;1]; [0;1;2]], [(1, 2, [0;1;2], [0;1]); (2, 2, [0;1;2], [0;2])]) = true /\
  chk_replay ([([0;1], true); ([0;1;2], true)], [[0;1]], [(1, 1, [0;1], [0;1]); (2, 2, [0;1], [0;2])]) = false /\
  chk_replay ([([0;1], true); ([0;1;2], true)], [[0;1]; [0;1;2]], [(1, 1, [0;1], [0;1]); (2, 2, [0;1], [0;2])]) = false.
Proof. exact replay_examples_l. Qed.
