(* C05 - several independent joins SHARING a source: every JoinStep merges the converted right source of ITS OWN link.
   Property theorems only; model in Model/RoutingJ.v (run-time join path: registry, transform step's fresh object whose children
   contain the link uuid, merge relation, find_leftmost redirect, JoinStep.execute = rel_join into the left object) and
   Model/RoutingJS.v (premises own_okb, the shape of plans with k joins on one right source, add_tfs' de-duplication of transform
   steps by TransformFrameworkStep.__eq__/__hash__); proofs in Proofs/RoutingJSP.v.

   The premises own_okb steps (decidable, EVALUATED by harness/c05_shared.py on the steps of every real run in begin order):
     step ids distinct; link uuids occur in no feature-group step's children_if_root (they are private to transform steps);
     every JoinStep has, BEFORE it in the begin order, a transform step carrying its link uuid that creates an object of the
     join's left framework; one transform step per link and one join per link; no framework is both source and target of
     transform steps; a source step (one that creates a table) looks up only its own feature, which is no other step's child;
     the feature a JoinStep finds its left object by is no child of a source that gets converted.
   They say nothing about how many joins there are, which sources they share, or in which order the steps begin.

   1. RoutingJS_join_merges_own_source: under own_okb, for EVERY number of joins and EVERY begin order, whenever a JoinStep
      executes: the object it reads was created by the transform step st carrying its link uuid; that object has never been
      merged (no entry in the merge relation - find_leftmost leaves it alone); it holds the table T of a source step g on st's
      from-framework that has st's right uuid among its children (the converted RIGHT SOURCE); the object written is no
      transform object; and the table written is rel_join jt lk rk (table of the left object) T.
      RoutingJS_join_reads_own_transform: the routing half for a JoinStep that is merely routed (not yet executed).
   2. RoutingJS_distinct_consumers_get_own_transform: add_tfs emits a transform step for every cross-framework JoinStep when the
      identities differ in to_feature_group (the tree's __eq__).  RoutingJS_forgetting_consumer_drops_transform: an identity
      without to_feature_group emits none for the second join converting the same source between the same frameworks.
   3. RoutingJS_missing_transform_reads_left: a JoinStep WITHOUT its own transform object falls back to the right source's
      feature, lands on another join's transform object t1 and - once t1 has been merged into l - is redirected to l: it merges
      a LEFT object of another join (an already merged table), and nothing fails.
   4. Instances (vm_compute): two and three joins sharing a source, in plan order and in an observed begin order: premises hold,
      every consumer's table is rel_join of its own Link.  RoutingJS_shared_source_refuted: the plan with ONE transform step for
      two joins (what add_tfs yields under the consumer-forgetting identity): own_okb is false, the run ends XOk, the second
      JoinStep reads the first join's left object and its consumer sees SrcD join (SrcA join SrcB) instead of SrcD join SrcB. *)
From Coq Require Import List Bool ZArith Arith String.
Import ListNotations.
Require Import MV.Spec.RefEval MV.Model.DataPlane MV.Model.Routing MV.Spec.Rel MV.Model.RoutingJ MV.Model.RoutingJS
               MV.Proofs.RoutingJSP.
Open Scope nat_scope.
Open Scope list_scope.

(* ---- 1 ---- *)
Theorem RoutingJS_join_merges_own_source : forall steps pre j post s s', own_okb steps = true ->
  steps = pre ++ XJ j :: post -> run_x x_init pre = (s, XOk) -> exec_x s (XJ j) = (s', XOk) ->
  exists st g T u w Tl,
      In st (tfs_list pre) /\ rs_link st = Some (j_link j) /\ rs_cls st = j_cls j /\
      In (XB g (Some T)) pre /\ rs_kind g = RFG /\ rs_cls g = rs_from st /\ right_u st = Some u /\ In u (rs_cir g) /\
      mrel_get (x_rel s) (rs_sid st) = None /\ ~ In w (tfs_sids steps) /\
      rs_get (x_store s) w = Some Tl /\ rs_get (x_store s) (rs_sid st) = Some T /\
      x_store s' = (w, rel_join (j_jt j) (j_lk j) (j_rk j) Tl T) :: x_store s /\
      x_rel s' = mrel_add (x_rel s) w (rs_sid st) (j_cls j) /\
      x_feet s' = x_feet s ++ [(j_sid j, w, Some (rs_sid st))].
Proof. exact join_merges_own_source_l. Qed.
Print Assumptions RoutingJS_join_merges_own_source.

Theorem RoutingJS_join_reads_own_transform : forall steps pre j post s reg' w rd, own_okb steps = true ->
  steps = pre ++ XJ j :: post -> run_x x_init pre = (s, XOk) -> route_join (x_reg s) (x_rel s) j = RoutedJ reg' w rd ->
  exists st, In st (tfs_list pre) /\ rs_link st = Some (j_link j) /\ rd = Some (rs_sid st) /\
             mrel_get (x_rel s) (rs_sid st) = None /\
             get_cfw (x_reg s) (j_cls j) (j_link j) = Some (rs_sid st).
Proof. exact join_reads_own_transform_l. Qed.
Print Assumptions RoutingJS_join_reads_own_transform.

(* ---- 2 ---- *)
Theorem RoutingJS_distinct_consumers_get_own_transform : forall keys,
  NoDup (map tk_to_fg keys) -> tfs_fresh tkey_eqb [] keys = map (fun _ => true) keys.
Proof. intros keys H. apply tfs_fresh_all; [exact H | intros k c _ []]. Qed.
Print Assumptions RoutingJS_distinct_consumers_get_own_transform.

Theorem RoutingJS_forgetting_consumer_drops_transform : forall k1 k2 r,
  tk_from k1 = tk_from k2 -> tk_to k1 = tk_to k2 -> tk_from_fg k1 = tk_from_fg k2 ->
  exists fl, tfs_fresh tkey_eqb_no_consumer [] (k1 :: k2 :: r) = true :: false :: fl.
Proof. exact tfs_fresh_no_consumer. Qed.
Print Assumptions RoutingJS_forgetting_consumer_drops_transform.

(* ---- 3 ---- *)
Theorem RoutingJS_missing_transform_reads_left : forall reg rel0 j lu ru w l t1 c,
  hd_error (j_left j) = Some lu -> hd_error (j_right j) = Some ru -> c = j_cls j ->
  get_cfw_j reg (mrel_add rel0 l t1 c) c lu = Found w ->
  get_cfw reg c (j_link j) = None -> get_cfw reg c ru = Some t1 ->
  l <> t1 -> mparent rel0 l = l -> (forall p cl, mrel_get rel0 l = Some (p, cl) -> cl = c) ->
  route_join reg (mrel_add rel0 l t1 c) j = RoutedJ reg w (Some l).
Proof. exact missing_transform_reads_left_l. Qed.
Print Assumptions RoutingJS_missing_transform_reads_left.

(* ---- 4: instances.  SrcA{k:1,2,3,5}, SrcD{k:3,4,6} (and SrcE{k:2,6}) on framework 1, shared SrcB{k:2,3,4,5} on framework 2 ---- *)
Open Scope string_scope.
Definition ss_A : table := [[("a", VInt 1); ("k", VInt 1)]; [("a", VInt 2); ("k", VInt 2)]; [("a", VInt 3); ("k", VInt 3)]; [("a", VInt 5); ("k", VInt 5)]].
Definition ss_D : table := [[("d", VInt 300); ("k", VInt 3)]; [("d", VInt 400); ("k", VInt 4)]; [("d", VInt 600); ("k", VInt 6)]].
Definition ss_E : table := [[("e", VInt 7); ("k", VInt 2)]; [("e", VInt 8); ("k", VInt 6)]].
Definition ss_B : table := [[("b", VInt 20); ("k", VInt 2)]; [("b", VInt 30); ("k", VInt 3)]; [("b", VInt 40); ("k", VInt 4)]; [("b", VInt 50); ("k", VInt 5)]].
Definition ss_arm (t : table) (jt : jointype) : arm := {| a_tab := t; a_jt := jt; a_lk := ["k"]; a_rk := ["k"] |}.
Definition ss_arms2 (jt : jointype) : list arm := [ss_arm ss_A jt; ss_arm ss_D jt].
Definition ss_arms3 : list arm := [ss_arm ss_A JInner; ss_arm ss_D JLeft; ss_arm ss_E JOuter].

(* every consumer i of the run received rel_join of ITS link over ITS two sources *)
Fixpoint consumers_ok (s : xstate) (ts : table) (i : nat) (arms : list arm) : bool :=
  match arms with
  | [] => true
  | a :: r => match seen_of s i with
              | Some t => bag_eqb t (rel_join (a_jt a) (a_lk a) (a_rk a) (a_tab a) ts)
              | None => false
              end && consumers_ok s ts (S i) r
  end.
Definition shared_good (steps : list xstep) (ts : table) (arms : list arm) : bool :=
  own_okb steps && joins_read_own steps
  && match run_x x_init steps with (s, XOk) => consumers_ok s ts 0 arms | _ => false end.

(* the flags add_tfs computes with the tree's identity *)
Example RoutingJS_shared_flags : tfs_fresh tkey_eqb [] (shared_keys 1 2 0 2) = [true; true]
                              /\ tfs_fresh tkey_eqb [] (shared_keys 1 2 0 3) = [true; true; true]
                              /\ tfs_fresh tkey_eqb_no_consumer [] (shared_keys 1 2 0 2) = [true; false].
Proof. vm_compute. repeat split. Qed.

Example RoutingJS_shared_source_2 :
  forallb (fun jt => shared_good (shared_plan 1 2 ss_B (ss_arms2 jt) [true; true]) ss_B (ss_arms2 jt)) [JInner; JLeft; JOuter] = true.
Proof. vm_compute. reflexivity. Qed.

Example RoutingJS_shared_source_3 : shared_good (shared_plan 1 2 ss_B ss_arms3 [true; true; true]) ss_B ss_arms3 = true.
Proof. vm_compute. reflexivity. Qed.

(* an observed begin order of the two-join plan: both transform steps run before the first join (positions 0 1 2 3 6 4 5 7 8) *)
Definition reorder {A} (l : list A) (idx : list nat) : list A := flat_map (fun i => match nth_error l i with Some x => [x] | None => [] end) idx.
Example RoutingJS_shared_source_2_other_order :
  shared_good (reorder (shared_plan 1 2 ss_B (ss_arms2 JInner) [true; true]) [0; 1; 2; 3; 6; 4; 5; 7; 8]) ss_B (ss_arms2 JInner) = true.
Proof. vm_compute. reflexivity. Qed.

(* the premises do not depend on the number of joins: k = 1 .. 6 (instances; the theorem itself is for every step list) *)
Example RoutingJS_premises_hold_k :
  forallb (fun k => own_okb (shared_plan 1 2 ss_B (repeat (ss_arm ss_A JInner) k) (repeat true k))) [1; 2; 3; 4; 5; 6] = true.
Proof. vm_compute. reflexivity. Qed.

(* ---- refuted: ONE transform step for two joins (flags [true; false]) ---- *)
Definition ss_bad : list xstep := shared_plan 1 2 ss_B (ss_arms2 JInner) (tfs_fresh tkey_eqb_no_consumer [] (shared_keys 1 2 0 2)).
Example RoutingJS_shared_source_refuted :
  own_okb ss_bad = false
  /\ joins_read_own ss_bad = false
  /\ let (s, out) := run_x x_init ss_bad in
     out = XOk                                                                  (* nothing raises *)
     /\ nth_error (x_feet s) 6 = Some (22, 20, Some 10)                         (* join 2 writes SrcD's object, READS SrcA's object *)
     /\ match seen_of s 0 with Some t => bag_eqb t (rel_join JInner ["k"] ["k"] ss_A ss_B) | None => false end = true
     /\ match seen_of s 1 with
        | Some t => negb (bag_eqb t (rel_join JInner ["k"] ["k"] ss_D ss_B))
                    && bag_eqb t (rel_join JInner ["k"] ["k"] ss_D (rel_join JInner ["k"] ["k"] ss_A ss_B))
                    && Nat.eqb (List.length t) 1 && Nat.eqb (List.length (rel_join JInner ["k"] ["k"] ss_D ss_B)) 2
        | None => false
        end = true.
Proof. vm_compute. repeat split; reflexivity. Qed.
Print Assumptions RoutingJS_shared_source_refuted.

(* ---- the recorded defect of the unchanged tree: ALL sources on ONE framework (no transform step is planned; add_tfs puts both
   link uuids into the shared source's children_if_root).  Exported plan and begin order of R0(v0,k) INNER S, R1(v1,k) INNER S, all on
   PandasDataFrame (harness/c05_shared.py): the first JoinStep merges S's object (0) into R0's (1); the second JoinStep's lookup of its
   link uuid lands on object 0 and is redirected to object 1: it merges R1 with (R0 join S); both consumers then find the same
   object (2) and see R1 join (R0 join S).  own_okb is false for these steps. ---- *)
Definition ss_same : list xstep :=
  [ XB (mk_fg 0 2 1 [1; 5; 6; 8; 9]) (Some ss_B);
    XB (mk_fg 1 2 2 [2; 6]) (Some ss_A);
    XB (mk_fg 2 2 3 [3; 9]) (Some ss_D);
    XJ {| j_sid := 3; j_cls := 2; j_left := [2]; j_right := [1]; j_link := 5; j_jt := JInner; j_lk := ["k"]; j_rk := ["k"] |};
    XJ {| j_sid := 5; j_cls := 2; j_left := [3]; j_right := [1]; j_link := 8; j_jt := JInner; j_lk := ["k"]; j_rk := ["k"] |};
    XB {| rs_sid := 4; rs_kind := RFG; rs_cls := 2; rs_from := 0; rs_any := 2; rs_cir := [6]; rs_tfs := [2]; rs_req := [1; 2; 5];
          rs_right := None; rs_link := None; rs_root := None; rs_defs := [] |} None;
    XB {| rs_sid := 6; rs_kind := RFG; rs_cls := 2; rs_from := 0; rs_any := 3; rs_cir := [9]; rs_tfs := [3]; rs_req := [1; 8; 3];
          rs_right := None; rs_link := None; rs_root := None; rs_defs := [] |} None ].
Example RoutingJS_same_framework_refuted :
  own_okb ss_same = false
  /\ let (s, out) := run_x x_init ss_same in
     out = XOk
     /\ x_feet s = [(0, 0, None); (1, 1, None); (2, 2, None); (3, 1, Some 0); (5, 2, Some 1); (4, 2, None); (6, 2, None)]
     /\ let wrong := rel_join JInner ["k"] ["k"] ss_D (rel_join JInner ["k"] ["k"] ss_A ss_B) in
        match find (fun p => Nat.eqb (fst p) 4) (x_seen s), find (fun p => Nat.eqb (fst p) 6) (x_seen s) with
        | Some (_, t0), Some (_, t1) =>
            bag_eqb t0 wrong && bag_eqb t1 wrong
            && negb (bag_eqb t0 (rel_join JInner ["k"] ["k"] ss_A ss_B)) && negb (bag_eqb t1 (rel_join JInner ["k"] ["k"] ss_D ss_B))
        | _, _ => false
        end = true.
Proof. vm_compute. repeat split; reflexivity. Qed.
Print Assumptions RoutingJS_same_framework_refuted.
