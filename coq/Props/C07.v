(* C07 — a prepared session and its arguments can be reused; runs are independent.  Property theorems only.

   Part 1 (Model/Session.v): operations on ONE prepared session.  `exec true` is the session as implemented (Engine.compute
   deep-copies the plan), `alone p a0 o` is the same operation on an orchestrator that never belonged to a session
   (Model/Orch.run from Orch.init), written without any session state.  An operation carries its api_data, its mode
   (inline = SYNC, otherwise THREADING with an arbitrary schedule `es`), the steps that raise in it, and for a stream
   how many items the consumer takes before closing it. *)
From Coq Require Import List Bool Arith ZArith String.
Import ListNotations.
Require Import MV.Model.Orch MV.Model.Session MV.Spec.Reuse MV.Proofs.SessionP.

(* For every history `pre` of run / stream_run (drained or abandoned after j items) / failing run / get_result, in any
   mode and schedule, the next run or stream_run returns exactly what it returns on a brand-new orchestrator. *)
Theorem run_history_independent : forall p a0 pre o, is_run o = true ->
  snd (exec true (after sess op result (exec true) (prepare p a0) pre) o) = alone p a0 o.
Proof. exact run_history_independent_l. Qed.
Print Assumptions run_history_independent.

(* the same for every position of a history *)
Theorem results_history_independent : forall p a0 h i o, nth_error h i = Some o -> is_run o = true ->
  nth_error (results_of sess op result (exec true) (prepare p a0) h) i = Some (alone p a0 o).
Proof. exact results_history_independent_l. Qed.
Print Assumptions results_history_independent.

(* in the shape of the specification Spec/Reuse.v *)
Theorem session_prefix_independent : forall p a0,
  prefix_independent sess op result (exec true) (fun _ _ o => is_run o = true) eq (prepare p a0).
Proof. exact session_prefix_independent_l. Qed.
Print Assumptions session_prefix_independent.

(* The invariant behind it: what a run reads from the session (plan, the step_is_done flags on the session's own plan
   object, self.api_data) is unchanged by every operation; self.runner, which does change, is not read by a run. *)
Theorem session_state_frozen : forall h s, frozen (after sess op result (exec true) s h) = frozen s.
Proof. exact after_frozen. Qed.
Print Assumptions session_state_frozen.

Theorem run_reads_frozen_only : forall s1 s2 o, is_run o = true -> frozen s1 = frozen s2 ->
  snd (exec true s1 o) = snd (exec true s2 o).
Proof. exact exec_reads_frozen_only. Qed.
Print Assumptions run_reads_frozen_only.

Theorem master_plan_flags_clean : forall p a0 h, s_flags (after sess op result (exec true) (prepare p a0) h) = [].
Proof. exact master_flags_clean_l. Qed.
Print Assumptions master_plan_flags_clean.

(* Persisted state that IS read by a run: self.api_data, as fallback when the run is given api_data=None.  It is
   written by prepare only, so the statement against run_all reads: a run equals a fresh run_all(args, api_data = e) where
   e is the run's EFFECTIVE api data (its own, else the session's), provided e has the shape (key and column names) the
   session was prepared with -- the plan is a function of the arguments and that shape.  `planner` is arbitrary. *)
Theorem run_equals_fresh_run_all : forall (A : Type) (planner : A -> option (list (string * list string)) -> plan)
  args d0 pre o, is_run o = true ->
  shape_o (eff_api d0 (op_api o)) = shape_o d0 ->
  snd (exec true (after sess op result (exec true) (prepare (planner args (shape_o d0)) d0) pre) o)
  = run_all A planner args (eff_api d0 (op_api o)) o.
Proof. exact run_equals_fresh_run_all_l. Qed.
Print Assumptions run_equals_fresh_run_all.

(* Persisted state that is read by get_result: self.runner.  It holds the collection of the last operation that
   COMPLETED (a failing run, an unfinished one and an abandoned stream do not replace it; a drained stream leaves an
   empty collection).  get_result is therefore history dependent by construction and outside the property. *)
Theorem get_result_last_completed : forall p a0 h,
  s_runner (after sess op result (exec true) (prepare p a0) h) = last_completed p a0 h None.
Proof. exact get_result_last_completed_l. Qed.
Print Assumptions get_result_last_completed.

Theorem get_result_history_dependent :
  let ok := ORun (ex_api 1) true [] (sched ex_plan [] 7) in
  let bad := ORun (ex_api 2) true [0] (sched ex_plan [0] 7) in
  let str := OStream (ex_api 3) true [] (sched ex_plan [] 7) None in
  snd (exec true (after sess op result (exec true) (prepare ex_plan None) [ok; bad]) OGet)
    = {| r_status := ROk; r_items := [1]; r_api := ex_api 1 |} /\
  snd (exec true (after sess op result (exec true) (prepare ex_plan None) [bad]) OGet)
    = {| r_status := RNoRunner; r_items := []; r_api := None |} /\
  snd (exec true (after sess op result (exec true) (prepare ex_plan None) [ok; str]) OGet)
    = {| r_status := RRaised; r_items := []; r_api := ex_api 3 |}.
Proof. exact get_result_history_dependent_l. Qed.
Print Assumptions get_result_history_dependent.

(* The theorem rests on the deepcopy of the plan in Engine.compute: without it (exec false) a THREADING run after a
   completed run collects results of steps whose workers have not finished (4 loop iterations, no worker completion:
   the run "completes"), whereas alone -- and the session as implemented -- is still waiting. *)
Theorem deepcopy_needed :
  let o1 := ORun None true [] (sched ex_plan [] 7) in
  let o2 := ORun None false [] [EScan; EScan; EScan; EScan] in
  r_status (snd (exec false (fst (exec false (prepare ex_plan None) o1)) o2)) = ROk /\
  r_status (alone ex_plan None o2) = RUnfinished /\
  r_status (snd (exec true (fst (exec true (prepare ex_plan None) o1)) o2)) = RUnfinished.
Proof. exact deepcopy_needed_l. Qed.
Print Assumptions deepcopy_needed.

(* a non-trivial instance: SYNC run, failing THREADING run, stream abandoned after 1 item, then a run with other api data *)
Example C07_session_example :
  let h := [ ORun (ex_api 1) true [] (sched ex_plan [] 7);
             ORun (ex_api 2) false [0] (sched ex_plan [0] 7);
             OStream None true [] (sched ex_plan [] 7) (Some 1) ] in
  map r_status (results_of sess op result (exec true) (prepare ex_plan (ex_api 0)) h) = [ROk; RRaised; RAbandoned] /\
  snd (exec true (after sess op result (exec true) (prepare ex_plan (ex_api 0)) h) (ORun None false [] (sched ex_plan [] 7)))
    = {| r_status := ROk; r_items := [1]; r_api := ex_api 0 |}.
Proof. vm_compute. split; reflexivity. Qed.
