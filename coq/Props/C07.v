(* C07 — a prepared session and its arguments can be reused; runs are independent.  Property theorems only.

   Part 1 (Model/Session.v): operations on ONE prepared session.  `exec true` is the session as implemented (Engine.compute
   deep-copies the plan), `alone p a0 o` is the same operation on an orchestrator that never belonged to a session
   (Model/Orch.run from Orch.init), written without any session state.  An operation carries its api_data, its mode
   (inline = SYNC, otherwise THREADING with an arbitrary schedule `es`), the steps that raise in it, and for a stream
   how many items the consumer takes before closing it. *)
From Coq Require Import List Bool Arith ZArith String.
Import ListNotations.
Require Import MV.Model.Orch MV.Model.Session MV.Spec.Reuse MV.Proofs.SessionP.

(* For every history `pre` of run / stream_run (drained or abandoned after j items) / failing run / get_result, in any
   mode and schedule, the next run or stream_run returns exactly what it returns on a brand-new orchestrator. *)
Theorem run_history_independent : forall p a0 pre o, is_run o = true ->
  snd (exec true (after sess op result (exec true) (prepare p a0) pre) o) = alone p a0 o.
Proof. exact run_history_independent_l. Qed.
Print Assumptions run_history_independent.

(* the same for every position of a history *)
Theorem results_history_independent : forall p a0 h i o, nth_error h i = Some o -> is_run o = true ->
  nth_error (results_of sess op result (exec true) (prepare p a0) h) i = Some (alone p a0 o).
Proof. exact results_history_independent_l. Qed.
Print Assumptions results_history_independent.

(* in the shape of the specification Spec/Reuse.v *)
Theorem session_prefix_independent : forall p a0,
  prefix_independent sess op result (exec true) (fun _ _ o => is_run o = true) eq (prepare p a0).
Proof. exact session_prefix_independent_l. Qed.
Print Assumptions session_prefix_independent.

(* The invariant behind it: what a run reads from the session (plan, the step_is_done flags on the session's own plan
   object, self.api_data) is unchanged by every operation; self.runner, which does change, is not read by a run. *)
Theorem session_state_frozen : forall h s, frozen (after sess op result (exec true) s h) = frozen s.
Proof. exact after_frozen. Qed.
Print Assumptions session_state_frozen.

Theorem run_reads_frozen_only : forall s1 s2 o, is_run o = true -> frozen s1 = frozen s2 ->
  snd (exec true s1 o) = snd (exec true s2 o).
Proof. exact exec_reads_frozen_only. Qed.
Print Assumptions run_reads_frozen_only.

Theorem master_plan_flags_clean : forall p a0 h, s_flags (after sess op result (exec true) (prepare p a0) h) = [].
Proof. exact master_flags_clean_l. Qed.
Print Assumptions master_plan_flags_clean.

(* Persisted state that IS read by a run: self.api_data, as fallback when the run is given api_data=None.  It is
   written by prepare only, so the statement against run_all reads: a run equals a fresh run_all(args, api_data = e) where
   e is the run's EFFECTIVE api data (its own, else the session's), provided e has the shape (key and column names) the
   session was prepared with -- the plan is a function of the arguments and that shape.  `planner` is arbitrary. *)
Theorem run_equals_fresh_run_all : forall (A : Type) (planner : A -> option (list (string * list string)) -> plan)
  args d0 pre o, is_run o = true ->
  shape_o (eff_api d0 (op_api o)) = shape_o d0 ->
  snd (exec true (after sess op result (exec true) (prepare (planner args (shape_o d0)) d0) pre) o)
  = run_all A planner args (eff_api d0 (op_api o)) o.
Proof. exact run_equals_fresh_run_all_l. Qed.
Print Assumptions run_equals_fresh_run_all.

(* Persisted state that is read by get_result: self.runner.  It holds the collection of the last operation that
   COMPLETED (a failing run, an unfinished one and an abandoned stream do not replace it; a drained stream leaves an
   empty collection).  get_result is therefore history dependent by construction and outside the property. *)
Theorem get_result_last_completed : forall p a0 h,
  s_runner (after sess op result (exec true) (prepare p a0) h) = last_completed p a0 h None.
Proof. exact get_result_last_completed_l. Qed.
Print Assumptions get_result_last_completed.

Theorem get_result_history_dependent :
  let ok := ORun (ex_api 1) true [] (sched ex_plan [] 7) in
  let bad := ORun (ex_api 2) true [0] (sched ex_plan [0] 7) in
  let str := OStream (ex_api 3) true [] (sched ex_plan [] 7) None in
  snd (exec true (after sess op result (exec true) (prepare ex_plan None) [ok; bad]) OGet)
    = {| r_status := ROk; r_items := [1]; r_api := ex_api 1 |} /\
  snd (exec true (after sess op result (exec true) (prepare ex_plan None) [bad]) OGet)
    = {| r_status := RNoRunner; r_items := []; r_api := None |} /\
  snd (exec true (after sess op result (exec true) (prepare ex_plan None) [ok; str]) OGet)
    = {| r_status := RRaised; r_items := []; r_api := ex_api 3 |}.
Proof. exact get_result_history_dependent_l. Qed.
Print Assumptions get_result_history_dependent.

(* The theorem rests on the deepcopy of the plan in Engine.compute: without it (exec false) a THREADING run after a
   completed run collects results of steps whose workers have not finished (4 loop iterations, no worker completion:
   the run "completes"), whereas alone -- and the session as implemented -- is still waiting. *)
Theorem deepcopy_needed :
  let o1 := ORun None true [] (sched ex_plan [] 7) in
  let o2 := ORun None false [] [EScan; EScan; EScan; EScan] in
  r_status (snd (exec false (fst (exec false (prepare ex_plan None) o1)) o2)) = ROk /\
  r_status (alone ex_plan None o2) = RUnfinished /\
  r_status (snd (exec true (fst (exec true (prepare ex_plan None) o1)) o2)) = RUnfinished.
Proof. exact deepcopy_needed_l. Qed.
Print Assumptions deepcopy_needed.

(* Execution modes (Model/Modes.v, end of Model/Session.v): an operation's `inline` flag is inline_of its mode; THREADING and
   MULTIPROCESSING are the asynchronous back end with an arbitrary schedule.  The statements above quantify over `inline` and
   the schedule of every operation, hence over every mix of SYNC / THREADING / MULTIPROCESSING operations; spelled out: *)
Require Import MV.Model.Modes.

(* whatever modes the earlier operations of the history ran in (remode ms pre: the i-th one in mode ms[i]) *)
Theorem run_after_any_modes : forall p a0 pre ms o, is_run o = true ->
  snd (exec true (after sess op result (exec true) (prepare p a0) (remode ms pre)) o) = alone p a0 o.
Proof. exact run_after_any_modes_l. Qed.
Print Assumptions run_after_any_modes.

(* two histories, any operations, any modes: the next run cannot tell them apart *)
Theorem run_history_irrelevant : forall p a0 pre pre' o, is_run o = true ->
  snd (exec true (after sess op result (exec true) (prepare p a0) pre) o)
  = snd (exec true (after sess op result (exec true) (prepare p a0) pre') o).
Proof. exact run_history_irrelevant_l. Qed.
Print Assumptions run_history_irrelevant.

(* a run carried out in mode m after any history = the run in mode m on a brand-new orchestrator *)
Theorem run_in_mode_history_independent : forall p a0 pre m o, is_run o = true ->
  snd (exec true (after sess op result (exec true) (prepare p a0) pre) (set_mode m o)) = alone p a0 (set_mode m o).
Proof. exact run_in_mode_history_independent_l. Qed.
Print Assumptions run_in_mode_history_independent.

Theorem threading_and_multiprocessing_one_model : forall o, set_mode MThreading o = set_mode MMultiprocessing o.
Proof. exact threading_mp_same_l. Qed.
Print Assumptions threading_and_multiprocessing_one_model.

Theorem master_plan_flags_clean_any_modes : forall p a0 ms h,
  s_flags (after sess op result (exec true) (prepare p a0) (remode ms h)) = [].
Proof. exact master_flags_clean_modes_l. Qed.
Print Assumptions master_plan_flags_clean_any_modes.

(* non-vacuity: SYNC run, failing MULTIPROCESSING run, THREADING stream abandoned after 1 item, then a MULTIPROCESSING run *)
Example C07_modes_example :
  let h := [ run_in MSync (ex_api 1) [] (sched ex_plan [] 7);
             run_in MMultiprocessing (ex_api 2) [0] (sched ex_plan [0] 7);
             stream_in MThreading None [] (sched ex_plan [] 7) (Some 1) ] in
  map r_status (results_of sess op result (exec true) (prepare ex_plan (ex_api 0)) h) = [ROk; RRaised; RAbandoned] /\
  snd (exec true (after sess op result (exec true) (prepare ex_plan (ex_api 0)) h)
            (run_in MMultiprocessing None [] (sched ex_plan [] 7)))
    = {| r_status := ROk; r_items := [1]; r_api := ex_api 0 |} /\
  remode [MMultiprocessing; MSync] h = [ run_in MMultiprocessing (ex_api 1) [] (sched ex_plan [] 7);
                                         run_in MSync (ex_api 2) [0] (sched ex_plan [0] 7);
                                         stream_in MThreading None [] (sched ex_plan [] 7) (Some 1) ].
Proof. vm_compute. repeat split; reflexivity. Qed.

(* a non-trivial instance: SYNC run, failing THREADING run, stream abandoned after 1 item, then a run with other api data *)
Example C07_session_example :
  let h := [ ORun (ex_api 1) true [] (sched ex_plan [] 7);
             ORun (ex_api 2) false [0] (sched ex_plan [0] 7);
             OStream None true [] (sched ex_plan [] 7) (Some 1) ] in
  map r_status (results_of sess op result (exec true) (prepare ex_plan (ex_api 0)) h) = [ROk; RRaised; RAbandoned] /\
  snd (exec true (after sess op result (exec true) (prepare ex_plan (ex_api 0)) h) (ORun None false [] (sched ex_plan [] 7)))
    = {| r_status := ROk; r_items := [1]; r_api := ex_api 0 |}.
Proof. vm_compute. split; reflexivity. Qed.

(* ==========================================================================================================
   Part 2 (Model/Args.v): the caller's argument objects.  A world holds the caller's Feature objects (hF) and Options
   objects (hO) by address, the links set object, and the GlobalFilter (filters, collection); plan_call is
   mlodaAPI.prepare (= the planning half of run_all) as a transformer of that world, for the code as it is now: the
   Engine plans on private copies of the links set and of the GlobalFilter (/repo 68bd25e, bacc886).
   Features, filter features and feature groups carry domains; a filter object is (filter_feature.name, .options, type,
   parameter, filter_feature.domain, filter_feature.compute_frameworks).  plan_call = plan_call_v as_implemented; the
   other variants (Engine without the deepcopy of the GlobalFilter / domain() applied to the filter object itself) are
   used by the theorems of the last section only. *)
Require Import MV.Model.Args MV.Proofs.ArgsP.

(* copy_features=True (the default): whatever the call does -- succeed, fail half way, be rejected -- the caller's
   Feature and Options objects are exactly what they were; also over any sequence of such calls. *)
Theorem copy_features_frame : forall u fuel w c, c_copy c = true ->
  hF (fst (plan_call u fuel w c)) = hF w /\ hO (fst (plan_call u fuel w c)) = hO w.
Proof. exact copy_features_frame_l. Qed.
Print Assumptions copy_features_frame.

Theorem copy_features_frame_history : forall u fuel cs w, forallb c_copy cs = true ->
  hF (after world call outcome (plan_call u fuel) w cs) = hF w /\
  hO (after world call outcome (plan_call u fuel) w cs) = hO w.
Proof. exact copy_features_frame_history_l. Qed.
Print Assumptions copy_features_frame_history.

(* The caller's links set and GlobalFilter (filters AND collection) are never written, for every call, whatever
   copy_features is and however the call ends. *)
Theorem links_set_untouched : forall u fuel w c, w_links (fst (plan_call u fuel w c)) = w_links w.
Proof. exact links_set_untouched_l. Qed.
Print Assumptions links_set_untouched.

Theorem filter_object_untouched : forall u fuel w c,
  w_filters (fst (plan_call u fuel w c)) = w_filters w /\ w_coll (fst (plan_call u fuel w c)) = w_coll w.
Proof. exact filter_object_untouched_l. Qed.
Print Assumptions filter_object_untouched.

(* What a call writes into caller-owned objects at all, for both values of copy_features (Inv, f_evolves, o_evolves in
   Proofs/ArgsP.v): only Feature and Options objects; the heaps keep their size; of a Feature, name / domain / options
   reference / uuid / link are never written, initial_requested_data is only raised, compute_frameworks only set when unset, data_type
   only set when unset; of an Options object the context is never written and the group is only extended by the keys
   "ApiInputData" / "strict_type_enforcement"; an object is written only if copy_features=False and it is a requested
   feature, resp. the Options object of a requested feature. *)
Theorem prepare_args_effect : forall u fuel w c,
  Inv (if c_copy c then [] else c_feats c) (hF w, hO w)
      (hF (fst (plan_call u fuel w c)), hO (fst (plan_call u fuel w c))) /\
  w_links (fst (plan_call u fuel w c)) = w_links w /\
  w_filters (fst (plan_call u fuel w c)) = w_filters w /\
  w_coll (fst (plan_call u fuel w c)) = w_coll w.
Proof. exact prepare_args_effect_full_l. Qed.
Print Assumptions prepare_args_effect.

(* What the Engine adds to its PRIVATE copies: every added link is the Link attached to a feature the call stored
   (requested, or created by a group's input_features), every key under which a filter is recorded is (group, name) of a
   stored feature. *)
Theorem call_adds_provenance : forall u fuel w c,
  (forall x, In x (call_ladds u fuel w c) -> exists p, In p (snd (call_products u fuel w c)) /\ pf_link p = Some x) /\
  (forall kx, In kx (fst (call_products u fuel w c)) -> touches (snd (call_products u fuel w c)) (fst kx) = true).
Proof. exact call_adds_provenance_l. Qed.
Print Assumptions call_adds_provenance.

(* a call with the default copy_features leaves the caller's whole world as it was; so does any sequence of them *)
Theorem call_leaves_world : forall u fuel w c, c_copy c = true -> fst (plan_call u fuel w c) = w.
Proof. exact call_leaves_world_l. Qed.
Print Assumptions call_leaves_world.

Theorem history_leaves_world : forall u fuel cs w, forallb c_copy cs = true ->
  after world call outcome (plan_call u fuel) w cs = w.
Proof. exact history_leaves_world_l. Qed.
Print Assumptions history_leaves_world.

(* The reuse half of C07 at full strength, for ALL universes, worlds, histories and calls: after any sequence of
   copy_features=True calls, a call given the same Feature, Options, links, GlobalFilter objects has exactly the outcome
   (and the effect) of the call given the pristine objects. *)
Theorem args_reuse : forall u fuel w0 cs c, forallb c_copy cs = true ->
  plan_call u fuel (after world call outcome (plan_call u fuel) w0 cs) c = plan_call u fuel w0 c.
Proof. exact args_reuse_l. Qed.
Print Assumptions args_reuse.

(* in the shape of Spec/Reuse.v *)
Theorem args_prefix_independent : forall u fuel w0,
  prefix_independent world call outcome (plan_call u fuel) (fun _ pre _ => forallb c_copy pre = true) eq w0.
Proof. exact args_prefix_independent_l. Qed.
Print Assumptions args_prefix_independent.

(* the outcome does not depend on the ORDER of the caller's links set (a Python set), nor on the set at all when
   links=None is passed *)
Theorem links_order_irrelevant : forall u fuel w1 w2 c,
  hF w1 = hF w2 -> hO w1 = hO w2 -> w_filters w1 = w_filters w2 -> w_coll w1 = w_coll w2 ->
  (c_links c = true -> same_links (w_links w1) (w_links w2)) ->
  outcome_sim (snd (plan_call u fuel w1 c)) (snd (plan_call u fuel w2 c)).
Proof. exact links_reuse_partial_l. Qed.
Print Assumptions links_order_irrelevant.

(* The hypothesis copy_features=True of args_reuse is needed: with copy_features=False the written feature changes a later
   call (Options.add conflict); with the default it does not. *)
Theorem feature_reuse_nocopy_refuted :
  let api1 : cols := [("K"%string, ["a"%string; "b"%string])] in
  let api2 : cols := [("K"%string, ["a"%string; "b"%string; "z"%string])] in
  let c1 := cl [1] false false false (Some api1) in let c2 := cl [1] false false false (Some api2) in
  let w1 := fst (plan_call exu 8 (exw []) c1) in
  nth_error (hF w1) 1 = Some {| f_name := "a"; f_opt := 1; f_cfw := Some [0]; f_flag := true; f_dtype := None; f_uuid := 0;
                                f_link := None; f_dom := None |} /\
  nth_error (hO w1) 1 = Some {| og := [("x"%string, VZ 2); (api_key, VCols api1)]; oc := [] |} /\
  snd (plan_call exu 8 w1 c2) = Failed EAddConflict /\ is_accepted (snd (plan_call exu 8 (exw []) c2)) = true /\
  is_accepted (snd (plan_call exu 8 (fst (plan_call exu 8 (exw []) (cl [1] true false false (Some api1))))
                              (cl [1] true false false (Some api2)))) = true.
Proof. exact feature_reuse_nocopy_refuted_l. Qed.
Print Assumptions feature_reuse_nocopy_refuted.

(* the witnesses of the two repaired findings (C07-filter-collection-accumulates, C07-links-set-grows) in the model of
   the repaired code: accepted like with fresh objects, nothing left in the caller's collection / links set, the Engine
   still sees the feature-attached link during the call that carries it *)
Example C07_former_witnesses :
  let run2 w c1 c2 := snd (plan_call exu 8 (fst (plan_call exu 8 w c1)) c2) in
  is_accepted (run2 (exw []) (cl [0] true false true None) (cl [1] true false true None)) = true /\
  is_accepted (run2 (exw []) (cl [2] true false true None) (cl [1; 3] true false true None)) = true /\
  w_coll (fst (plan_call exu 8 (exw []) (cl [2] true false true None))) = [] /\
  w_links (fst (plan_call exu 8 (exw []) (cl [4] true true false None))) = [] /\
  seen_links (snd (plan_call exu 8 (exw []) (cl [4] true true false None))) = [Linner] /\
  seen_links (run2 (exw []) (cl [4] true true false None) (cl [5] true true false None)) = [] /\
  w_links (fst (plan_call exu 8 (exw [Linner]) (cl [6] true true false None))) = [Linner] /\
  is_accepted (run2 (exw [Linner]) (cl [6] true true false None) (cl [5] true true false None)) = true.
Proof. exact former_witnesses_l. Qed.

Example C07_args_example :
  let cs := [cl [2] true false true None; cl [0; 1] true false true None; cl [4] true true false None] in
  let c := cl [5; 2] true true true None in
  after world call outcome (plan_call exu 8) (exw [Linner]) cs = exw [Linner] /\
  is_accepted (snd (plan_call exu 8 (after world call outcome (plan_call exu 8) (exw [Linner]) cs) c)) = true.
Proof. exact args_reuse_example_l. Qed.

(* ==========================================================================================================
   Part 3: the caller's FILTER objects, with domains.  GlobalFilter.domain() and GlobalFilter.compute_framework() assign
   filter_feature.domain / .compute_frameworks of the filter they are given; unify_options writes its options.  As
   implemented they are given a deep copy of a deep copy. *)

(* While a call is planned (identity_matched_filters per processed feature: deepcopy, unify_options, criteria, domain with
   its assignment, compute_framework with its assignment), the Engine's own filter objects are never written: when
   planning ends they are what the caller passed -- whether or not the Engine deep-copied the GlobalFilter. *)
Theorem engine_filters_invariant : forall vr u fuel w c, v_domain_on_copy vr = true ->
  call_engine_filters_v vr u fuel w c = w_filters w.
Proof. exact engine_filters_invariant_l. Qed.
Print Assumptions engine_filters_invariant.

(* frame, per call: as soon as ONE of the two copies is made, every modelled attribute of every filter object of the
   caller (name, options, type, parameter, domain, compute_frameworks) is what it was, however the call ends *)
Theorem filter_objects_frame : forall vr u fuel w c, v_engine_deepcopy vr = true \/ v_domain_on_copy vr = true ->
  w_filters (fst (plan_call_v vr u fuel w c)) = w_filters w.
Proof. exact filter_objects_frame_v_l. Qed.
Print Assumptions filter_objects_frame.

(* frame, per history: any sequence of calls sharing the objects, any copy_features, any domains, any outcomes *)
Theorem filter_objects_frame_history : forall u fuel cs w,
  w_links (after world call outcome (plan_call u fuel) w cs) = w_links w /\
  w_filters (after world call outcome (plan_call u fuel) w cs) = w_filters w /\
  w_coll (after world call outcome (plan_call u fuel) w cs) = w_coll w.
Proof. exact containers_frame_history_l. Qed.
Print Assumptions filter_objects_frame_history.

Theorem filter_objects_frame_history_any_variant : forall vr u fuel,
  v_engine_deepcopy vr = true \/ v_domain_on_copy vr = true ->
  forall cs w, w_filters (after world call outcome (plan_call_v vr u fuel) w cs) = w_filters w.
Proof. exact filter_objects_frame_history_v_l. Qed.
Print Assumptions filter_objects_frame_history_any_variant.

(* the matched filters of a call (every (group, feature name) -> enriched filter copy that _add_filter_feature records)
   read the Feature / Options objects and the filter objects only *)
Theorem matched_filters_read : forall vr u fuel w1 w2 c, hF w1 = hF w2 -> hO w1 = hO w2 -> w_filters w1 = w_filters w2 ->
  call_matched_v vr u fuel w1 c = call_matched_v vr u fuel w2 c.
Proof. exact matched_reads_l. Qed.
Print Assumptions matched_filters_read.

(* hence: after ANY sequence of calls sharing the argument objects, a call's matched-filter set is that of the same call
   given fresh equal arguments (induction over the call list) *)
Theorem matched_filters_reuse : forall u fuel w0 cs c, forallb c_copy cs = true ->
  call_matched u fuel (after world call outcome (plan_call u fuel) w0 cs) c = call_matched u fuel w0 c.
Proof. exact matched_filters_reuse_l. Qed.
Print Assumptions matched_filters_reuse.

(* ... and when copy_features=False calls in between have written the requested features, the FILTERS the call is matched
   against are still the pristine ones *)
Theorem matched_filters_reuse_any_history : forall u fuel w0 cs c,
  call_matched u fuel (after world call outcome (plan_call u fuel) w0 cs) c
  = call_matched u fuel {| hF := hF (after world call outcome (plan_call u fuel) w0 cs);
                           hO := hO (after world call outcome (plan_call u fuel) w0 cs);
                           w_links := w_links w0; w_filters := w_filters w0; w_coll := w_coll w0 |} c.
Proof. exact matched_filters_reuse_any_l. Qed.
Print Assumptions matched_filters_reuse_any_history.

(* The hypothesis of filter_objects_frame is needed.  Variant `regression` (the Engine keeps the caller's SingleFilter
   objects in new containers AND identity_matched_filters applies domain() to the filter object before copying it), two
   calls sharing one GlobalFilter with the domain-less filter v >= 20: [v@sales] writes domain 1 into the caller's filter;
   [v@finance] then matches nothing and plans an unfiltered step, whereas with fresh equal objects it matches the filter.
   As implemented, and with either change alone, the caller's world is untouched and both calls match alike. *)
Theorem domain_on_shared_original_refuted :
  let c1 := cl [0] true false true None in let c2 := cl [1] true false true None in
  let w1 := fst (plan_call_v regression exd 8 (exwd [fv]) c1) in
  w_filters w1 = [mkflt "v" (Some 1) None] /\
  call_matched_v regression exd 8 w1 c2 = [] /\
  call_matched_v regression exd 8 (exwd [fv]) c2 = [((1, "v"%string), mkflt "v" (Some 2) (Some [0]))] /\
  step_filters_of (snd (plan_call_v regression exd 8 w1 c2)) = [(1, [])] /\
  step_filters_of (snd (plan_call_v regression exd 8 (exwd [fv]) c2)) = [(1, [mkflt "v" (Some 2) (Some [0])])] /\
  fst (plan_call exd 8 (exwd [fv]) c1) = exwd [fv] /\
  call_matched exd 8 (fst (plan_call exd 8 (exwd [fv]) c1)) c2 = [((1, "v"%string), mkflt "v" (Some 2) (Some [0]))] /\
  (forall vr, In vr [ {| v_engine_deepcopy := true; v_domain_on_copy := false |};
                      {| v_engine_deepcopy := false; v_domain_on_copy := true |} ] ->
     fst (plan_call_v vr exd 8 (exwd [fv]) c1) = exwd [fv] /\
     call_matched_v vr exd 8 (fst (plan_call_v vr exd 8 (exwd [fv]) c1)) c2
       = [((1, "v"%string), mkflt "v" (Some 2) (Some [0]))]).
Proof. exact domain_on_shared_original_refuted_l. Qed.
Print Assumptions domain_on_shared_original_refuted.

(* non-trivial instance with domains, as implemented: ONE filter object shared by five calls over three domains (v@sales,
   v@finance, w in the default domain, the ambiguous v, both domains at once): world untouched, every step carries the
   filter bound to ITS domain; a domain-less feature of a group with a domain; a filter feature with its own domain; the
   Domain comparison that raises; a filter feature with another compute framework *)
Example C07_domains_example :
  let cs := [cl [0] true false true None; cl [1] true false true None; cl [2] true false true None;
             cl [4] true false true None; cl [0; 1] true false true None] in
  after world call outcome (plan_call exd 8) (exwd [fv]) cs = exwd [fv] /\
  map (fun c => step_filters_of (snd (plan_call exd 8 (exwd [fv]) c))) cs
    = [ [(0, [mkflt "v" (Some 1) (Some [0])])]; [(1, [mkflt "v" (Some 2) (Some [0])])]; [(2, [])]; [];
        [(0, [mkflt "v" (Some 1) (Some [0])]); (1, [mkflt "v" (Some 2) (Some [0])])] ] /\
  snd (plan_call exd 8 (exwd [fv]) (cl [4] true false true None)) = Failed EMulti /\
  call_matched exd 8 (exwd [mkflt "p" None None]) (cl [3] true false true None)
    = [((0, "p"%string), mkflt "p" (Some 1) (Some [0]))] /\
  call_matched exd 8 (exwd [mkflt "v" (Some 1) None]) (cl [0; 1] true false true None)
    = [((0, "v"%string), mkflt "v" (Some 1) (Some [0]))] /\
  snd (plan_call exd 8 (exwd [mkflt "p" (Some 2) None]) (cl [3] true false true None)) = Failed EDomCmp /\
  call_matched exd 8 (exwd [mkflt "v" None (Some [1])]) (cl [0] true false true None) = [].
Proof. exact domains_example_l. Qed.

(* Set iteration order inside one call (call field c_hz; every theorem above quantifies over it, per call): when an equal
   feature is already stored, add_feature_to_collection searches the group's collection -- a set -- with Feature.__eq__, and
   Domain.__eq__ raises when it meets a feature of the same name and options of which exactly one has a domain before it
   meets the equal one.  Instance: t2 = f(x, y), x and y from a group with a domain, requested without domain, a
   domain-less filter on x: the call ends with ValueError "Cannot compare Domain with <class 'NoneType'>" or is planned
   (filter attached to the root step), depending on that order -- alike for shared and for fresh arguments (args_reuse),
   and the caller's objects are untouched either way. *)
Example C07_set_order_hazard :
  snd (plan_call exg 8 exwg (with_hz (cl [0] true false true None) 0)) = Failed EDomCmp /\
  step_filters_of (snd (plan_call exg 8 exwg (with_hz (cl [0] true false true None) 1)))
    = [(1, []); (0, [mkflt "x" (Some 3) (Some [0])])] /\
  fst (plan_call exg 8 exwg (with_hz (cl [0] true false true None) 0)) = exwg.
Proof. exact set_order_hazard_l. Qed.

(* ============================================================================================================
   Round 6: caller-owned Link OBJECTS with class references, polymorphic resolution (Model/ArgsLinks.v on top of the
   matching rule of C18, Model/LinkSel.find_matching).  Names are qualified: Model/Args.v has its own (value) `link`.
   A Link is a heap cell; the Engine's private set (`set(links)`, `links.add(feature.link)`) holds ADDRESSES of the
   caller's cells; the resolver reads them for every ordered pair of distinct parents of every child.  `wb` is what the
   resolver stores back into a matched Link: `wb_none` (the code as it is) or any other read-only write-back.
   ============================================================================================================ *)
Require MV.Model.LinkSel MV.Model.ArgsLinks MV.Proofs.ArgsLinksP.
Module L := MV.Model.ArgsLinks.
Module LP := MV.Proofs.ArgsLinksP.

(* every call leaves every caller-owned Link object unchanged (all hierarchies, stores, calls, set orders) *)
Theorem links_frame : forall mro h c, fst (L.plan_links mro L.wb_none h c) = h.
Proof. intros mro; exact (LP.links_frame_l mro L.wb_none LP.wb_none_read_only). Qed.
Print Assumptions links_frame.

Theorem links_frame_history : forall mro cs h, L.run_calls mro L.wb_none h cs = h.
Proof. intros mro; exact (LP.links_frame_history_l mro L.wb_none LP.wb_none_read_only). Qed.
Print Assumptions links_frame_history.

(* resolution is a read-only function of (values of the links given, requested pairs): the outcome of a call written
   without any store *)
Theorem link_resolution_reads_values : forall mro h c,
  snd (L.plan_links mro L.wb_none h c)
  = L.plan_vals mro (map (L.lget h) (L.lc_set c)) (map (L.lget h) (L.lc_feat c)) (L.lc_pairs c).
Proof. intros mro; exact (LP.plan_links_reads_values_l mro L.wb_none LP.wb_none_read_only). Qed.
Print Assumptions link_resolution_reads_values.

(* after ANY history of calls over ANY concrete pairs, a call with the SAME Link objects has the outcome of the call that
   is given equal-valued Link objects in any other store ... *)
Theorem polymorphic_link_reuse : forall mro h0 pre c h' c',
  map (L.lget h') (L.lc_set c') = map (L.lget h0) (L.lc_set c) ->
  map (L.lget h') (L.lc_feat c') = map (L.lget h0) (L.lc_feat c) ->
  L.lc_pairs c' = L.lc_pairs c ->
  snd (L.plan_links mro L.wb_none (L.run_calls mro L.wb_none h0 pre) c) = snd (L.plan_links mro L.wb_none h' c').
Proof. intros mro; exact (LP.polymorphic_link_reuse_l mro L.wb_none LP.wb_none_read_only). Qed.
Print Assumptions polymorphic_link_reuse.

(* ... in particular of the call whose Link objects are freshly constructed equal ones (allocated behind the current store),
   and it leaves the pristine store *)
Theorem polymorphic_link_reuse_fresh : forall mro h0 pre c,
  let h := L.run_calls mro L.wb_none h0 pre in
  snd (L.plan_links mro L.wb_none h c) = snd (L.plan_links mro L.wb_none (h ++ h0)%list (L.shift_call (List.length h) c))
  /\ fst (L.plan_links mro L.wb_none h c) = h0.
Proof. intros mro; exact (LP.polymorphic_link_reuse_fresh_l mro L.wb_none LP.wb_none_read_only). Qed.
Print Assumptions polymorphic_link_reuse_fresh.

(* the same three statements hold for every read-only write-back, and read-only is necessary: a write-back that changes
   a matched link is visible in the caller's store after one call *)
Theorem links_frame_any_read_only : forall mro wb, LP.read_only wb -> forall h c, fst (L.plan_links mro wb h c) = h.
Proof. exact LP.links_frame_l. Qed.
Print Assumptions links_frame_any_read_only.

Theorem writeback_visible : forall mro (wb : L.writeback) l lf rf,
  MV.Model.LinkSel.validate_rejects [l] = false -> In l (MV.Model.LinkSel.find_matching mro [l] lf rf) -> wb l lf rf <> l ->
  fst (L.plan_links mro wb [l] {| L.lc_set := [0%nat]; L.lc_feat := []; L.lc_pairs := [(lf, rf)] |}) <> [l].
Proof. exact LP.writeback_visible_l. Qed.
Print Assumptions writeback_visible.

(* In-place resolution (seeded/C07_r6: a polymorphically matched link is bound to the concrete classes): BaseA=0, BaseB=1,
   A1=2, B1=3, A2=4, B2=5, ONE Link(BaseA, BaseB) passed to a call over (A1, B1) and then to a call over (A2, B2): the first
   call writes the caller's Link, the second call plans NO join with the re-used object, the join with a pristine one;
   with the read-only resolver the second call matches the caller's (unchanged) link. *)
Theorem inplace_bind_refuted :
  let mro := MV.Model.LinkSel.mro_of LP.demo_hier in
  let c1 := LP.demo_call 2%nat 3%nat in
  let c2 := LP.demo_call 4%nat 5%nat in
  fst (L.plan_links mro L.wb_bind [LP.demo_link] c1) <> [LP.demo_link]
  /\ snd (L.plan_links mro L.wb_bind (L.run_calls mro L.wb_bind [LP.demo_link] [c1]) c2) = L.LPlanned [[]; []]
  /\ snd (L.plan_links mro L.wb_bind [LP.demo_link] c2)
     = L.LPlanned [[{| MV.Model.LinkSel.jt := MV.Model.LinkSel.INNER; MV.Model.LinkSel.lfg := 4%nat; MV.Model.LinkSel.rfg := 5%nat;
                      MV.Model.LinkSel.lidx := ["_idx"%string]; MV.Model.LinkSel.ridx := ["_idx"%string] |}]; []]
  /\ snd (L.plan_links mro L.wb_none (L.run_calls mro L.wb_none [LP.demo_link] [c1]) c2) = L.LPlanned [[LP.demo_link]; []].
Proof. exact LP.inplace_bind_refuted_l. Qed.
Print Assumptions inplace_bind_refuted.
