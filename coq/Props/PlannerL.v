(* PlannerL - the LINK / JOIN part of the planner (Stage B of the planner model; Stage A = Props/PlannerA.v).
   Property theorems only (proofs in Proofs/PlannerL*.v).  Every statement is for ALL inputs of its family - any number of
   roots, any uuids / classes / frameworks, any Link set, any dict / set order and any order oracle `ord` - no size bound.

   Reading guide (Model/PlannerL.v, Model/PlannerLRun.v, Spec/PlannerLSpec.v, Spec/PlannerLJoinSpec.v):
     prepare_L ord g mro links   the modelled prepare(): LPlanned plan | LRejected code plan | LOutside (fragment left)
     lstep                       LFG (FeatureGroupStep) | LJOIN step link.uuid left_fw right_fw left_uuids right_uuids | LTFS
     star_g rs f C cc ps         Engine.feature_link_parents of a STAR request: the requested consumer f (class C, framework cc)
                                 over one feature of each root in rs (uuid, class, framework); rs / ps = dict / set orders
     links_ok, flat_roots        the Links are a set accepted by LinkValidator with fresh uuids; root classes derive from FeatureGroup
     needed_by rs l ri rj        Link l joins the classes of the roots ri (left) and rj (right)
     star_plan / two_plan        the plan, written out (Spec/PlannerLSpec.v)
     same_steps                  equal up to children_if_root / tfs_ids / any_uuid of feature-group steps (run-time lookup data)
     rt_run / join_in_order      run-time execution of JoinSteps (registry, merge pointers) / component-wise rel_join (Spec/Rel.v)

   What the faithful model does NOT satisfy is recorded as `_refuted` theorems with kernel-checked witnesses; the decidable
   domains are Model/PlannerL.v kf_code (evaluated per request by harness/planner_l.classify). *)
From Coq Require Import List Bool Arith Lia Permutation String.
Import ListNotations.
Require Import MV.Model.Orch MV.Model.OrchCheck MV.Model.PlannerA MV.Model.LinkSel MV.Model.PlannerL MV.Model.PlannerLRun.
Require Import MV.Spec.PlannerASpec MV.Spec.PlannerLSpec MV.Spec.PlannerLJoinSpec.
Require MV.Spec.Rel.
Require Import MV.Proofs.PlannerLBase MV.Proofs.PlannerLCor MV.Proofs.PlannerLRunP MV.Proofs.PlannerLWitness.
Open Scope nat_scope.
Open Scope list_scope.

(* ---- (a) conservative extension: without Links prepare_L IS prepare_A (same decision, same steps), for every graph ---- *)
Theorem PlannerL_no_links_is_PlannerA : forall ord g mro, ord_ok ord ->
  agrees_with_A g (prepare_A ord g) (plan_of ord g) (prepare_L ord g mro []).
Proof. exact no_links_is_PlannerA. Qed.
Print Assumptions PlannerL_no_links_is_PlannerA.

(* ---- (b) two roots on TWO frameworks, one Link from the class of ra to the class of rb, consumer on one of the two
   frameworks.  Every join type, both consumer sides (Hcc), both Link orientations (name the Link's left root ra), every order:
   APPEND / UNION are refused; otherwise the plan is EXACTLY two_plan: the two root steps, one TransformFrameworkStep, ONE
   JoinStep waiting for both roots and the transform, the consumer waiting for both roots and the join.
   WHICH TABLE IS LEFT (Spec two_plan, two_left_cfw): the root living on the framework the consumer ends up on - that is the
   consumer's own framework for INNER / LEFT / OUTER and the framework of the Link's RIGHT class for RIGHT - whatever the
   Link's orientation says. ---- *)
Theorem PlannerL_two_root_plan : forall ord mro l ra rb rs f C cc ps,
  ord_ok ord -> Permutation [ra; rb] rs -> star_ok rs f C ps -> links_ok [l] (f :: map sr_id rs) -> flat_roots mro rs ->
  lfg (pl_l l) = sr_grp ra -> rfg (pl_l l) = sr_grp rb -> sr_cfw ra <> sr_cfw rb -> (cc = sr_cfw ra \/ cc = sr_cfw rb) ->
  prepare_L ord (star_g rs f C cc ps) mro [l] =
    if is_set_jt (jt (pl_l l)) then LRejected e_appendunion []
    else LPlanned (number_L 0 (two_plan ord (star_g rs f C cc ps) l ra rb ps f C cc)).
Proof. exact two_root_plan. Qed.
Print Assumptions PlannerL_two_root_plan.

(* the accepted plan is well formed (so it terminates: C04_terminates_sync / C04_no_deadlock) *)
Theorem PlannerL_two_root_plan_wf : forall ord l ra rb rs f C cc ps,
  ord_ok ord -> Permutation [ra; rb] rs -> star_ok rs f C ps -> links_ok [l] (f :: map sr_id rs) ->
  lfg (pl_l l) = sr_grp ra -> rfg (pl_l l) = sr_grp rb -> sr_cfw ra <> sr_cfw rb -> (cc = sr_cfw ra \/ cc = sr_cfw rb) ->
  exists order, wf_plan order (map core (number_L 0 (two_plan ord (star_g rs f C cc ps) l ra rb ps f C cc))) = true.
Proof. exact two_root_plan_wf. Qed.
Print Assumptions PlannerL_two_root_plan_wf.

(* deterministic over oracles: the plan depends on `ord` only through the order inside the consumer's required set *)
Theorem PlannerL_two_root_deterministic : forall ord ord' g l ra rb ps f C cc, ord_ok ord -> ord_ok ord' ->
  Forall2 step_equiv (map core (two_plan ord g l ra rb ps f C cc)) (map core (two_plan ord' g l ra rb ps f C cc)).
Proof. exact two_plan_oracle. Qed.
Print Assumptions PlannerL_two_root_deterministic.

(* FULL STATEMENT that does not hold: "the LEFT table of the JoinStep is the table of the Link's left class".
   Known finding C05-left-join-roles-flipped-for-right-consumer: Link LEFT(R0, R1), consumer on R1's framework: the JoinStep
   merges R1 (LEFT) with R0 (RIGHT) under join type LEFT, and the result differs from R0 LEFT JOIN R1 *)
Theorem PlannerL_left_table_refuted :
  left_of_join (prepare_L ord_id (g2x 2) mro_flat [mkl 100 LEFT 1 2]) = [(LEFT, [2], [0])] /\
  left_of_join (prepare_L ord_id (g2x 1) mro_flat [mkl 100 LEFT 1 2]) = [(LEFT, [0], [2])] /\
  MV.Spec.Rel.bag_eqb (MV.Spec.Rel.rel_join MV.Spec.Rel.JLeft ["k"%string] ["k"%string] Tb Ta)
                      (MV.Spec.Rel.rel_join MV.Spec.Rel.JLeft ["k"%string] ["k"%string] Ta Tb) = false.
Proof. exact w_left_flipped. Qed.
Print Assumptions PlannerL_left_table_refuted.

(* Known finding C05-right-join-not-honoured: Link RIGHT(R0, R1) across two frameworks: R1 is LEFT and R0 RIGHT under join
   type RIGHT (all rows of R0 are kept, not all rows of R1), on whichever side the consumer lives; on ONE framework the
   request is refused ('Right joins are not supported ...') *)
Theorem PlannerL_right_link_refuted :
  left_of_join (prepare_L ord_id (g2x 1) mro_flat [mkl 100 RIGHT 1 2]) = [(LEFT, [2], [0])] /\
  left_of_join (prepare_L ord_id (g2x 2) mro_flat [mkl 100 RIGHT 1 2]) = [(LEFT, [2], [0])] /\
  MV.Spec.Rel.bag_eqb (MV.Spec.Rel.rel_join MV.Spec.Rel.JRight ["k"%string] ["k"%string] Tb Ta)
                      (MV.Spec.Rel.rel_join MV.Spec.Rel.JRight ["k"%string] ["k"%string] Ta Tb) = false.
Proof. exact w_right_not_honoured. Qed.
Print Assumptions PlannerL_right_link_refuted.
Example PlannerL_right_single_framework_rejected : prepare_L ord_id g2s mro_flat [mkl 100 RIGHT 1 2] = LRejected e_right [].
Proof. exact w_right_single_rejected. Qed.

(* ---- (c) n roots on ONE framework, any set of Links between root classes (chains, stars, trees, cycles, unused Links), one
   consumer over all roots.  There is a list KSl - the NEEDED Links (both classes are root classes) in the order the link
   trekker found them - such that: if some needed Link is RIGHT / APPEND / UNION the request is refused with the code of the
   FIRST such Link in trekker order; otherwise the request is planned, the plan is star_plan (root steps, ONE JoinStep per
   needed Link: LEFT = the root of the Link's left class, RIGHT = the root of its right class, waiting for all roots; the
   consumer waiting for all roots and all needed Links) up to the run-time lookup data, and it is well formed.
   n = 2 with one Link is the one-framework case of (b): both orientations, the LEFT table is the Link's left class. ---- *)
Theorem PlannerL_star_plan : forall ord mro links rs f C cc ps,
  ord_ok ord -> star_ok rs f C ps -> links_ok links (f :: map sr_id rs) -> flat_roots mro rs ->
  (forall r, In r rs -> sr_cfw r = cc) -> links <> [] ->
  exists KSl : list plink,
    NoDup KSl /\ (forall l, In l KSl <-> In l links /\ exists ri rj, needed_by rs l ri rj) /\
    match find (fun l => negb (plain_jt (jt (pl_l l)))) KSl with
    | Some l => prepare_L ord (star_g rs f C cc ps) mro links = LRejected (reject_code (jt (pl_l l))) []
    | None => exists p, prepare_L ord (star_g rs f C cc ps) mro links = LPlanned p /\
                        Forall2 same_steps (number_L 0 (star_plan ord (star_g rs f C cc ps) rs ps f C cc KSl)) p /\
                        exists order, wf_plan order (map core p) = true
    end.
Proof. exact star_plan_theorem. Qed.
Print Assumptions PlannerL_star_plan.

(* same_steps keeps the orchestrator's view (Orch.step) and every JoinStep *)
Theorem PlannerL_same_steps_cores : forall a b, Forall2 same_steps a b -> map core a = map core b.
Proof. exact same_steps_cores. Qed.
Print Assumptions PlannerL_same_steps_cores.
Theorem PlannerL_same_steps_join : forall a b x s uid lf rf lus rus,
  Forall2 same_steps a b -> x = LJOIN s uid lf rf lus rus -> (In x a <-> In x b).
Proof. exact same_steps_join. Qed.
Print Assumptions PlannerL_same_steps_join.

(* deterministic over oracles up to the order of the JoinSteps and of the lists inside the steps (two trekker orders of the
   needed Links are permutations of each other: both are duplicate-free lists with the same members) *)
Theorem PlannerL_star_plan_deterministic : forall ord ord' g rs ps f C cc KS KS', ord_ok ord -> ord_ok ord' -> Permutation KS KS' ->
  plan_equiv (number 0 (map core (star_plan ord g rs ps f C cc KS))) (number 0 (map core (star_plan ord' g rs ps f C cc KS'))).
Proof. exact star_plan_equiv. Qed.
Print Assumptions PlannerL_star_plan_deterministic.

(* FULL STATEMENT that does not hold: "each join requires the joins below it".  On one framework NO JoinStep waits for
   another one (they all wait for the roots only) ... *)
Theorem PlannerL_star_joins_unordered : forall ord g rs ps f C cc KS x y,
  In x (map (star_join_step rs ps cc) KS) -> In y (star_plan ord g rs ps f C cc KS) ->
  (forall u, In u ps -> forall l, In l KS -> u <> pl_uid l /\ u <> js_uid (pl_uid l)) ->
  match y with LJOIN s _ _ _ _ _ => forall u, In u (uuids s) -> ~ In u (req (core x)) | _ => True end.
Proof. exact star_joins_unordered. Qed.
Print Assumptions PlannerL_star_joins_unordered.
(* ... the order in which they appear in the plan (= the order SYNC runs them in) follows Python set iteration, and for mixed
   join types the rows the consumer receives depend on it: R0 LEFT R1, R1 INNER R2 gives (R0 left R1) inner R2 under one
   oracle and R0 left (R1 inner R2) under the other, with different rows (known classes C04-nondet-*, C06 unordered joins) *)
Theorem PlannerL_join_order_refuted :
  join_uids (prepare_L ord_id g3 mro_flat links3) = [100; 104] /\
  join_uids (prepare_L ord_rev g3 mro_flat links3) = [104; 100] /\
  exists t t', consumer_table ord_id links3 s03 (prepare_L ord_id g3 mro_flat links3) = Some t /\
               consumer_table ord_rev links3 s03 (prepare_L ord_rev g3 mro_flat links3) = Some t' /\
               MV.Spec.Rel.bag_eqb t t' = false.
Proof. split; [exact (proj1 w_join_order)|]. split; [exact (proj2 w_join_order) | exact w_rows_differ]. Qed.
Print Assumptions PlannerL_join_order_refuted.
(* the consumer's run-time lookup ids differ between oracles (C04-nondet-fg-lookup-ids) *)
Theorem PlannerL_lookup_ids_refuted :
  lookup_ids (prepare_L ord_id g3 mro_flat links3) = [([7], [2], 2)] /\
  lookup_ids (prepare_L ord_rev g3 mro_flat links3) = [([7], [0], 0)].
Proof. exact w_lookup_ids. Qed.
Print Assumptions PlannerL_lookup_ids_refuted.
(* the rejection reason depends on the order (C04-nondet-rejection-reason) *)
Theorem PlannerL_reject_reason_refuted :
  prepare_L ord_id g3 mro_flat links3b = LRejected e_right [] /\ prepare_L ord_rev g3 mro_flat links3b = LRejected e_appendunion [].
Proof. exact w_reject_reason. Qed.
Print Assumptions PlannerL_reject_reason_refuted.
(* across frameworks "the set of JoinSteps = the set of needed Links" fails: a postponed Link is dropped under one order and
   kept under another (observed on the real planner; C04-nondet-accept-vs-reject / step-composition) *)
Theorem PlannerL_join_dropped_refuted :
  graph_okb w8_g_a = true /\ graph_okb w8_g_b = true /\
  set_eqb (queue_links (stages_L (ord_obs w8_tab_a) w8_g_a mro_flat w8_links)) [400; 404; 408] = true /\
  set_eqb (queue_links (stages_L (ord_obs w8_tab_b) w8_g_b mro_flat w8_links)) [400; 408] = true /\
  outcome_L (prepare_L (ord_obs w8_tab_a) w8_g_a mro_flat w8_links) = 0.
Proof. exact w_join_dropped. Qed.
Print Assumptions PlannerL_join_dropped_refuted.

(* outside the star family: two ordinary consumer shapes that prepare() refuses on one framework with INNER(R0, R1):
   f2 <- f1, f1b (both over both roots): KeyError in reduce_children_to_one_level;
   D1 = {g0 <- v0, f1 <- g0, v1}: the steps wait for each other in a cycle *)
Theorem PlannerL_consumer_shapes_refused :
  (graph_okb g_diamond = true /\ prepare_L ord_id g_diamond mro_flat lk2 = LRejected e_keyerror [] /\
   prepare_L ord_rev g_diamond mro_flat lk2 = LRejected e_keyerror []) /\
  (graph_okb g_inter = true /\ outcome_L (prepare_L ord_id g_inter mro_flat lk2) = e_cycle /\
   outcome_L (prepare_L ord_rev g_inter mro_flat lk2) = e_cycle).
Proof. split; [exact w_diamond_keyerror | exact w_intermediate_cycle]. Qed.
Print Assumptions PlannerL_consumer_shapes_refused.

(* ---- (d) the planned join tree and Spec/Rel.v: for EVERY registry of compute-framework objects, every list of JoinSteps whose
   lookups succeed and that merges different components (a forest) and every table assignment: executing the JoinSteps in plan
   order (registry lookup by children_if_root, merge pointers, cfw.data = merge(...)) leaves in the object that any member x of
   a component leads to exactly the component's table of join_in_order - rel_join folded along the order the plan lists the
   joins in, LEFT operand = the component of the JoinStep's left uuid.  With C12 (the engines implement rel_join) this is
   C05's end-to-end oracle. ---- *)
Theorem PlannerL_rt_run_spec : forall objs joins s0 sjs cs,
  NoDup (map fst s0) -> resolve_all objs joins = Some sjs -> join_in_order s0 sjs = Some cs ->
  exists h s, rt_run objs joins s0 = Some (h, s) /\
    forall x c, In c cs -> In x (fst c) -> st_get (rt_leftmost h x) s = Some (snd c) /\ comp_table cs x = Some (snd c).
Proof. exact rt_run_spec. Qed.
Print Assumptions PlannerL_rt_run_spec.

(* the merge-pointer side of (d): CfwManager.find_leftmost as the code has it (a dict cfw_merge_relation and a while loop; fuel =
   the number of merges) returns exactly what replaying the merge history returns (rt_leftmost, used by rt_run), on every
   history in which each merge joins two objects that are leftmost at that moment - and rt_run only produces such histories *)
Theorem PlannerL_find_leftmost_replay : forall h, roots_hist h ->
  forall x, mfollow (List.length h) (mrel_of h) x = rt_leftmost h x /\ mroot (mrel_of h) (rt_leftmost h x).
Proof. exact mfollow_replay. Qed.
Print Assumptions PlannerL_find_leftmost_replay.
Theorem PlannerL_rt_run_roots_hist : forall objs joins s0 h s, rt_run objs joins s0 = Some (h, s) -> roots_hist h.
Proof. exact rt_run_roots_hist. Qed.
Print Assumptions PlannerL_rt_run_roots_hist.

(* ---- the oracles the harness evaluates the model under are order oracles ---- *)
Theorem PlannerL_ord_obs_ok : forall t, ord_ok (ord_obs t).
Proof. exact ord_obs_ok. Qed.
Print Assumptions PlannerL_ord_obs_ok.

(* ---- Examples: the hypotheses are satisfiable; a non-trivial instance ---- *)
Example PlannerL_ex_star_hyps :
  star_ok rs3 7 4 [0; 2; 4] /\ links_ok links3 (7 :: map sr_id rs3) /\ flat_roots mro_flat rs3 /\ (forall r, In r rs3 -> sr_cfw r = 1).
Proof. exact ex_star_hyps. Qed.
(* the plan of the three-root chain: 3 root steps, 2 JoinSteps (LEFT = the Link's left root), the consumer *)
Example PlannerL_ex_star_plan :
  match prepare_L ord_id g3 mro_flat links3 with
  | LPlanned p => map (fun x => match x with LJOIN _ u _ _ l r => (u, l, r) | _ => (0, [], []) end) (filter is_join_step p)
  | _ => []
  end = [(100, [0], [2]); (104, [2], [4])].
Proof. exact ex_star_plan. Qed.
Example PlannerL_ex_two_hyps :
  Permutation [ra2; rb2] [ra2; rb2] /\ star_ok [ra2; rb2] 7 4 [0; 2] /\ links_ok [mkl 100 LEFT 1 2] (7 :: map sr_id [ra2; rb2]) /\
  flat_roots mro_flat [ra2; rb2] /\ sr_cfw ra2 <> sr_cfw rb2.
Proof. exact ex_two_hyps. Qed.
(* (d) on the three-root chain R0 LEFT R1, R1 INNER R2 under ord_id: the run-time lookups of the two JoinSteps resolve to the
   objects of the Links' left / right roots, and what the consumer computes on is the table of the single component
   {R0, R1, R2} of join_in_order = (R0 left R1) inner R2 *)
Example PlannerL_ex_rt_chain :
  let p := plan_of_res (prepare_L ord_id g3 mro_flat links3) in
  resolve_all (objs_of_plan p) (joins_of_plan ord_id links3 p) =
    Some [ {| sj_jt := LEFT; sj_lk := ["k"%string]; sj_rk := ["k"%string]; sj_a := 0; sj_b := 2 |};
           {| sj_jt := INNER; sj_lk := ["k"%string]; sj_rk := ["k"%string]; sj_a := 2; sj_b := 4 |} ] /\
  (exists cs, join_in_order s03 [ {| sj_jt := LEFT; sj_lk := ["k"%string]; sj_rk := ["k"%string]; sj_a := 0; sj_b := 2 |};
                                  {| sj_jt := INNER; sj_lk := ["k"%string]; sj_rk := ["k"%string]; sj_a := 2; sj_b := 4 |} ] = Some cs /\
              comp_table cs 0 = consumer_table ord_id links3 s03 (prepare_L ord_id g3 mro_flat links3) /\
              map fst cs = [[0; 2; 4]]).
Proof. exact ex_rt_chain. Qed.
