(* C03 — the result contains exactly the requested features' columns.
   Property theorems only (proofs in Proofs/NamingP.v, Proofs/CollectionP.v).  Every statement is for ALL strings,
   all column sets, all request lists and all iteration orders of the Python sets involved (lists here).

   FULL STATEMENT (refuted on the faithful model in three places, see the *_refuted theorems):
     for every request list req, processing order produced by the engine, step partition and step columns:
       forall s c, In c (returned table of step s) <-> In c (cols s) /\ exists requested r in step s, owner (fname r) c;
       a request name~x yields only columns owned by name~x;
       with "alphabetical" the list is sorted; with "request_order" it follows req.
   PROVED: the same outside the decidable domains
     kf_flag_lost  (a requested feature arrives when an equal, unflagged filter/index feature is already stored),
     kf_subcolumn  (a sub-column request whose base name is in feature_names_supported()),
     kf_overlap    (two requested names own the same column; only matters for request_order),
   and, for request_order, relative to the iteration order [iter] of the set the names travel in. *)
From Coq Require Import List Bool String Ascii Arith Permutation Sorting.Sorted.
Import ListNotations.
Require Import MV.Model.Naming MV.Model.Collection MV.Spec.Columns MV.Proofs.NamingP MV.Proofs.CollectionP.
Open Scope string_scope.
Open Scope list_scope.

(* ---------- selection (identify_naming_convention) ---------- *)
Theorem C03_select_spec : forall cols req c,
  In c (select cols req) <-> In c cols /\ exists f, In f req /\ (c = f \/ exists s, c = (f ++ "~" ++ s)%string).
Proof. exact select_expanded_l. Qed.
Print Assumptions C03_select_spec.

(* whatever the ordering mode, the returned columns are exactly the wanted ones *)
Theorem C03_identify_elements : forall iter cols o, o <> OInvalid ->
  forall c, In c (elements (identify iter cols o)) <-> wanted cols iter c.
Proof. exact identify_elements_l. Qed.
Print Assumptions C03_identify_elements.

Theorem C03_identify_error : forall iter cols o, identify iter cols o = RErr <-> o = OInvalid \/ select cols iter = [].
Proof. exact identify_err_l. Qed.
Print Assumptions C03_identify_error.

(* the iteration order of the column set never shows in an ordered result *)
Theorem C03_column_set_order_irrelevant : forall iter cols cols' o, Permutation cols cols' ->
  match identify iter cols o, identify iter cols' o with
  | RErr, RErr => True
  | RSet a, RSet b => Permutation a b
  | RList a, RList b => a = b
  | _, _ => False
  end.
Proof. exact identify_cols_perm_l. Qed.
Print Assumptions C03_column_set_order_irrelevant.

(* ---------- alphabetical ---------- *)
Theorem C03_alpha_sorted : forall sel, alphabetical (order_alpha sel) /\ Permutation (order_alpha sel) sel.
Proof. exact alpha_sorted_l. Qed.
Print Assumptions C03_alpha_sorted.

Theorem C03_alpha_result : forall iter cols out, identify iter cols OAlpha = RList out ->
  alphabetical out /\ Permutation out (select cols iter).
Proof. exact identify_alpha_l. Qed.
Print Assumptions C03_alpha_result.

Theorem C03_alpha_order_independent : forall sel sel', Permutation sel sel' -> order_alpha sel = order_alpha sel'.
Proof. exact alpha_order_independent_l. Qed.
Print Assumptions C03_alpha_order_independent.

(* ---------- request order ---------- *)
(* FULL: forall req iter cols, Permutation iter req -> follows_request cols req (result computed with iter).
   PROVED: the result follows the list the names are iterated in ... *)
Theorem C03_request_order_follows_input_list : forall iter cols out, NoDup cols ->
  identify iter cols ORequest = RList out -> follows_request cols iter out.
Proof. exact identify_request_follows_l. Qed.
Print Assumptions C03_request_order_follows_input_list.

(* ... which determines the result uniquely ... *)
Theorem C03_follows_request_unique : forall cols req out out',
  follows_request cols req out -> follows_request cols req out' -> out = out'.
Proof. exact follows_request_unique. Qed.
Print Assumptions C03_follows_request_unique.

(* ... but the names travel as a set: an iteration order other than the request list breaks "follows the request" *)
Theorem C03_request_order_refuted : exists req iter cols,
  Permutation iter req /\ NoDup req /\ NoDup cols /\
  ~ follows_request cols req (elements (identify iter cols ORequest)).
Proof. exact request_order_refuted_l. Qed.
Print Assumptions C03_request_order_refuted.

Theorem C03_request_order_nodup_partial : forall iter cols, NoDup cols -> NoDup iter -> kf_overlap iter cols = false ->
  NoDup (order_request iter (select cols iter)).
Proof. exact request_order_nodup_l. Qed.
Print Assumptions C03_request_order_nodup_partial.

Theorem C03_request_order_dup_refuted : exists iter cols,
  NoDup iter /\ NoDup cols /\ kf_overlap iter cols = true /\ ~ NoDup (elements (identify iter cols ORequest)).
Proof. exact request_order_dup_refuted_l. Qed.
Print Assumptions C03_request_order_dup_refuted.

(* ---------- sub-column requests (get_column_base_feature / set_feature_name) ---------- *)
Theorem C03_base_feature : forall s,
  no_tilde (base_feature s) /\ (s = base_feature s \/ exists r, s = (base_feature s ++ "~" ++ r)%string).
Proof. exact base_feature_spec_l. Qed.
Print Assumptions C03_base_feature.

Theorem C03_base_of_subcolumn : forall f x, no_tilde f -> base_feature (f ++ "~" ++ x) = f.
Proof. exact base_feature_sub. Qed.
Print Assumptions C03_base_of_subcolumn.

(* FULL: forall sup n cols c, In c (select cols [set_feature_name sup n]) <-> In c cols /\ owner n c. *)
Theorem C03_subcolumn_partial : forall sup n, kf_subcolumn sup n = false ->
  forall cols c, In c (select cols [set_feature_name sup n]) <-> In c cols /\ owner n c.
Proof. exact subcolumn_only_partial_l. Qed.
Print Assumptions C03_subcolumn_partial.

Theorem C03_subcolumn_refuted : exists sup n cols c,
  kf_subcolumn sup n = true /\ In c (select cols [set_feature_name sup n]) /\ ~ owner n c.
Proof. exact subcolumn_refuted_l. Qed.
Print Assumptions C03_subcolumn_refuted.

(* ---------- the collection (add_feature_to_collection) and the flag ---------- *)
(* a feature is stored iff it is the first of its equality class in the order of the calls *)
Theorem C03_collect_first : forall order g,
  In g (collect order) <-> exists l1 l2, order = l1 ++ g :: l2 /\ (forall h, In h l1 -> feq g h = false).
Proof. exact collect_first_l. Qed.
Print Assumptions C03_collect_first.

(* the calls the modelled engine makes are such a fold *)
Theorem C03_process_is_fold : forall fuel e req,
  fst (process_request fuel e req) = collect (map fst (snd (process_request fuel e req))).
Proof. exact process_request_is_fold_l. Qed.
Print Assumptions C03_process_is_fold.

(* FULL: without the hypothesis on kf_flag_lost *)
Theorem C03_flag_preserved_partial : forall order r, kf_flag_lost order = false -> In r order -> fflag r = true ->
  exists g, In g (collect order) /\ feq g r = true /\ fflag g = true.
Proof. exact flag_preserved_partial_l. Qed.
Print Assumptions C03_flag_preserved_partial.

(* request [a; b] with a global filter on b: trace a, b(filter), b(requested), b(filter); b is not returned *)
Theorem C03_flag_lost_refuted :
  map fst (snd (process_request 3 wit_env_filter ["a"; "b"])) = wit_order /\
  (forall r, In r wit_req -> fflag r = true /\ In r wit_order) /\
  (forall g, In g wit_order -> fflag g = true -> In g wit_req) /\
  (forall r r', In r wit_req -> In r' wit_req -> feq r r' = true -> r = r') /\
  kf_flag_lost wit_order = true /\
  exists s c, In c ["a"; "b"] /\ (exists r, In r wit_req /\ 0 = s /\ owner (fname r) c) /\
              ~ In c (step_table (fun _ => ["a"; "b"]) (fun _ => 0) (collect wit_order) s).
Proof. split; [exact wit_order_is_trace | exact flag_lost_refuted_l]. Qed.
Print Assumptions C03_flag_lost_refuted.

(* the same request in the other order returns b; the same happens with an index column when a link is present *)
Theorem C03_request_list_order_dependence_refuted :
  step_table (fun _ => ["a"; "b"]) (fun _ => 0) (fst (process_request 3 wit_env_filter ["a"; "b"])) 0 = ["a"] /\
  step_table (fun _ => ["a"; "b"]) (fun _ => 0) (fst (process_request 3 wit_env_filter ["b"; "a"])) 0 = ["a"; "b"] /\
  kf_flag_lost (map fst (snd (process_request 3 wit_env_filter ["b"; "a"]))) = false /\
  step_table (fun _ => ["k"; "a"]) (fun _ => 0) (fst (process_request 3 wit_env_index ["a"; "k"])) 0 = ["a"] /\
  kf_flag_lost (map fst (snd (process_request 3 wit_env_index ["a"; "k"]))) = true /\
  step_table (fun _ => ["k"; "a"]) (fun _ => 0) (fst (process_request 3 wit_env_index ["k"; "a"])) 0 = ["k"; "a"].
Proof. exact flag_lost_order_dependence_l. Qed.
Print Assumptions C03_request_list_order_dependence_refuted.

(* ---------- exactly the requested columns ---------- *)
(* order : the engine's calls; req : the requested features (flagged, pairwise different); step : the step (FeatureSet)
   a stored feature belongs to; cols s : the columns the step's compute framework holds when the result is taken *)
Theorem C03_exact_partial : forall order req : list feature,
  (forall r, In r req -> fflag r = true /\ In r order) ->
  (forall g, In g order -> fflag g = true -> In g req) ->
  (forall r r', In r req -> In r' req -> feq r r' = true -> r = r') ->
  kf_flag_lost order = false ->
  forall (step : feature -> nat) (cols : nat -> list string) s c,
    In c (step_table cols step (collect order) s) <->
    In c (cols s) /\ exists r, In r req /\ step r = s /\ owner (fname r) c.
Proof. exact exact_partial_l. Qed.
Print Assumptions C03_exact_partial.

(* a requested name is asked for in exactly one step's table *)
Theorem C03_one_table_partial : forall order req : list feature,
  (forall r, In r req -> fflag r = true /\ In r order) ->
  (forall g, In g order -> fflag g = true -> In g req) ->
  (forall r r', In r req -> In r' req -> feq r r' = true -> r = r') ->
  kf_flag_lost order = false ->
  forall step : feature -> nat,
  (forall r r', In r req -> In r' req -> fname r = fname r' -> r = r') ->
  forall r, In r req -> forall s, In (fname r) (requested_names (step_features step (collect order) s)) <-> s = step r.
Proof. exact one_table_l. Qed.
Print Assumptions C03_one_table_partial.

(* the tables do not depend on the order of the request list / of the engine's calls *)
Theorem C03_order_independent_partial : forall order1 req1 order2 req2 step cols,
  (forall r, In r req1 -> fflag r = true /\ In r order1) -> (forall g, In g order1 -> fflag g = true -> In g req1) ->
  (forall r r', In r req1 -> In r' req1 -> feq r r' = true -> r = r') -> kf_flag_lost order1 = false ->
  (forall r, In r req2 -> fflag r = true /\ In r order2) -> (forall g, In g order2 -> fflag g = true -> In g req2) ->
  (forall r r', In r req2 -> In r' req2 -> feq r r' = true -> r = r') -> kf_flag_lost order2 = false ->
  (forall r, In r req1 <-> In r req2) ->
  forall s c, In c (step_table cols step (collect order1) s) <-> In c (step_table cols step (collect order2) s).
Proof. exact order_independent_l. Qed.
Print Assumptions C03_order_independent_partial.

(* ---------- non-vacuity ---------- *)
(* root group 0: a, b, m~0, m~1 (index k, link to group 2); group 1: p with input a; filter on b;
   request [b; p; m~1]: nothing lost, three calls flagged, dependency a and the aux features unflagged *)
Definition ex_env : genv :=
  {| group_of := fun n => if String.eqb n "p" then 1 else 0;
     supported := fun g => if Nat.eqb g 1 then ["p"] else [];
     inputs := fun g _ => if Nat.eqb g 1 then ["a"] else [];
     dep_key := fun _ => 1; aux_key := fun _ => 0;
     filters_for := fun g => if Nat.eqb g 0 then Some ["b"] else Some [];
     index_cols := fun g => if Nat.eqb g 0 then [["k"]] else [];
     links := Some [{| lgrp := 0; lidx := ["k"]; rgrp := 2; ridx := ["k2"] |}] |}.
Definition ex_cols : list string := ["k"; "a"; "b"; "m~0"; "m~1"].
Example C03_examples :
  let st := process_request 4 ex_env ["b"; "p"; "m~1"] in
  let order := map fst (snd st) in
  kf_flag_lost order = false /\
  List.length order = 10 /\
  step_table (fun s => if Nat.eqb s 0 then ex_cols else ["a"; "p"]) fgrp (fst st) 0 = ["b"; "m~1"] /\
  step_table (fun s => if Nat.eqb s 0 then ex_cols else ["a"; "p"]) fgrp (fst st) 1 = ["p"] /\
  identify ["m"; "b"] ex_cols ORequest = RList ["m~0"; "m~1"; "b"] /\
  identify ["m"; "b"] ex_cols OAlpha = RList ["b"; "m~0"; "m~1"] /\
  identify ["zz"] ex_cols ONone = RErr /\
  kf_overlap ["m"; "b"] ex_cols = false /\
  set_feature_name ["p"] "p~1" = "p" /\ set_feature_name [] "m~1" = "m~1" /\ base_feature "m~1~x" = "m".
Proof. vm_compute. repeat split. Qed.
