(* C03 — the result contains exactly the requested features' columns.
   Property theorems only (proofs in Proofs/NamingP.v, Proofs/CollectionP.v).  Every statement is for ALL strings,
   all column sets, all request lists and all iteration orders of the Python sets involved (lists here).
   The models describe /repo after the fix commits 069fedf (the request flag survives de-duplication) and 990998a
   (request_order returns no column twice); the corresponding statements are now proved without any guard.

   FULL STATEMENT:
     for every request list req, order of the engine's add calls, step partition and step columns:
       forall s c, In c (returned table of step s) <-> In c (cols s) /\ exists requested r in step s, owner (fname r) c;
       a request name~x yields only columns owned by name~x;
       with "alphabetical" the list is sorted; with "request_order" it follows req, each column once.
   PROVED in full: the first line (C03_exact, C03_one_table, C03_order_independent), alphabetical, no duplicates.
   Still refuted on the faithful model in two places (open known findings):
     kf_subcolumn  (a sub-column request whose base name is in feature_names_supported()),
     request_order relative to the request list: the result follows the iteration order [iter] of the SET the names
     travel in, not the request list. *)
From Coq Require Import List Bool String Ascii Arith Permutation Sorting.Sorted.
Import ListNotations.
Require Import MV.Model.Naming MV.Model.Collection MV.Spec.Columns MV.Proofs.NamingP MV.Proofs.CollectionP.
Open Scope string_scope.
Open Scope list_scope.

(* ---------- selection (identify_naming_convention) ---------- *)
Theorem C03_select_spec : forall cols req c,
  In c (select cols req) <-> In c cols /\ exists f, In f req /\ (c = f \/ exists s, c = (f ++ "~" ++ s)%string).
Proof. exact select_expanded_l. Qed.
Print Assumptions C03_select_spec.

(* whatever the ordering mode, the returned columns are exactly the wanted ones *)
Theorem C03_identify_elements : forall iter cols o, o <> OInvalid ->
  forall c, In c (elements (identify iter cols o)) <-> wanted cols iter c.
Proof. exact identify_elements_l. Qed.
Print Assumptions C03_identify_elements.

Theorem C03_identify_error : forall iter cols o, identify iter cols o = RErr <-> o = OInvalid \/ select cols iter = [].
Proof. exact identify_err_l. Qed.
Print Assumptions C03_identify_error.

(* the iteration order of the column set never shows in an ordered result *)
Theorem C03_column_set_order_irrelevant : forall iter cols cols' o, Permutation cols cols' ->
  match identify iter cols o, identify iter cols' o with
  | RErr, RErr => True
  | RSet a, RSet b => Permutation a b
  | RList a, RList b => a = b
  | _, _ => False
  end.
Proof. exact identify_cols_perm_l. Qed.
Print Assumptions C03_column_set_order_irrelevant.

(* ---------- alphabetical ---------- *)
Theorem C03_alpha_sorted : forall sel, alphabetical (order_alpha sel) /\ Permutation (order_alpha sel) sel.
Proof. exact alpha_sorted_l. Qed.
Print Assumptions C03_alpha_sorted.

Theorem C03_alpha_result : forall iter cols out, identify iter cols OAlpha = RList out ->
  alphabetical out /\ Permutation out (select cols iter).
Proof. exact identify_alpha_l. Qed.
Print Assumptions C03_alpha_result.

Theorem C03_alpha_order_independent : forall sel sel', Permutation sel sel' -> order_alpha sel = order_alpha sel'.
Proof. exact alpha_order_independent_l. Qed.
Print Assumptions C03_alpha_order_independent.

(* ---------- request order ---------- *)
(* FULL: forall req iter cols, Permutation iter req -> follows_request cols req (result computed with iter).
   PROVED: the result follows the list the names are iterated in ... *)
Theorem C03_request_order_follows_input_list : forall iter cols out, NoDup cols ->
  identify iter cols ORequest = RList out -> follows_request cols iter out.
Proof. exact identify_request_follows_l. Qed.
Print Assumptions C03_request_order_follows_input_list.

(* ... which determines the result uniquely ... *)
Theorem C03_follows_request_unique : forall cols req out out',
  follows_request cols req out -> follows_request cols req out' -> out = out'.
Proof. exact follows_request_unique. Qed.
Print Assumptions C03_follows_request_unique.

(* ... but the names travel as a set: an iteration order other than the request list breaks "follows the request" *)
Theorem C03_request_order_refuted : exists req iter cols,
  Permutation iter req /\ NoDup req /\ NoDup cols /\
  ~ follows_request cols req (elements (identify iter cols ORequest)).
Proof. exact request_order_refuted_l. Qed.
Print Assumptions C03_request_order_refuted.

(* no column is returned twice, for all inputs (was refuted before 990998a) *)
Theorem C03_request_order_nodup : forall iter sel, NoDup (order_request iter sel).
Proof. exact request_order_nodup_l. Qed.
Print Assumptions C03_request_order_nodup.

(* ---------- sub-column requests (get_column_base_feature /\
 set_feature_name) ---------- *)
Theorem C03_base_feature : forall s,
  no_tilde (base_feature s) /\ (s = base_feature s \/ exists r, s = (base_feature s ++ "~" ++ r)%string).
Proof. exact base_feature_spec_l. Qed.
Print Assumptions C03_base_feature.

Theorem C03_base_of_subcolumn : forall f x, no_tilde f -> base_feature (f ++ "~" ++ x) = f.
Proof. exact base_feature_sub. Qed.
Print Assumptions C03_base_of_subcolumn.

(* FULL: forall sup n cols c, In c (select cols [set_feature_name sup n]) <-> In c cols /\ owner n c. *)
Theorem C03_subcolumn_partial : forall sup n, kf_subcolumn sup n = false ->
  forall cols c, In c (select cols [set_feature_name sup n]) <-> In c cols /\ owner n c.
Proof. exact subcolumn_only_partial_l. Qed.
Print Assumptions C03_subcolumn_partial.

Theorem C03_subcolumn_refuted : exists sup n cols c,
  kf_subcolumn sup n = true /\ In c (select cols [set_feature_name sup n]) /\ ~ owner n c.
Proof. exact subcolumn_refuted_l. Qed.
Print Assumptions C03_subcolumn_refuted.

(* ---------- the collection (add_feature_to_collection) and the flag ---------- *)
(* complete description of the collection after any sequence of calls: one feature per equality class that occurs, flagged
   iff some call of that class was flagged (a feature is determined by group, name, key and flag) *)
Theorem C03_collect_spec : forall order g,
  In g (collect order) <-> (exists r, In r order /\ feq r g = true) /\ fflag g = any_flagged_eq order g.
Proof. exact collect_spec_l. Qed.
Print Assumptions C03_collect_spec.

Theorem C03_collect_distinct : forall order a b, In a (collect order) -> In b (collect order) -> feq a b = true -> a = b.
Proof. exact collect_distinct_l. Qed.
Print Assumptions C03_collect_distinct.

(* the calls the modelled engine makes are such a fold *)
Theorem C03_process_is_fold : forall fuel e req,
  fst (process_request fuel e req) = collect (map fst (snd (process_request fuel e req))).
Proof. exact process_request_is_fold_l. Qed.
Print Assumptions C03_process_is_fold.

(* the requested flag is preserved for every insertion order (was refuted before 069fedf) *)
Theorem C03_flag_preserved : forall order r, In r order -> fflag r = true ->
  exists g, In g (collect order) /\ feq g r = true /\ fflag g = true.
Proof. exact flag_preserved_l. Qed.
Print Assumptions C03_flag_preserved.

(* the former witnesses: [a; b] with a global filter on b, [a; k] with a link on index column k, both request orders *)
Theorem C03_flag_kept_examples :
  map fst (snd (process_request 3 wit_env_filter ["a"; "b"])) = [mkf "a" true; mkf "b" false; mkf "b" true; mkf "b" false] /\
  fst (process_request 3 wit_env_filter ["a"; "b"]) = [mkf "a" true; mkf "b" true] /\
  step_table (fun _ => ["a"; "b"]) (fun _ => 0) (fst (process_request 3 wit_env_filter ["a"; "b"])) 0 = ["a"; "b"] /\
  step_table (fun _ => ["a"; "b"]) (fun _ => 0) (fst (process_request 3 wit_env_filter ["b"; "a"])) 0 = ["a"; "b"] /\
  step_table (fun _ => ["k"; "a"]) (fun _ => 0) (fst (process_request 3 wit_env_index ["a"; "k"])) 0 = ["k"; "a"] /\
  step_table (fun _ => ["k"; "a"]) (fun _ => 0) (fst (process_request 3 wit_env_index ["k"; "a"])) 0 = ["k"; "a"].
Proof. exact flag_kept_examples_l. Qed.
Print Assumptions C03_flag_kept_examples.

(* ---------- exactly the requested columns ---------- *)
(* order : the engine's add calls, in any order; req : the requested features (exactly the flagged calls);
   step : the step (FeatureSet) a feature belongs to, a function of what feature equality compares;
   cols s : the columns the step's compute framework holds when the result is taken *)
Theorem C03_exact : forall order req : list feature,
  (forall r, In r req -> fflag r = true /\ In r order) ->
  (forall g, In g order -> fflag g = true -> In g req) ->
  forall (step : feature -> nat) (cols : nat -> list string),
  (forall a b, feq a b = true -> step a = step b) ->
  forall s c,
    In c (step_table cols step (collect order) s) <->
    In c (cols s) /\ exists r, In r req /\ step r = s /\ owner (fname r) c.
Proof. exact exact_l. Qed.
Print Assumptions C03_exact.

(* a requested name is asked for in exactly one step's table *)
Theorem C03_one_table : forall order req : list feature,
  (forall r, In r req -> fflag r = true /\ In r order) ->
  (forall g, In g order -> fflag g = true -> In g req) ->
  forall (step : feature -> nat), (forall a b, feq a b = true -> step a = step b) ->
  (forall r r', In r req -> In r' req -> fname r = fname r' -> step r = step r') ->
  forall r, In r req -> forall s, In (fname r) (requested_names (step_features step (collect order) s)) <-> s = step r.
Proof. exact one_table_l. Qed.
Print Assumptions C03_one_table.

(* the tables do not depend on the order of the request list /\
 of the engine's calls *)
Theorem C03_order_independent : forall order1 req1 order2 req2 step cols,
  (forall r, In r req1 -> fflag r = true /\ In r order1) -> (forall g, In g order1 -> fflag g = true -> In g req1) ->
  (forall r, In r req2 -> fflag r = true /\ In r order2) -> (forall g, In g order2 -> fflag g = true -> In g req2) ->
  (forall a b, feq a b = true -> step a = step b) ->
  (forall r, In r req1 <-> In r req2) ->
  forall s c, In c (step_table cols step (collect order1) s) <-> In c (step_table cols step (collect order2) s).
Proof. exact order_independent_l. Qed.
Print Assumptions C03_order_independent.

(* ---------- execution modes (Model/Modes.v) ----------
   SYNC /\
 THREADING select from the object's own data; MULTIPROCESSING selects, in the parent, from the table a worker
   process uploaded to the Flight store (seen_cols).  held s /\
 transferred s: the columns held where the step ran /\
 of the
   downloaded table.  Hypothesis: the transfer keeps the column SET (it may reorder) -- observed on every MULTIPROCESSING run
   (uploads recorded in the worker processes vs the columns the parent's selection saw). *)
Require Import MV.Model.Modes.

Theorem C03_exact_any_mode : forall (order req : list feature),
  (forall r, In r req -> fflag r = true /\ In r order) ->
  (forall g, In g order -> fflag g = true -> In g req) ->
  forall (step : feature -> nat) (held transferred : nat -> list string),
  (forall a b, feq a b = true -> step a = step b) ->
  (forall s, Permutation (transferred s) (held s)) ->
  forall m s c,
    In c (step_table_in m held transferred step (collect order) s) <->
    In c (held s) /\ exists r, In r req /\ step r = s /\ owner (fname r) c.
Proof. exact exact_any_mode_l. Qed.
Print Assumptions C03_exact_any_mode.

(* what a step returns does not depend on the mode: the same set (ordering None), the very same list ('alphabetical',
   'request_order' for the iteration order `iter` of the requested names), or the same error *)
Theorem C03_result_mode_independent : forall m m' iter held transferred o s,
  Permutation (transferred s) (held s) ->
  match identify iter (seen_cols m held transferred s) o, identify iter (seen_cols m' held transferred s) o with
  | RErr, RErr => True
  | RSet a, RSet b => Permutation a b
  | RList a, RList b => a = b
  | _, _ => False
  end.
Proof. exact result_mode_independent_l. Qed.
Print Assumptions C03_result_mode_independent.

Theorem C03_step_table_mode_independent : forall m m' held transferred step coll s,
  Permutation (transferred s) (held s) ->
  Permutation (step_table_in m held transferred step coll s) (step_table_in m' held transferred step coll s).
Proof. exact step_table_mode_independent_l. Qed.
Print Assumptions C03_step_table_mode_independent.

(* ---------- non-vacuity ---------- *)
(* root group 0: a, b, m~0, m~1 (index k, link to group 2); group 1: p with input a; filter on b;
   request [b; p; m~1]: three calls flagged, dependency a and the aux features unflagged *)
Definition ex_env : genv :=
  {| group_of := fun n => if String.eqb n "p" then 1 else 0;
     supported := fun g => if Nat.eqb g 1 then ["p"] else [];
     inputs := fun g _ => if Nat.eqb g 1 then ["a"] else [];
     dep_key := fun _ => 1; aux_key := fun _ => 0;
     filters_for := fun g => if Nat.eqb g 0 then Some ["b"] else Some [];
     index_cols := fun g => if Nat.eqb g 0 then [["k"]] else [];
     links := Some [{| lgrp := 0; lidx := ["k"]; rgrp := 2; ridx := ["k2"] |}] |}.
Definition ex_cols : list string := ["k"; "a"; "b"; "m~0"; "m~1"].
Example C03_examples :
  let st := process_request 4 ex_env ["b"; "p"; "m~1"] in
  let order := map fst (snd st) in
  List.length order = 10 /\
  step_table (fun s => if Nat.eqb s 0 then ex_cols else ["a"; "p"]) fgrp (fst st) 0 = ["b"; "m~1"] /\
  step_table (fun s => if Nat.eqb s 0 then ex_cols else ["a"; "p"]) fgrp (fst st) 1 = ["p"] /\
  identify ["m"; "b"] ex_cols ORequest = RList ["m~0"; "m~1"; "b"] /\
  identify ["m"; "b"] ex_cols OAlpha = RList ["b"; "m~0"; "m~1"] /\
  identify ["zz"] ex_cols ONone = RErr /\
  identify ["m"; "m~1"] ex_cols ORequest = RList ["m~0"; "m~1"] /\
  set_feature_name ["p"] "p~1" = "p" /\ set_feature_name [] "m~1" = "m~1" /\ base_feature "m~1~x" = "m".
Proof. vm_compute. repeat split. Qed.

(* MULTIPROCESSING: the downloaded table lists the columns in another order than the worker's object held them *)
Example C03_mode_example :
  let st := process_request 4 ex_env ["b"; "p"; "m~1"] in
  let held := fun s : nat => if Nat.eqb s 0 then ex_cols else ["a"; "p"] in
  let transferred := fun s : nat => if Nat.eqb s 0 then rev ex_cols else ["p"; "a"] in
  step_table_in MSync held transferred fgrp (fst st) 0 = ["b"; "m~1"] /\
  step_table_in MMultiprocessing held transferred fgrp (fst st) 0 = ["m~1"; "b"] /\
  identify ["m"; "b"] (seen_cols MMultiprocessing held transferred 0) ORequest = RList ["m~0"; "m~1"; "b"] /\
  identify ["m"; "b"] (seen_cols MThreading held transferred 0) ORequest = RList ["m~0"; "m~1"; "b"].
Proof. vm_compute. repeat split. Qed.

(* ---------- from the planner's steps to the returned tables (Model/StepTables.v) ----------
   C03_exact /\
 C03_one_table above take the step of a feature as a FUNCTION.  The planner computes a RELATION: the features of
   a feature group are split by group_features_by_compute_framework_and_options (Model/Grouping.v group_items: by (group
   options, frameworks, declared type); a feature without declared type joins the first typed group with its options), every
   split becomes a FeatureGroupStep, and every step that holds a requested feature contributes ONE table selected for
   FeatureSet.get_initial_requested_features().  The statements below: that relation is the graph of a function -- for every
   mix of declared /\
 undeclared types, every number of (options, frameworks) classes and EVERY iteration order of the feature
   set (the list its /\
 the oracle ord), although WHICH typed group an untyped feature joins depends on that order (known
   finding C15-untyped-joins-first-typed-group).
     its             the features of one feature group (it_id = uuid, it_kb = class of (group options, frameworks), it_ty =
                     declared type), in the iteration order of the Python set
     group_steps     the member uuids of the steps, in the order of the dict the grouping returns
     group_tables rq the requested members (rq = initial_requested_data) of every step that has one = the returned tables
     occurrences u   how often u occurs over all tables;  step_of: position of the first list holding u *)
Require Import MV.Model.Orch MV.Model.Grouping MV.Model.PlannerA MV.Model.PlannerO MV.Model.StepTables.
Require Import MV.Spec.PlannerASpec MV.Proofs.StepTablesP.

(* every feature instance of the group is a member of exactly one step: it occurs once, and the steps holding it are
   exactly the one named by step_of *)
Theorem C03_requested_feature_in_exactly_one_step : forall its, NoDup (map it_id its) ->
  forall u, In u (map it_id its) ->
  occurrences u (group_steps its) = 1 /\
  (forall k, In u (nth k (group_steps its) []) <-> k = step_of (group_steps its) u).
Proof. exact one_step_l. Qed.
Print Assumptions C03_requested_feature_in_exactly_one_step.

(* hence every REQUESTED instance is returned in exactly one table, once *)
Theorem C03_requested_feature_in_exactly_one_table : forall rq its, NoDup (map it_id its) ->
  forall u, In u (map it_id its) -> rq u = true ->
  occurrences u (group_tables rq its) = 1 /\
  (forall k, In u (nth k (group_tables rq its) []) <-> k = step_of (group_tables rq its) u).
Proof. exact one_table_l. Qed.
Print Assumptions C03_requested_feature_in_exactly_one_table.

(* and nothing else is returned: the tables together hold exactly the requested instances; no table is empty; every table is
   the requested part of one step *)
Theorem C03_tables_are_exactly_the_requested : forall rq its,
  Permutation (List.concat (group_tables rq its)) (filter rq (map it_id its)) /\
  (forall u, In u (List.concat (group_tables rq its)) <-> In u (map it_id its) /\ rq u = true) /\
  (forall t, In t (group_tables rq its) -> t <> [] /\ exists s, In s (group_steps its) /\ t = requested_of rq s).
Proof. exact tables_exact_l. Qed.
Print Assumptions C03_tables_are_exactly_the_requested.

(* the set order may move an untyped feature to another table, never to two tables or to none *)
Theorem C03_table_count_order_independent : forall rq its its', Permutation its its' -> NoDup (map it_id its) ->
  forall u, occurrences u (group_tables rq its) = occurrences u (group_tables rq its').
Proof. exact occurrences_order_independent_l. Qed.
Print Assumptions C03_table_count_order_independent.

(* the same for a WHOLE plan of the O-fragment (Model/PlannerO.v plan_O: any number of feature groups and dependency levels,
   options, declared types, every order oracle): every feature instance of the graph is produced by exactly one step; a
   requested one is returned in exactly one table, once; an unrequested one (dependency) in none *)
Theorem C03_plan_requested_feature_in_exactly_one_table : forall ord g, ord_ok ord -> graph_ok (base g) ->
  forall u, In u (ids (base g)) ->
  occurrences u (plan_steps ord g) = 1 /\
  (isreq (base g) u = true ->
     occurrences u (plan_tables ord g) = 1 /\
     (forall k, In u (nth k (plan_tables ord g) []) <-> k = step_of (plan_tables ord g) u)) /\
  (isreq (base g) u = false -> occurrences u (plan_tables ord g) = 0).
Proof. exact plan_one_table_l. Qed.
Print Assumptions C03_plan_requested_feature_in_exactly_one_table.

Theorem C03_plan_tables_are_exactly_the_requested : forall ord g, ord_ok ord -> graph_ok (base g) ->
  Permutation (List.concat (plan_tables ord g)) (filter (isreq (base g)) (ids (base g))) /\
  (forall t, In t (plan_tables ord g) -> t <> [] /\ exists s, In s (plan_O ord g) /\ t = requested_of (isreq (base g)) (uuids s)).
Proof. exact plan_tables_exact_l. Qed.
Print Assumptions C03_plan_tables_are_exactly_the_requested.

(* NOT a property of every grouping: the second pass without its `break` (an untyped feature is added to EVERY typed group with
   its options, Model/StepTables.v group_items_every) is not a partition.  Request [INT32 a; INT64 b; "c"], all requested:
   the code returns [a, c] / [b] (or [b, c] / [a] in the other set order); the variant returns [a, c] / [b, c] -- c twice *)
Theorem C03_untyped_in_every_typed_group_refuted :
  NoDup (map it_id wit_items) /\
  group_steps wit_items = [[0; 2]; [1]] /\ group_steps (rev wit_items) = [[1; 2]; [0]] /\
  map (map it_id) (group_items_every wit_items) = [[0; 2]; [1; 2]] /\
  ~ Permutation (List.concat (group_items_every wit_items)) wit_items /\
  group_tables (fun _ => true) wit_items = [[0; 2]; [1]] /\
  group_tables_every (fun _ => true) wit_items = [[0; 2]; [1; 2]] /\
  occurrences 2 (group_tables (fun _ => true) wit_items) = 1 /\
  occurrences 2 (group_tables (fun _ => true) (rev wit_items)) = 1 /\
  occurrences 2 (group_tables_every (fun _ => true) wit_items) = 2.
Proof. exact every_refuted_l. Qed.
Print Assumptions C03_untyped_in_every_typed_group_refuted.

(* ... and it differs from the code ONLY inside the ambiguity domain of C15 (some untyped feature is compatible with typed
   features of two different types; Spec/GroupingSpec.v kf_ambiguous): everywhere else the `break` is a no-op.  So requests
   with >= 2 declared types next to an untyped feature in one group are exactly where this part of the model is exercised *)
Require Import MV.Spec.GroupingSpec.
Theorem C03_variant_differs_only_in_ambiguity_domain : forall its,
  kf_ambiguous its = false -> group_items_every its = group_items its.
Proof. exact every_same_outside_l. Qed.
Print Assumptions C03_variant_differs_only_in_ambiguity_domain.

(* non-vacuity: two (options, frameworks) classes, three declared types, untyped features with and without a compatible typed
   group, a dependency (4) that is not requested *)
Example C03_step_tables_example :
  let its := [ {| it_id := 0; it_kb := 0; it_ty := Some 0 |}; {| it_id := 1; it_kb := 0; it_ty := None |};
               {| it_id := 2; it_kb := 0; it_ty := Some 1 |}; {| it_id := 3; it_kb := 1; it_ty := None |};
               {| it_id := 4; it_kb := 0; it_ty := None |}; {| it_id := 5; it_kb := 1; it_ty := None |};
               {| it_id := 6; it_kb := 0; it_ty := Some 1 |} ] in
  let rq := fun u => negb (Nat.eqb u 4) in
  group_steps its = [[0; 1; 4]; [2; 6]; [3; 5]] /\ group_tables rq its = [[0; 1]; [2; 6]; [3; 5]] /\
  group_steps (rev its) = [[6; 2; 4; 1]; [0]; [5; 3]] /\
  step_of (group_tables rq its) 1 = 0 /\ step_of (group_tables rq (rev its)) 1 = 0 /\ occurrences 4 (group_tables rq its) = 0.
Proof. vm_compute. repeat split. Qed.
