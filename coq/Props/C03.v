(* C03 — the result contains exactly the requested features' columns.
   Property theorems only (proofs in Proofs/NamingP.v, Proofs/CollectionP.v).  Every statement is for ALL strings,
   all column sets, all request lists and all iteration orders of the Python sets involved (lists here).
   The models describe /repo after the fix commits 069fedf (the request flag survives de-duplication) and 990998a
   (request_order returns no column twice); the corresponding statements are now proved without any guard.

   FULL STATEMENT:
     for every request list req, order of the engine's add calls, step partition and step columns:
       forall s c, In c (returned table of step s) <-> In c (cols s) /\ exists requested r in step s, owner (fname r) c;
       a request name~x yields only columns owned by name~x;
       with "alphabetical" the list is sorted; with "request_order" it follows req, each column once.
   PROVED in full: the first line (C03_exact, C03_one_table, C03_order_independent), alphabetical, no duplicates.
   Still refuted on the faithful model in two places (open known findings):
     kf_subcolumn  (a sub-column request whose base name is in feature_names_supported()),
     request_order relative to the request list: the result follows the iteration order [iter] of the SET the names
     travel in, not the request list. *)
From Coq Require Import List Bool String Ascii Arith Permutation Sorting.Sorted.
Import ListNotations.
Require Import MV.Model.Naming MV.Model.Collection MV.Spec.Columns MV.Proofs.NamingP MV.Proofs.CollectionP.
Open Scope string_scope.
Open Scope list_scope.

(* ---------- selection (identify_naming_convention) ---------- *)
Theorem C03_select_spec : forall cols req c,
  In c (select cols req) <-> In c cols /\ exists f, In f req /\ (c = f \/ exists s, c = (f ++ "~" ++ s)%string).
Proof. exact select_expanded_l. Qed.
Print Assumptions C03_select_spec.

(* whatever the ordering mode, the returned columns are exactly the wanted ones *)
Theorem C03_identify_elements : forall iter cols o, o <> OInvalid ->
  forall c, In c (elements (identify iter cols o)) <-> wanted cols iter c.
Proof. exact identify_elements_l. Qed.
Print Assumptions C03_identify_elements.

Theorem C03_identify_error : forall iter cols o, identify iter cols o = RErr <-> o = OInvalid \/ select cols iter = [].
Proof. exact identify_err_l. Qed.
Print Assumptions C03_identify_error.

(* the iteration order of the column set never shows in an ordered result *)
Theorem C03_column_set_order_irrelevant : forall iter cols cols' o, Permutation cols cols' ->
  match identify iter cols o, identify iter cols' o with
  | RErr, RErr => True
  | RSet a, RSet b => Permutation a b
  | RList a, RList b => a = b
  | _, _ => False
  end.
Proof. exact identify_cols_perm_l. Qed.
Print Assumptions C03_column_set_order_irrelevant.

(* ---------- alphabetical ---------- *)
Theorem C03_alpha_sorted : forall sel, alphabetical (order_alpha sel) /\ Permutation (order_alpha sel) sel.
Proof. exact alpha_sorted_l. Qed.
Print Assumptions C03_alpha_sorted.

Theorem C03_alpha_result : forall iter cols out, identify iter cols OAlpha = RList out ->
  alphabetical out /\ Permutation out (select cols iter).
Proof. exact identify_alpha_l. Qed.
Print Assumptions C03_alpha_result.

Theorem C03_alpha_order_independent : forall sel sel', Permutation sel sel' -> order_alpha sel = order_alpha sel'.
Proof. exact alpha_order_independent_l. Qed.
Print Assumptions C03_alpha_order_independent.

(* ---------- request order ---------- *)
(* FULL: forall req iter cols, Permutation iter req -> follows_request cols req (result computed with iter).
   PROVED: the result follows the list the names are iterated in ... *)
Theorem C03_request_order_follows_input_list : forall iter cols out, NoDup cols ->
  identify iter cols ORequest = RList out -> follows_request cols iter out.
Proof. exact identify_request_follows_l. Qed.
Print Assumptions C03_request_order_follows_input_list.

(* ... which determines the result uniquely ... *)
Theorem C03_follows_request_unique : forall cols req out out',
  follows_request cols req out -> follows_request cols req out' -> out = out'.
Proof. exact follows_request_unique. Qed.
Print Assumptions C03_follows_request_unique.

(* ... but the names travel as a set: an iteration order other than the request list breaks "follows the request" *)
Theorem C03_request_order_refuted : exists req iter cols,
  Permutation iter req /\ NoDup req /\ NoDup cols /\
  ~ follows_request cols req (elements (identify iter cols ORequest)).
Proof. exact request_order_refuted_l. Qed.
Print Assumptions C03_request_order_refuted.

(* no column is returned twice, for all inputs (was refuted before 990998a) *)
Theorem C03_request_order_nodup : forall iter sel, NoDup (order_request iter sel).
Proof. exact request_order_nodup_l. Qed.
Print Assumptions C03_request_order_nodup.

(* ---------- sub-column requests (get_column_base_feature / set_feature_name) ---------- *)
Theorem C03_base_feature : forall s,
  no_tilde (base_feature s) /\ (s = base_feature s \/ exists r, s = (base_feature s ++ "~" ++ r)%string).
Proof. exact base_feature_spec_l. Qed.
Print Assumptions C03_base_feature.

Theorem C03_base_of_subcolumn : forall f x, no_tilde f -> base_feature (f ++ "~" ++ x) = f.
Proof. exact base_feature_sub. Qed.
Print Assumptions C03_base_of_subcolumn.

(* FULL: forall sup n cols c, In c (select cols [set_feature_name sup n]) <-> In c cols /\ owner n c. *)
Theorem C03_subcolumn_partial : forall sup n, kf_subcolumn sup n = false ->
  forall cols c, In c (select cols [set_feature_name sup n]) <-> In c cols /\ owner n c.
Proof. exact subcolumn_only_partial_l. Qed.
Print Assumptions C03_subcolumn_partial.

Theorem C03_subcolumn_refuted : exists sup n cols c,
  kf_subcolumn sup n = true /\ In c (select cols [set_feature_name sup n]) /\ ~ owner n c.
Proof. exact subcolumn_refuted_l. Qed.
Print Assumptions C03_subcolumn_refuted.

(* ---------- the collection (add_feature_to_collection) and the flag ---------- *)
(* complete description of the collection after any sequence of calls: one feature per equality class that occurs, flagged
   iff some call of that class was flagged (a feature is determined by group, name, key and flag) *)
Theorem C03_collect_spec : forall order g,
  In g (collect order) <-> (exists r, In r order /\ feq r g = true) /\ fflag g = any_flagged_eq order g.
Proof. exact collect_spec_l. Qed.
Print Assumptions C03_collect_spec.

Theorem C03_collect_distinct : forall order a b, In a (collect order) -> In b (collect order) -> feq a b = true -> a = b.
Proof. exact collect_distinct_l. Qed.
Print Assumptions C03_collect_distinct.

(* the calls the modelled engine makes are such a fold *)
Theorem C03_process_is_fold : forall fuel e req,
  fst (process_request fuel e req) = collect (map fst (snd (process_request fuel e req))).
Proof. exact process_request_is_fold_l. Qed.
Print Assumptions C03_process_is_fold.

(* the requested flag is preserved for every insertion order (was refuted before 069fedf) *)
Theorem C03_flag_preserved : forall order r, In r order -> fflag r = true ->
  exists g, In g (collect order) /\ feq g r = true /\ fflag g = true.
Proof. exact flag_preserved_l. Qed.
Print Assumptions C03_flag_preserved.

(* the former witnesses: [a; b] with a global filter on b, [a; k] with a link on index column k, both request orders *)
Theorem C03_flag_kept_examples :
  map fst (snd (process_request 3 wit_env_filter ["a"; "b"])) = [mkf "a" true; mkf "b" false; mkf "b" true; mkf "b" false] /\
  fst (process_request 3 wit_env_filter ["a"; "b"]) = [mkf "a" true; mkf "b" true] /\
  step_table (fun _ => ["a"; "b"]) (fun _ => 0) (fst (process_request 3 wit_env_filter ["a"; "b"])) 0 = ["a"; "b"] /\
  step_table (fun _ => ["a"; "b"]) (fun _ => 0) (fst (process_request 3 wit_env_filter ["b"; "a"])) 0 = ["a"; "b"] /\
  step_table (fun _ => ["k"; "a"]) (fun _ => 0) (fst (process_request 3 wit_env_index ["a"; "k"])) 0 = ["k"; "a"] /\
  step_table (fun _ => ["k"; "a"]) (fun _ => 0) (fst (process_request 3 wit_env_index ["k"; "a"])) 0 = ["k"; "a"].
Proof. exact flag_kept_examples_l. Qed.
Print Assumptions C03_flag_kept_examples.

(* ---------- exactly the requested columns ---------- *)
(* order : the engine's add calls, in any order; req : the requested features (exactly the flagged calls);
   step : the step (FeatureSet) a feature belongs to, a function of what feature equality compares;
   cols s : the columns the step's compute framework holds when the result is taken *)
Theorem C03_exact : forall order req : list feature,
  (forall r, In r req -> fflag r = true /\ In r order) ->
  (forall g, In g order -> fflag g = true -> In g req) ->
  forall (step : feature -> nat) (cols : nat -> list string),
  (forall a b, feq a b = true -> step a = step b) ->
  forall s c,
    In c (step_table cols step (collect order) s) <->
    In c (cols s) /\ exists r, In r req /\ step r = s /\ owner (fname r) c.
Proof. exact exact_l. Qed.
Print Assumptions C03_exact.

(* a requested name is asked for in exactly one step's table *)
Theorem C03_one_table : forall order req : list feature,
  (forall r, In r req -> fflag r = true /\ In r order) ->
  (forall g, In g order -> fflag g = true -> In g req) ->
  forall (step : feature -> nat), (forall a b, feq a b = true -> step a = step b) ->
  (forall r r', In r req -> In r' req -> fname r = fname r' -> step r = step r') ->
  forall r, In r req -> forall s, In (fname r) (requested_names (step_features step (collect order) s)) <-> s = step r.
Proof. exact one_table_l. Qed.
Print Assumptions C03_one_table.

(* the tables do not depend on the order of the request list / of the engine's calls *)
Theorem C03_order_independent : forall order1 req1 order2 req2 step cols,
  (forall r, In r req1 -> fflag r = true /\ In r order1) -> (forall g, In g order1 -> fflag g = true -> In g req1) ->
  (forall r, In r req2 -> fflag r = true /\ In r order2) -> (forall g, In g order2 -> fflag g = true -> In g req2) ->
  (forall a b, feq a b = true -> step a = step b) ->
  (forall r, In r req1 <-> In r req2) ->
  forall s c, In c (step_table cols step (collect order1) s) <-> In c (step_table cols step (collect order2) s).
Proof. exact order_independent_l. Qed.
Print Assumptions C03_order_independent.

(* ---------- execution modes (Model/Modes.v) ----------
   SYNC / THREADING select from the object's own data; MULTIPROCESSING selects, in the parent, from the table a worker
   process uploaded to the Flight store (seen_cols).  held s / transferred s: the columns held where the step ran / of the
   downloaded table.  Hypothesis: the transfer keeps the column SET (it may reorder) -- observed on every MULTIPROCESSING run
   (uploads recorded in the worker processes vs the columns the parent's selection saw). *)
Require Import MV.Model.Modes.

Theorem C03_exact_any_mode : forall (order req : list feature),
  (forall r, In r req -> fflag r = true /\ In r order) ->
  (forall g, In g order -> fflag g = true -> In g req) ->
  forall (step : feature -> nat) (held transferred : nat -> list string),
  (forall a b, feq a b = true -> step a = step b) ->
  (forall s, Permutation (transferred s) (held s)) ->
  forall m s c,
    In c (step_table_in m held transferred step (collect order) s) <->
    In c (held s) /\ exists r, In r req /\ step r = s /\ owner (fname r) c.
Proof. exact exact_any_mode_l. Qed.
Print Assumptions C03_exact_any_mode.

(* what a step returns does not depend on the mode: the same set (ordering None), the very same list ('alphabetical',
   'request_order' for the iteration order `iter` of the requested names), or the same error *)
Theorem C03_result_mode_independent : forall m m' iter held transferred o s,
  Permutation (transferred s) (held s) ->
  match identify iter (seen_cols m held transferred s) o, identify iter (seen_cols m' held transferred s) o with
  | RErr, RErr => True
  | RSet a, RSet b => Permutation a b
  | RList a, RList b => a = b
  | _, _ => False
  end.
Proof. exact result_mode_independent_l. Qed.
Print Assumptions C03_result_mode_independent.

Theorem C03_step_table_mode_independent : forall m m' held transferred step coll s,
  Permutation (transferred s) (held s) ->
  Permutation (step_table_in m held transferred step coll s) (step_table_in m' held transferred step coll s).
Proof. exact step_table_mode_independent_l. Qed.
Print Assumptions C03_step_table_mode_independent.

(* ---------- non-vacuity ---------- *)
(* root group 0: a, b, m~0, m~1 (index k, link to group 2); group 1: p with input a; filter on b;
   request [b; p; m~1]: three calls flagged, dependency a and the aux features unflagged *)
Definition ex_env : genv :=
  {| group_of := fun n => if String.eqb n "p" then 1 else 0;
     supported := fun g => if Nat.eqb g 1 then ["p"] else [];
     inputs := fun g _ => if Nat.eqb g 1 then ["a"] else [];
     dep_key := fun _ => 1; aux_key := fun _ => 0;
     filters_for := fun g => if Nat.eqb g 0 then Some ["b"] else Some [];
     index_cols := fun g => if Nat.eqb g 0 then [["k"]] else [];
     links := Some [{| lgrp := 0; lidx := ["k"]; rgrp := 2; ridx := ["k2"] |}] |}.
Definition ex_cols : list string := ["k"; "a"; "b"; "m~0"; "m~1"].
Example C03_examples :
  let st := process_request 4 ex_env ["b"; "p"; "m~1"] in
  let order := map fst (snd st) in
  List.length order = 10 /\
  step_table (fun s => if Nat.eqb s 0 then ex_cols else ["a"; "p"]) fgrp (fst st) 0 = ["b"; "m~1"] /\
  step_table (fun s => if Nat.eqb s 0 then ex_cols else ["a"; "p"]) fgrp (fst st) 1 = ["p"] /\
  identify ["m"; "b"] ex_cols ORequest = RList ["m~0"; "m~1"; "b"] /\
  identify ["m"; "b"] ex_cols OAlpha = RList ["b"; "m~0"; "m~1"] /\
  identify ["zz"] ex_cols ONone = RErr /\
  identify ["m"; "m~1"] ex_cols ORequest = RList ["m~0"; "m~1"] /\
  set_feature_name ["p"] "p~1" = "p" /\ set_feature_name [] "m~1" = "m~1" /\ base_feature "m~1~x" = "m".
Proof. vm_compute. repeat split. Qed.

(* MULTIPROCESSING: the downloaded table lists the columns in another order than the worker's object held them *)
Example C03_mode_example :
  let st := process_request 4 ex_env ["b"; "p"; "m~1"] in
  let held := fun s : nat => if Nat.eqb s 0 then ex_cols else ["a"; "p"] in
  let transferred := fun s : nat => if Nat.eqb s 0 then rev ex_cols else ["p"; "a"] in
  step_table_in MSync held transferred fgrp (fst st) 0 = ["b"; "m~1"] /\
  step_table_in MMultiprocessing held transferred fgrp (fst st) 0 = ["m~1"; "b"] /\
  identify ["m"; "b"] (seen_cols MMultiprocessing held transferred 0) ORequest = RList ["m~0"; "m~1"; "b"] /\
  identify ["m"; "b"] (seen_cols MThreading held transferred 0) ORequest = RList ["m~0"; "m~1"; "b"].
Proof. vm_compute. repeat split. Qed.
