(* C06 (data plane) - conflict_free => confluent.   Property theorems only (proofs in Proofs/ConfluenceP.v).

   Model/DataPlane.v: a plan step is an action ARoot | ACalc | ACopy on a store of tables; `exec` runs a list of actions
   atomically, one after the other.  Model/DataPlaneConc.v: footprints (wr, rd), `independent` (no write/write and no
   read/write overlap = negation of OrchCheck.conflicting), store_eq (same table for every object id - the store is an
   association list with shadowing), outcome_eq (Ok stores up to store_eq, all failures identified), `swaps`
   (adjacent transpositions of independent actions), and the NON-ATOMIC semantics `mrun`: every step is a `Read i`
   (snapshot of the table it reads into a private buffer) and a later `Write i` (compute from the buffer, store the
   result); any interleaving of these events may run.

   What is proved, for all plans, stores, row counts and schedules:
     1. two adjacent independent steps commute (same store up to store_eq, or both orders fail; exactly which failure
        each order reports is stated in C06conf_pair_commute_precise);
     2. lists related by swaps have the same outcome; two linearisations of ANY relation `before` that orders every
        pair of dependent steps are related by swaps, hence have the same outcome;
     3. an interleaving in which all steps with overlapping Read..Write intervals are independent computes EXACTLY the
        sequential execution in Write order; if every pair of dependent steps is ordered by `before` and the scheduler
        starts a step only after its `before`-predecessors finished, every interleaving computes the result of every
        linearisation; for `before` = the orchestrator's wait-for relation and plans accepted by the executable classifier
        OrchCheck.conflict_free this is `conflict_free => confluent`;
     4. without independence the statement is false: the lost update (two ACalc steps on one object, both read, then
        both write) agrees with no sequential order.
   `before` needs no order axioms: irreflexivity/transitivity are not used by the proofs (a `before` with a cycle simply
   has no linearisation and no schedule). *)
From Coq Require Import List Bool ZArith Arith Permutation.
Import ListNotations.
Require MV.Model.Orch MV.Model.OrchCheck.
Require Import MV.Spec.RefEval MV.Model.DataPlane MV.Model.DataPlaneConc MV.Proofs.ConfluenceP.
Local Open Scope nat_scope.

(* ---- 1. step-level commutation ---- *)
Theorem C06conf_step_respects_store_eq : forall n a s1 s2,
  store_eq s1 s2 -> outcome_eqx (step n s1 a) (step n s2 a).
Proof. exact step_store_eq_l. Qed.
Print Assumptions C06conf_step_respects_store_eq.

Theorem C06conf_exec_respects_store_eq : forall n l s1 s2,
  store_eq s1 s2 -> outcome_eqx (exec n s1 l) (exec n s2 l).
Proof. exact exec_store_eq_l. Qed.
Print Assumptions C06conf_exec_respects_store_eq.

Theorem C06conf_independent_spec : forall a b,
  independent a b = true <-> wr a <> wr b /\ ~ In (wr a) (rd b) /\ ~ In (wr b) (rd a).
Proof. exact independent_spec. Qed.
Print Assumptions C06conf_independent_spec.

Theorem C06conf_pair_commute : forall n s a b,
  independent a b = true -> outcome_eq (exec n s [a; b]) (exec n s [b; a]).
Proof. exact pair_commute_l. Qed.
Print Assumptions C06conf_pair_commute.

Theorem C06conf_pair_both_or_neither : forall n s a b, independent a b = true ->
  (exists s1 s2, exec n s [a; b] = Ok s1 /\ exec n s [b; a] = Ok s2 /\ store_eq s1 s2) \/
  ((forall s', exec n s [a; b] <> Ok s') /\ (forall s', exec n s [b; a] <> Ok s')).
Proof. exact pair_both_or_neither_l. Qed.
Print Assumptions C06conf_pair_both_or_neither.

(* which failure is reported: each step fails on the initial store exactly as it fails after the other one; when both fail,
   each order reports the failure of its own first step (the only case in which the two orders differ) *)
Theorem C06conf_pair_commute_precise : forall n s a b, independent a b = true ->
  match step n s a, step n s b with
  | Ok _, Ok _ => exists s1 s2, exec n s [a; b] = Ok s1 /\ exec n s [b; a] = Ok s2 /\ store_eq s1 s2
  | Ok _, eb => exec n s [a; b] = eb /\ exec n s [b; a] = eb
  | ea, Ok _ => exec n s [a; b] = ea /\ exec n s [b; a] = ea
  | ea, eb => exec n s [a; b] = ea /\ exec n s [b; a] = eb
  end.
Proof. exact pair_commute_precise_l. Qed.
Print Assumptions C06conf_pair_commute_precise.

(* ---- 2. linearisation independence ---- *)
Theorem C06conf_swaps_outcome : forall n l1 l2,
  swaps l1 l2 -> forall s, outcome_eq (exec n s l1) (exec n s l2).
Proof. exact swaps_outcome_l. Qed.
Print Assumptions C06conf_swaps_outcome.

Theorem C06conf_linearisations_swaps : forall before l2 l1,
  NoDup (map fst l1) -> Permutation l1 l2 -> respects before l1 -> respects before l2 ->
  dependent_ordered before l1 -> swaps (map snd l1) (map snd l2).
Proof. exact respects_swaps_l. Qed.
Print Assumptions C06conf_linearisations_swaps.

Theorem C06conf_linearisations_agree : forall n before l1 l2,
  NoDup (map fst l1) -> Permutation l1 l2 -> respects before l1 -> respects before l2 ->
  dependent_ordered before l1 -> forall s, outcome_eq (exec n s (map snd l1)) (exec n s (map snd l2)).
Proof. exact linearisations_agree_l. Qed.
Print Assumptions C06conf_linearisations_agree.

(* ---- 3. non-atomic steps ---- *)
(* the atomic step of Model/DataPlane.v is Read immediately followed by Write *)
Theorem C06conf_step_is_read_write : forall n s a, step n s a = write_from n s a (snapshot s a).
Proof. exact step_is_read_write. Qed.
Print Assumptions C06conf_step_is_read_write.

Theorem C06conf_interleaving_sequential : forall n steps s ev,
  wf_interleaving steps ev ->
  (forall i j, i <> j -> overlap ev i j -> indep_ids steps i j = true) ->
  mrun n steps s [] ev = exec n s (map snd (write_steps steps ev)).
Proof. exact interleaving_sequential_l. Qed.
Print Assumptions C06conf_interleaving_sequential.

(* the same with the overlap premise as an executable check *)
Theorem C06conf_interleaving_sequential_checked : forall n steps s ev,
  wf_interleaving steps ev -> overlap_freeb steps ev = true ->
  mrun n steps s [] ev = exec n s (map snd (write_steps steps ev)).
Proof. exact interleaving_sequential_b. Qed.
Print Assumptions C06conf_interleaving_sequential_checked.

Theorem C06conf_conflict_free_schedules : forall n before steps s ev lin,
  NoDup (map fst steps) -> dependent_ordered before steps ->
  wf_interleaving steps ev -> scheduled before steps ev ->
  Permutation steps lin -> respects before lin ->
  outcome_eq (mrun n steps s [] ev) (exec n s (map snd lin)).
Proof. exact conflict_free_schedules_l. Qed.
Print Assumptions C06conf_conflict_free_schedules.

Theorem C06conf_two_schedules_agree : forall n before steps s ev1 ev2,
  NoDup (map fst steps) -> dependent_ordered before steps ->
  wf_interleaving steps ev1 -> scheduled before steps ev1 ->
  wf_interleaving steps ev2 -> scheduled before steps ev2 ->
  outcome_eq (mrun n steps s [] ev1) (mrun n steps s [] ev2).
Proof. exact conflict_free_two_schedules_l. Qed.
Print Assumptions C06conf_two_schedules_agree.

(* ---- the executable classifier of Model/OrchCheck.v ---- *)
Theorem C06conf_conflicting_is_dependent : forall steps i j a b,
  act_of steps i = Some a -> act_of steps j = Some b ->
  OrchCheck.conflicting (foot_of_steps steps) i j = negb (independent a b).
Proof. exact conflicting_independent_l. Qed.
Print Assumptions C06conf_conflicting_is_dependent.

Theorem C06conf_conflict_free_confluent : forall n p steps s ev lin,
  NoDup (map fst steps) ->
  (forall i, In i (map fst steps) -> exists st, In st p /\ Orch.sid st = i) ->
  OrchCheck.conflict_free p (foot_of_steps steps) = true ->
  wf_interleaving steps ev -> scheduled (waits_before p) steps ev ->
  Permutation steps lin -> respects (waits_before p) lin ->
  outcome_eq (mrun n steps s [] ev) (exec n s (map snd lin)).
Proof. exact conflict_free_confluent_l. Qed.
Print Assumptions C06conf_conflict_free_confluent.

(* ---- 4. the premise is necessary: lost update ---- *)
(* lu_steps = [(1, ACalc 0 [f1 := col0]); (2, ACalc 0 [f2 := 2*col0])], object 0 holds column 0,
   lu_ev = [Read 1; Read 2; Write 1; Write 2] *)
Theorem C06conf_lost_update_refuted :
  wf_interleaving lu_steps lu_ev
  /\ independent lu_a1 lu_a2 = false
  /\ has_col (exec 2 lu_store [lu_a1; lu_a2]) 0 1 = true /\ has_col (exec 2 lu_store [lu_a1; lu_a2]) 0 2 = true
  /\ has_col (exec 2 lu_store [lu_a2; lu_a1]) 0 1 = true /\ has_col (exec 2 lu_store [lu_a2; lu_a1]) 0 2 = true
  /\ has_col (mrun 2 lu_steps lu_store [] lu_ev) 0 2 = true
  /\ has_col (mrun 2 lu_steps lu_store [] lu_ev) 0 1 = false.
Proof. exact lost_update_refuted_l. Qed.
Print Assumptions C06conf_lost_update_refuted.

Theorem C06conf_lost_update_no_order : forall l, Permutation (map snd lu_steps) l ->
  ~ outcome_eq (mrun 2 lu_steps lu_store [] lu_ev) (exec 2 lu_store l).
Proof. exact lost_update_no_order_l. Qed.
Print Assumptions C06conf_lost_update_no_order.

(* ---- the premises are satisfiable: three steps on two objects ----
   step 1 creates object 0 (column 0), step 2 computes feature 1 = 10 + 3*col0 on object 0 and must come after step 1,
   step 3 creates object 1 (column 7) and is independent of both.
   Schedule: 1 and 3 run concurrently, 2 starts while 3 is still running; Write order 1,3,2.
   Linearisation compared with: 3,1,2. *)
Definition ex_d : fdef := {| fname := 1; inputs := [0]; c0 := 10%Z; coefs := [3%Z] |}.
Definition ex_steps : list istep :=
  [(1, ARoot 0 [(0, [Some 1%Z; None])]); (2, ACalc 0 [ex_d]); (3, ARoot 1 [(7, [Some 4%Z; Some 5%Z])])].
Definition ex_before (i j : nat) : bool := Nat.eqb i 1 && Nat.eqb j 2.
Definition ex_ev : list mevent := [Read 1; Read 3; Write 1; Read 2; Write 3; Write 2].
Definition ex_lin : list istep :=
  [(3, ARoot 1 [(7, [Some 4%Z; Some 5%Z])]); (1, ARoot 0 [(0, [Some 1%Z; None])]); (2, ACalc 0 [ex_d])].

Example C06conf_premises_hold :
  NoDup (map fst ex_steps) /\ dependent_ordered ex_before ex_steps
  /\ wf_interleaving ex_steps ex_ev /\ scheduled ex_before ex_steps ex_ev
  /\ Permutation ex_steps ex_lin /\ respects ex_before ex_lin
  /\ map fst (write_steps ex_steps ex_ev) = [1; 3; 2]
  /\ overlap ex_ev 1 3 /\ overlap ex_ev 3 2.
Proof.
  split; [repeat constructor; cbn; intuition discriminate|].
  split; [apply dependent_orderedb_sound; vm_compute; reflexivity|].
  split; [apply wf_interleavingb_sound; vm_compute; reflexivity|].
  split; [apply scheduledb_sound; vm_compute; reflexivity|].
  split; [apply Permutation_sym; apply (Permutation_cons_app [(1, _); (2, _)] [] (3, _)); apply Permutation_refl|].
  split; [apply respectsb_sound; vm_compute; reflexivity|].
  split; [vm_compute; reflexivity|].
  split.
  - right. exists [Read 1], [], [Read 2; Write 3; Write 2]. split; [reflexivity | intros []].
  - right. exists [Read 1; Read 3; Write 1], [], [Write 2]. split; [reflexivity | intros []].
Qed.
Print Assumptions C06conf_premises_hold.

(* the theorem applied: the concurrent schedule equals the reordered sequential run, and both succeed *)
Example C06conf_instance :
  outcome_eq (mrun 2 ex_steps [] [] ex_ev) (exec 2 [] (map snd ex_lin))
  /\ (exists st, mrun 2 ex_steps [] [] ex_ev = Ok st /\ get_obj st 0 = Some [(1, [Some 13%Z; None]); (0, [Some 1%Z; None])]
                 /\ get_obj st 1 = Some [(7, [Some 4%Z; Some 5%Z])])
  /\ map snd (write_steps ex_steps ex_ev) <> map snd ex_lin
  /\ swaps (map snd (write_steps ex_steps ex_ev)) (map snd ex_lin).
Proof.
  destruct C06conf_premises_hold as (H1 & H2 & H3 & H4 & H5 & H6 & _).
  split; [exact (C06conf_conflict_free_schedules 2 ex_before ex_steps [] ex_ev ex_lin H1 H2 H3 H4 H5 H6)|].
  split; [eexists; vm_compute; repeat split|].
  split; [vm_compute; discriminate|].
  apply (sw_swap [] (ARoot 0 _) (ARoot 1 _) [ACalc 0 [ex_d]]). vm_compute. reflexivity.
Qed.
Print Assumptions C06conf_instance.

(* the same three steps with step 2 NOT ordered after step 1 are rejected by the premise *)
Example C06conf_premise_can_fail : dependent_orderedb (fun _ _ => false) ex_steps = false.
Proof. vm_compute. reflexivity. Qed.
Print Assumptions C06conf_premise_can_fail.
