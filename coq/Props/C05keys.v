(* C05 - the key columns of a join are the ones the Link declares, applied to the tables in the Link's roles: the join a
   consumer sees depends on the Link's declaration and the two tables, NOT on which other columns the tables happen to contain.
   Property theorems only.  Model: Model/JoinCall.v (JoinStep._merge_data: cfw.data = merge(cfw.data, from_cfw_data,
   link.jointype, link.left_index, link.right_index) - left_index on the table of the object the step merges INTO, right_index
   on the table it reads) on top of Model/RoutingJ.v (exec_x: a JoinStep writes that call into the left object); vocabulary
   Spec/JoinFrame.v; proofs Proofs/JoinCallP.v.

   1. C05_rel_join_frame (+ _left / _right): for inner / left / right / outer joins, ALL key lists, ALL tables: if L' agrees with
      L outside columns cs that are no left keys and R' agrees with R outside columns ds that are no right keys (columns added,
      removed, or filled differently - e.g. each table ALSO carrying a column named like the key of the OTHER side), then
      rel_join on (L', R') agrees with rel_join on (L, R) outside cs ++ ds, row by row.
   2. C05_join_keys_follow_link: the same for the JoinStep's merge call with the Link it carries (merge_data rel_join l);
      C05_consumer_view_independent_of_other_columns: a consumer that reads columns outside cs ++ ds receives the same rows.
   3. C05_join_step_writes_link_call: in the run-time join path model every executed JoinStep writes
      merge_data rel_join (its Link) (table of the object written) (table of the object read);
      C05_join_step_frame: two runs that route the step alike and differ, at the two objects, only in non-key columns write
      tables that differ only in those columns.
   4. The statement excludes guessing the orientation from the schemas.  merge_data_by_names (hand the indexes over exchanged when
      the target table has the right key columns and the other table the left key columns) coincides with the declared call
      for equally named keys and whenever the schemas do not look inverted (C05_by_names_harmless_...) - which is why joins on
      equal key names or without cross-over column names cannot tell the two apart - and
      C05_orientation_by_column_names_refuted: a Link Orders.referrer_id = Customers.customer_id over tables that each also have
      the other side's column: the declared call is insensitive to those two columns (instance of 2), the guessing call returns
      the rows of Orders.customer_id = Customers.referrer_id - other (order_id, cname) pairs; nothing fails.
   Tie (harness/c05_cross.py, family cross_over): generated sources with differently named keys, each also carrying the other
   side's key name filled with other values; the rows the real consumer receives, read at the value columns, must equal
   merge_data rel_join (the Link) evaluated here, and must equal the rows received from the same tables WITHOUT the cross-over
   columns (conclusion of 2 on the real code). *)
From Coq Require Import List Bool ZArith Arith String.
Import ListNotations.
Require Import MV.Spec.Rel MV.Spec.JoinFrame MV.Model.Routing MV.Model.RoutingJ MV.Model.JoinCall MV.Proofs.JoinCallP.
Open Scope string_scope.
Open Scope list_scope.

(* ---- 1 ---- *)
Theorem C05_rel_join_frame : forall jt lk rk cs ds L L' R R',
  keyed jt = true -> disjoint_cols lk cs = true -> disjoint_cols rk ds = true ->
  agree_off cs L L' -> agree_off ds R R' ->
  agree_off (cs ++ ds) (rel_join jt lk rk L R) (rel_join jt lk rk L' R').
Proof. exact rel_join_frame. Qed.
Print Assumptions C05_rel_join_frame.

Theorem C05_rel_join_frame_left : forall jt lk rk cs L L' R,
  keyed jt = true -> disjoint_cols lk cs = true -> agree_off cs L L' ->
  agree_off cs (rel_join jt lk rk L R) (rel_join jt lk rk L' R).
Proof. exact rel_join_frame_left. Qed.
Print Assumptions C05_rel_join_frame_left.

Theorem C05_rel_join_frame_right : forall jt lk rk ds L R R',
  keyed jt = true -> disjoint_cols rk ds = true -> agree_off ds R R' ->
  agree_off ds (rel_join jt lk rk L R) (rel_join jt lk rk L R').
Proof. exact rel_join_frame_right. Qed.
Print Assumptions C05_rel_join_frame_right.

(* ---- 2 ---- *)
Theorem C05_join_keys_follow_link : forall l cs ds L L' R R',
  keyed (ld_jt l) = true -> disjoint_cols (ld_left l) cs = true -> disjoint_cols (ld_right l) ds = true ->
  agree_off cs L L' -> agree_off ds R R' ->
  agree_off (cs ++ ds) (merge_data rel_join l L R) (merge_data rel_join l L' R').
Proof. exact merge_data_keys_follow_link. Qed.
Print Assumptions C05_join_keys_follow_link.

Theorem C05_consumer_view_independent_of_other_columns : forall l cs ds ps L L' R R',
  keyed (ld_jt l) = true -> disjoint_cols (ld_left l) cs = true -> disjoint_cols (ld_right l) ds = true ->
  disjoint_cols ps (cs ++ ds) = true ->
  agree_off cs L L' -> agree_off ds R R' ->
  map (proj_cols ps) (merge_data rel_join l L R) = map (proj_cols ps) (merge_data rel_join l L' R').
Proof. exact merge_data_consumer_view. Qed.
Print Assumptions C05_consumer_view_independent_of_other_columns.

(* ---- 3 ---- *)
Theorem C05_join_step_writes_link_call : forall s j s', exec_x s (XJ j) = (s', XOk) ->
  exists w r tl tr,
    route_join (x_reg s) (x_rel s) j = RoutedJ (x_reg s') w (Some r) /\
    rs_get (x_store s) w = Some tl /\ rs_get (x_store s) r = Some tr /\
    x_store s' = (w, merge_data rel_join (link_of_jrec j) tl tr) :: x_store s /\
    x_rel s' = mrel_add (x_rel s) w r (j_cls j).
Proof. exact exec_x_join_merge_data. Qed.
Print Assumptions C05_join_step_writes_link_call.

Theorem C05_join_step_frame : forall s1 s2 j s1' s2' cs ds,
  x_reg s1 = x_reg s2 -> x_rel s1 = x_rel s2 ->
  exec_x s1 (XJ j) = (s1', XOk) -> exec_x s2 (XJ j) = (s2', XOk) ->
  keyed (j_jt j) = true -> disjoint_cols (j_lk j) cs = true -> disjoint_cols (j_rk j) ds = true ->
  (forall w r, route_join (x_reg s1) (x_rel s1) j = RoutedJ (x_reg s1') w (Some r) ->
     forall tl1 tl2 tr1 tr2,
       rs_get (x_store s1) w = Some tl1 -> rs_get (x_store s2) w = Some tl2 ->
       rs_get (x_store s1) r = Some tr1 -> rs_get (x_store s2) r = Some tr2 ->
       agree_off cs tl1 tl2 /\ agree_off ds tr1 tr2) ->
  exists w t1 t2, hd_error (x_store s1') = Some (w, t1) /\ hd_error (x_store s2') = Some (w, t2) /\
                  agree_off (cs ++ ds) t1 t2.
Proof. exact join_step_frame. Qed.
Print Assumptions C05_join_step_frame.

(* ---- 4 ---- *)
Theorem C05_by_names_harmless_equal_keys : forall E l T O, ld_left l = ld_right l ->
  merge_data_by_names E l T O = merge_data E l T O.
Proof. exact merge_data_by_names_equal_keys. Qed.
Print Assumptions C05_by_names_harmless_equal_keys.

Theorem C05_by_names_harmless_without_crossover : forall E l T O,
  subset_cols (ld_right l) (table_cols T) && subset_cols (ld_left l) (table_cols O) = false ->
  merge_data_by_names E l T O = merge_data E l T O.
Proof. exact merge_data_by_names_declared. Qed.
Print Assumptions C05_by_names_harmless_without_crossover.

Theorem C05_by_names_swaps_on_crossover : forall E l T O,
  subset_cols (ld_right l) (table_cols T) && subset_cols (ld_left l) (table_cols O) = true ->
  merge_data_by_names E l T O = E (ld_jt l) (ld_right l) (ld_left l) T O.
Proof. exact merge_data_by_names_swaps. Qed.
Print Assumptions C05_by_names_swaps_on_crossover.

(* the tables of seeded/C05_r5/demo.py: Link  Orders.referrer_id = Customers.customer_id *)
Definition i (z : Z) : val := VInt z.
Definition orders : table :=
  [ [("order_id", i 10); ("customer_id", i 1); ("referrer_id", i 2)];
    [("order_id", i 11); ("customer_id", i 2); ("referrer_id", i 2)];
    [("order_id", i 12); ("customer_id", i 3); ("referrer_id", i 9)];
    [("order_id", i 13); ("customer_id", i 4); ("referrer_id", i 1)] ]%Z.
Definition customers : table :=
  [ [("customer_id", i 1); ("referrer_id", i 3); ("cname", VStr "c1")];
    [("customer_id", i 2); ("referrer_id", i 4); ("cname", VStr "c2")];
    [("customer_id", i 3); ("referrer_id", i 1); ("cname", VStr "c3")];
    [("customer_id", i 5); ("referrer_id", i 1); ("cname", VStr "c5")] ]%Z.
(* the same rows without the cross-over columns *)
Definition orders_plain : table := map (drop_cols ["customer_id"]) orders.
Definition customers_plain : table := map (drop_cols ["referrer_id"]) customers.
Definition referrer_link (jt : jointype) : link_decl :=
  {| ld_jt := jt; ld_left := ["referrer_id"]; ld_right := ["customer_id"] |}.
Definition view := map (proj_cols ["order_id"; "cname"]).

(* the hypotheses of 2 hold for these tables (they are an instance, and a non-trivial one: the cross-over columns exist) *)
Example C05_crossover_instance_hypotheses :
  agree_off ["customer_id"] orders_plain orders /\ agree_off ["referrer_id"] customers_plain customers /\
  disjoint_cols (ld_left (referrer_link JInner)) ["customer_id"] = true /\
  disjoint_cols (ld_right (referrer_link JInner)) ["referrer_id"] = true /\
  disjoint_cols ["order_id"; "cname"] (["customer_id"] ++ ["referrer_id"]) = true /\
  subset_cols ["customer_id"] (table_cols orders) && subset_cols ["referrer_id"] (table_cols customers) = true.
Proof. vm_compute. repeat split; reflexivity. Qed.

(* the declared call: same consumer view with and without the cross-over columns (by 2, not by computation) *)
Example C05_crossover_instance_declared : forall jt, keyed jt = true ->
  view (merge_data rel_join (referrer_link jt) orders customers)
  = view (merge_data rel_join (referrer_link jt) orders_plain customers_plain).
Proof.
  intros jt Hk. symmetry. unfold view.
  apply (C05_consumer_view_independent_of_other_columns (referrer_link jt) ["customer_id"] ["referrer_id"]); auto;
    apply C05_crossover_instance_hypotheses.
Qed.

(* orientation by column names: same plain tables -> same result as the declared call; with the cross-over columns the
   consumer sees the rows of Orders.customer_id = Customers.referrer_id, for inner, left and outer links alike *)
Example C05_orientation_by_column_names_refuted :
  forallb (fun jt =>
    bag_eqb (view (merge_data_by_names rel_join (referrer_link jt) orders_plain customers_plain))
            (view (merge_data rel_join (referrer_link jt) orders_plain customers_plain))
    && negb (bag_eqb (view (merge_data_by_names rel_join (referrer_link jt) orders customers))
                     (view (merge_data rel_join (referrer_link jt) orders customers)))
    && bag_eqb (view (merge_data_by_names rel_join (referrer_link jt) orders customers))
               (view (rel_join jt ["customer_id"] ["referrer_id"] orders customers)))
    [JInner; JLeft; JOuter] = true
  /\ view (merge_data rel_join (referrer_link JLeft) orders customers)
     = [ [("order_id", i 10); ("cname", VStr "c2")]; [("order_id", i 11); ("cname", VStr "c2")];
         [("order_id", i 13); ("cname", VStr "c1")]; [("order_id", i 12); ("cname", VNull)] ]%Z
  /\ view (merge_data_by_names rel_join (referrer_link JLeft) orders customers)
     = [ [("order_id", i 10); ("cname", VStr "c3")]; [("order_id", i 10); ("cname", VStr "c5")];
         [("order_id", i 12); ("cname", VStr "c1")]; [("order_id", i 13); ("cname", VStr "c2")];
         [("order_id", i 11); ("cname", VNull)] ]%Z.
Proof. vm_compute. repeat split; reflexivity. Qed.
Print Assumptions C05_orientation_by_column_names_refuted.
