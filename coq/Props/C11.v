(* C11 — global filters keep exactly the rows that satisfy them, on every framework.
   Property theorems only (proofs in Proofs/FilterP.v and Proofs/TimeFilterP.v).

   Spec/Filter.v      : the row predicate (`holds`), what a parameter dict denotes (`denote`), `expected`.
   Model/FilterPyDict : the PythonDict engine + BaseFilterEngine.do_filter / apply_single_filters, as written.
   Model/FilterArrow  : the PyArrow regex method (anchored RE2 search).
   Model/TimeFilter   : GlobalFilter._check_and_convert_time_info.
   All statements are for tables of any size, any rows (also rows lacking the column), any parameter values.
   `fineb f t` = the filter denotes a condition and every non-null cell of its column is comparable with the
   parameters (numbers with numbers, strings with strings; regex on strings/ints with a pattern of the stated family).
   Outside that domain the engine raises (TypeError / ValueError), which the model reproduces but the property does
   not speak about.  Pandas and PyArrow are tied to `expected` by correspondence only (harness/c11.py). *)
From Coq Require Import List Bool ZArith String Permutation.
Import ListNotations.
Require Import MV.Spec.Filter MV.Spec.FilterPlan MV.Model.FilterPyDict MV.Model.FilterArrow MV.Model.TimeFilter.
Require Import MV.Proofs.FilterP MV.Proofs.TimeFilterP.
Open Scope Z_scope.

(* ---- one filter: the engine returns exactly the satisfying rows, in order ---- *)
Theorem C11_pydict_filter_refines : forall f t, fineb f t = true -> do_filter t f = Ok (filter (sat f) t).
Proof. exact pydict_filter_refines_l. Qed.
Print Assumptions C11_pydict_filter_refines.

(* the same with the condition made explicit *)
Theorem C11_pydict_filter_refines_cond : forall f c t,
  denote f = Some c -> typedb c (f_col f) t = true ->
  do_filter t f = Ok (filter (fun r => holds c (get r (f_col f))) t).
Proof. exact do_filter_refines_l. Qed.
Print Assumptions C11_pydict_filter_refines_cond.

(* ---- several filters compose as conjunction over the applicable ones (apply_single_filters) ---- *)
Theorem C11_filters_conjunction : forall names fs t,
  (forall f, In f fs -> applicable names f = true -> fineb f t = true) ->
  apply_single_filters names (Some fs) t = Ok (expected names fs t).
Proof. exact apply_list_conj_l. Qed.
Print Assumptions C11_filters_conjunction.

(* features.filters is a Python set: the order of application does not matter *)
Theorem C11_filter_order_irrelevant : forall names fs fs' t,
  Permutation fs fs' ->
  (forall f, In f fs -> applicable names f = true -> fineb f t = true) ->
  apply_single_filters names (Some fs) t = apply_single_filters names (Some fs') t.
Proof. exact apply_list_perm_l. Qed.
Print Assumptions C11_filter_order_irrelevant.

(* ---- scope: a feature group whose feature set lacks the filter columns is untouched (no hypothesis on the
        filters: they may be malformed or ill-typed), and `filters is None` is the identity ---- *)
Theorem C11_apply_single_filters_scope : forall names ofs t,
  (forall fs f, ofs = Some fs -> In f fs -> ~ In (f_col f) names) -> apply_single_filters names ofs t = Ok t.
Proof. exact apply_single_filters_scope_l. Qed.
Print Assumptions C11_apply_single_filters_scope.

Theorem C11_inapplicable_filter_ignored : forall names f fs t,
  ~ In (f_col f) names -> apply_single_filters names (Some (f :: fs)) t = apply_single_filters names (Some fs) t.
Proof. exact apply_list_skip_l. Qed.
Print Assumptions C11_inapplicable_filter_ignored.

(* ---- exported plans (the planner glue is not modelled): if a feature-group step carries exactly the global filters
        whose column its group exposes and the column of each is among the step's feature names (glue_okb, evaluated on
        every plan exported from the real prepare), the step returns exactly the rows satisfying every applicable
        global filter.  The second theorem shows the condition is not idle: a step lacking the filter column among
        its names keeps rows the predicate rejects. ---- *)
Theorem C11_plan_glue_sufficient : forall cols names fsS fs t,
  glue_okb cols names fsS fs = true ->
  (forall f, In f fsS -> fineb f t = true) ->
  apply_single_filters names (Some fsS) t = Ok (expected cols fs t).
Proof. exact glue_sufficient_l. Qed.
Print Assumptions C11_plan_glue_sufficient.

Theorem C11_plan_glue_skip_refutes :
  let f := {| f_col := "c"%string; f_type := FMin; f_par := {| p_value := Some (VInt 2); p_values := None; p_min := None; p_max := None; p_excl := false |} |} in
  let t := [[("id"%string, VInt 0); ("c"%string, VInt 1)]; [("id"%string, VInt 1); ("c"%string, VInt 2)]] in
  glue_okb ["id"%string; "c"%string] ["id"%string] [f] [f] = false /\
  apply_single_filters ["id"%string] (Some [f]) t = Ok t /\ expected ["id"%string; "c"%string] [f] t <> t.
Proof. exact glue_skip_refutes_l. Qed.
Print Assumptions C11_plan_glue_skip_refutes.

(* ---- unconditional: whatever the filters, a successful run only drops rows (never adds, changes or reorders) ---- *)
Theorem C11_result_is_a_restriction : forall names fs t t',
  apply_single_filters names (Some fs) t = Ok t' -> exists q, t' = filter q t.
Proof. exact apply_list_sub_l. Qed.
Print Assumptions C11_result_is_a_restriction.

(* malformed parameter dicts are rejected (regex patterns apart), custom filter types are not implemented *)
Theorem C11_malformed_rejected : forall f t,
  denote f = None -> f_type f <> FRegex ->
  do_filter t f = Err (match f_type f with FCustom => NotImplementedError | _ => ValueError end).
Proof. exact malformed_rejected_l. Qed.
Print Assumptions C11_malformed_rejected.

(* ---- the predicate says what the property text says ---- *)
Theorem C11_null_fails_order : forall c,
  match c with CRange _ _ _ | CMin _ | CMax _ _ | CRegex _ => holds c VNull = false | _ => True end.
Proof. exact null_fails_order_l. Qed.
Print Assumptions C11_null_fails_order.

Theorem C11_range_lower_inclusive : forall lo hi excl, vcmp lo hi = Some Lt -> holds (CRange lo hi excl) lo = true.
Proof. exact range_lower_inclusive_l. Qed.
Print Assumptions C11_range_lower_inclusive.

Theorem C11_range_upper_by_flag : forall lo hi excl, le lo hi = true -> holds (CRange lo hi excl) hi = negb excl.
Proof. exact range_upper_flag_l. Qed.
Print Assumptions C11_range_upper_by_flag.

Theorem C11_min_max_bounds : forall v c, vcmp v v = Some c ->
  holds (CMin v) v = true /\ holds (CMax v false) v = true /\ holds (CMax v true) v = false.
Proof. exact min_max_inclusive_l. Qed.
Print Assumptions C11_min_max_bounds.

(* ---- PyArrow regex (engine as of /repo d2087b7: the pattern is anchored before RE2 search): full strength, for every
        pattern of the family and every string; null cells are dropped like the predicate says.
        (Until d2087b7 this was C11_arrow_regex_partial / _refuted: known finding C11-pyarrow-regex-unanchored, fixed.) ---- *)
Theorem C11_arrow_regex_refines : forall p s, arrow_regex_holds p (VStr s) = holds (CRegex p) (VStr s).
Proof. exact arrow_regex_refines_l. Qed.
Print Assumptions C11_arrow_regex_refines.

Theorem C11_arrow_regex_null : forall p, arrow_regex_holds p VNull = holds (CRegex p) VNull.
Proof. exact arrow_regex_null_l. Qed.
Print Assumptions C11_arrow_regex_null.

(* the statement is not vacuous: un-anchored search is a different predicate, and the engine does not compute it *)
Theorem C11_search_semantics_differs :
  search wit_pat "ba" = true /\ holds (CRegex wit_pat) (VStr "ba") = false /\ arrow_regex_holds wit_pat (VStr "ba") = false.
Proof. exact search_differs_l. Qed.
Print Assumptions C11_search_semantics_differs.

(* ---- time filters ---- *)
Theorem C11_utc_same_instant : forall x y ox oy,
  off x = Some ox -> off y = Some oy -> instant x ox = instant y oy -> convert x = convert y.
Proof. exact utc_same_instant_l. Qed.
Print Assumptions C11_utc_same_instant.

(* the UTC datetime that is rendered denotes the instant that was given (years 1900..2199; the calendar round trip
   is checked by evaluation on each of the 109573 days of that range, the clock part is proved for all) *)
Theorem C11_utc_denotes_instant : forall i, DAY_LO * US_DAY <= i < DAY_HI * US_DAY ->
  instant (utc_of_instant i) 0 = i /\ off (utc_of_instant i) = Some 0.
Proof. exact utc_denotes_instant_l. Qed.
Print Assumptions C11_utc_denotes_instant.

Theorem C11_utc_injective : forall i j,
  DAY_LO * US_DAY <= i < DAY_HI * US_DAY -> DAY_LO * US_DAY <= j < DAY_HI * US_DAY ->
  utc_of_instant i = utc_of_instant j -> i = j.
Proof. exact utc_injective_l. Qed.
Print Assumptions C11_utc_injective.

Theorem C11_utc_fields_range : forall i, DAY_LO * US_DAY <= i < DAY_HI * US_DAY ->
  let u := utc_of_instant i in
  1900 <= yr u < 2200 /\ 1 <= mo u <= 12 /\ 1 <= dy u <= 31 /\ 0 <= hh u < 24 /\ 0 <= mi u < 60 /\ 0 <= ss u < 60 /\
  0 <= us u < 1000000.
Proof. exact utc_fields_range_l. Qed.
Print Assumptions C11_utc_fields_range.

Theorem C11_naive_datetime_rejected : forall x, off x = None -> convert x = TValueError.
Proof. exact naive_rejected_l. Qed.
Print Assumptions C11_naive_datetime_rejected.

Theorem C11_time_filter_is_range : forall col a b excl f,
  time_filter col a b excl = Some f ->
  exists sa sb, convert a = TOk sa /\ convert b = TOk sb /\ f_col f = col /\
                denote f = Some (CRange (VStr sa) (VStr sb) excl).
Proof. exact time_filter_denotes_l. Qed.
Print Assumptions C11_time_filter_is_range.

(* ---- non-vacuity ---- *)
Open Scope string_scope.
Definition ex_row (i : Z) (v : value) : row := [("id", VInt i); ("c", v)].
Definition ex_table : table := [ex_row 0 (VInt 1); ex_row 1 (VInt 2); ex_row 2 VNull; ex_row 3 (VFlt 5 1); ex_row 4 (VInt 3);
                                ex_row 5 (VInt 2); [("id", VInt 6)]].
Definition par0 := {| p_value := None; p_values := None; p_min := None; p_max := None; p_excl := false |}.
Definition ex_range (e : bool) := {| f_col := "c"; f_type := FRange;
   f_par := {| p_value := None; p_values := None; p_min := Some (VInt 2); p_max := Some (VInt 3); p_excl := e |} |}.
Definition ex_in := {| f_col := "c"; f_type := FIn;
   f_par := {| p_value := None; p_values := Some [VInt 2; VInt 3; VInt 7]; p_min := None; p_max := None; p_excl := false |} |}.
Definition ex_other := {| f_col := "zz"; f_type := FMin;
   f_par := {| p_value := Some (VStr "q"); p_values := None; p_min := None; p_max := None; p_excl := false |} |}.
Definition ids (r : res table) := match r with Ok t => Some (map (fun r => get r "id") t) | Err _ => None end.

Example C11_examples :
  fineb (ex_range true) ex_table = true /\ fineb ex_in ex_table = true /\
  ids (do_filter ex_table (ex_range true)) = Some [VInt 1; VInt 3; VInt 5] /\                (* cells 2, 2.5, 2 : upper bound excluded *)
  ids (do_filter ex_table (ex_range false)) = Some [VInt 1; VInt 3; VInt 4; VInt 5] /\   (* 3 included; null and missing never *)
  ids (apply_single_filters ["c"; "id"] (Some [ex_range false; ex_in; ex_other]) ex_table) = Some [VInt 1; VInt 4; VInt 5] /\
  apply_single_filters ["id"] (Some [ex_range false; ex_in; ex_other]) ex_table = Ok ex_table /\
  do_filter [ex_row 0 (VStr "a")] (ex_range true) = Err TypeError /\
  do_filter [] {| f_col := "c"; f_type := FRange; f_par := par0 |} = Err ValueError /\
  convert {| yr := 2024; mo := 3; dy := 31; hh := 2; mi := 30; ss := 0; us := 5; off := Some 20700000000 |}
    = TOk "2024-03-30T20:45:00.000005+00:00" /\
  convert {| yr := 2024; mo := 3; dy := 30; hh := 16; mi := 45; ss := 0; us := 5; off := Some (-14400000000) |}
    = TOk "2024-03-30T20:45:00.000005+00:00".
Proof. vm_compute. repeat split. Qed.
