(* C02 — returned values equal the reference evaluation of the feature graph.   Property theorems only.

   THEOREM (data plane of merge-free plans): for every request (definitions `defs`, source columns `src`), every
   environment e that SOLVES the defining equations (solution ... = true), every sequence of step actions - in any order,
   with any routing of steps to compute-framework objects and any placement of transform copies - whose side conditions
   hold (roots carry source columns; calculations compute definitions of the request): if the execution succeeds, every
   column of every object equals e's column.  So values can only be wrong if a calculation does NOT find its input
   columns (which stops the run with MissingColumn/MissingObject, C01's 'columns present' clause) - never silently.
   NOT a theorem: that the real planner routes steps so that execution succeeds (planner and registry lookup are not
   modelled; known findings of C01), joins (C05/C12) and value conversion between frameworks (C14).  The check evaluates
   ref_eval and `solution` in Coq for every generated request and compares the tables returned by mloda with it. *)
From Coq Require Import List Bool ZArith Arith.
Import ListNotations.
Require Import MV.Spec.RefEval MV.Model.DataPlane MV.Proofs.DataPlaneP.
Open Scope Z_scope.

Theorem C02_exec_sound_partial : forall n src defs e acts s', solution n src defs e = true ->
  forallb (action_ok src defs e) acts = true -> exec n [] acts = Ok s' ->
  forall o t f c, In (o, t) s' -> lookup t f = Some c -> lookup e f = Some c.
Proof. exact exec_from_empty_l. Qed.
Print Assumptions C02_exec_sound_partial.

(* non-vacuity: a diamond over one source column, computed through a transform copy, in an order different from the
   definition order; ref_eval is a solution and the execution reproduces it *)
Definition ex_src : env := [(0%nat, [Some 1; Some 2; None])].
Definition ex_defs : list fdef :=
  [ {| fname := 1; inputs := [0%nat]; c0 := 1; coefs := [1] |};
    {| fname := 2; inputs := [0%nat]; c0 := 0; coefs := [2] |};
    {| fname := 3; inputs := [1%nat; 2%nat]; c0 := 5; coefs := [1; -1] |} ].
Definition ex_acts : list action :=
  [ ARoot 10 ex_src; ACalc 10 [nth 1 ex_defs (nth 0 ex_defs (nth 0 ex_defs (nth 0 ex_defs (nth 0 ex_defs (nth 0 ex_defs
      {| fname := 0; inputs := []; c0 := 0; coefs := [] |})))))]; ACalc 10 [nth 0 ex_defs {| fname := 0; inputs := []; c0 := 0; coefs := [] |}];
    ACopy 10 11; ACalc 11 [nth 2 ex_defs {| fname := 0; inputs := []; c0 := 0; coefs := [] |}] ].
Example C02_diamond :
  let e := ref_eval 3 ex_src ex_defs in
  solution 3 ex_src ex_defs e = true /\ forallb (action_ok ex_src ex_defs e) ex_acts = true /\
  lookup e 3%nat = Some [Some 5; Some 4; None] /\
  match exec 3 [] ex_acts with Ok s => match get_obj s 11 with Some t => lookup t 3%nat | None => None end | _ => None end
    = Some [Some 5; Some 4; None].
Proof. vm_compute. repeat split. Qed.
