(* C18 — link sets are validated; the applicable link follows the documented rules; index prefix rule.
   Property theorems only (proofs in Proofs/LinkSelP.v).  All statements hold for every class hierarchy `mro`
   (any function giving the ancestor list of a class), every list of links and every pair of classes. *)
From Coq Require Import List Bool ZArith String Arith Permutation.
Import ListNotations.
Require Import MV.Model.LinkSel MV.Spec.LinkRule MV.Proofs.LinkSelP MV.Model.LinkAttach MV.Proofs.LinkAttachP.
Open Scope Z_scope.

(* FULL STATEMENT (refuted on the faithful model, see C18_rule_refuted):
     forall mro links lf rf l, In l (find_matching mro links lf rf) <-> rule mro links lf rf l.
   PROVED: the same, for link sets containing no link in the `asymmetric` domain for the pair. *)
Theorem C18_link_rule_partial : forall mro links lf rf,
  (forall l, In l links -> asymmetric mro lf rf l = false) ->
  forall l, In l (find_matching mro links lf rf) <-> rule mro links lf rf l.
Proof. exact find_matching_rule_partial_l. Qed.
Print Assumptions C18_link_rule_partial.

Theorem C18_rule_refuted :
  In wit_link (find_matching wit_mro [wit_link] 1%nat 2%nat) /\ ~ rule wit_mro [wit_link] 1%nat 2%nat wit_link.
Proof. exact asymmetric_refutes_rule_l. Qed.
Print Assumptions C18_rule_refuted.

(* parts of the rule that hold without any guard *)
Theorem C18_exact_priority : forall mro links lf rf l0, In l0 links -> exact lf rf l0 ->
  forall l, In l (find_matching mro links lf rf) <-> In l links /\ exact lf rf l.
Proof. exact exact_priority_l. Qed.
Print Assumptions C18_exact_priority.

Theorem C18_no_sibling_mismatch : forall mro links lf rf l,
  lf <> rf -> lfg l = rfg l -> ~ In l (find_matching mro links lf rf).
Proof. exact no_sibling_mismatch_l. Qed.
Print Assumptions C18_no_sibling_mismatch.

Theorem C18_closest_wins : forall mro links lf rf l l' d d',
  (forall x, In x links -> ~ exact lf rf x) ->
  In l' links -> matches_poly mro l' lf rf = true -> sel_dist mro lf rf l' = Some d' ->
  sel_dist mro lf rf l = Some d -> d' < d -> ~ In l (find_matching mro links lf rf).
Proof. exact closest_wins_l. Qed.
Print Assumptions C18_closest_wins.

Theorem C18_selection_sound : forall mro links lf rf l, In l (find_matching mro links lf rf) ->
  In l links /\ (exact lf rf l \/ matches_poly mro l lf rf = true).
Proof. exact find_matching_sound_l. Qed.
Print Assumptions C18_selection_sound.

(* link-set validation: rejected exactly when two distinct links contradict by one of the three rules, and the
   verdict does not depend on the iteration order of the set *)
Theorem C18_validate_spec : forall ls,
  validate_rejects ls = true <->
  exists i j, In i ls /\ In j ls /\ (double_join i j = true \/ conflicting_jt i j = true \/ right_conflict i j = true).
Proof. exact validate_rejects_spec_l. Qed.
Print Assumptions C18_validate_spec.

Theorem C18_validate_order_independent : forall ls ls', Permutation ls ls' -> validate_rejects ls = validate_rejects ls'.
Proof. exact validate_perm_invariant_l. Qed.
Print Assumptions C18_validate_order_independent.

(* ---------- links attached to features (Model/LinkAttach.v) ----------
   Links reach the planner in two ways: through the API argument `links=` (validated by LinkValidator in Engine.__init__)
   and attached to features (`Feature(..., link=...)`, merged into the engine's set AFTER that validation).  For the
   latter the only guard is the resolve-time back-stop ResolveLinkValidator.validate_no_conflicting_join_types, run on
   the links that were matched for a join of the request (the keys of link_trekker.data). *)

(* the engine's link set = API links + attached links, as a set (Link.__eq__ is structural equality of the model's record) *)
Theorem C18_eff_links : forall g a l, In l (eff_links g a) <-> In l g \/ In l a.
Proof. exact eff_links_in_l. Qed.
Print Assumptions C18_eff_links.

(* which pairs of classes are looked up: two different parent positions of the child *)
Theorem C18_ordered_pairs : forall ps a b,
  In (a, b) (ordered_pairs ps) <-> exists rest, Permutation ps (a :: rest) /\ In b rest.
Proof. exact ordered_pairs_spec_l. Qed.
Print Assumptions C18_ordered_pairs.

(* which links reach link_trekker.data; a request `req` is given by the list of parent classes of each of its children *)
Theorem C18_used_links : forall mro eff req l,
  In l (used_links mro eff req) <->
  exists ps a b, In ps req /\ In (a, b) (ordered_pairs ps) /\ In l (find_matching mro eff a b).
Proof. exact used_links_in. Qed.
Print Assumptions C18_used_links.

(* the back-stop raises iff two keys have the same ORDERED (left class, right class) pair and different join types ... *)
Theorem C18_backstop_spec : forall keys,
  backstop keys = true <-> exists i j, In i keys /\ In j keys /\ lfg i = lfg j /\ rfg i = rfg j /\ jt i <> jt j.
Proof. exact backstop_spec_l. Qed.
Print Assumptions C18_backstop_spec.

(* ... i.e. it decides exactly the second rule of LinkValidator on the used links ... *)
Theorem C18_backstop_is_conflicting_jt : forall keys, backstop keys = any_pair conflicting_jt keys.
Proof. exact backstop_any_pair_l. Qed.
Print Assumptions C18_backstop_is_conflicting_jt.

(* ... for every iteration order of the dict, and whether or not a link occurs under several framework pairs *)
Theorem C18_backstop_order_independent : forall keys keys',
  (forall x, In x keys <-> In x keys') -> backstop keys = backstop keys'.
Proof. exact backstop_set_l. Qed.
Print Assumptions C18_backstop_order_independent.

Theorem C18_backstop_perm : forall keys keys', Permutation keys keys' -> backstop keys = backstop keys'.
Proof. exact backstop_perm_l. Qed.
Print Assumptions C18_backstop_perm.

(* prepare refuses a link set exactly when the API part is contradictory or two USED links conflict in their join type *)
Theorem C18_prepare_rejects : forall mro g a ps,
  rejected (link_verdict mro g a ps) = true <->
  validate_rejects g = true \/
  exists i j, In i (used_links mro (eff_links g a) ps) /\ In j (used_links mro (eff_links g a) ps) /\
              lfg i = lfg j /\ rfg i = rfg j /\ jt i <> jt j.
Proof. exact link_verdict_rejected_l. Qed.
Print Assumptions C18_prepare_rejects.

(* the verdict (and its class) does not depend on the iteration order of the link sets, of the parents or of the dict *)
Theorem C18_prepare_order_independent : forall mro g g' a ps ps' eff keys,
  Permutation g g' -> req_le ps ps' -> req_le ps' ps ->
  (forall x, In x eff <-> In x g \/ In x a) ->
  (forall x, In x keys <-> In x (used_links mro eff ps')) ->
  verdict_of g' keys = link_verdict mro g a ps.
Proof. exact link_verdict_order_l. Qed.
Print Assumptions C18_prepare_order_independent.

(* FULL STATEMENT (refuted on the faithful model, see the three C18_attached_*_refuted):
     forall mro g a ps, validate_rejects (g ++ a) = true -> rejected (link_verdict mro g a ps) = true
   ("a contradictory link set is rejected before execution, whichever way its links arrive").
   PROVED: (1) all contradicting links given through the API: always; (2) two join types for one ordered pair: as soon as
   one of the two links is used for a join of the request (exact or polymorphic), whichever way the two arrived; (3) the
   full statement outside the domain kf_attached, which consists only of pairs with an attached link that are double
   joins, right-join constraints, or join-type conflicts between two unused links (C18_kf_attached_narrow). *)
Theorem C18_global_rejected : forall mro g a ps, validate_rejects g = true -> rejected (link_verdict mro g a ps) = true.
Proof. exact global_rejected_l. Qed.
Print Assumptions C18_global_rejected.

Theorem C18_conflicting_used_rejected : forall mro g a ps i j,
  In i (g ++ a) -> In j (g ++ a) -> lfg i = lfg j -> rfg i = rfg j -> jt i <> jt j ->
  In i (used_links mro (eff_links g a) ps) ->
  rejected (link_verdict mro g a ps) = true.
Proof. exact conflicting_used_rejected_l. Qed.
Print Assumptions C18_conflicting_used_rejected.

Theorem C18_conflicting_exact_rejected : forall mro g a req ps i j,
  In i (g ++ a) -> In j (g ++ a) -> lfg i = lfg j -> rfg i = rfg j -> jt i <> jt j ->
  In ps req -> In (lfg i, rfg i) (ordered_pairs ps) ->
  rejected (link_verdict mro g a req) = true.
Proof. exact conflicting_exact_rejected_l. Qed.
Print Assumptions C18_conflicting_exact_rejected.

Theorem C18_contradictory_rejected_partial : forall mro g a ps,
  validate_rejects (g ++ a) = true -> kf_attached mro g a ps = false -> rejected (link_verdict mro g a ps) = true.
Proof. exact contradictory_rejected_partial_l. Qed.
Print Assumptions C18_contradictory_rejected_partial.

Theorem C18_kf_attached_passes : forall mro g a ps, kf_attached mro g a ps = true -> link_verdict mro g a ps = Passed.
Proof. exact kf_attached_passes_l. Qed.
Print Assumptions C18_kf_attached_passes.

Theorem C18_kf_attached_narrow : forall mro g a ps, kf_attached mro g a ps = true ->
  exists i j, In i (g ++ a) /\ In j (g ++ a) /\ ~ (In i g /\ In j g) /\
    (double_join i j = true \/ right_conflict i j = true \/
     (conflicting_jt i j = true /\ ~ In i (used_links mro (eff_links g a) ps) /\ ~ In j (used_links mro (eff_links g a) ps))).
Proof. exact kf_attached_narrow_l. Qed.
Print Assumptions C18_kf_attached_narrow.

(* witnesses (known finding C18-attached-links-unvalidated): contradictory sets nothing refuses *)
Theorem C18_attached_double_join_refuted :
  validate_rejects ([mk LEFT 0 1] ++ [mk INNER 1 0]) = true /\
  link_verdict flat_mro [mk LEFT 0 1] [mk INNER 1 0] [[0; 1]]%nat = Passed /\
  used_links flat_mro (eff_links [mk LEFT 0 1] [mk INNER 1 0]) [[0; 1]]%nat = [mk LEFT 0 1; mk INNER 1 0].
Proof. exact attached_double_join_refuted_l. Qed.
Print Assumptions C18_attached_double_join_refuted.

Theorem C18_attached_right_constraint_refuted :
  validate_rejects ([mk RIGHT 0 1] ++ [mk LEFT 0 2]) = true /\
  link_verdict flat_mro [mk RIGHT 0 1] [mk LEFT 0 2] [[0; 1; 2]]%nat = Passed /\
  used_links flat_mro (eff_links [mk RIGHT 0 1] [mk LEFT 0 2]) [[0; 1; 2]]%nat = [mk RIGHT 0 1; mk LEFT 0 2].
Proof. exact attached_right_constraint_refuted_l. Qed.
Print Assumptions C18_attached_right_constraint_refuted.

Theorem C18_attached_unused_conflict_refuted :
  validate_rejects ([mk INNER 0 2] ++ [mk LEFT 0 2]) = true /\
  link_verdict flat_mro [mk INNER 0 2] [mk LEFT 0 2] [[0; 1]]%nat = Passed /\
  used_links flat_mro (eff_links [mk INNER 0 2] [mk LEFT 0 2]) [[0; 1]]%nat = [].
Proof. exact attached_unused_conflict_refuted_l. Qed.
Print Assumptions C18_attached_unused_conflict_refuted.

(* non-vacuity: LEFT(1,0) through the API + INNER(1,0) attached, the request joins 1 and 0: refused by the back-stop,
   also when the links name the bases (3, 4) of the requested classes; the same two links both through the API: validator;
   in either key order; a symmetric join written from the other side is another ordered pair (not refused) *)
Definition ex_mro2 := mro_of [(0, [0; 4]); (1, [1; 3])]%nat.
Example C18_attached_examples :
  link_verdict flat_mro [mk LEFT 1 0] [mk INNER 1 0] [[1; 0]]%nat = RejBackstop /\
  link_verdict flat_mro [] [mk OUTER 1 0; mk LEFT 1 0] [[0; 1]]%nat = RejBackstop /\
  link_verdict ex_mro2 [mk LEFT 3 4] [mk INNER 3 4] [[1; 0]]%nat = RejBackstop /\
  link_verdict flat_mro [mk LEFT 1 0] [mk INNER 1 0] [[1; 2]; [5; 1; 2; 0]]%nat = RejBackstop /\
  link_verdict flat_mro [mk LEFT 1 0] [mk INNER 1 0] []%nat = Passed /\
  link_verdict flat_mro [mk LEFT 1 0; mk INNER 1 0] [] [[1; 0]]%nat = RejValidator /\
  backstop [mk LEFT 1 0; mk INNER 1 0] = true /\ backstop [mk INNER 1 0; mk LEFT 1 0] = true /\
  backstop [mk INNER 1 0; mk OUTER 0 1] = false /\
  kf_attached flat_mro [mk LEFT 1 0] [mk INNER 1 0] [[1; 0]]%nat = false /\
  kf_attached flat_mro [mk LEFT 0 1] [mk INNER 1 0] [[0; 1]]%nat = true.
Proof. vm_compute. repeat split. Qed.

(* index support follows the prefix rule, for tuples of any length *)
Theorem C18_index_prefix : forall a b, is_a_part_of a b = true <-> exists s, b = a ++ s.
Proof. exact is_a_part_of_prefix_l. Qed.
Print Assumptions C18_index_prefix.

Theorem C18_supports_index : forall l i, supports_index (Some l) i = Some true <-> exists c s, In c l /\ c = i ++ s.
Proof. exact supports_index_true_l. Qed.
Print Assumptions C18_supports_index.

(* non-vacuity: a hierarchy Base(0) <- ChildA(1), ChildB(2); Link(Base,Base) applies to (ChildA,ChildA), not to siblings;
   an exact link beats it *)
Definition ex_mro := mro_of [(0, [0]); (1, [1; 0]); (2, [2; 0])]%nat.
Definition ex_base := {| jt := INNER; lfg := 0%nat; rfg := 0%nat; lidx := ["k"%string]; ridx := ["k"%string] |}.
Definition ex_exact := {| jt := LEFT; lfg := 1%nat; rfg := 1%nat; lidx := ["k"%string]; ridx := ["k"%string] |}.
Example C18_examples :
  find_matching ex_mro [ex_base] 1%nat 1%nat = [ex_base] /\
  find_matching ex_mro [ex_base] 1%nat 2%nat = [] /\
  find_matching ex_mro [ex_base; ex_exact] 1%nat 1%nat = [ex_exact] /\
  (forall l, In l [ex_base; ex_exact] -> asymmetric ex_mro 1%nat 1%nat l = false) /\
  validate_rejects [ex_base; ex_exact] = false /\
  validate_rejects [ex_exact; {| jt := INNER; lfg := 1%nat; rfg := 1%nat; lidx := ["k"%string]; ridx := ["k"%string] |}] = true.
Proof. vm_compute. repeat split; intros l [<-|[<-|[]]]; reflexivity. Qed.
