(* C18 — link sets are validated; the applicable link follows the documented rules; index prefix rule.
   Property theorems only (proofs in Proofs/LinkSelP.v).  All statements hold for every class hierarchy `mro`
   (any function giving the ancestor list of a class), every list of links and every pair of classes. *)
From Coq Require Import List Bool ZArith String Arith Permutation.
Import ListNotations.
Require Import MV.Model.LinkSel MV.Spec.LinkRule MV.Proofs.LinkSelP.
Open Scope Z_scope.

(* FULL STATEMENT (refuted on the faithful model, see C18_rule_refuted):
     forall mro links lf rf l, In l (find_matching mro links lf rf) <-> rule mro links lf rf l.
   PROVED: the same, for link sets containing no link in the `asymmetric` domain for the pair. *)
Theorem C18_link_rule_partial : forall mro links lf rf,
  (forall l, In l links -> asymmetric mro lf rf l = false) ->
  forall l, In l (find_matching mro links lf rf) <-> rule mro links lf rf l.
Proof. exact find_matching_rule_partial_l. Qed.
Print Assumptions C18_link_rule_partial.

Theorem C18_rule_refuted :
  In wit_link (find_matching wit_mro [wit_link] 1%nat 2%nat) /\ ~ rule wit_mro [wit_link] 1%nat 2%nat wit_link.
Proof. exact asymmetric_refutes_rule_l. Qed.
Print Assumptions C18_rule_refuted.

(* parts of the rule that hold without any guard *)
Theorem C18_exact_priority : forall mro links lf rf l0, In l0 links -> exact lf rf l0 ->
  forall l, In l (find_matching mro links lf rf) <-> In l links /\ exact lf rf l.
Proof. exact exact_priority_l. Qed.
Print Assumptions C18_exact_priority.

Theorem C18_no_sibling_mismatch : forall mro links lf rf l,
  lf <> rf -> lfg l = rfg l -> ~ In l (find_matching mro links lf rf).
Proof. exact no_sibling_mismatch_l. Qed.
Print Assumptions C18_no_sibling_mismatch.

Theorem C18_closest_wins : forall mro links lf rf l l' d d',
  (forall x, In x links -> ~ exact lf rf x) ->
  In l' links -> matches_poly mro l' lf rf = true -> sel_dist mro lf rf l' = Some d' ->
  sel_dist mro lf rf l = Some d -> d' < d -> ~ In l (find_matching mro links lf rf).
Proof. exact closest_wins_l. Qed.
Print Assumptions C18_closest_wins.

Theorem C18_selection_sound : forall mro links lf rf l, In l (find_matching mro links lf rf) ->
  In l links /\ (exact lf rf l \/ matches_poly mro l lf rf = true).
Proof. exact find_matching_sound_l. Qed.
Print Assumptions C18_selection_sound.

(* link-set validation: rejected exactly when two distinct links contradict by one of the three rules, and the
   verdict does not depend on the iteration order of the set *)
Theorem C18_validate_spec : forall ls,
  validate_rejects ls = true <->
  exists i j, In i ls /\ In j ls /\ (double_join i j = true \/ conflicting_jt i j = true \/ right_conflict i j = true).
Proof. exact validate_rejects_spec_l. Qed.
Print Assumptions C18_validate_spec.

Theorem C18_validate_order_independent : forall ls ls', Permutation ls ls' -> validate_rejects ls = validate_rejects ls'.
Proof. exact validate_perm_invariant_l. Qed.
Print Assumptions C18_validate_order_independent.

(* index support follows the prefix rule, for tuples of any length *)
Theorem C18_index_prefix : forall a b, is_a_part_of a b = true <-> exists s, b = a ++ s.
Proof. exact is_a_part_of_prefix_l. Qed.
Print Assumptions C18_index_prefix.

Theorem C18_supports_index : forall l i, supports_index (Some l) i = Some true <-> exists c s, In c l /\ c = i ++ s.
Proof. exact supports_index_true_l. Qed.
Print Assumptions C18_supports_index.

(* non-vacuity: a hierarchy Base(0) <- ChildA(1), ChildB(2); Link(Base,Base) applies to (ChildA,ChildA), not to siblings;
   an exact link beats it *)
Definition ex_mro := mro_of [(0, [0]); (1, [1; 0]); (2, [2; 0])]%nat.
Definition ex_base := {| jt := INNER; lfg := 0%nat; rfg := 0%nat; lidx := ["k"%string]; ridx := ["k"%string] |}.
Definition ex_exact := {| jt := LEFT; lfg := 1%nat; rfg := 1%nat; lidx := ["k"%string]; ridx := ["k"%string] |}.
Example C18_examples :
  find_matching ex_mro [ex_base] 1%nat 1%nat = [ex_base] /\
  find_matching ex_mro [ex_base] 1%nat 2%nat = [] /\
  find_matching ex_mro [ex_base; ex_exact] 1%nat 1%nat = [ex_exact] /\
  (forall l, In l [ex_base; ex_exact] -> asymmetric ex_mro 1%nat 1%nat l = false) /\
  validate_rejects [ex_base; ex_exact] = false /\
  validate_rejects [ex_exact; {| jt := INNER; lfg := 1%nat; rfg := 1%nat; lidx := ["k"%string]; ridx := ["k"%string] |}] = true.
Proof. vm_compute. repeat split; intros l [<-|[<-|[]]]; reflexivity. Qed.
