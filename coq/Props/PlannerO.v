(* PlannerO — the planner with NON-DEFAULT OPTIONS and DECLARED DATA TYPES (one compute framework, no Links, no filter).
   Property theorems only (proofs in Proofs/PlannerO*.v); extends Props/PlannerA.v (strict fragment: default options, no types).

   All statements are for EVERY request / graph of the fragment: any DAG shape, any number of option keys and values, every
   iteration order of every Python set involved (order oracles `ord` inside the planner, `iord` for input_features()).

   Reading guide (Model/PlannerO.v, Spec/PlannerOSpec.v):
     odef / oin / oreq        feature definitions (name -> group, framework, declared input Feature objects with their own options
                              and declared type) and requested Feature objects (group / context options, propagated keys, type)
     collect iord defs rq     Engine.setup_features_recursion: the stored features (rnode: Feature, flag, input Features), or
                              the error code (3 option conflict, 4 validator, 5 TypeError, 6 duplicate request)
     input_of defs f i        what Features.__init__ makes of the declared input i of the stored feature f: child_options := f's
                              options, own options merged with them (Model/Options.v o_merge = Features.merge_options, tied to the
                              source text by Props/SrcTie.v)
     feq                      Feature.__eq__ (Model/Identity.v feat_eq)
     inst defs rq f           f is an option instance of the request: requested, or input_of an instance
     request_graph_O          the labelled graph: node k = k-th key of feature_link_parents; okb = class of (group options,
                              frameworks) under == , oty = declared type
     ograph / base g          labelled graph / its PlannerA graph (parent, anc, graph_ok, strict, graph_equiv: Spec/PlannerASpec.v)
     split_queue ord g        (feature group, features of one split) - the groups of
                              group_features_by_compute_framework_and_options (Model/Grouping.v group_items) in plan order
     plan_O ord g / prepare_O the plan / Planned p | RejectedCycle | RejectedIncomplete | OutsideFragment
     same_split, share_step, agree     Spec/PlannerOSpec.v;  agreeb: equal (options, frameworks) class and equal declared type, an
                              undeclared type agreeing with any (Spec/GroupingSpec.v, the text of C15)
     kf_ambiguous_O g         known-defect domain C15-untyped-joins-first-typed-group lifted to graphs: in some feature group an
                              untyped feature is compatible with typed features of two different types *)
From Coq Require Import List Bool Arith Lia Permutation String ZArith.
Import ListNotations.
Require Import MV.Model.Orch MV.Model.OrchCheck MV.Model.Options MV.Model.Identity MV.Model.Grouping MV.Model.PlannerA MV.Model.PlannerO.
Require Import MV.Spec.OptionsSpec MV.Spec.GroupingSpec MV.Spec.PlannerASpec MV.Spec.PlannerOSpec.
Require Import MV.Proofs.OrchP MV.Proofs.OrchTermP MV.Proofs.PlanSimP MV.Proofs.PlannerAP MV.Proofs.PlannerALevels.
Require Import MV.Proofs.PlannerOGroup MV.Proofs.PlannerOP MV.Proofs.PlannerODet MV.Proofs.PlannerOLabel MV.Proofs.PlannerOReq MV.Proofs.PlannerOEnd.
Open Scope list_scope.
Open Scope nat_scope.

(* ================= (a) conservative extension of PlannerA ================= *)
(* default options everywhere, no declared type: exactly PlannerA's plan and outcome (as terms, not only up to equivalence) *)
Theorem PlannerO_conservative_plan : forall ord g, plan_O ord (lift g) = plan_of ord g.
Proof. exact lift_plan. Qed.
Print Assumptions PlannerO_conservative_plan.

Theorem PlannerO_conservative : forall ord g, prepare_O ord (lift g) = prepare_A ord g.
Proof. exact lift_prepare. Qed.
Print Assumptions PlannerO_conservative.

(* ================= (b) which features share a step ================= *)
(* group_features_by_compute_framework_and_options computes a PARTITION, for every iteration order *)
Theorem PlannerO_grouping_partition : forall its, Permutation (List.concat (group_items its)) its.
Proof. exact group_items_perm. Qed.
Print Assumptions PlannerO_grouping_partition.

(* every feature (option instance) of the graph is produced by EXACTLY ONE step *)
Theorem PlannerO_plan_uuids : forall ord g, ord_ok ord -> graph_ok (base g) -> Permutation (all_uuids (plan_O ord g)) (ids (base g)).
Proof. exact plan_uuids_O. Qed.
Print Assumptions PlannerO_plan_uuids.

(* distinct step ids; non-empty, pairwise disjoint produced sets covering exactly the features; every requirement is produced;
   a step requires exactly the proper ancestors of ITS features (no cross-talk between the steps of different option groups) *)
Theorem PlannerO_plan_facts : forall ord g, ord_ok ord -> graph_ok (base g) ->
  NoDup (map sid (plan_O ord g)) /\
  (forall s, In s (plan_O ord g) -> uuids s <> [] /\ skind s = KFG) /\
  NoDup (all_uuids (plan_O ord g)) /\
  (forall u, In u (all_uuids (plan_O ord g)) <-> In u (ids (base g))) /\
  (forall s a, In s (plan_O ord g) -> In a (req s) -> In a (all_uuids (plan_O ord g))) /\
  (forall s a, In s (plan_O ord g) -> (In a (req s) <-> exists u, In u (uuids s) /\ anc (base g) a u)).
Proof. exact plan_facts_O. Qed.
Print Assumptions PlannerO_plan_facts.

(* FULL STRENGTH, every oracle: two features of one step belong to one feature group, have equal (group options, frameworks)
   and - if both declare a type - the same type *)
Theorem PlannerO_share_step_sound : forall ord g, ord_ok ord -> graph_ok (base g) ->
  forall u v, share_step (plan_O ord g) u v ->
  grp_of (base g) u = grp_of (base g) v /\ kb_of g u = kb_of g v /\
  (forall a b, ty_of g u = Some a -> ty_of g v = Some b -> a = b).
Proof. exact share_step_sound. Qed.
Print Assumptions PlannerO_share_step_sound.

(* the steps are the dependency levels of the splits: features of one step lie in one split, and inside a split an ancestor
   is computed by a DIFFERENT, EARLIER step which the descendant's step requires *)
Theorem PlannerO_share_step_same_split : forall ord g, ord_ok ord -> graph_ok (base g) ->
  forall u v, share_step (plan_O ord g) u v -> same_split ord g u v.
Proof. exact share_step_same_split. Qed.
Print Assumptions PlannerO_share_step_same_split.

Theorem PlannerO_levels_sound : forall ord g, ord_ok ord -> graph_ok (base g) ->
  forall e a f, In e (split_queue ord g) -> In a (snd e) -> In f (snd e) -> anc (base g) a f ->
  exists i j sa sf, i < j /\ nth_error (plan_O ord g) i = Some sa /\ nth_error (plan_O ord g) j = Some sf /\
                    In a (uuids sa) /\ In f (uuids sf) /\ In a (req sf) /\ ~ In f (uuids sa).
Proof. exact levels_sound_O. Qed.
Print Assumptions PlannerO_levels_sound.

Theorem PlannerO_fallback_unreachable : forall ord g, ord_ok ord -> graph_ok (base g) -> fallback_used_O ord g = false.
Proof. exact fallback_unreachable_O. Qed.
Print Assumptions PlannerO_fallback_unreachable.

(* FULL STATEMENT (the property text): two features are in the same split EXACTLY when they belong to one feature group and
   (group options, frameworks, declared type) agree, an undeclared type agreeing with any:
     forall ord g, ord_ok ord -> graph_ok (base g) -> forall u v, In u (ids (base g)) -> In v (ids (base g)) ->
       (same_split ord g u v <-> agree g u v).
   REFUTED on the faithful model inside kf_ambiguous_O (known finding C15-untyped-joins-first-typed-group, reproduced by the real
   planner on the witness request of harness/planner_o.py `typed_ambiguous`); PROVED outside. *)
Theorem PlannerO_same_split_iff_partial : forall ord g, ord_ok ord -> graph_ok (base g) -> kf_ambiguous_O g = false ->
  forall u v, In u (ids (base g)) -> In v (ids (base g)) -> (same_split ord g u v <-> agree g u v).
Proof. exact same_split_iff_kf. Qed.
Print Assumptions PlannerO_same_split_iff_partial.

(* root a (0); one feature group with f1 : type 1 (1), f2 : type 3 (2), f3 untyped (3) on equal options.  Two oracles (the
   set of the group's features iterated in two orders) give two plans that are NOT equivalent; f3 agrees with f1 and with f2,
   which do not agree with each other; f3 shares a step with whichever comes first *)
Theorem PlannerO_share_iff_refuted :
  graph_ok (base g_amb) /\ strict (base g_amb) /\ ord_ok ord_id /\ ord_ok ord_rev0 /\ kf_ambiguous_O g_amb = true /\
  map uuids (plan_O ord_id g_amb) = [[0]; [1; 3]; [2]] /\ map uuids (plan_O ord_rev0 g_amb) = [[0]; [2; 3]; [1]] /\
  ~ plan_equiv (plan_O ord_id g_amb) (plan_O ord_rev0 g_amb) /\
  (exists p, prepare_O ord_id g_amb = Planned p) /\ (exists p, prepare_O ord_rev0 g_amb = Planned p) /\
  ~ agree g_amb 1 2 /\ agree g_amb 3 1 /\ agree g_amb 3 2 /\
  share_step (plan_O ord_id g_amb) 3 1 /\ ~ share_step (plan_O ord_id g_amb) 3 2.
Proof. exact amb_two_plans. Qed.
Print Assumptions PlannerO_share_iff_refuted.

(* the labels okb of a graph built from Feature objects are the classes of EQUAL (group options, frameworks): node k carries
   the index of the first node whose (options, frameworks) are == (hashable options; C15_grouping_by_equality) *)
Theorem PlannerO_labels_are_equality_classes : forall xs, hashable_request (gfeats xs) ->
  forall k x, nth_error xs k = Some x ->
  exists n, nth_error (label_graph xs) k = Some n /\ fid (on n) = k /\ okb n = eq_class (gfeats xs) (gfeat_of k x) /\ oty n = f_dtype (xf x).
Proof. exact label_is_eq_class. Qed.
Print Assumptions PlannerO_labels_are_equality_classes.

(* CONTEXT options never split (or join) anything: changing the context options of any features of the graph leaves the plan
   and the outcome as they are (C15_context_never_splits lifted to plans) *)
Theorem PlannerO_context_never_splits : forall xs xs' ord, Forall2 same_but_context_x xs xs' ->
  plan_O ord (label_graph xs) = plan_O ord (label_graph xs') /\ prepare_O ord (label_graph xs) = prepare_O ord (label_graph xs').
Proof. exact context_never_splits_O. Qed.
Print Assumptions PlannerO_context_never_splits.

(* ================= (c) a step requires the ancestor closure of ITS instances ================= *)
(* T3's req_covers is a theorem on the fragment *)
Theorem PlannerO_plan_req_covers : forall ord g, ord_ok ord -> graph_ok (base g) -> req_covers (plan_O ord g) (adj_of (base g)) = true.
Proof. exact plan_req_covers_O. Qed.
Print Assumptions PlannerO_plan_req_covers.

(* the graph of an accepted request, for every iteration order of input_features(): every stored feature is CLOSED - its parents
   are exactly the features made of ITS declared inputs by merging THEIR options with ITS options (an instance under option value v
   depends only on instances under the propagated options: the edge of a duplicate input goes to the stored EQUAL feature, never
   to a same-named feature of another option group), and each parent is stored; every stored feature is an option instance of the
   request and descends from a requested feature; no two stored features are equal; the request flag is on exactly the requested *)
Theorem PlannerO_request_closure : forall iord defs rq st, iord_ok iord -> decl_ok defs rq -> collect iord defs rq = inl st ->
  let fs := map (req_feat defs) rq in
  (forall r, In r st -> closed1 defs st r) /\
  (forall r, In r st -> inst defs fs (rf r)) /\
  (forall r, In r st -> exists f, In f fs /\ desc st f r) /\
  nodup_feq (map rf st) /\
  (forall f, In f fs -> exists r, In r st /\ rf r = f /\ rreq r = true) /\
  (forall r, In r st -> rreq r = true -> In (rf r) fs) /\
  (forall r, In r st -> fgood (rf r)).
Proof. exact collect_spec. Qed.
Print Assumptions PlannerO_request_closure.

(* a feature with well-formed options equals itself (what makes the stored-feature lookup total) *)
Theorem PlannerO_feature_eq_refl : forall f, fgood f -> feq f f = true.
Proof. exact feq_refl. Qed.
Print Assumptions PlannerO_feature_eq_refl.

(* a rejection while the graph is built is the duplicate-request error or the failing merge (option conflict / validator /
   TypeError) of a declared input of an option instance of the request; never "recursion depth", never an undefined name *)
Theorem PlannerO_request_error_cases : forall iord defs rq e, iord_ok iord -> odefs_ok defs rq -> collect iord defs rq = inr e ->
  let fs := map (req_feat defs) rq in
  (e = 6 /\ has_dup fs = true) \/
  ((e = 3 \/ e = 4 \/ e = 5) /\
   exists g d i, inst defs fs g /\ odef_of defs (f_name g) = Some d /\ In i (od_ins d) /\ input_of defs g i = inr e).
Proof. exact collect_error_cases. Qed.
Print Assumptions PlannerO_request_error_cases.

(* FULL STATEMENT: the error class of a rejected request does not depend on the iteration order of input_features():
     forall iord iord' defs rq e e', iord_ok iord -> iord_ok iord' -> collect iord defs rq = inr e -> collect iord' defs rq = inr e' -> e = e'.
   REFUTED on the faithful model and on the real planner (known finding C04-nondet-option-error-reported; witness `two_errors` of
   harness/planner_o.py: ValueError "Duplicate key ... conflicting values" under one hash seed, ValueError "Cannot update group: keys
   already exist in context" under another).  Both are rejections. *)
Theorem PlannerO_error_class_refuted :
  odefs_ok exO_defs_two exO_rq1 /\ decl_ok exO_defs_two exO_rq1 /\ one_cfw exO_defs_two /\ iord_ok iord_id /\ iord_ok iord_rev /\
  collect iord_id exO_defs_two exO_rq1 = inr 3 /\ collect iord_rev exO_defs_two exO_rq1 = inr 4.
Proof. exact exO_two_errors_l. Qed.
Print Assumptions PlannerO_error_class_refuted.

(* ================= (d) well-formedness, acceptance, termination ================= *)
Theorem PlannerO_plan_struct : forall ord g, ord_ok ord -> graph_ok (base g) ->
  wf_struct (plan_O ord g) = true /\ no_self_req (plan_O ord g) = true.
Proof. intros ord g H1 H2. split; [exact (plan_struct_O ord g H1 H2) | exact (plan_no_self_req_O ord g H1 H2)]. Qed.
Print Assumptions PlannerO_plan_struct.

(* no transform step, the produced-check passes: Planned or the cycle error, decided by the run simulation alone *)
Theorem PlannerO_prepare_outcome : forall ord g, ord_ok ord -> graph_ok (base g) -> strict (base g) ->
  prepare_O ord g = if runsim_accepts (plan_O ord g) then Planned (plan_O ord g) else RejectedCycle.
Proof. exact prepare_outcome_O. Qed.
Print Assumptions PlannerO_prepare_outcome.

(* accepted EXACTLY when the plan is well formed for some order (PlannerA_plan_accepted_wf_iff applies: wf_struct holds) *)
Theorem PlannerO_prepare_accepts_iff : forall ord g, ord_ok ord -> graph_ok (base g) -> strict (base g) ->
  (prepare_O ord g = Planned (plan_O ord g) <-> exists order, wf_plan order (plan_O ord g) = true).
Proof. exact prepare_accepts_iff_O. Qed.
Print Assumptions PlannerO_prepare_accepts_iff.

Theorem PlannerO_plan_wf : forall ord g p, ord_ok ord -> graph_ok (base g) -> strict (base g) -> prepare_O ord g = Planned p ->
  exists order, wf_plan order p = true.
Proof. exact plan_wf_O. Qed.
Print Assumptions PlannerO_plan_wf.

Theorem PlannerO_features_after_ancestors : forall ord g, ord_ok ord -> graph_ok (base g) ->
  forall stream inline fails es i fs ds,
  In (i, (fs, ds)) (started (run stream inline fails (plan_O ord g) es)) ->
  exists s, In s (plan_O ord g) /\ sid s = i /\
    forall f a, In f (uuids s) -> anc (base g) a f ->
      In a fs /\ exists s', In s' (plan_O ord g) /\ In a (uuids s') /\ In (sid s') ds.
Proof. exact features_after_ancestors_O. Qed.
Print Assumptions PlannerO_features_after_ancestors.

Theorem PlannerO_graph_terminates : forall ord g p, ord_ok ord -> graph_ok (base g) -> strict (base g) -> g <> [] ->
  prepare_O ord g = Planned p ->
  forall stream, exists n, n <= 2 * List.length p + 1 /\
    loop_head p (run stream true (fun _ => false) p (repeat EScan n)) = ExitNormal.
Proof. exact graph_terminates_O. Qed.
Print Assumptions PlannerO_graph_terminates.

(* requests: the graph of EVERY accepted request of the fragment is finite, acyclic, one-framework: every graph-level theorem of
   this file applies to it *)
Theorem PlannerO_request_graph_ok : forall iord defs rq g, iord_ok iord -> decl_ok defs rq -> odefs_ok defs rq -> one_cfw defs ->
  request_graph_O iord defs rq = inl g -> graph_ok (base g) /\ strict (base g).
Proof. exact request_graph_ok_O. Qed.
Print Assumptions PlannerO_request_graph_ok.

(* every request is decided: planned, the cycle error (steps of two splits requiring each other), or an error of the graph stage;
   never the incomplete-plan error, never a transform step *)
Theorem PlannerO_requests_decided : forall iord ord defs rq, iord_ok iord -> ord_ok ord -> decl_ok defs rq -> odefs_ok defs rq -> one_cfw defs ->
  (exists g, request_graph_O iord defs rq = inl g /\ graph_ok (base g) /\ strict (base g) /\
             (prepare_request iord ord defs rq = OPlanned (plan_O ord g) \/ prepare_request iord ord defs rq = ORejected 2)) \/
  (exists e, request_graph_O iord defs rq = inr e /\ prepare_request iord ord defs rq = ORejected e /\ (e = 3 \/ e = 4 \/ e = 5 \/ e = 6)).
Proof. exact requests_decided_O. Qed.
Print Assumptions PlannerO_requests_decided.

(* EVERY accepted request: well formed, the SYNC run exits normally within 2n+1 iterations, C01's start_requires in terms of the
   instance graph *)
Theorem PlannerO_requests_terminate : forall iord ord defs rq g p, iord_ok iord -> ord_ok ord -> decl_ok defs rq -> odefs_ok defs rq ->
  one_cfw defs -> rq <> [] -> request_graph_O iord defs rq = inl g -> prepare_O ord g = Planned p ->
  p = plan_O ord g /\
  (exists order, wf_plan order p = true) /\
  (forall stream, exists n, n <= 2 * List.length p + 1 /\
     loop_head p (run stream true (fun _ => false) p (repeat EScan n)) = ExitNormal) /\
  (forall stream inline fails es i fs ds,
     In (i, (fs, ds)) (started (run stream inline fails p es)) ->
     exists s, In s p /\ sid s = i /\
       forall f a, In f (uuids s) -> anc (base g) a f ->
         In a fs /\ exists s', In s' p /\ In a (uuids s') /\ In (sid s') ds).
Proof. exact requests_terminate_O. Qed.
Print Assumptions PlannerO_requests_terminate.

(* ================= (e) determinism ================= *)
(* FULL STATEMENT: for every two oracles and every two presentations of the graph the plans are equivalent (same steps up to
   step order, numbering and the order inside get_uuids() / required_uuids) and the decision is the same:
     forall ord ord' g g', ord_ok ord -> ord_ok ord' -> graph_ok (base g) -> graph_equiv_O g g' -> plan_equiv (plan_O ord g) (plan_O ord' g').
   REFUTED inside kf_ambiguous_O (PlannerO_share_iff_refuted: two oracles, two non-equivalent plans on one graph - the planner-level
   form of C15-untyped-joins-first-typed-group, class `steps` of C04); PROVED outside. *)
Theorem PlannerO_plan_deterministic_partial : forall ord ord' g g', ord_ok ord -> ord_ok ord' -> graph_ok (base g) ->
  graph_equiv_O g g' -> kf_ambiguous_O g = false -> plan_equiv (plan_O ord g) (plan_O ord' g').
Proof. exact plan_deterministic_O. Qed.
Print Assumptions PlannerO_plan_deterministic_partial.

Theorem PlannerO_prepare_deterministic_partial : forall ord ord' g g', ord_ok ord -> ord_ok ord' -> graph_ok (base g) -> strict (base g) ->
  graph_equiv_O g g' -> kf_ambiguous_O g = false ->
  (prepare_O ord g = Planned (plan_O ord g) <-> prepare_O ord' g' = Planned (plan_O ord' g')) /\
  (prepare_O ord g = RejectedCycle <-> prepare_O ord' g' = RejectedCycle) /\
  plan_equiv (plan_O ord g) (plan_O ord' g').
Proof. exact prepare_deterministic_O. Qed.
Print Assumptions PlannerO_prepare_deterministic_partial.

(* a generic way to show two plans equivalent (used for the theorem above; usable on exported plans) *)
Theorem PlannerO_match_plan_equiv : forall p p',
  (forall s, In s p -> uuids s <> []) -> (forall s, In s p' -> uuids s <> []) ->
  NoDup (all_uuids p) -> NoDup (all_uuids p') ->
  (forall u, In u (all_uuids p') -> In u (all_uuids p)) ->
  (forall s, In s p -> exists s', In s' p' /\ step_equiv s s') -> plan_equiv p p'.
Proof. exact match_plan_equiv. Qed.
Print Assumptions PlannerO_match_plan_equiv.

(* ================= decidable hypotheses (evaluated by the harness on every observed request) ================= *)
Theorem PlannerO_odefs_okb_sound : forall defs rq, odefs_okb defs rq = true -> odefs_ok defs rq.
Proof. exact odefs_okb_sound. Qed.
Print Assumptions PlannerO_odefs_okb_sound.
Theorem PlannerO_decl_okb_sound : forall defs rq, decl_okb defs rq = true -> decl_ok defs rq.
Proof. exact decl_okb_sound. Qed.
Print Assumptions PlannerO_decl_okb_sound.
Theorem PlannerO_one_cfwb_sound : forall defs, one_cfwb defs = true -> one_cfw defs.
Proof. exact one_cfwb_sound. Qed.
Print Assumptions PlannerO_one_cfwb_sound.

(* ================= examples: the hypotheses are satisfiable, a non-trivial request ================= *)
(* root a; D1 = {base <- a}; D2 = {p <- base}; D3 = {t <- base}; D4 = {top <- p{k2: 5}, t};
   requested top{k1: 2}, top{k1: 3}, t{k1: 2}  (Proofs/PlannerOEnd.v) *)
Example PlannerO_ex_hypotheses : odefs_ok exO_defs exO_rq /\ decl_ok exO_defs exO_rq /\ one_cfw exO_defs /\ iord_ok iord_id.
Proof. exact exO_hyps. Qed.

(* 15 nodes in creation order: 0 top{k1:2}, 1 p{k2:5,k1:2}, 2 base{k2:5,k1:2}, 3 a{k2:5,k1:2}, 4 t{k1:2}, 5 base{k1:2}, 6 a{k1:2};
   7..13 the same under k1:3; 14 the REQUESTED t{k1:2}, whose input base{k1:2} is the stored node 5 (de-duplication by ==).
   14 steps: every (name, group options) instance has its own step; the two t{k1:2} nodes share one. *)
Example PlannerO_ex_plan :
  match request_graph_O iord_id exO_defs exO_rq with
  | inl g => List.length g = 15 /\ kf_ambiguous_O g = false /\
             map uuids (plan_O ord_id g) = [[3]; [6]; [10]; [13]; [2]; [5]; [9]; [12]; [1]; [8]; [0]; [7]; [4; 14]; [11]] /\
             map fins (base g) = [[1; 4]; [2]; [3]; []; [5]; [6]; []; [8; 11]; [9]; [10]; []; [12]; [13]; []; [5]] /\
             (exists p, prepare_O ord_id g = Planned p) /\ req_covers (plan_O ord_id g) (adj_of (base g)) = true
  | inr _ => False
  end.
Proof. exact exO_plan_l. Qed.

(* a conflicting value on an input edge is rejected at prepare (code 3); protected by the input's own
   feature_chainer_parser_key it is accepted *)
Example PlannerO_ex_conflict :
  code_of (prepare_request iord_id ord_id exO_defs_conflict exO_rq1) = 3 /\
  code_of (prepare_request iord_id ord_id exO_defs_protected exO_rq1) = 0.
Proof. exact exO_conflict_l. Qed.
