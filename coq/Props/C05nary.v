(* C05nary -- "for associative join sets the result does not depend on the order the planner picks", for INNER-join
   trees over ANY number of tables and EVERY execution plan (order of the links x orientation of every application).
   Property theorems only (definitions: Spec/RelNary.v, proofs: Proofs/RelNaryP.v).  No size bounds anywhere.

   The blockage recorded in C05alg.v (rel_join is not a congruence for bag_eq: a row binding x to null is row_equiv to a
   row not binding x but shadows x of the right operand) is removed by a decidable premise that real tables satisfy
   (Arrow / pandas / list-of-dict tables have one schema):
     uniform cs T            every row of T binds exactly the column list cs (values may be null)
   Premises of the tree theorem (nary_ok css sides ts ls, all boolean; Spec/RelNary.v):
     tables_uniform          table i is uniform with schema css[i]
     link_ok                 every link is INNER, joins existing tables, its key columns are in the schemas of its tables
     tree (cut_ok)           |ls| + 1 = |ts| and for every link k the set sides(k) contains the link's first table, not
                             its second one, and no other link leaves it (=> the links form a tree; sides(k) is computed
                             by side_of, the theorem holds for ANY function passing the check)
     overlap (cut_ok)        a column name bound on both sides of the cut of link k is a key column of link k at one and
                             the same key position (the n-ary overlap_free)
   nary_premises ts ls = nary_ok with css read off the first rows (schema_of) and the computed cuts: the boolean
   harness/c05.py evaluates on every generated inner tree.

   run_plan ts ls p         executes plan p = [(link position, flip)...] with apply_link / rel_join: each application joins
                            the two current components containing the link's tables, LEFT operand = the component of the
                            link's first table (flip: of its second table, key lists exchanged)
   join_in_order ts ls o    the function the harness evaluates (all flips false)
   all_matches ts ls        the canonical comprehension: all tuples (one row per table) satisfying every link's SQL key
                            equality, mapped to the union of their rows *)
From Coq Require Import List Bool ZArith String Permutation.
Import ListNotations.
Require Import MV.Spec.Rel MV.Proofs.RelLemmas MV.Proofs.RelAssocP MV.Spec.RelNary MV.Proofs.RelNaryP.
Open Scope string_scope.
Open Scope list_scope.

(* 1. the inner join of uniform tables is uniform, with schema  csL ++ (csR without the names of csL) *)
Theorem inner_join_uniform : forall lk rk csL csR L R,
  uniform csL L -> uniform csR R -> uniform (join_schema csL csR) (rel_join JInner lk rk L R).
Proof. exact inner_uniform_l. Qed.
Print Assumptions inner_join_uniform.

(* 2. on a uniform LEFT operand the inner join is a congruence for bag_eq (the right operand may be any table; the two
      left tables may list their columns in different orders) *)
Theorem inner_join_congruence : forall lk rk csL csL' L L' R R',
  uniform csL L -> uniform csL' L' -> (forall c, In c csL <-> In c csL') ->
  bag_eq L L' -> bag_eq R R' ->
  bag_eq (rel_join JInner lk rk L R) (rel_join JInner lk rk L' R').
Proof. exact inner_congruence_l. Qed.
Print Assumptions inner_join_congruence.

(* 3. every plan of the tree succeeds: no link is skipped and the run ends with ONE component holding all tables *)
Theorem nary_plans_succeed : forall css sides ts ls,
  nary_ok css sides ts ls = true ->
  forall p, is_plan ls p ->
  exists S T, run_plan_comps rel_join ts ls p = [(S, T)] /\ Permutation S (seq 0 (List.length ts)).
Proof. exact plan_succeeds_l. Qed.
Print Assumptions nary_plans_succeed.

(* 4. every plan computes the canonical comprehension *)
Theorem nary_plan_all_matches : forall css sides ts ls,
  nary_ok css sides ts ls = true ->
  forall p, is_plan ls p -> bag_eq (run_plan ts ls p) (all_matches ts ls).
Proof. exact run_plan_all_matches_l. Qed.
Print Assumptions nary_plan_all_matches.

(* 5. ORDER INDEPENDENCE: any two plans (link orders and orientations) of an inner-join tree give the same bag *)
Theorem nary_order_independent : forall css sides ts ls,
  nary_ok css sides ts ls = true ->
  forall p1 p2, is_plan ls p1 -> is_plan ls p2 -> bag_eq (run_plan ts ls p1) (run_plan ts ls p2).
Proof. exact nary_order_independent_l. Qed.
Print Assumptions nary_order_independent.

(* 5a. with the boolean the harness evaluates (schemas read off the first rows, computed cuts) *)
Theorem nary_premises_order_independent : forall ts ls,
  nary_premises ts ls = true ->
  forall p1 p2, is_plan ls p1 -> is_plan ls p2 -> bag_eq (run_plan ts ls p1) (run_plan ts ls p2).
Proof. exact nary_premises_order_independent_l. Qed.
Print Assumptions nary_premises_order_independent.

(* 5b. for the function harness/c05.py evaluates (chk_order_independent): all link orders, orientation as written.
       A generated tree with nary_premises = true and chk_order_independent = false would contradict this theorem *)
Theorem join_in_order_independent : forall ts ls,
  nary_premises ts ls = true ->
  forall o1 o2, Permutation o1 (seq 0 (List.length ls)) -> Permutation o2 (seq 0 (List.length ls)) ->
  bag_eq (join_in_order ts ls o1) (join_in_order ts ls o2).
Proof. exact join_in_order_independent_l. Qed.
Print Assumptions join_in_order_independent.

Theorem join_in_order_is_run_plan : forall ts ls o, join_in_order ts ls o = run_plan ts ls (unflipped o).
Proof. exact join_in_order_run_plan. Qed.
Print Assumptions join_in_order_is_run_plan.

(* 6. the three-table statement of C05alg.v (all eight plans of the chain A -k1- B -k2- C) is the instance n = 3
      (under the uniformity premises instead of keys_present; C05alg.inner_tree3_order_independent does not need
      uniformity, this theorem does not need a size) *)
Theorem inner_tree3_is_instance : forall css sides k1a k1b k2a k2b A B C,
  nary_ok css sides [A; B; C] [(JInner, 0, 1, k1a, k1b); (JInner, 1, 2, k2a, k2b)] = true ->
  forall f o1 o2 f' o1' o2',
  bag_eq (chain_plan k1a k1b k2a k2b A B C f o1 o2) (chain_plan k1a k1b k2a k2b A B C f' o1' o2').
Proof. exact tree3_instance_l. Qed.
Print Assumptions inner_tree3_is_instance.

(* 7. the premises are satisfiable on a four-table tree that is neither a chain nor a star
        x_ls:  T0 -k- T1 -j- T2,  T1 -k- T3      (k is shared by T0, T1, T3)
      with duplicate and null keys; all 48 plans (6 link orders x 8 orientations) agree with all_matches; the result has
      eight rows (four of them with a null d) *)
Example nary_example :
  nary_premises x_ts x_ls = true /\
  List.length (all_plans 3) = 48%nat /\
  forallb (fun p => bag_eqb (run_plan x_ts x_ls p) (all_matches x_ts x_ls)) (all_plans 3) = true /\
  bag_eqb (run_plan x_ts x_ls [(0, false); (1, false); (2, false)])
          (run_plan x_ts x_ls [(2, true); (1, true); (0, true)])%nat = true /\
  map canon (run_plan x_ts x_ls [(2, true); (1, true); (0, true)]%nat) =
    [ [("a", VInt 10); ("b", VInt 20); ("c", VInt 30); ("d", VInt 40); ("j", VInt 7); ("k", VInt 1)];
      [("a", VInt 11); ("b", VInt 20); ("c", VInt 30); ("d", VInt 40); ("j", VInt 7); ("k", VInt 1)];
      [("a", VInt 10); ("b", VInt 20); ("c", VInt 30); ("j", VInt 7); ("k", VInt 1)];
      [("a", VInt 11); ("b", VInt 20); ("c", VInt 30); ("j", VInt 7); ("k", VInt 1)];
      [("a", VInt 10); ("b", VInt 20); ("c", VInt 31); ("d", VInt 40); ("j", VInt 7); ("k", VInt 1)];
      [("a", VInt 11); ("b", VInt 20); ("c", VInt 31); ("d", VInt 40); ("j", VInt 7); ("k", VInt 1)];
      [("a", VInt 10); ("b", VInt 20); ("c", VInt 31); ("j", VInt 7); ("k", VInt 1)];
      [("a", VInt 11); ("b", VInt 20); ("c", VInt 31); ("j", VInt 7); ("k", VInt 1)] ]%Z.
Proof. exact nary_example_l. Qed.

(* 8. uniformity is NEEDED.
   (a) congruence: r_L = [k=1, x=null] and r_L' = [k=1] are the same bag, joined with r_R = [k=1, x=5] they are not
       (x shadowed / not shadowed); r_M, r_M' show the same for tables with equal column sets but non-uniform rows *)
Theorem inner_join_congruence_refuted :
  bag_eq r_L r_L' /\ ~ bag_eq (rel_join JInner ["k"] ["k"] r_L r_R) (rel_join JInner ["k"] ["k"] r_L' r_R) /\
  bag_eq r_M r_M' /\ (forall c, mem c (table_cols r_M) = mem c (table_cols r_M')) /\
  ~ bag_eq (rel_join JInner ["k"] ["k"] r_M r_R) (rel_join JInner ["k"] ["k"] r_M' r_R).
Proof. exact inner_congruence_refuted_l. Qed.
Print Assumptions inner_join_congruence_refuted.

(* (b) the tree theorem: trees satisfying every premise except uniformity (no schema list makes table 0 uniform) whose
       plans differ - by the orientation of a single link (rf), and by the link ORDER alone (rg: the function the harness
       evaluates) *)
Theorem nary_order_independent_refuted_without_uniformity :
  (tree_ok (map schema_of rf_ts) (side_of 2 rf_ls) rf_ts rf_ls = true /\
   (forall css, tables_uniform css rf_ts = false) /\
   is_plan rf_ls [(0, false)]%nat /\ is_plan rf_ls [(0, true)]%nat /\
   ~ bag_eq (run_plan rf_ts rf_ls [(0, false)]%nat) (run_plan rf_ts rf_ls [(0, true)]%nat)) /\
  (tree_ok (map schema_of rg_ts) (side_of 3 rg_ls) rg_ts rg_ls = true /\
   (forall css, tables_uniform css rg_ts = false) /\
   ~ bag_eq (join_in_order rg_ts rg_ls [0; 1]%nat) (join_in_order rg_ts rg_ls [1; 0]%nat)).
Proof. exact nary_uniformity_needed_l. Qed.
Print Assumptions nary_order_independent_refuted_without_uniformity.
