(* C16 — name-chained, option-configured and JSON-configured features are equivalent.
   Property theorems only (proofs in Proofs/ChainParserP.v).  Strings are lists of characters of any length. *)
From Coq Require Import List Bool Ascii Arith.
Import ListNotations.
Require Import MV.Model.ChainParser MV.Spec.ChainName MV.Proofs.ChainParserP.
Open Scope list_scope.

(* re.match written out for the family r".*__([\w]+)_<suf>$" meets the contract of the regular expression:
   it finds a decomposition  pre "__" g "_" suf [newline]  whenever there is one, and the one with the longest pre *)
Theorem C16_regex_refines_spec : forall suf name, regex_spec suf name (re_match suf name).
Proof. exact re_match_refines_spec. Qed.
Print Assumptions C16_regex_refines_spec.

Theorem C16_rsplit_refines_spec : forall name, rsplit_spec name (rsplit name).
Proof. exact rsplit_refines_spec. Qed.
Print Assumptions C16_rsplit_refines_spec.

(* render / parse round trip *)
Theorem C16_render_parse_roundtrip : forall suf src op,
  wf_suf suf = true -> wf_src src = true -> wf_op op = true ->
  parse_feature_name [suf] (render src op suf) = Parsed op src.
Proof. exact roundtrip_l. Qed.
Print Assumptions C16_render_parse_roundtrip.
