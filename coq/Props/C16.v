(* C16 — name-chained, option-configured and JSON-configured features are equivalent.
   Property theorems only (proofs in Proofs/ChainParserP.v, Proofs/ChainResolveP.v, Proofs/NotationsP.v).
   Strings are lists of characters of ANY length; chains have ANY depth; universes of groups are arbitrary.      *)
From Coq Require Import List Bool Ascii Arith ZArith String.
Import ListNotations.
Require Import MV.Model.ChainParser MV.Model.ConfigLoader MV.Spec.ChainName MV.Spec.Notations MV.Spec.ConfigSchema.
Require Import MV.Proofs.ChainParserP MV.Proofs.ChainResolveP MV.Proofs.NotationsP.
Require Import MV.Model.ChainSources MV.Proofs.ChainSourcesP.
Open Scope list_scope.

(* ------------------------------------------------------------------------------------------------------------
   1. The parser.  re.match, written out with its backtracking order for r".*__([\w]+)_<suf>$", meets the contract
      of the regular expression: a decomposition  pre "__" g "_" suf [newline]  is found whenever one exists, and
      the one with the longest pre; rsplit("__", 1) splits at the last separator.                                *)
Theorem C16_regex_refines_spec : forall suf name, regex_spec suf name (re_match suf name).
Proof. exact re_match_refines_spec. Qed.
Print Assumptions C16_regex_refines_spec.

Theorem C16_rsplit_refines_spec : forall name, rsplit_spec name (rsplit name).
Proof. exact rsplit_refines_spec. Qed.
Print Assumptions C16_rsplit_refines_spec.

(* render / parse round trip, for strings of any length *)
Theorem C16_render_parse_roundtrip : forall suf src op,
  wf_suf suf = true -> wf_src src = true -> wf_op op = true ->
  parse_feature_name [suf] (render src op suf) = Parsed op src.
Proof. exact roundtrip_l. Qed.
Print Assumptions C16_render_parse_roundtrip.

(* what a successful parse guarantees: non-empty source, a non-empty word as operation, the source is everything
   before the LAST separator, and the name has the shape  pre "__" op "_" suf [newline]  with the longest pre *)
Theorem C16_parse_sound : forall suf name op src, parse_feature_name [suf] name = Parsed op src ->
  src <> [] /\ op <> [] /\ wordb op = true /\
  (exists b, name = src ++ us :: us :: b /\ has_dunder (us :: b) = false) /\
  (exists pre e, shape suf name pre op e /\
                 forall pre' g' e', shape suf name pre' g' e' -> List.length pre' <= List.length pre).
Proof. exact parse_sound. Qed.
Print Assumptions C16_parse_sound.

(* ------------------------------------------------------------------------------------------------------------
   2. Malformed names are not parsed.  Exactly: parse = NoParse iff the name has no shape for any pattern
      (C16_regex_refines_spec, None case); the named classes:                                                    *)
Theorem C16_no_separator_rejected : forall sufs name, has_dunder name = false -> parse_feature_name sufs name = NoParse.
Proof. exact parse_no_separator. Qed.
Print Assumptions C16_no_separator_rejected.

Theorem C16_empty_source_rejected : forall sufs b op src, has_dunder (us :: b) = false ->
  parse_feature_name sufs (us :: us :: b) <> Parsed op src.
Proof. exact empty_source_rejected_l. Qed.
Print Assumptions C16_empty_source_rejected.

Theorem C16_empty_source_raises : forall suf op, wf_suf suf = true -> wf_op op = true ->
  parse_feature_name [suf] (render [] op suf) = PErr.
Proof. exact empty_source_raises_l. Qed.
Print Assumptions C16_empty_source_raises.

Theorem C16_bad_operation_rejected : forall suf src op, wordb suf = true ->
  has_dunder (us :: op ++ us :: suf) = false -> wordb op = false ->
  parse_feature_name [suf] (render src op suf) = NoParse.
Proof. exact bad_operation_rejected_l. Qed.
Print Assumptions C16_bad_operation_rejected.

Theorem C16_wrong_suffix_rejected : forall suf name,
  (forall x e, nlopt e -> name <> x ++ us :: suf ++ e) -> parse_feature_name [suf] name = NoParse.
Proof. exact wrong_suffix_rejected_l. Qed.
Print Assumptions C16_wrong_suffix_rejected.

Theorem C16_newline_rejected : forall suf name, wordb suf = true -> In nl (removelast name) ->
  parse_feature_name [suf] name = NoParse.
Proof. exact newline_rejected_l. Qed.
Print Assumptions C16_newline_rejected.

(* rsplit and the regular expression split a parsed name at the same place EXACTLY when the captured operation does
   not end in "_" (names like a__b___aggr are parsed as operation "b__" of source "a__b_").
   FULL STATEMENT (refuted, see C16_split_disagreement_refuted):
     parse [suf] name = Parsed op src -> exists e, nlopt e /\ name = src ++ "__" ++ op ++ "_" ++ suf ++ e          *)
Theorem C16_split_consistent_partial : forall suf name op src, wf_suf suf = true ->
  parse_feature_name [suf] name = Parsed op src ->
  (last_is_us op = false <-> exists e, nlopt e /\ name = src ++ us :: us :: op ++ us :: suf ++ e).
Proof. exact split_consistent_l. Qed.
Print Assumptions C16_split_consistent_partial.

Theorem C16_split_disagreement_refuted :
  parse_feature_name [lit "aggr"] (lit "a__b___aggr") = Parsed (lit "b__") (lit "a__b_") /\
  lit "a__b___aggr" <> lit "a__b_" ++ us :: us :: lit "b__" ++ us :: lit "aggr".
Proof. split; [vm_compute; reflexivity | vm_compute; discriminate]. Qed.
Print Assumptions C16_split_disagreement_refuted.

(* ------------------------------------------------------------------------------------------------------------
   3. Chains are read left to right: resolving the name of a chain over any well-formed universe of groups peels
      the LAST operation first and reaches the plain source; by induction on the chain length.                   *)
Theorem C16_chain_left_to_right : forall gs ops src,
  universe_ok gs = true -> chain_ok gs ops = true -> wf_atom src = true ->
  resolve_chain gs (S (List.length ops)) (feat (chain_name gs src ops)) = expected_walk ops src.
Proof. exact chain_left_to_right_l. Qed.
Print Assumptions C16_chain_left_to_right.

(* ------------------------------------------------------------------------------------------------------------
   4. in_features spellings                                                                                      *)
Theorem C16_spellings_agree : forall s, s <> [] -> contains comma s = false ->
  get_in_features (PStr s) = Ok [feat s] /\
  get_in_features (PList [PStr s]) = Ok [feat s] /\
  (forall b, get_in_features (PSet b [PStr s]) = Ok [feat s]) /\
  get_in_features (feat s) = Ok [feat s] /\
  get_in_features (PList [feat s]) = Ok [feat s] /\
  (forall b, get_in_features (PSet b [feat s]) = Ok [feat s]).
Proof. exact spellings_agree_l. Qed.
Print Assumptions C16_spellings_agree.

(* ------------------------------------------------------------------------------------------------------------
   5. The three notations of one chain resolve to the same operations in the same order and the same source.
      FULL STATEMENT (refuted on the faithful model for the list / set spellings, see
      C16_unhashable_spelling_refuted): the same for every spelling v0 that Options.get_in_features maps to the source.
      PROVED for the spellings and wrappers that pass the property-mapping validation (good_spelling: str,
      frozenset of str, Feature, frozenset of Feature — see C16_good_spellings).
      Scope of the model: a feature is resolved from its own name and options; the merging of a consumer's options
      into its input features (feature_collection.merge_options, property C15) is not modelled.  In the running
      system that merging makes the nested forms of depth >= 2 additionally need feature_chainer_parser_key on the
      inner levels (known finding C16-nested-options-need-protected-keys, observed end to end);
      C16_any_description_resolves covers descriptions that carry such extra keys.                                *)
Theorem C16_three_notations_agree_partial : forall gs ph ops src in_group wrap v0,
  universe_ok gs = true -> (forall n, has_dunder (ph n) = false /\ ph n <> []) ->
  chain_ok gs ops = true -> forallb (op_ok_cfg gs) ops = true -> ops <> [] ->
  wf_atom src = true -> contains comma src = false ->
  good_wrap wrap -> good_spelling v0 (feat src) ->
  resolve_chain gs (S (List.length ops)) (feat (chain_name gs src ops)) = expected_walk ops src /\
  resolve_chain gs (S (List.length ops)) (opt_chain gs ph in_group wrap v0 (rev ops)) = expected_walk ops src /\
  exists f, load (json_chain gs ph src (rev ops)) = Ok [f] /\
            resolve_chain gs (S (List.length ops)) f = expected_walk ops src.
Proof. exact three_notations_agree_l. Qed.
Print Assumptions C16_three_notations_agree_partial.

(* the same for ANY description: each configured level carries the operation under its group's key and one of the
   good in_features spellings, in the group or in the context options, next to arbitrary further keys that no group
   of the universe reads (e.g. feature_chainer_parser_key, which the running system needs on inner levels — see the
   known finding C16-nested-options-need-protected-keys; merging of options between levels is not part of this model) *)
Theorem C16_any_description_resolves : forall gs rops src f,
  universe_ok gs = true -> has_dunder src = false -> forallb (op_ok_cfg gs) rops = true ->
  describes gs rops src f ->
  resolve_chain gs (S (List.length rops)) f = walk_of rops src.
Proof. exact describes_resolves_l. Qed.
Print Assumptions C16_any_description_resolves.

Theorem C16_good_spellings : forall s n g c,
  (s <> [] -> contains comma s = false -> good_spelling (PStr s) (feat s)) /\
  good_spelling (PSet true [PStr s]) (feat s) /\
  good_spelling (PFeat n g c) (PFeat n g c) /\
  good_spelling (PSet true [PFeat n g c]) (PFeat n g c) /\
  good_wrap (fun f => f) /\ good_wrap (fun f => PSet true [f]).
Proof.
  intros s n g c. repeat split; try (intros; apply good_spelling_str; assumption);
    first [apply good_spelling_frozen_str | apply good_spelling_feat | apply good_spelling_frozen_feat
          | apply good_wrap_id | apply good_wrap_frozen | idtac].
Qed.
Print Assumptions C16_good_spellings.

(* known-defect domain: a list or a set as in_features — get_in_features reads it as the source, but the
   property-mapping validation raises TypeError, so the option notation does not resolve *)
Definition wit_unhashable (v : pv) : pv :=
  PFeat (PStr (lit "x")) [] [(lit "aggregation_type", PStr (lit "sum")); (k_in_features, v)].
Theorem C16_unhashable_spelling_refuted :
  get_in_features (PList [PStr (lit "a")]) = Ok [feat (lit "a")] /\
  resolve_chain [g_aggr; g_mv] 2 (wit_unhashable (PList [PStr (lit "a")])) = WStuck [] (SErr EType) /\
  resolve_chain [g_aggr; g_mv] 2 (wit_unhashable (PSet false [PStr (lit "a")])) = WStuck [] (SErr EType) /\
  resolve_chain [g_aggr; g_mv] 2 (wit_unhashable (PStr (lit "a"))) = expected_walk [(0, lit "sum")] (lit "a").
Proof. vm_compute. repeat split. Qed.
Print Assumptions C16_unhashable_spelling_refuted.

(* ------------------------------------------------------------------------------------------------------------
   6. Malformed configurations.
      FULL STATEMENT (refuted, see the two _refuted theorems): doc_valid j = false -> accepted j = false.
      PROVED: documents that violate the STRUCTURE of the schema (not an array, an item that is neither a string nor
      an object, an unknown key, no name) and items that use a non-empty `options` next to a non-empty
      group_options / context_options are rejected.                                                              *)
Theorem C16_structurally_invalid_rejected_partial : forall j, structure_ok j = false -> accepted j = false.
Proof. exact structurally_invalid_rejected_l. Qed.
Print Assumptions C16_structurally_invalid_rejected_partial.

Theorem C16_exclusive_clash_rejected_partial : forall l x, In x l -> item_structure_ok x = true ->
  item_exclusive_clash x = true -> accepted (JArr l) = false.
Proof. exact exclusive_clash_rejected_l. Qed.
Print Assumptions C16_exclusive_clash_rejected_partial.

(* field types are not enforced: in_features given as an object is read as the set of its keys *)
Definition wit_untyped : json :=
  JArr [JObj [(k_name, JStr (lit "x")); (k_in_features, JObj [(lit "a", JNum 1)]);
              (k_context_options, JObj [(lit "aggregation_type", JStr (lit "sum"))])]].
Theorem C16_schema_invalid_accepted_refuted :
  doc_valid wit_untyped = false /\
  load wit_untyped = Ok [PFeat (PStr (lit "x")) [] [(lit "aggregation_type", PStr (lit "sum"));
                                                    (k_in_features, PSet true [PStr (lit "a")])]].
Proof. vm_compute. split; reflexivity. Qed.
Print Assumptions C16_schema_invalid_accepted_refuted.

(* a non-empty `options` next to an EMPTY group_options is accepted and silently ignored *)
Definition wit_dropped : json :=
  JArr [JObj [(k_name, JStr (lit "f")); (k_options, JObj [(lit "k", JNum 1)]); (k_group_options, JObj [])]].
Theorem C16_options_dropped_refuted :
  doc_valid wit_dropped = false /\ schema_valid wit_dropped = true /\
  load wit_dropped = Ok [PFeat (PStr (lit "f")) [] []].
Proof. vm_compute. repeat split. Qed.
Print Assumptions C16_options_dropped_refuted.

(* ------------------------------------------------------------------------------------------------------------
   7. Sub-columns.  base~i names column i of a multi-column feature `base`.  The default matcher of a root / data group
      tests everything before the FIRST "~" of the requested name, so the producer of `base` claims base~i — and
      every chained name built on it.
      FULL STATEMENT (refuted, see C16_subcolumn_name_ambiguous_refuted): a chained name over the source base~i is
      claimed by the operation's group only, like its option / JSON description.                                  *)
Theorem C16_column_base : forall b rest, contains tilde b = false ->
  column_base (b ++ tilde :: rest) = b /\ column_base b = b.
Proof. intros b rest H; split; [apply column_base_tilde | apply column_base_plain]; exact H. Qed.
Print Assumptions C16_column_base.

Theorem C16_root_claims_every_tilde_name : forall sup b rest, contains tilde b = false ->
  root_claims sup (b ++ tilde :: rest) = existsb (str_eqb b) sup.
Proof. exact root_claims_tilde. Qed.
Print Assumptions C16_root_claims_every_tilde_name.

Theorem C16_subcolumn_name_ambiguous_refuted :
  (* name notation: both the producer of "m" and the aggregation group claim m~1__sum_aggr *)
  root_claims [lit "a"; lit "m"] (lit "m~1__sum_aggr") = true /\
  match_criteria g_aggr (lit "m~1__sum_aggr") [] [] = Ok true /\
  input_features g_aggr (lit "m~1__sum_aggr") [] [] = Ok [feat (lit "m~1")] /\
  (* option notation of the same feature: only the aggregation group *)
  root_claims [lit "a"; lit "m"] (lit "x") = false /\
  resolve_step [g_aggr; g_mv] (wit_unhashable (PStr (lit "m~1"))) = SOne 0 (PStr (lit "sum")) [feat (lit "m~1")].
Proof. vm_compute. repeat split. Qed.
Print Assumptions C16_subcolumn_name_ambiguous_refuted.

(* ------------------------------------------------------------------------------------------------------------
   8. The calculation reads what the planner declared.  Both sides are functions of (feature name, options):
        plan_sources = FeatureChainParserMixin.input_features            (what the planner resolves as inputs)
        calc_sources = FeatureChainParserMixin._extract_source_features  (the columns calculate_feature reads)
      with the precedence of the code on BOTH sides: the chained name first, configured in_features only when the name
      does not parse.  For every group, name and options — chained name with in_features (equal to the predecessor,
      the root, another ancestor, any other value, any spelling), plain name with in_features, chained name alone —
      whenever planning succeeds the calculation succeeds and reads exactly the planned names.                   *)
Theorem C16_calc_reads_what_was_planned : forall g name gr cx fs, plan_sources g name gr cx = Ok fs ->
  exists ns, calc_sources g name gr cx = Ok ns /\ same_names ns fs.
Proof. exact calc_reads_what_was_planned_l. Qed.
Print Assumptions C16_calc_reads_what_was_planned.

(* the same over an arbitrary parse result, i.e. for every pattern a group may declare *)
Theorem C16_calc_reads_what_was_planned_any_pattern : forall g p inf fs, plan_of g p inf = Ok fs ->
  exists ns, calc_of p inf = Ok ns /\ same_names ns fs.
Proof. exact calc_reads_planned_of. Qed.
Print Assumptions C16_calc_reads_what_was_planned_any_pattern.

(* plan_sources is the model of input_features that the correspondence `inputs` ties to the code *)
Theorem C16_plan_sources_is_input_features : forall g name gr cx, plan_sources g name gr cx = input_features g name gr cx.
Proof. exact plan_sources_is_input_features. Qed.
Print Assumptions C16_plan_sources_is_input_features.

(* a name that parses governs both sides whatever is configured; a name that does not parse: both read the options *)
Theorem C16_chained_name_governs : forall g op src inf inf', src <> [] ->
  calc_of (Parsed op src) inf = Ok (map PStr (split_on amp src)) /\
  calc_of (Parsed op src) inf = calc_of (Parsed op src) inf' /\
  plan_of g (Parsed op src) inf = plan_of g (Parsed op src) inf'.
Proof. exact chained_name_governs_l. Qed.
Print Assumptions C16_chained_name_governs.

Theorem C16_plain_name_reads_config : forall g inf fs, get_in_features inf = Ok fs -> count_ok g (List.length fs) = true ->
  plan_of g NoParse inf = Ok fs /\ calc_of NoParse inf = Ok (names_of fs).
Proof. exact plain_name_reads_config_l. Qed.
Print Assumptions C16_plain_name_reads_config.

(* chains of EVERY length over any well-formed universe: the last link of  src__op1__...__opk  plans and reads
   src__op1__...__op(k-1), for ANY options next to the name (in_features naming the root, an ancestor, another column) *)
Theorem C16_chain_last_link_sources : forall gs ops i op src gr cx,
  universe_ok gs = true -> chain_ok gs (ops ++ [(i, op)]) = true -> wf_atom src = true ->
  plan_sources (grp_at gs i) (chain_name gs src (ops ++ [(i, op)])) gr cx = Ok [feat (chain_name gs src ops)] /\
  calc_sources (grp_at gs i) (chain_name gs src (ops ++ [(i, op)])) gr cx = Ok [PStr (chain_name gs src ops)] /\
  calc_column (grp_at gs i) (chain_name gs src (ops ++ [(i, op)])) gr cx = Ok (PStr (chain_name gs src ops)).
Proof. exact chain_last_link_l. Qed.
Print Assumptions C16_chain_last_link_sources.

(* the time-window group plans with its own input_features (no "&" split, the reference-time column t added): the one
   column the calculation reads is planned, and the only other planned input is t *)
Theorem C16_time_window_calc_reads_planned : forall t p inf fs,
  (forall op, p <> Parsed op []) -> (forall op src, p = Parsed op src -> contains amp src = false) ->
  plan_tw_of t p inf = Ok fs ->
  exists c, calc_of p inf = Ok [c] /\ In c (names_of fs) /\ forall x, In x (names_of fs) -> x = c \/ x = PStr t.
Proof. exact tw_calc_reads_planned_l. Qed.
Print Assumptions C16_time_window_calc_reads_planned.

(* The OTHER precedence on the calculation side only (configured in_features first, the name only when nothing is
   configured) is NOT the code.  FULL STATEMENT for it (refuted): plan_sources .. = Ok fs -> calc_sources_cfgfirst .. reads fs.
   It agrees with the code exactly outside kf_both (something configured AND a name that parses), and inside that
   domain the last operation of price__mean_imputed__sum_aggr with in_features = price reads the raw ancestor column. *)
Theorem C16_cfgfirst_differs_only_with_both : forall p inf, kf_both p inf = false -> calc_of_cfgfirst p inf = calc_of p inf.
Proof. exact cfgfirst_agrees_outside_l. Qed.
Print Assumptions C16_cfgfirst_differs_only_with_both.

Definition wit_both_ctx : list (str * pv) := [(k_in_features, PSet true [PStr (lit "price")])].
Theorem C16_calc_reads_what_was_planned_cfgfirst_refuted :
  plan_sources g_aggr (lit "price__mean_imputed__sum_aggr") [] wit_both_ctx = Ok [feat (lit "price__mean_imputed")] /\
  calc_sources g_aggr (lit "price__mean_imputed__sum_aggr") [] wit_both_ctx = Ok [PStr (lit "price__mean_imputed")] /\
  calc_sources_cfgfirst g_aggr (lit "price__mean_imputed__sum_aggr") [] wit_both_ctx = Ok [PStr (lit "price")] /\
  ~ (forall g name gr cx fs, plan_sources g name gr cx = Ok fs ->
       exists ns, calc_sources_cfgfirst g name gr cx = Ok ns /\ same_names ns fs).
Proof.
  repeat split; try (vm_compute; reflexivity).
  intros H. destruct (H g_aggr (lit "price__mean_imputed__sum_aggr") [] wit_both_ctx _ eq_refl) as (ns & E & S).
  vm_compute in E. injection E as <-. destruct (S (PStr (lit "price"))) as [S1 _].
  specialize (S1 (or_introl eq_refl)). vm_compute in S1. destruct S1 as [S1|[]]. discriminate S1.
Qed.
Print Assumptions C16_calc_reads_what_was_planned_cfgfirst_refuted.

(* ------------------------------------------------------------------------------------------------------------
   Non-vacuity: the universe of the two built-in groups is well formed; a depth-3 chain in the three notations.   *)
Definition ex_ph (n : nat) : str := lit "ph" ++ [ascii_of_nat (48 + n)].
Definition ex_ops : list (nat * str) := [(1, lit "mean"); (0, lit "max"); (0, lit "sum")].
Example C16_examples :
  universe_ok [g_aggr; g_mv] = true /\
  chain_ok [g_aggr; g_mv] ex_ops = true /\ forallb (op_ok_cfg [g_aggr; g_mv]) ex_ops = true /\
  wf_atom (lit "price") = true /\
  chain_name [g_aggr; g_mv] (lit "price") ex_ops = lit "price__mean_imputed__max_aggr__sum_aggr" /\
  resolve_chain [g_aggr; g_mv] 4 (feat (lit "price__mean_imputed__max_aggr__sum_aggr"))
    = WEnd [(0, PStr (lit "sum")); (0, PStr (lit "max")); (1, PStr (lit "mean"))] (feat (lit "price")) /\
  resolve_chain [g_aggr; g_mv] 4 (opt_chain [g_aggr; g_mv] ex_ph false (fun f => PSet true [f]) (PStr (lit "price")) (rev ex_ops))
    = expected_walk ex_ops (lit "price") /\
  (match load (json_chain [g_aggr; g_mv] ex_ph (lit "price") (rev ex_ops)) with
   | Ok [f] => resolve_chain [g_aggr; g_mv] 4 f = expected_walk ex_ops (lit "price")
   | _ => False end) /\
  (* the nested JSON form with the protected keys the running system needs on inner levels *)
  (match load (JArr [JObj [(k_name, JStr (lit "x")); (k_options, JObj [(lit "aggregation_type", JStr (lit "sum"));
            (k_in_features, JObj [(k_name, JStr (lit "y"));
                                  (k_options, JObj [(lit "aggregation_type", JStr (lit "max"));
                                                    (lit "feature_chainer_parser_key", JArr [JStr (lit "aggregation_type")])]);
                                  (k_in_features, JArr [JStr (lit "price")])])])]]) with
   | Ok [f] => resolve_chain [g_aggr; g_mv] 3 f = walk_of [(0, lit "sum"); (0, lit "max")] (lit "price")
   | _ => False end) /\
  parse_feature_name [lit "aggr"] (lit "__sum_aggr") = PErr /\
  parse_feature_name [lit "aggr"] (lit "a___aggr") = NoParse /\
  parse_feature_name [lit "aggr"] (lit "a__s-m_aggr") = NoParse /\
  parse_feature_name [lit "aggr"] (lit "a__sum_aggr" ++ [nl]) = Parsed (lit "sum") (lit "a") /\
  input_features g_aggr (lit "a&b__sum_aggr") [] [] = Err EValue /\
  (* plain name + in_features, chained name alone, chained name + in_features naming the root *)
  calc_sources g_aggr (lit "out") [] [(k_in_features, PStr (lit "price__mean_imputed"))] = Ok [PStr (lit "price__mean_imputed")] /\
  calc_sources g_mv (lit "price__mean_imputed") [] [] = Ok [PStr (lit "price")] /\
  calc_column g_aggr (lit "price__mean_imputed__sum_aggr") [] [(k_in_features, PStr (lit "price"))] = Ok (PStr (lit "price__mean_imputed")) /\
  kf_both (parse_feature_name (g_sufs g_aggr) (lit "price__mean_imputed__sum_aggr")) (PStr (lit "price")) = true /\
  plan_tw_of (lit "reference_time") (Parsed (lit "sum") (lit "price__mean_imputed")) (PStr (lit "price"))
    = Ok [feat (lit "price__mean_imputed"); feat (lit "reference_time")] /\
  doc_valid (json_chain [g_aggr; g_mv] ex_ph (lit "price") (rev ex_ops)) = true.
Proof. vm_compute. repeat split. Qed.
