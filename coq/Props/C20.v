(* C20 — extenders see every wrapped call, in priority order, without changing results.
   Property theorems only (proofs in Proofs/ExtenderP.v).  All statements are for extender sets of ANY size, every
   priority assignment (ties included), every hook subset, and every iteration order `order` of the Python set.

   Reading guide (Model/Extender.v, Spec/ExtenderSpec.v):
     run_wrapped h order f   one wrapped call of kind h: get_function_extender(h) applied to function f
     matching h order        the extenders whose wraps() contains h, in set-iteration order
     chain_order h order     the nesting order used (outermost first) = stable sort of `matching` by priority
     wrapped w               the wrapped function: trace [Call], result w (Ok value | Err exception)
     sees_once es ok t       trace-level statement of the property: one Call, every extender of es entered once in
                             that order, exits in reverse, exactly the raising extenders logged once
     ideal es w              executable form of sees_once (C20_ideal_sees_once below ties the two)
   The model follows _CompositeExtender as repaired by /repo commit 50d7ec2; before it, a chained raise-after extender
   and a raising wrapped function made the composite call the inner function again (former known findings). *)
From Coq Require Import List Bool ZArith Arith Permutation Sorting.Sorted.
Import ListNotations.
Require Import MV.Model.Extender MV.Spec.ExtenderSpec MV.Proofs.ExtenderP.

(* 1. pass-through transparency: result unchanged, wrapped function called exactly once, enter events in ascending
      priority and exit events in reverse (0, 1 or many extenders) *)
Theorem C20_passthrough_transparent : forall (A : Type) h order (a : A),
  (forall e, In e (matching h order) -> beh e = Pass) ->
  let l := chain_order h order in
  run_wrapped h order (wrapped (Ok a)) = (passthrough_trace (map eid l), Ok a)
  /\ calls (fst (run_wrapped h order (wrapped (Ok a)))) = 1
  /\ by_priority l /\ Permutation l (matching h order).
Proof. exact (@passthrough_transparent_l). Qed.
Print Assumptions C20_passthrough_transparent.

(* 2. for ANY iteration order order' of the same set: the nesting order is sorted by priority and contains exactly the
      matching extenders; ties keep the iteration order actually taken (Python's sorted is stable — so with ties
      either order can occur, see C20_tie_order_matters); with pairwise distinct priorities the nesting order and the
      complete behaviour of the wrapped call do not depend on the iteration order at all *)
Theorem C20_order_respects_priority : forall h order order', Permutation order order' ->
  let l' := chain_order h order' in
  by_priority l' /\ Permutation l' (matching h order) /\ stable_wrt (matching h order') l'
  /\ (NoDup (map prio (matching h order)) ->
      l' = chain_order h order /\ forall A (f : comp A), run_wrapped h order' f = run_wrapped h order f).
Proof. exact order_respects_priority_l. Qed.
Print Assumptions C20_order_respects_priority.

Theorem C20_tie_order_matters :
  let a := mk 0 5 Pass in let b := mk 1 5 Pass in
  fst (run_wrapped HCalc [a; b] (wrapped (Ok 7))) = [Enter 0; Enter 1; Call; Exit 1; Exit 0] /\
  fst (run_wrapped HCalc [b; a] (wrapped (Ok 7))) = [Enter 1; Enter 0; Call; Exit 0; Exit 1].
Proof. exact tie_order_matters_l. Qed.
Print Assumptions C20_tie_order_matters.

(* 3. THE PROPERTY FOR ONE WRAPPED CALL, at full strength (code after fix 50d7ec2): for a chain of any length, EVERY
      assignment of behaviours (pass / raise before / raise after calling through) and EVERY outcome w of the wrapped
      function (a value or its own exception):
        - the outcome of the call is exactly w (the value, or the wrapped function's own exception),
        - the wrapped function runs exactly once,
        - every extender is entered exactly once, in ascending priority order (the order chain_order),
        - the returning extenders exit once, in reverse order,
        - exactly the raising extenders are logged, once (an exception of the wrapped function is nobody's fault). *)
Theorem C20_chain_sees_once : forall (A : Type) h order (w : result A),
  2 <= List.length (matching h order) -> NoDup (map eid (matching h order)) ->
  snd (run_wrapped h order (wrapped w)) = w /\
  sees_once (chain_order h order) (is_ok w) (fst (run_wrapped h order (wrapped w))).
Proof. exact (@chain_sees_once_l). Qed.
Print Assumptions C20_chain_sees_once.

(* the same as an equation with the executable ideal computation (no hypothesis on the ids) *)
Theorem C20_chain_ideal : forall (A : Type) h order (w : result A),
  2 <= List.length (matching h order) ->
  run_wrapped h order (wrapped w) = ideal (chain_order h order) w.
Proof. exact (@chain_run_ideal_l). Qed.
Print Assumptions C20_chain_ideal.

(* including get_function_extender's case split (no / one bare / chained extenders) *)
Theorem C20_run_ideal : forall (A : Type) h order (w : result A),
  run_wrapped h order (wrapped w) = ideal_run_wrapped h order w.
Proof. exact (@run_ideal_l). Qed.
Print Assumptions C20_run_ideal.

(* _CompositeExtender on its own, any number of extenders (0 and 1 included: every one is protected) *)
Theorem C20_composite_ideal : forall (A : Type) l (w : result A),
  composite_call l (wrapped w) = ideal (composite_order l) w.
Proof. exact (@composite_ideal_l). Qed.
Print Assumptions C20_composite_ideal.

(* the ideal computation satisfies the trace-level property *)
Theorem C20_ideal_sees_once : forall es ok, NoDup (map eid es) -> sees_once es ok (ideal_trace es ok).
Proof. exact ideal_sees_once_l. Qed.
Print Assumptions C20_ideal_sees_once.

(* 4. named consequences.  Extenders that raise before calling through are logged and skipped *)
Theorem C20_raise_before_skipped : forall (A : Type) h order (a : A),
  2 <= List.length (matching h order) -> NoDup (map eid (matching h order)) ->
  snd (run_wrapped h order (wrapped (Ok a))) = Ok a /\
  sees_once (chain_order h order) true (fst (run_wrapped h order (wrapped (Ok a)))).
Proof. exact (@raise_before_skipped_l). Qed.
Print Assumptions C20_raise_before_skipped.

(* the wrapped call is never lost and never repeated, for every raising subset *)
Theorem C20_wrapped_call_not_lost : forall (A : Type) h order (w : result A),
  2 <= List.length (matching h order) ->
  snd (run_wrapped h order (wrapped w)) = w /\
  calls (fst (run_wrapped h order (wrapped w))) = 1 /\
  (NoDup (map eid (matching h order)) ->
   forall e, In e (matching h order) -> enters (eid e) (fst (run_wrapped h order (wrapped w))) = 1).
Proof. exact (@wrapped_call_not_lost_l). Qed.
Print Assumptions C20_wrapped_call_not_lost.

Theorem C20_call_count : forall (A : Type) h order (w : result A), 2 <= List.length (matching h order) ->
  calls (fst (run_wrapped h order (wrapped w))) = 1.
Proof. exact (@call_count_l). Qed.
Print Assumptions C20_call_count.

(* the two former defect witnesses (raise-after extender in a chain; raising wrapped function under three pass-through
   extenders) on the model of the repaired code *)
Theorem C20_former_witnesses :
  run_wrapped HCalc wit_ra (wrapped (Ok 7)) =
    ([Enter 0; Enter 1; Enter 2; Call; Exit 2; Logged 1; Exit 0], Ok 7) /\
  run_wrapped HCalc wit_fail (wrapped (@Err nat WrappedExn)) = ([Enter 0; Enter 1; Enter 2; Call], Err WrappedExn).
Proof. exact former_witnesses_l. Qed.
Print Assumptions C20_former_witnesses.

(* outside the statement (it speaks about chains): ONE matching extender is used bare, without try/except — its
   exception fails the call, and a raise-before extender then loses the wrapped call *)
Theorem C20_single_extender_unprotected : forall (A : Type) h order e (w : result A), matching h order = [e] ->
  run_wrapped h order (wrapped w) = ext_call e (wrapped w).
Proof. exact (@single_extender_unprotected_l). Qed.
Print Assumptions C20_single_extender_unprotected.

Theorem C20_single_raiser_loses_call :
  run_wrapped HCalc [mk 0 1 RaiseBefore] (wrapped (Ok 7)) = ([Enter 0], Err (ExtExn 0)).
Proof. exact single_raiser_loses_call_l. Qed.
Print Assumptions C20_single_raiser_loses_call.

(* 5. every step of a plan of any length (fails c = the wrapped function of call c raises): with pass-through
      extenders and no failing wrapped function all wrapped calls of the plan happen, and
      extender e is entered exactly once in call c if it declares c's kind, and not at all otherwise *)
Theorem C20_all_calls_run : forall order fails cs, (forall e, In e order -> beh e = Pass) ->
  (forall c, In c cs -> fails c = false) ->
  map fst (fst (run_calls order fails cs)) = cs /\ snd (run_calls order fails cs) = false.
Proof. exact all_calls_run_l. Qed.
Print Assumptions C20_all_calls_run.

Theorem C20_every_declared_call_seen : forall order fails cs e c t,
  (forall x, In x order -> beh x = Pass) -> (forall c, In c cs -> fails c = false) ->
  NoDup (map eid order) -> In e order ->
  In (c, t) (fst (run_calls order fails cs)) ->
  enters (eid e) t = if declares e c then 1 else 0.
Proof. exact every_declared_call_seen_l. Qed.
Print Assumptions C20_every_declared_call_seen.

(* plans of any length, any behaviours, any failing call: the run is the ideal run *)
Theorem C20_plan_ideal : forall order fails cs, run_calls order fails cs = ideal_run_calls order fails cs.
Proof. exact run_calls_ideal_l. Qed.
Print Assumptions C20_plan_ideal.

(* non-vacuity: a chain of four with a tie, a raise-before extender and an extender for another hook *)
Definition ex_set : list extender :=
  [ {| eid := 3; prio := 7; hooks := [HCalc; HVout]; beh := Pass |};
    {| eid := 0; prio := 2; hooks := [HCalc]; beh := RaiseBefore |};
    {| eid := 2; prio := 7; hooks := [HCalc; HVin]; beh := Pass |};
    {| eid := 4; prio := 1; hooks := [HVin]; beh := RaiseAfter |};
    {| eid := 1; prio := 5; hooks := [HCalc]; beh := Pass |} ].
Example C20_examples :
  map eid (matching HCalc ex_set) = [3; 0; 2; 1] /\
  NoDup (map eid (matching HCalc ex_set)) /\
  map eid (chain_order HCalc ex_set) = [0; 1; 3; 2] /\
  run_wrapped HCalc ex_set (wrapped (Ok 7)) =
    ([Enter 0; Logged 0; Enter 1; Enter 3; Enter 2; Call; Exit 2; Exit 3; Exit 1], Ok 7) /\
  fst (run_calls (map (fun e => {| eid := eid e; prio := prio e; hooks := hooks e; beh := Pass |}) ex_set)
                 (fun _ => false) (plan_calls 0 [false; true])) =
    [ ((0, KCalculate), [Enter 0; Enter 1; Enter 3; Enter 2; Call; Exit 2; Exit 3; Exit 1; Exit 0]);
      ((0, KValidateOutput), [Enter 3; Call; Exit 3]);
      ((1, KValidateInput), [Enter 4; Enter 2; Call; Exit 2; Exit 4]);
      ((1, KCalculate), [Enter 0; Enter 1; Enter 3; Enter 2; Call; Exit 2; Exit 3; Exit 1; Exit 0]);
      ((1, KValidateOutput), [Enter 3; Call; Exit 3]) ].
Proof. vm_compute. repeat split; try reflexivity. repeat constructor; cbn; intuition discriminate. Qed.

(* 6. execution modes (Model/Modes.v; `held m order copy s` = the extender set the compute-framework object of step s
      holds: the caller's set in SYNC, an unpickled copy with its own iteration order in THREADING and MULTIPROCESSING,
      where the wrapped calls of MULTIPROCESSING run in worker processes).  Nothing in the property depends on the mode:
      whatever the copies' iteration orders, the chain of every wrapped call consists of exactly the registered
      extenders declaring the hook, in ascending priority, and sees the call exactly once with the bare outcome ... *)
Require Import MV.Model.Modes.

Theorem C20_any_mode_sees_once : forall (A : Type) m order copy s h (w : result A),
  Permutation order (copy s) ->
  2 <= List.length (matching h order) -> NoDup (map eid (matching h order)) ->
  let o := held m order copy s in
  snd (run_wrapped h o (wrapped w)) = w /\
  sees_once (chain_order h o) (is_ok w) (fst (run_wrapped h o (wrapped w))) /\
  by_priority (chain_order h o) /\ Permutation (chain_order h o) (matching h order).
Proof. exact (@any_mode_sees_once_l). Qed.
Print Assumptions C20_any_mode_sees_once.

(* ... with pairwise distinct priorities per hook the complete run (every trace, the failing flag) IS the SYNC run ... *)
Theorem C20_mode_independent : forall m order copy fails cs,
  (forall s, Permutation order (copy s)) -> (forall h, NoDup (map prio (matching h order))) ->
  run_calls_in m order copy fails cs = run_calls order fails cs.
Proof. exact run_calls_mode_independent_l. Qed.
Print Assumptions C20_mode_independent.

Theorem C20_sync_is_base : forall order copy fails cs, run_calls_in MSync order copy fails cs = run_calls order fails cs.
Proof. exact run_calls_in_sync_l. Qed.
Print Assumptions C20_sync_is_base.

(* ... and with ties it is the ideal run over the iteration orders actually held (ties keep the order of the copy) *)
Theorem C20_plan_ideal_any_mode : forall m order copy fails cs,
  run_calls_in m order copy fails cs = ideal_run_calls_at (held m order copy) fails cs.
Proof. exact run_calls_in_ideal_l. Qed.
Print Assumptions C20_plan_ideal_any_mode.

(* non-vacuity: the example set in MULTIPROCESSING with a copy iterated in reverse -- same run as SYNC except that the
   tie (extenders 3 and 2, priority 7) nests the other way round *)
Example C20_mode_example :
  let pass := map (fun e => {| eid := eid e; prio := prio e; hooks := hooks e; beh := Pass |}) ex_set in
  fst (run_calls_in MMultiprocessing pass (fun _ => rev pass) (fun _ => false) [(0, KCalculate)]) =
    [((0, KCalculate), [Enter 0; Enter 1; Enter 2; Enter 3; Call; Exit 3; Exit 2; Exit 1; Exit 0])] /\
  fst (run_calls_in MSync pass (fun _ => rev pass) (fun _ => false) [(0, KCalculate)]) =
    [((0, KCalculate), [Enter 0; Enter 1; Enter 3; Enter 2; Call; Exit 2; Exit 3; Exit 1; Exit 0])].
Proof. vm_compute. split; reflexivity. Qed.
