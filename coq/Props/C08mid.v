(* C08, MULTIPROCESSING / THREADING protocol level: a worker failure that lands in the MIDDLE of a pass of the orchestrator's
   loop is reported with ITS message.  Property theorems only (Model/Worker.v + Model/WorkerMid.v; proofs Proofs/WorkerMidP.v).

   Setting: any plan satisfying plan_ok, any assignment of steps to worker processes, any failure oracle, any reachable state st0
   in which the main thread is inside its loop (at the head, between two visits, after a poll, waiting for a drop
   acknowledgement, suspended at a yield), and a worker w that fails there (label WFail: set_error, "STOP" to itself, exit -
   no result message).  The worker's death is visible in the state (phase = WFailed, `dead`), but no transition of the main
   thread's loop reads it: the only things the main thread reads are the error register (OHead only), result queues (OPoll,
   ORequeue, OGot), step.step_is_done and its locals. *)
From Coq Require Import List Bool Arith.
Import ListNotations.
Require Import MV.Model.Orch MV.Model.Worker MV.Spec.WorkerSpec MV.Model.WorkerMid.
Require Import MV.Proofs.WorkerWitP MV.Proofs.WorkerMidP.

(* FOR ALL continuations `tr` after the failure that contain no FURTHER failure (fault_free: no other WFail, no crash point of
   the main thread - Spec/WorkerSpec.v crash_label), whatever the main thread and the other workers do - finish the pass
   (visits, polls, collecting earlier steps, waiting for / timing out on drop acknowledgements, starting steps), further passes
   are impossible -:
     * the register still holds the failing step's message, unchanged (`reported`, `failed`), and the failure report exists;
     * if the run has left the loop, then by raising at the loop head (XRaisedHead = `raise Exception(get_error())`, the
       message of THIS failure) or because the consumer closed the stream (XAbandon) - never by an exception out of the loop
       body (XRaisedBody), never normally (XNormal), never by a crash of the finally block;
     * at the next loop head the only enabled main-thread transition raises.
   (That a register content is always the message of a step that really failed is Props/Worker.v Worker_raised_head_origin; a
   second failure may overwrite the register with its own original message, hence fault_free.) *)
Theorem Worker_midpass_failure_message_preserved : forall c, plan_ok (cplan c) -> forall st0 w cp st,
  reach c st0 -> in_loop (pc st0) = true -> step c st0 (WFail w cp) = Some st ->
  exists s, phase (ws st0 w) = WRun s /\ reported (o st) = Some s /\ dead (phase (ws st w)) = true /\
  forall tr st', exec c st tr = Some st' -> fault_free tr ->
    reported (o st') = Some s /\ failed (o st') = failed (o st) /\ In (s, false) (replies st') /\
    (forall x, exit_kind (pc st') = Some x -> x = XRaisedHead \/ x = XAbandon) /\
    (pc st' = PHead -> step c st' OHead = Some (set_pc st' (PFinally XRaisedHead))).
Proof. exact midpass_failure_message_preserved_l. Qed.
Print Assumptions Worker_midpass_failure_message_preserved.

(* what the failure itself does (no hypothesis): message on top of the register, worker dead, NOTHING on its result queue, the
   main thread's program counter untouched *)
Theorem Worker_fail_effect : forall c st w cp st', step c st (WFail w cp) = Some st' ->
  exists s, phase (ws st w) = WRun s /\ wfail c s = Some cp /\ failed (o st') = s :: failed (o st) /\ pc st' = pc st /\
            phase (ws st' w) = WFailed /\ resq (ws st' w) = resq (ws st w) /\ requeued (ws st' w) = requeued (ws st w) /\
            replies st' = (s, false) :: replies st.
Proof. exact wfail_effect. Qed.
Print Assumptions Worker_fail_effect.

(* one transition of a fault-free continuation keeps the register and never chooses a raising-body / crash exit kind *)
Theorem Worker_register_kept_by_step : forall c fl st l st', MF fl st -> crash_label l = false -> step c st l = Some st' -> MF fl st'.
Proof. exact step_MF. Qed.
Print Assumptions Worker_register_kept_by_step.

(* REGRESSION WITNESS (seeded/C08_r5 "dead worker detection"): add ONE main-thread transition that reads the liveness of a
   worker - "a running step without a result whose worker process is dead: raise" (Model/WorkerMid.v step_deadchk, ODeadRaise) -
   and the statement above fails: two steps on two worker processes, step 1 fails while the main thread collects step 0; the
   pass reaches step 1, finds its worker dead and raises out of the loop body: exit kind XRaisedBody although the register
   holds the original message and the failure report exists.  Every label of the trace except ODeadRaise is a label of the
   model, and the continuation after WFail contains no crash label. *)
Theorem Worker_midpass_deadcheck_refuted : exists st, exec_deadchk wc_two pinit tr_mid_deadchk = Some st /\ pc st = PExited XRaisedBody /\
  reported (o st) = Some 1 /\ In (1, false) (replies st) /\ phase (ws st 6) = WFailed.
Proof. exact midpass_deadcheck_refuted_l. Qed.
Print Assumptions Worker_midpass_deadcheck_refuted.

(* non-vacuity: the same schedule in the model of the code ends at the loop head with the message of step 1, and the part of the
   trace behind the failure satisfies the theorem's hypothesis *)
Example Worker_ex_midpass_code : exists st, exec wc_two pinit tr_mid_code = Some st /\ pc st = PExited XRaisedHead /\
  reported (o st) = Some 1 /\ replies st = [(1, false); (0, true)] /\ phase (ws st 6) = WFailed /\ results (o st) = [0].
Proof. exact ex_midpass_code_l. Qed.
Example Worker_ex_midpass_suffix_fault_free :
  fault_free ([OCollect true; WTake 5; WDropAck 5 true true; OGot 5; OPoll []; OVisit; OEndScan; OHead] ++ tr_mid_finally).
Proof. exact tr_mid_code_suffix_fault_free_l. Qed.
