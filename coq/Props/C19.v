(* C19 -- built-in feature groups give the same values on every compute framework.
   Property theorems only (proofs in Proofs/BuiltinsP.v, ImputeP.v, TextCleanP.v, WindowP.v).

   Spec/Builtins.v            : what each operation of the four multi-framework groups means (exact rationals, ASCII text).
   Model/MissingValuePyDict.v : data_quality/missing_value/python_dict.py, as written (loops, Counter, index updates).
   Model/TextCleanPyDict.v    : text_cleaning/python_dict.py on ASCII text, as written (regex \s+, strip, translate; remove_urls =
                                two re.sub passes as a scanning automaton `sub_del` over the match-at-position tests).
   Model/BuiltinsFw.v         : the conventions of pandas.py / pyarrow.py where they STILL differ from the spec (open findings:
                                std/var ddof, pandas sum of an all-null column, pandas' RE2 white-space class).
   Gen/Vocab.v                : REGENERATED from /repo: vocabulary accepted by every framework subclass.

   WHAT IS PROVED HERE AND WHAT IS NOT.  The two plain-Python implementations are proved equal to the spec for columns /
   texts of ANY length.  pandas and pyarrow kernels are not modelled: for them C19 is decided by the correspondence
   check of harness/c19.py (mloda.run_all on every operation x parameter x framework against this spec).  The theorems
   below make that spec trustworthy (internally consistent, order-independent where it should be) and pin down the exact
   domain of each recorded framework deviation (`_partial` = agrees with the spec outside the domain, `_refuted` =
   differs inside it).  All statements are over all inputs unless they exhibit a witness. *)
From Coq Require Import QArith List Bool Arith ZArith String Ascii Permutation Lia.
Import ListNotations.
Require Import MV.Spec.Builtins MV.Model.MissingValuePyDict MV.Model.TextCleanPyDict MV.Model.BuiltinsFw MV.Gen.Vocab.
Require Import MV.Proofs.BuiltinsP MV.Proofs.ImputeP MV.Proofs.ImputeGroupedP MV.Proofs.TextCleanP MV.Proofs.WindowP.
Require Import MV.Proofs.RemoveUrlsP.
Open Scope Q_scope.

(* ============================================ vocabulary (T1) ============================================ *)
(* every executable framework subclass dispatches exactly the base vocabulary: an operation name of the whole universe
   is carried out iff the base class lists it *)
Theorem C19_vocab_complete : forall g f op, In f (gen_impls g) -> In op gen_universe ->
  gen_perform g f op = Some (mem op (gen_base_vocab g)).
Proof. exact vocab_perform_l. Qed.
Print Assumptions C19_vocab_complete.

(* feature matching accepts every vocabulary entry on every declared subclass, and never depends on the framework *)
Theorem C19_vocab_matched : forall g f op, In f (gen_declared g) -> In op (gen_base_vocab g) -> gen_match g f op = Some true.
Proof. exact vocab_match_l. Qed.
Print Assumptions C19_vocab_matched.
Theorem C19_vocab_match_framework_independent : forall g f f' op,
  In f (gen_declared g) -> In f' (gen_declared g) -> In op gen_universe ->
  gen_match g f op = gen_match g f' op /\ gen_match g f op <> None.
Proof. exact vocab_match_uniform_l. Qed.
Print Assumptions C19_vocab_match_framework_independent.

(* the spec speaks about exactly the base vocabulary, and each group is executable on >= 2 frameworks here *)
Theorem C19_spec_covers_vocab : forall g op, In op (gen_base_vocab g) <-> In op (spec_vocab g).
Proof. exact spec_covers_vocab_l. Qed.
Print Assumptions C19_spec_covers_vocab.
Theorem C19_two_implementations : forall g, (2 <= List.length (gen_impls g))%nat.
Proof. exact two_implementations_l. Qed.
Print Assumptions C19_two_implementations.

(* ============================================== aggregation ============================================== *)
Theorem C19_min_le_mean_le_max : forall l a m b,
  min_l l = Some a -> mean_l l = Some m -> max_l l = Some b -> a <= m /\ m <= b.
Proof. exact min_le_mean_le_max_l. Qed.
Print Assumptions C19_min_le_mean_le_max.
Example C19_min_le_mean_le_max_ex :
  min_l [3; -1; 1#2] = Some (-1) /\ max_l [3; -1; 1#2] = Some 3 /\ exists m, mean_l [3; -1; 1#2] = Some m /\ m == 5#6.
Proof. repeat split. eexists. split. reflexivity. reflexivity. Qed.

Theorem C19_var_nonneg : forall d l v, var_l d l = Some v -> 0 <= v.
Proof. exact var_nonneg_l. Qed.
Print Assumptions C19_var_nonneg.

(* the order of the rows cannot matter for ANY aggregate: sum / min / max / mean / count / var / std / median
   (values equal as rationals) *)
Theorem C19_agg_perm_invariant : forall op c c', Permutation c c' -> oq_eq (agg_spec op c) (agg_spec op c').
Proof. exact agg_perm_all_l. Qed.
Print Assumptions C19_agg_perm_invariant.
Example C19_agg_perm_invariant_ex : Permutation [Some 1; None; Some (3#2)] [None; Some (3#2); Some 1]
                                    /\ agg_spec AVar [Some 1; None; Some (3#2)] <> None.
Proof. split. apply perm_trans with [None; Some 1; Some (3#2)]; repeat constructor. discriminate. Qed.

(* order-DEPENDENT operations: first / last of a window, forward fill *)
Theorem C19_first_last_order_dependent : exists c c', Permutation c c' /\
  win_agg WFirst c <> win_agg WFirst c' /\ win_agg WLast c <> win_agg WLast c'.
Proof. exists [Some 1; Some 2], [Some 2; Some 1]. split. constructor. split; vm_compute; discriminate. Qed.
Print Assumptions C19_first_last_order_dependent.
Theorem C19_ffill_order_dependent : exists c c', Permutation c c' /\ ~ Permutation (impute_spec IFfill c) (impute_spec IFfill c').
Proof.
  exists [None; Some 1], [Some 1; None]. split. constructor.
  intro H. apply (Permutation_in None) in H; vm_compute in H |- *.
  - destruct H as [H|[H|[]]]; discriminate.
  - left; reflexivity.
Qed.
Print Assumptions C19_ffill_order_dependent.

(* sample vs population variance: (n-1) s = n p; the two conventions coincide exactly on constant data *)
Theorem C19_var_sample_population : forall l s p, var_l 1 l = Some s -> var_l 0 l = Some p -> (qlen l - 1) * s == qlen l * p.
Proof. exact var_sample_pop_l. Qed.
Print Assumptions C19_var_sample_population.
Theorem C19_var_conventions_agree_iff : forall l s p, var_l 1 l = Some s -> var_l 0 l = Some p -> (s == p <-> p == 0).
Proof. exact var_conventions_agree_iff_l. Qed.
Print Assumptions C19_var_conventions_agree_iff.

(* FULL STATEMENT (does not hold for the pyarrow convention): forall op c, agg_pop op c = agg_spec op c.
   known finding C19-pyarrow-std-var-population; domain: op in {std, var} *)
Theorem C19_pyarrow_agg_partial : forall op c, op <> AStd -> op <> AVar -> agg_pop op c = agg_spec op c.
Proof. exact agg_pop_same_l. Qed.
Print Assumptions C19_pyarrow_agg_partial.
Theorem C19_pyarrow_std_var_refuted :
  oq_eq (agg_pop AVar [Some 1; Some 2; Some 3; Some 4]) (Some (5#4)) /\
  oq_eq (agg_spec AVar [Some 1; Some 2; Some 3; Some 4]) (Some (5#3)) /\
  oq_eq (agg_pop AStd [Some 5]) (Some 0) /\ agg_spec AStd [Some 5] = None.
Proof. vm_compute. repeat split. Qed.
Print Assumptions C19_pyarrow_std_var_refuted.

(* known finding C19-pandas-sum-all-null-zero; domain: op = sum and no non-null value *)
Theorem C19_pandas_agg_partial : forall op c, (op <> ASum \/ vals c <> []) -> agg_pd_sum0 op c = agg_spec op c.
Proof. exact agg_pd_same_l. Qed.
Print Assumptions C19_pandas_agg_partial.
Theorem C19_pandas_sum_all_null_refuted : agg_pd_sum0 ASum [None; None] = Some 0 /\ agg_spec ASum [None; None] = None.
Proof. split; reflexivity. Qed.
Print Assumptions C19_pandas_sum_all_null_refuted.

(* =============================================== imputation =============================================== *)
(* the PythonDict implementation computes the spec, for every method and every column *)
Theorem C19_pydict_impute_refines : forall m c, py_impute m c = impute_spec m c.
Proof. exact pydict_impute_refines_l. Qed.
Print Assumptions C19_pydict_impute_refines.
(* ... including the early return of _perform_imputation when the column has no null *)
Theorem C19_pydict_perform_refines : forall m c, py_perform_imputation m None c = impute_spec m c.
Proof. exact pydict_perform_refines_l. Qed.
Print Assumptions C19_pydict_perform_refines.
(* Counter(...).most_common(1) is the first value that no other value beats in frequency *)
Theorem C19_pydict_mode_refines : forall l, most_common1 (counter l) = mode_l l.
Proof. exact mode_refines_l. Qed.
Print Assumptions C19_pydict_mode_refines.
Theorem C19_mode_is_most_frequent : forall l v, mode_l l = Some v ->
  In v l /\ forall y, In y l -> (count_of y l <= count_of v l)%nat.
Proof. exact mode_l_spec. Qed.
Print Assumptions C19_mode_is_most_frequent.
Example C19_mode_ex : mode_l [3; 1; 1; 3; 2] = Some 3 /\ py_impute IMode [Some 3; None; Some 1; Some 3; Some 1]
                                                         = [Some 3; Some 3; Some 1; Some 3; Some 1].
Proof. split; reflexivity. Qed.

(* non-null cells are never changed and the length is kept: spec, grouped spec, PythonDict (plain and grouped loops) *)
Theorem C19_impute_preserves_non_null : forall m c, preserves c (py_impute m c) /\ preserves c (impute_spec m c).
Proof. intros. split. apply impute_preserves_non_null_l. apply impute_spec_preserves. Qed.
Print Assumptions C19_impute_preserves_non_null.
Theorem C19_impute_grouped_preserves_non_null : forall m keys c, List.length keys = List.length c ->
  preserves c (impute_grouped_spec m keys c).
Proof. exact impute_grouped_spec_preserves. Qed.
Print Assumptions C19_impute_grouped_preserves_non_null.
Theorem C19_pydict_perform_preserves_non_null : forall m g c, preserves c (py_perform_imputation m g c).
Proof. exact py_perform_preserves_l. Qed.
Print Assumptions C19_pydict_perform_preserves_non_null.
Example C19_preserves_ex : preserves [None; Some 2; None] [Some 2; Some 2; Some 2] /\ ~ preserves [Some 1; None] [Some 2; None].
Proof. split. split. reflexivity. intros [|[|[|i]]] v H; cbn in *; congruence.
  intros [_ H]. specialize (H 0%nat 1 eq_refl). discriminate. Qed.

(* backward fill is forward fill read from the other end *)
Theorem C19_ffill_bfill_dual : forall c, bfill_spec c = rev (ffill_spec (rev c))
                                         /\ py_impute IBfill c = rev (py_impute IFfill (rev c)).
Proof. intros. split. apply ffill_bfill_dual_l. rewrite !pydict_impute_refines_l. apply ffill_bfill_dual_l. Qed.
Print Assumptions C19_ffill_bfill_dual.

(* when a fill value exists no null is left; forward fill leaves exactly the leading nulls *)
Theorem C19_constant_fill_no_null : forall k c, no_null (impute_spec (IConst k) c).
Proof. exact constant_fill_no_null_l. Qed.
Print Assumptions C19_constant_fill_no_null.
Theorem C19_stat_fill_no_null : forall m c, (m = IMean \/ m = IMedian \/ m = IMode) -> vals c <> [] -> no_null (impute_spec m c).
Proof. exact stat_fill_no_null_l. Qed.
Print Assumptions C19_stat_fill_no_null.
Theorem C19_ffill_leaves_leading_nulls : forall c i, (i < List.length c)%nat ->
  (nth i (ffill_spec c) None = None <-> forall j, (j <= i)%nat -> nth j c None = None).
Proof. exact ffill_null_iff. Qed.
Print Assumptions C19_ffill_leaves_leading_nulls.

(* grouping by a key that does not distinguish the rows is no grouping *)
Theorem C19_grouped_single_group : forall m keys c, List.length keys = List.length c ->
  (forall k k', In k keys -> In k' keys -> key_eqb k k' = true) -> impute_grouped_spec m keys c = impute_spec m c.
Proof. exact grouped_single_group_l. Qed.
Print Assumptions C19_grouped_single_group.
(* the grouped loops of python_dict.py (dict of row-index lists, `result` updated in place group after group, fall-back
   to the whole-column statistic) compute the grouped spec, for every method, any keys, any column *)
Theorem C19_pydict_grouped_refines : forall m keys c, List.length keys = List.length c ->
  py_grouped m keys c = impute_grouped_spec m keys c.
Proof. exact pydict_grouped_refines_l. Qed.
Print Assumptions C19_pydict_grouped_refines.
(* FULL statement (formerly only for numeric columns: C19-pydict-grouped-string-column is repaired, the model has no
   failing path any more) *)
Theorem C19_pydict_perform_grouped_refines : forall m keys c, List.length keys = List.length c ->
  py_perform_imputation m (Some keys) c = impute_grouped_spec m keys c.
Proof. exact pydict_perform_grouped_refines_l. Qed.
Print Assumptions C19_pydict_perform_grouped_refines.
Example C19_grouped_ex :
  py_grouped IFfill (map (fun z => [Some z]) [1;1;2;2;2]%Z) [None; Some 2; None; Some 4; Some 6] = [None; Some 2; None; Some 4; Some 6]
  /\ py_grouped IBfill (map (fun z => [Some z]) [1;2;1;2]%Z) [Some 1; None; None; Some 4] = [Some 1; Some 4; None; Some 4].
Proof. split; reflexivity. Qed.

(* The deviations formerly recorded here (pandas mode ties / grouped mode without fall-back / groupby(tuple), pyarrow mode
   counting nulls / truncated fill values / grouped ffill-bfill positions and crash, null group keys, PythonDict grouped
   string columns) are repaired in /repo: the correspondence check holds every framework to `impute_spec` /
   `impute_grouped_spec` themselves, with no exception domain. *)

(* ============================================== time windows ============================================== *)
Theorem C19_window_length : forall op w times c, List.length (window_spec op w times c) = List.length c.
Proof. exact window_spec_length_l. Qed.
Print Assumptions C19_window_length.
(* every row gets exactly one place in the time order *)
Theorem C19_time_order_permutation : forall times, Permutation (time_order times) (seq 0 (List.length times)).
Proof. exact time_order_perm_l. Qed.
Print Assumptions C19_time_order_permutation.
Theorem C19_window_big_is_cumulative : forall op w c, (List.length c <= w)%nat ->
  windows_sorted op w c = map (fun i => win_agg op (firstn (S i) c)) (seq 0 (List.length c)).
Proof. exact window_big_cumulative_l. Qed.
Print Assumptions C19_window_big_is_cumulative.
Theorem C19_window_one_identity : forall op c, (op = WFirst \/ op = WLast) -> windows_sorted op 1 c = c.
Proof. exact window_one_identity_l. Qed.
Print Assumptions C19_window_one_identity.

(* rows already in time order: the spec is the plain rolling aggregate in row order ... *)
Theorem C19_window_sorted_is_rolling : forall op w times c, List.length times = List.length c -> nondecr times ->
  window_spec op w times c = windows_sorted op w c.
Proof. exact window_spec_sorted_l. Qed.
Print Assumptions C19_window_sorted_is_rolling.
Example C19_window_sorted_ex : nondecr [0; 3; 3; 7]%Z /\ ~ nondecr [3; 0; 2; 1]%Z.
Proof. split. cbn. repeat split; intros; repeat (destruct H as [<-|H]; try lia); try contradiction.
  intros [H _]. specialize (H 0%Z). cbn in H. assert (3 <= 0)%Z by (apply H; auto). lia. Qed.
(* ... and for rows NOT in time order the results have to be put back into the rows they belong to (pandas.py used to
   return them by position: C19-pandas-window-unsorted-positional, repaired; pandas is now held to window_spec) *)
Theorem C19_window_unsorted_needs_reordering :
  window_spec (WAgg ASum) 2 [3; 0; 2; 1]%Z [Some 1; Some 2; Some 3; Some 4] = [Some 4; Some 2; Some 7; Some 6] /\
  windows_sorted (WAgg ASum) 2 (map (fun i => nth i [Some 1; Some 2; Some 3; Some 4] None) (time_order [3; 0; 2; 1]%Z))
    = [Some 2; Some 6; Some 7; Some 4].
Proof. vm_compute. split; reflexivity. Qed.
Print Assumptions C19_window_unsorted_needs_reordering.
(* pyarrow.py differs from the spec through std / var only *)
Theorem C19_window_pyarrow_partial : forall op w times c, op <> WAgg AStd -> op <> WAgg AVar ->
  window_pa op w times c = window_spec op w times c.
Proof. exact window_pa_same_l. Qed.
Print Assumptions C19_window_pyarrow_partial.

(* ============================================== text cleaning ============================================== *)
(* the PythonDict implementation computes the spec for every pipeline and every ASCII text (null cell = "") *)
Theorem C19_pydict_clean_refines : forall ops x, py_clean ops x = clean_cell ops x.
Proof. exact pydict_clean_refines_l. Qed.
Print Assumptions C19_pydict_clean_refines.
(* in particular re.sub(r"\s+", " ", s).strip() = " ".join(s.split()) *)
Theorem C19_whitespace_refines : forall s, py_normalize_whitespace s = norm_ws s.
Proof. exact whitespace_refines. Qed.
Print Assumptions C19_whitespace_refines.
Example C19_whitespace_ex :
  string_of_list_ascii (norm_ws (list_ascii_of_string "  Hello,   World!  x ")) = "Hello, World! x"%string.
Proof. reflexivity. Qed.

(* every modelled operation is idempotent ... *)
Theorem C19_clean_ops_idempotent : forall o s, clean_spec o (clean_spec o s) = clean_spec o s.
Proof. exact clean_ops_idempotent_l. Qed.
Print Assumptions C19_clean_ops_idempotent.
(* ... pipelines of several operations are NOT, and their order matters *)
Definition txt (s : string) : text := list_ascii_of_string s.
Theorem C19_pipeline_not_idempotent : let p := [CWhite; CPunct] in
  clean_pipeline p (clean_pipeline p (txt "a . b")) <> clean_pipeline p (txt "a . b").
Proof. vm_compute. discriminate. Qed.
Print Assumptions C19_pipeline_not_idempotent.
Theorem C19_pipeline_order_matters : clean_pipeline [CWhite; CPunct] (txt "a . b") <> clean_pipeline [CPunct; CWhite] (txt "a . b").
Proof. vm_compute. discriminate. Qed.
Print Assumptions C19_pipeline_order_matters.

(* known finding C19-pandas-regex-space-class; domain: the text holds \v or \x1c-\x1f *)
Theorem C19_pandas_clean_partial : forall ops s, no_odd s -> pd_clean ops s = py_clean ops (Some s).
Proof. exact pd_clean_same_l. Qed.
Print Assumptions C19_pandas_clean_partial.
Theorem C19_pandas_regex_space_refuted :
  let s := [ascii_of_nat 97; ascii_of_nat 11; ascii_of_nat 98] in
  pd_clean [CWhite] s = s /\ py_clean [CWhite] (Some s) = [ascii_of_nat 97; ascii_of_nat 32; ascii_of_nat 98] /\
  pd_clean [CSpecial] s = [ascii_of_nat 97; ascii_of_nat 98] /\ py_clean [CSpecial] (Some s) = s.
Proof. vm_compute. repeat split. Qed.
Print Assumptions C19_pandas_regex_space_refuted.

(* ================================= remove_urls (URLs first, then e-mail addresses) ================================= *)
Open Scope list_scope.
(* Model: `sub_del sp m` = re.sub(pattern, "", s) for a pattern whose matches run to the end of the `\S` run (m = does the
   pattern match AT this position), `url_pass` / `email_pass` = the two substitutions of `_remove_urls`, `two_pass` their
   composition.  sp = the `\s` class of the regular-expression engine: re_space (Python `re`) or re2_space (RE2, pandas). *)
(* both implementations are, by their source text, the SAME two-pass composition (only the `\s` class of the engine differs) *)
Theorem C19_remove_urls_both_two_pass : forall s,
  py_remove_urls s = two_pass re_space s /\ pd_remove_urls s = two_pass re2_space s.
Proof. exact both_are_two_pass. Qed.
Print Assumptions C19_remove_urls_both_two_pass.
(* per-token characterisation: a token w (no `\s` character) followed by the end of the text or a `\s` character:
   pass 1 keeps what precedes the first place where http:// , https:// or www. is followed by one more character of the token,
   pass 2 drops what is left iff it is x@y.z (x, y, z non-empty); the rest of the text is treated independently *)
Theorem C19_remove_urls_token : forall sp, sp = re_space \/ sp = re2_space -> forall w r,
  (forall a, In a w -> sp a = false) -> match r with [] => True | a :: _ => sp a = true end ->
  url_pass sp (w ++ r) = url_cut w ++ url_pass sp r /\
  email_pass sp (w ++ r) = email_keep w ++ email_pass sp r /\
  two_pass sp (w ++ r) = email_keep (url_cut w) ++ two_pass sp r.
Proof. exact remove_urls_token_l. Qed.
Print Assumptions C19_remove_urls_token.
(* white space is never touched *)
Theorem C19_remove_urls_whitespace : forall sp a r, sp a = true ->
  url_pass sp (a :: r) = a :: url_pass sp r /\ email_pass sp (a :: r) = a :: email_pass sp r /\
  two_pass sp (a :: r) = a :: two_pass sp r.
Proof. exact remove_urls_ws_l. Qed.
Print Assumptions C19_remove_urls_whitespace.
(* hence the PythonDict code computes the token-wise spec on every ASCII text *)
Theorem C19_pydict_remove_urls_refines : forall s, py_remove_urls s = remove_urls s.
Proof. exact py_remove_urls_refines. Qed.
Print Assumptions C19_pydict_remove_urls_refines.
(* a text without "http", "www." and "@", and a text of white space only, is unchanged (any `\s` class) *)
Theorem C19_remove_urls_unchanged : forall sp s,
  (has_sub (lit "http") s = false /\ has_sub (lit "www.") s = false /\ ~ In ch_at s) \/ (forall a, In a s -> sp a = true) ->
  two_pass sp s = s.
Proof. exact remove_urls_unchanged_l. Qed.
Print Assumptions C19_remove_urls_unchanged.
(* each pass, and the operation, is idempotent *)
Theorem C19_remove_urls_passes_idempotent : forall sp, sp = re_space \/ sp = re2_space -> forall s,
  url_pass sp (url_pass sp s) = url_pass sp s /\ email_pass sp (email_pass sp s) = email_pass sp s /\
  two_pass sp (two_pass sp s) = two_pass sp s.
Proof. exact remove_urls_idem_l. Qed.
Print Assumptions C19_remove_urls_passes_idempotent.
(* pandas = PythonDict unless the text holds \v or \x1c-\x1f (open finding C19-pandas-regex-space-class) *)
Theorem C19_pandas_remove_urls_partial : forall s, no_odd s -> pd_remove_urls s = py_remove_urls s.
Proof. exact pd_remove_urls_same. Qed.
Print Assumptions C19_pandas_remove_urls_partial.
Theorem C19_pandas_remove_urls_refuted :
  let s := txt "www.a" ++ [ascii_of_nat 11; ascii_of_nat 98] in
  pd_remove_urls s = [] /\ py_remove_urls s = [ascii_of_nat 11; ascii_of_nat 98].
Proof. vm_compute. split; reflexivity. Qed.
Print Assumptions C19_pandas_remove_urls_refuted.
(* ONE substitution with the alternation  https?://\S+|www\.\S+|\S+@\S+\.\S+  is a DIFFERENT function: when a URL and an
   e-mail address overlap in one token the leftmost match wins *)
Example C19_remove_urls_single_pass_refuted :
  alt_remove_urls re_space (txt "mail admin@www.example.com today") = txt "mail  today" /\
  py_remove_urls (txt "mail admin@www.example.com today") = txt "mail admin@ today" /\
  pd_remove_urls (txt "mail admin@www.example.com today") = txt "mail admin@ today" /\
  alt_remove_urls re_space (txt "source:https://files.example.org/u@host.io/report end") = txt " end" /\
  py_remove_urls (txt "source:https://files.example.org/u@host.io/report end") = txt "source: end".
Proof. vm_compute. repeat split. Qed.
Example C19_remove_urls_ex :
  remove_urls (txt "see http://x.y/z?q=1 and www.foo.com or me@x.org, www. http:// x@y a@b.c (https://h.i)") =
  txt "see  and  or  www. http:// x@y  (".
Proof. vm_compute. reflexivity. Qed.
