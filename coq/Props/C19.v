From Coq Require Import QArith List Bool String.
Import ListNotations.
Require Import MV.Spec.Builtins MV.Gen.Vocab MV.Proofs.BuiltinsP MV.Model.BuiltinsChk.
