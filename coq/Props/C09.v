(* C09 — after a run nothing is left behind; no dataset is dropped while a step that still needs it has not run.
   Property theorems only.

   Theorems cover the bookkeeping LOGIC (which is what decides premature drops and which the code implements in plain
   Python): the children tracker of a compute-framework object, the deferred drop of uploaded datasets, and 'join all
   started workers on every exit path'.  What a theorem cannot exhibit - that threads and processes have really ended,
   that the Arrow Flight store is really empty - is observed on the implementation after every run (DESIGN.md C09). *)
From Coq Require Import List Bool Arith.
Import ListNotations.
Require Import MV.Model.Orch MV.Model.Lifecycle MV.Proofs.LifecycleP.
Require Import MV.Model.Worker MV.Spec.WorkerSpec MV.Model.Session MV.Spec.Reuse MV.Model.FlightKeys MV.Spec.FlightKeysSpec.
Require Import MV.Proofs.WorkerWitP MV.Proofs.FlightKeysP MV.Proofs.FlightKeysWorkerP.

(* for every children set and every sequence of processed feature-group steps: *)
Theorem C09_no_premature_drop : forall ch fss, dropped (process_all (new_obj ch) fss) = true ->
  forall c, In c ch -> exists fs, In fs fss /\ In c fs.
Proof. exact no_premature_drop_l. Qed.
Print Assumptions C09_no_premature_drop.

Theorem C09_dropped_when_all_processed : forall ch fss,
  (forall c, In c ch -> exists fs, In fs fss /\ In c fs) -> fss <> [] -> dropped (process_all (new_obj ch) fss) = true.
Proof. exact drop_when_all_processed_l. Qed.
Print Assumptions C09_dropped_when_all_processed.

Theorem C09_deferred_drop_sound : forall t fin c, In c (snd (drop_finished t fin)) ->
  exists ids, In (c, ids) t /\ incl ids fin.
Proof. exact drop_finished_sound_l. Qed.
Theorem C09_deferred_drop_keeps : forall t fin c ids, In (c, ids) t -> ~ incl ids fin -> In (c, ids) (fst (drop_finished t fin)).
Proof. exact drop_finished_keeps_l. Qed.
Print Assumptions C09_deferred_drop_sound.

Theorem C09_tasks_joined_on_every_exit : forall starts path x, In x starts -> In x (joined_tasks (run_tasks starts path)).
Proof. exact tasks_all_started_l. Qed.
Print Assumptions C09_tasks_joined_on_every_exit.

(* the drop rule depends on children_if_root being EXACTLY the consumers: a transform-created object copies its source's
   children (compute_framework_executor.prepare_execute_step), so it may wait for features that are never processed on it;
   such an object is never dropped by this rule - the store-leak finding *)
Example C09_copied_children_never_dropped :
  dropped (process_all (new_obj [1; 2; 3]) [[3]]) = false /\ dropped (process_all (new_obj [3]) [[3]]) = true.
Proof. vm_compute. split; reflexivity. Qed.

(* ================================================================================================================== *)
(* Dataset keys across the runs of ONE prepared session against ONE long-lived Flight store (Model/FlightKeys.v).
   A run's keys are the uuids of its compute-framework objects: uuid4() values (r_fresh) and, for the objects of transform
   steps, the uuid of the STEP (r_stable) - a value of the session's plan, the same in every run.  Workers upload / drop the key of
   their own object (r_body); the main process sweeps ALL keys of the run's objects on every exit path that reaches join()
   (r_sweep).  exec_krun CDirect is the code; CMemo is the regression "skip keys this process has already dropped". *)

(* (1) one run, started on ANY store and after ANY history: none of its keys is left, nothing else was added or lost *)
Theorem C09_swept_run_leaves_nothing : forall h r, body_okb r = true -> r_sweep r = Some true ->
  run_leaves_nothing CDirect h r.
Proof. exact direct_run_clean_l. Qed.
Print Assumptions C09_swept_run_leaves_nothing.

Theorem C09_swept_run_store_exact : forall h r, body_okb r = true -> r_sweep r = Some true ->
  store (exec_krun CDirect h r) = remove_all (r_keys r) (store h).
Proof. exact direct_run_exact_l. Qed.

Theorem C09_run_clean_after_any_history : forall pre h r, body_okb r = true -> r_sweep r = Some true ->
  forall k, In k (r_keys r) -> ~ In k (store (exec_khist CDirect h (pre ++ [r]))).
Proof. exact direct_run_clean_any_history_l. Qed.
Print Assumptions C09_run_clean_after_any_history.

(* (2) histories of any length, keys repeating or not: the store is what it was before the first run minus every key of the
   history; after EVERY run no key of that run is in it and it holds nothing new *)
Theorem C09_history_store_exact : forall rs h, all_ok rs ->
  store (exec_khist CDirect h rs) = remove_all (flat_map r_keys rs) (store h).
Proof. exact direct_hist_exact_l. Qed.
Print Assumptions C09_history_store_exact.

Theorem C09_every_run_of_a_history_leaves_nothing : forall rs h, all_ok rs -> forall rs1 r rs2, rs = rs1 ++ r :: rs2 ->
  (forall k, In k (r_keys r) -> ~ In k (store (exec_khist CDirect h (rs1 ++ [r])))) /\
  incl (store (exec_khist CDirect h (rs1 ++ [r]))) (store h).
Proof. exact direct_every_run_clean_l. Qed.
Print Assumptions C09_every_run_of_a_history_leaves_nothing.

(* (3) why keys repeat: whatever a prepared session has done (runs, failing runs, drained / abandoned streams, get_result), its
   plan is the one it was prepared with (Model/Session.v), hence so are the keys derived from it *)
Theorem C09_plan_derived_keys_repeat : forall p a0 h,
  stable_keys (s_plan (after sess op result (exec true) (prepare p a0) h)) = stable_keys p.
Proof. exact stable_keys_invariant_l. Qed.
Print Assumptions C09_plan_derived_keys_repeat.

(* (4) the regression.  Full statement "forall rs, all_ok rs -> the stores of CMemo are those of CDirect" FAILS.
   It holds when no key ever repeats - single API calls, first runs of sessions: *)
Theorem C09_memo_same_without_repeats_partial : forall rs hm hd, (forall r, In r rs -> body_okb r = true) ->
  NoDup (flat_map r_keys rs) -> (forall k, In k (flat_map r_keys rs) -> ~ In k (memo hm)) -> store hm = store hd ->
  store (exec_khist CMemo hm rs) = store (exec_khist CDirect hd rs).
Proof. exact memo_no_repeat_equiv_l. Qed.
Print Assumptions C09_memo_same_without_repeats_partial.

(* ... and a key the main process has memoised (it swept it in an earlier run) that a worker uploads again survives the run *)
Theorem C09_memo_rememoised_key_survives : forall h r k b1 b2, In k (memo h) -> r_body r = b1 ++ SUp k :: b2 ->
  (forall e, In e b2 -> e <> SWDrop k) -> In k (store (exec_krun CMemo h r)).
Proof. exact memo_rememoised_key_survives_l. Qed.
Print Assumptions C09_memo_rememoised_key_survives.

Theorem C09_memoising_sweep_refuted :
  hist_okb [7] [] wit_hist = true /\ forallb body_okb wit_hist = true /\ repeated wit_hist = [7; 7] /\
  stores CDirect h0 wit_hist = [[]; []; []] /\ stores CMemo h0 wit_hist = [[]; [7]; [7]].
Proof. exact memo_leak_refuted_l. Qed.
Print Assumptions C09_memoising_sweep_refuted.

Theorem C09_memoising_store_grows_refuted :
  store (exec_khist CMemo h0 [wit_run 1; wit_run 2; wit_run2 3; wit_run2 4]) = [8; 7] /\
  store (exec_khist CDirect h0 [wit_run 1; wit_run 2; wit_run2 3; wit_run2 4]) = [].
Proof. exact memo_store_grows_refuted_l. Qed.

(* (5) the runs of the protocol model (Model/Worker.v: every interleaving, failure oracle, exit path) ARE such runs, for every
   assignment kap of keys to their objects: the workers' store actions concern keys of objects in `tasks`, and an exit through a
   finally block that reached join() without a raising final drop has swept, once, as its last action *)
Theorem C09_protocol_run_is_key_run : forall c kap stab tr st x, Worker.exec c pinit tr = Some st ->
  body_okb (run_of kap stab c tr st) = true /\
  (pc st = PExited x -> x <> XFinallyCrash -> mp c = true -> dropfail st = false -> r_sweep (run_of kap stab c tr st) = Some true).
Proof. intros c kap stab tr st x E. split; [exact (worker_run_body_ok_l c kap stab tr st E) | intros; eapply worker_run_swept_l; eauto]. Qed.
Print Assumptions C09_protocol_run_is_key_run.

Theorem C09_protocol_run_store : forall c kap stab tr st x h, Worker.exec c pinit tr = Some st -> pc st = PExited x -> x <> XFinallyCrash ->
  mp c = true -> dropfail st = false ->
  store (exec_krun CDirect h (run_of kap stab c tr st)) = remove_all (map kap (tasks st)) (store h).
Proof. exact worker_run_store_l. Qed.
Print Assumptions C09_protocol_run_store.

(* histories of protocol runs (each with its own configuration, trace and key assignment) against one store *)
Theorem C09_protocol_history_store : forall stab prs h, (forall r, In r prs -> prun_clean r) ->
  store (exec_khist CDirect h (map (krun_of stab) prs)) = remove_all (flat_map prun_keys prs) (store h).
Proof. exact protocol_history_store_l. Qed.
Print Assumptions C09_protocol_history_store.

Theorem C09_protocol_history_every_run_leaves_nothing : forall stab prs h, (forall r, In r prs -> prun_clean r) ->
  forall pre r post, prs = pre ++ r :: post ->
  (forall k, In k (prun_keys r) -> ~ In k (store (exec_khist CDirect h (map (krun_of stab) (pre ++ [r]))))) /\
  incl (store (exec_khist CDirect h (map (krun_of stab) (pre ++ [r])))) (store h).
Proof. exact protocol_history_every_run_clean_l. Qed.
Print Assumptions C09_protocol_history_every_run_leaves_nothing.

(* Worker.v's run-local `flight` is this model's store started empty with key = worker id (before the sweep; the sweep is c_drop
   over `tasks`) *)
Theorem C09_flight_is_the_key_store : forall c tr st0 st wm, Worker.exec c st0 tr = Some st -> (forall ok, ~ In (ODropAll ok) tr) ->
  flight st = snd (body CDirect wm (flight st0) (sevs (fun w => w) c st0 tr)).
Proof. exact flight_is_store_l. Qed.
Theorem C09_flight_sweep_is_the_key_sweep : forall c st ok st', Worker.step c st (ODropAll ok) = Some st' -> mp c = true ->
  flight st' = snd (if ok then c_drop CDirect [] (tasks st) (flight st) else ([], flight st)).
Proof. exact flight_sweep_l. Qed.
Print Assumptions C09_flight_is_the_key_store.

(* non-vacuity: three protocol runs (complete / worker failure after the upload / send failure) of a session whose object is
   transform-created (key 7 in every run) on a store that held a foreign key 9 and a stale 7 *)
Example C09_protocol_history_example :
  (forall r, In r ex_history -> prun_clean r) /\
  map (fun r => r_body (krun_of [7] r)) ex_history = [[SUp 7; SWDrop 7]; [SUp 7]; []] /\
  map (fun r => r_stable (krun_of [7] r)) ex_history = [[7]; [7]; [7]] /\
  stores CDirect {| store := [9; 7]; memo := [] |} (map (krun_of [7]) ex_history) = [[9]; [9]; [9]] /\
  stores CMemo {| store := [9; 7]; memo := [] |} (map (krun_of [7]) ex_history) = [[9]; [7; 9]; [7; 9]].
Proof. split; [exact ex_history_clean | exact protocol_history_example_l]. Qed.

(* (6) what an accepted observation (harness/c09_rerun.py, checker chk_rerun) says: the store observed after the n-th call of a
   session is, as a set, the model's store after n runs *)
Theorem C09_rerun_checker_sound : forall k, chk_rerun k = true -> forall n o, nth_error (hc_runs k) n = Some o ->
  forall x, In x (or_after o) <->
            In x (store (exec_khist CDirect {| store := hc_store0 k; memo := [] |} (firstn (S n) (map or_run (hc_runs k))))).
Proof. exact chk_rerun_sound_l. Qed.
Print Assumptions C09_rerun_checker_sound.
