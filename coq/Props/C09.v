(* C09 — after a run nothing is left behind; no dataset is dropped while a step that still needs it has not run.
   Property theorems only.

   Theorems cover the bookkeeping LOGIC (which is what decides premature drops and which the code implements in plain
   Python): the children tracker of a compute-framework object, the deferred drop of uploaded datasets, and 'join all
   started workers on every exit path'.  What a theorem cannot exhibit - that threads and processes have really ended,
   that the Arrow Flight store is really empty - is observed on the implementation after every run (DESIGN.md C09). *)
From Coq Require Import List Bool Arith.
Import ListNotations.
Require Import MV.Model.Orch MV.Model.Lifecycle MV.Proofs.LifecycleP.

(* for every children set and every sequence of processed feature-group steps: *)
Theorem C09_no_premature_drop : forall ch fss, dropped (process_all (new_obj ch) fss) = true ->
  forall c, In c ch -> exists fs, In fs fss /\ In c fs.
Proof. exact no_premature_drop_l. Qed.
Print Assumptions C09_no_premature_drop.

Theorem C09_dropped_when_all_processed : forall ch fss,
  (forall c, In c ch -> exists fs, In fs fss /\ In c fs) -> fss <> [] -> dropped (process_all (new_obj ch) fss) = true.
Proof. exact drop_when_all_processed_l. Qed.
Print Assumptions C09_dropped_when_all_processed.

Theorem C09_deferred_drop_sound : forall t fin c, In c (snd (drop_finished t fin)) ->
  exists ids, In (c, ids) t /\ incl ids fin.
Proof. exact drop_finished_sound_l. Qed.
Theorem C09_deferred_drop_keeps : forall t fin c ids, In (c, ids) t -> ~ incl ids fin -> In (c, ids) (fst (drop_finished t fin)).
Proof. exact drop_finished_keeps_l. Qed.
Print Assumptions C09_deferred_drop_sound.

Theorem C09_tasks_joined_on_every_exit : forall starts path x, In x starts -> In x (joined_tasks (run_tasks starts path)).
Proof. exact tasks_all_started_l. Qed.
Print Assumptions C09_tasks_joined_on_every_exit.

(* the drop rule depends on children_if_root being EXACTLY the consumers: a transform-created object copies its source's
   children (compute_framework_executor.prepare_execute_step), so it may wait for features that are never processed on it;
   such an object is never dropped by this rule - the store-leak finding *)
Example C09_copied_children_never_dropped :
  dropped (process_all (new_obj [1; 2; 3]) [[3]]) = false /\ dropped (process_all (new_obj [3]) [[3]]) = true.
Proof. vm_compute. split; reflexivity. Qed.
