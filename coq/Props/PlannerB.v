(* PlannerB - the planner on fragment B1: link-free requests whose feature groups live on SEVERAL compute frameworks.
   Property theorems only (proofs in Proofs/PlannerB*.v).

   Fragment B1: every feature group has one explicit compute framework (group_cfw), different groups may use different
   frameworks; no Links, no global filter, no declared data types, default options only.  Here the real planner inserts
   TransformFrameworkSteps (ExecutionPlan.add_tfs) and is WRONG in three order-dependent ways (known findings
   C01-tfs-partial-requirement, C01-tfs-missing, C01-framework-roundtrip-wrong-object, C04-nondet-tfs-required-parent).
   The model (Model/PlannerB.v) is faithful to the code, defects included; the harness (harness/planner_b.py) makes it
   reproduce the real plan step by step for every observed iteration order.  All statements are for EVERY finite acyclic
   feature graph (any size), every dict / set order, every order oracle.

   Reading guide (Model/PlannerB.v, Spec/PlannerBSpec.v, Model/PlanDefects.v; graphs etc. as in Props/PlannerA.v):
     bstep / bplan            an Orch.step (sid, kind KFG | KTFS, get_uuids(), required_uuids, requested) plus what the plan
                              exporter exports: frameworks, groups, any_uuid, children_if_root, tfs_ids
     plan_B ord g             the execution plan;  prepare_B ord g : PlannedB p | RejectedIncompleteB | RejectedCycleB
     erase g                  g with the frameworks forgotten (a strict Stage-A graph)
     max_input g c u          u is an ancestor of a feature of step c and not an ancestor of another such ancestor
     tfs_spec g p             every feature-group step waits, for each maximal input on another framework, for a transform
                              step with the right frameworks and groups that waits for the producer of that input
     tfs_spec_direct g p      ... requires it directly, and it requires the input directly
     kf_tfs_missing / kf_tfs_partial / kf_framework_roundtrip   the defect domains, executable on (exported plan, graph)
     kf_tfs_choice ord g      add_tfs has a choice to make: features of one step with different ancestors, or two
                              constructed TransformFrameworkSteps equal for __eq__
     bplan_equiv tb p p'      same plan up to step order, list orders, step ids, transform-step uuids, any_uuid *)
From Coq Require Import List Bool Arith Lia Permutation.
Import ListNotations.
Require Import MV.Model.Orch MV.Model.OrchCheck MV.Model.PlannerA MV.Spec.PlannerASpec.
Require Import MV.Model.PlannerB MV.Spec.PlannerBSpec MV.Model.PlanDefects.
Require Import MV.Proofs.OrchP MV.Proofs.OrchTermP MV.Proofs.PlanSimP MV.Proofs.PlannerAP.
Require Import MV.Proofs.PlannerBErase MV.Proofs.PlannerBP MV.Proofs.PlannerBWf MV.Proofs.PlannerBDefects.
Require Import MV.Proofs.PlannerBChoice MV.Proofs.PlannerBAccept MV.Proofs.PlannerBRefuted MV.Proofs.PlannerBDet.

(* ---- 1. reduction to Stage A ---- *)
(* the feature-group steps do not depend on the frameworks: every theorem of Props/PlannerA.v about plan_of ord (erase g)
   (closure, queue, levels, required sets) is a theorem about the feature-group steps of the multi-framework graph *)
Theorem PlannerB_fg_skeleton : forall ord g, ord_ok ord -> graph_ok g -> group_cfw g ->
  raw_plan ord (erase g) = raw_plan ord g /\ graph_ok (erase g) /\ strict (erase g) /\
  (forall a c, anc (erase g) a c <-> anc g a c).
Proof.
  intros ord g H1 H2 H3. split; [exact (raw_plan_erase ord g H1 H2 H3)|]. split; [exact (graph_ok_erase g H2)|].
  split; [exact (strict_erase g) | exact (anc_erase g)].
Qed.
Print Assumptions PlannerB_fg_skeleton.

(* (a) conservative extension: on a single-framework graph the model IS prepare_A - same steps, no transform step, same
   decision *)
Theorem PlannerB_conservative : forall ord g, ord_ok ord -> graph_ok g -> strict g ->
  steps_of (plan_B ord g) = plan_of ord g /\
  (forall b, In b (plan_B ord g) -> is_fg b = true /\ b_tfs b = [] /\ b_from b = 0) /\
  (forall p, prepare_A ord g = Planned p -> exists pb, prepare_B ord g = PlannedB pb /\ steps_of pb = p) /\
  (prepare_A ord g = RejectedCycle -> prepare_B ord g = RejectedCycleB) /\
  boutcome_code (prepare_B ord g) = outcome_code (prepare_A ord g).
Proof.
  intros ord g H1 H2 H3. split; [exact (strict_steps ord g H1 H2 H3)|]. split; [exact (strict_no_tfs ord g H1 H2 H3)|].
  exact (strict_conservative ord g H1 H2 H3).
Qed.
Print Assumptions PlannerB_conservative.

(* ---- 2. the plan, inside and outside the defect domains ---- *)
(* distinct ids and produced uuids; only feature-group and transform steps; every feature is produced by a feature-group step
   on its own framework; a feature-group step requires - among the features - exactly the proper ancestors of its features,
   and every other requirement is a transform step of the plan into its framework and group; a transform step has a fresh
   uuid, requires exactly one feature and converts FROM that feature's framework and group to another framework *)
Theorem PlannerB_plan_facts : forall ord g, ord_ok ord -> graph_ok g -> group_cfw g ->
  NoDup (map sid (steps_of (plan_B ord g))) /\ NoDup (all_uuids (steps_of (plan_B ord g))) /\
  (forall b, In b (plan_B ord g) -> (is_fg b = true \/ is_tfs b = true) /\ b_link b = false) /\
  (forall u, In u (ids g) -> exists x, In x (plan_B ord g) /\ is_fg x = true /\ In u (uuids (bs x)) /\
                                     b_cfw x = cfw_of g u /\ b_grp x = grp_of g u) /\
  (forall c, In c (plan_B ord g) -> is_fg c = true ->
     (forall u, In u (uuids (bs c)) -> In u (ids g)) /\ In (b_any c) (uuids (bs c)) /\
     (forall a, a < tbase g -> (In a (req (bs c)) <-> exists u, In u (uuids (bs c)) /\ anc g a u)) /\
     (forall i, In i (req (bs c)) -> tbase g <= i -> exists t, In t (plan_B ord g) /\ is_tfs t = true /\ uuids (bs t) = [i] /\
                                                            b_cfw t = b_cfw c /\ b_grp t = b_grp c)) /\
  (forall t, In t (plan_B ord g) -> is_tfs t = true ->
     exists p i, uuids (bs t) = [i] /\ tbase g <= i /\ req (bs t) = [p] /\ In p (ids g) /\
                 b_from t = cfw_of g p /\ b_fgrp t = grp_of g p /\ b_from t <> b_cfw t).
Proof. exact planB_facts. Qed.
Print Assumptions PlannerB_plan_facts.

(* T3's structural check and req_covers are theorems - also INSIDE the defect domains *)
Theorem PlannerB_plan_struct : forall ord g, ord_ok ord -> graph_ok g -> group_cfw g ->
  wf_struct (steps_of (plan_B ord g)) = true /\ validate_A (steps_of (plan_B ord g)) = true.
Proof. exact planB_struct. Qed.
Print Assumptions PlannerB_plan_struct.

Theorem PlannerB_plan_req_covers : forall ord g, ord_ok ord -> graph_ok g -> group_cfw g ->
  req_covers (steps_of (plan_B ord g)) (adj_of g) = true.
Proof. exact planB_req_covers. Qed.
Print Assumptions PlannerB_plan_req_covers.

(* the produced-check never fails; every ACCEPTED plan is well formed (hence terminates: Props/C04.v); a request is accepted
   exactly when its plan is well formed for some order *)
Theorem PlannerB_prepare_outcome : forall ord g, ord_ok ord -> graph_ok g -> group_cfw g ->
  prepare_B ord g = if runsim_accepts (steps_of (plan_B ord g)) then PlannedB (plan_B ord g) else RejectedCycleB.
Proof. exact prepare_B_outcome. Qed.
Print Assumptions PlannerB_prepare_outcome.

Theorem PlannerB_plan_wf : forall ord g p, ord_ok ord -> graph_ok g -> group_cfw g -> prepare_B ord g = PlannedB p ->
  p = plan_B ord g /\ exists order, wf_plan order (steps_of p) = true.
Proof.
  intros ord g p H1 H2 H3 H. destruct (prepare_B_planned_inv ord g H1 H2 H3 p H) as [E Hw]. split; [exact E|].
  exists (sim_order (steps_of p)). exact Hw.
Qed.
Print Assumptions PlannerB_plan_wf.

Theorem PlannerB_prepare_accepts_iff : forall ord g, ord_ok ord -> graph_ok g -> group_cfw g ->
  (prepare_B ord g = PlannedB (plan_B ord g) <-> exists order, wf_plan order (steps_of (plan_B ord g)) = true).
Proof. exact prepare_B_accepts_iff. Qed.
Print Assumptions PlannerB_prepare_accepts_iff.

(* ---- 3. the decision is deterministic (also inside the defect domains) ---- *)
(* transform steps never decide: the run simulation accepts the plan iff it accepts the Stage-A plan of erase g *)
Theorem PlannerB_accepts_iff_A : forall ord g, ord_ok ord -> graph_ok g -> group_cfw g ->
  runsim_accepts (steps_of (plan_B ord g)) = runsim_accepts (plan_of ord g) /\
  (prepare_B ord g = PlannedB (plan_B ord g) <-> prepare_A ord (erase g) = Planned (plan_of ord (erase g))) /\
  (prepare_B ord g = RejectedCycleB <-> prepare_A ord (erase g) = RejectedCycle).
Proof.
  intros ord g H1 H2 H3. split; [exact (planB_accepts_iff_A ord g H1 H2 H3) | exact (prepare_B_iff_A ord g H1 H2 H3)].
Qed.
Print Assumptions PlannerB_accepts_iff_A.

(* equivalent graphs, any two oracles: the same decision; the incomplete-plan error is impossible.  (The C04 difference
   classes accept-vs-reject and rejection-reason cannot occur on B1 requests.) *)
Theorem PlannerB_decision_deterministic : forall ord ord' g g', ord_ok ord -> ord_ok ord' -> graph_ok g -> group_cfw g -> graph_equiv g g' ->
  (prepare_B ord g = PlannedB (plan_B ord g) <-> prepare_B ord' g' = PlannedB (plan_B ord' g')) /\
  (prepare_B ord g = RejectedCycleB <-> prepare_B ord' g' = RejectedCycleB) /\
  prepare_B ord g <> RejectedIncompleteB.
Proof. exact decision_deterministic. Qed.
Print Assumptions PlannerB_decision_deterministic.

(* ---- 4. transform steps: the specification outside the defect domains ---- *)
(* FULL STATEMENT (false of the faithful model, see section 6):
     forall ord g, ord_ok ord -> graph_ok g -> group_cfw g -> tfs_spec g (plan_B ord g).
   (b)+(d): the defect predicates the harnesses evaluate on the EXPORTED plan and graph are sound for the model: outside
   kf_tfs_missing and kf_tfs_partial every feature-group step waits, for each maximal input on another framework, for a
   transform step (right frameworks, right groups) that waits for the producer of that input; together with req_covers and
   the structural checks, which hold everywhere. *)
Theorem PlannerB_defects_sound_partial : forall ord g, ord_ok ord -> graph_ok g -> group_cfw g ->
  kf_tfs_missing (plan_B ord g) (adj_of g) = false -> kf_tfs_partial (plan_B ord g) (adj_of g) = false ->
  tfs_spec g (plan_B ord g) /\
  req_covers (steps_of (plan_B ord g)) (adj_of g) = true /\ wf_struct (steps_of (plan_B ord g)) = true /\
  (forall p, prepare_B ord g = PlannedB p -> exists order, wf_plan order (steps_of p) = true).
Proof.
  intros ord g H1 H2 H3 Hm Hp. split; [exact (defects_sound ord g H1 H2 H3 Hm Hp)|].
  split; [exact (planB_req_covers ord g H1 H2 H3)|]. split; [exact (proj1 (planB_struct ord g H1 H2 H3))|].
  intros p H. destruct (prepare_B_planned_inv ord g H1 H2 H3 p H) as [_ Hw]. exists (sim_order (steps_of p)). exact Hw.
Qed.
Print Assumptions PlannerB_defects_sound_partial.

(* the executable wait-for closure used by the predicates means the wait-for relation *)
Theorem PlannerB_waitsb_sound : forall (xp : bplan) s t, NoDup (map sid (steps_of xp)) -> In s xp -> In t xp ->
  waitsb xp s t = true -> waits (steps_of xp) (bs s) (bs t).
Proof. exact waitsb_sound. Qed.
Print Assumptions PlannerB_waitsb_sound.

(* a decidable class on graph + oracle where the planner has no choice to make: the STRONG specification holds - every
   consumer directly requires a transform step that directly requires the input *)
Theorem PlannerB_choice_free_direct : forall ord g, ord_ok ord -> graph_ok g -> group_cfw g ->
  kf_tfs_choice ord g = false -> tfs_spec_direct g (plan_B ord g).
Proof. exact choice_free_direct. Qed.
Print Assumptions PlannerB_choice_free_direct.

(* ---- 5. determinism of the plan ---- *)
(* FULL STATEMENT (false of the faithful model, PlannerB_two_plans_refuted):
     forall ord ord' g g', ord_ok ord -> ord_ok ord' -> graph_ok g -> group_cfw g -> graph_equiv g g' ->
       bplan_equiv (tbase g) (plan_B ord g) (plan_B ord' g').
   Proved where add_tfs has no choice to make under either oracle: *)
Theorem PlannerB_plan_deterministic_partial : forall ord ord' g g', ord_ok ord -> ord_ok ord' -> graph_ok g -> group_cfw g ->
  graph_equiv g g' -> kf_tfs_choice ord g = false -> kf_tfs_choice ord' g' = false ->
  bplan_equiv (tbase g) (plan_B ord g) (plan_B ord' g').
Proof. exact plan_deterministic_partial. Qed.
Print Assumptions PlannerB_plan_deterministic_partial.

(* ---- 6. inside the domains: kernel-checked witnesses ---- *)
(* partial requirement.  r <- (root, framework 1);  group P on framework 1: p1 <- r, p3 <- r, p2 <- p3;  c <- p1, p2 on framework
   2.  When add_tfs iterates the parents of c as p1, p2 the kept transform step requires p1 only: the plan is accepted, passes
   req_covers and wf_plan_auto, lies in kf_tfs_partial (consumer sid 4, input p2 = 6), and the specification FAILS *)
Theorem PlannerB_tfs_spec_partial_refuted :
  graph_ok g_part /\ group_cfw g_part /\ ord_ok o_p1_first /\
  boutcome_code (prepare_B o_p1_first g_part) = 0 /\
  req_covers (steps_of (plan_B o_p1_first g_part)) (adj_of g_part) = true /\ wf_plan_auto (steps_of (plan_B o_p1_first g_part)) = true /\
  kf_tfs_partial (plan_B o_p1_first g_part) (adj_of g_part) = true /\
  kf_tfs_partial_at (plan_B o_p1_first g_part) (adj_of g_part) = [(4, 6)] /\
  ~ tfs_spec g_part (plan_B o_p1_first g_part).
Proof.
  destruct g_part_ok as [H1 H2]. destruct part_codes as (C1 & C2 & _ & C4 & _ & C6 & C7 & _).
  split; [exact H1|]. split; [exact H2|]. split; [apply ord_obs_ok|]. split; [exact C4|]. split; [exact C6|]. split; [exact C7|].
  split; [vm_compute; reflexivity|]. split; [exact C2 | exact part_spec_refuted].
Qed.
Print Assumptions PlannerB_tfs_spec_partial_refuted.

(* the SAME graph under the other iteration order: outside all domains, the specification holds - and the two plans are
   different plans (the transform step waits for p1 / for p2): known finding C04-nondet-tfs-required-parent *)
Theorem PlannerB_two_plans_refuted :
  ord_ok o_p1_first /\ ord_ok o_p2_first /\
  kf_code (plan_B o_p2_first g_part) (adj_of g_part) = 0 /\ tfs_spec g_part (plan_B o_p2_first g_part) /\
  map (fun b => req (bs b)) (filter is_tfs (plan_B o_p1_first g_part)) = [[2]] /\
  map (fun b => req (bs b)) (filter is_tfs (plan_B o_p2_first g_part)) = [[6]] /\
  ~ bplan_equiv (tbase g_part) (plan_B o_p1_first g_part) (plan_B o_p2_first g_part).
Proof.
  split; [apply ord_obs_ok|]. split; [apply ord_obs_ok|]. split; [vm_compute; reflexivity|]. split; [exact part_spec_other_order|].
  split; [vm_compute; reflexivity|]. split; [vm_compute; reflexivity | exact part_two_plans].
Qed.
Print Assumptions PlannerB_two_plans_refuted.

(* missing transform step.  a, b <- (root, framework 1);  f2 <- b on framework 2;  ONE step {f3 <- b, f2;  f4 <- a} on framework 1.
   With f4 as any_uuid the step gets no transform step although f3's input f2 lives on framework 2 *)
Theorem PlannerB_tfs_missing_refuted :
  graph_ok g_miss /\ group_cfw g_miss /\ ord_ok o_any_f4 /\
  boutcome_code (prepare_B o_any_f4 g_miss) = 0 /\ req_covers (steps_of (plan_B o_any_f4 g_miss)) (adj_of g_miss) = true /\
  kf_tfs_missing (plan_B o_any_f4 g_miss) (adj_of g_miss) = true /\
  kf_tfs_missing_at (plan_B o_any_f4 g_miss) (adj_of g_miss) = [(1, 4)] /\
  filter (fun t => is_tfs t && Nat.eqb (b_from t) 2) (plan_B o_any_f4 g_miss) = [] /\
  List.length (filter (fun t => is_tfs t && Nat.eqb (b_from t) 2) (plan_B o_any_f3 g_miss)) = 1 /\
  ~ tfs_spec g_miss (plan_B o_any_f4 g_miss).
Proof.
  destruct g_miss_ok as [H1 H2]. destruct miss_plans as (_ & _ & C1 & C2 & C3 & C4).
  split; [exact H1|]. split; [exact H2|]. split; [apply ord_obs_ok|]. split; [exact C3|]. split; [exact C4|].
  split; [vm_compute; reflexivity|]. split; [exact C2|]. split; [vm_compute; reflexivity|]. split; [vm_compute; reflexivity|].
  exact miss_spec_refuted.
Qed.
Print Assumptions PlannerB_tfs_missing_refuted.

(* framework round trip A -> B -> A: as a PLAN everything is right (no missing / partial transform step, no choice: one plan
   for every oracle), but the registry lookup of the SYNC run (route_sync: sid, (object written, object read)) sends the
   last step (sid 4) to object 0 - the root's - instead of object 2, which its transform step (sid 3) made *)
Theorem PlannerB_roundtrip_refuted :
  graph_ok g_round /\ group_cfw g_round /\
  kf_tfs_missing (plan_B ord_id g_round) (adj_of g_round) = false /\ kf_tfs_partial (plan_B ord_id g_round) (adj_of g_round) = false /\
  kf_tfs_choice ord_id g_round = false /\
  kf_framework_roundtrip (plan_B ord_id g_round) = true /\ kf_roundtrip_at (plan_B ord_id g_round) = [(4, 0)] /\
  route_sync (plan_B ord_id g_round) = [(0, (0, None)); (1, (1, Some 0)); (2, (1, None)); (3, (2, Some 1)); (4, (0, None))] /\
  misrouted_sync (plan_B ord_id g_round) = [4].
Proof.
  destruct g_round_ok as [H1 H2]. destruct round_refuted as (_ & R).
  split; [exact H1|]. split; [exact H2 | exact R].
Qed.
Print Assumptions PlannerB_roundtrip_refuted.

(* ---- 7. the hypotheses as the harness evaluates them ---- *)
Theorem PlannerB_group_cfwb_sound : forall g, group_cfwb g = true -> group_cfw g.
Proof. exact group_cfwb_sound. Qed.
Print Assumptions PlannerB_group_cfwb_sound.

(* the oracle built from an observed preparation is an order oracle whatever was observed *)
Theorem PlannerB_ord_obs_ok : forall anys ptab, ord_ok (ord_obs anys ptab).
Proof. exact ord_obs_ok. Qed.
Print Assumptions PlannerB_ord_obs_ok.

(* ---- Examples: the hypotheses are satisfiable, the plans are what one expects ---- *)
(* the two plans of g_part (kind, uuids, required, (from, to, from group, to group), tfs_ids) *)
Example PlannerB_ex_part_plans :
  brief (plan_B o_p1_first g_part) =
    [ (KFG, [0], [], (0, 1, 0, 1), []); (KFG, [2; 4], [0], (0, 1, 0, 2), []); (KFG, [6], [4; 0], (0, 1, 0, 2), []);
      (KTFS, [10], [2], (1, 2, 2, 3), []); (KFG, [9], [2; 6; 0; 4; 10], (0, 2, 0, 3), [10; 11]) ] /\
  brief (plan_B o_p2_first g_part) =
    [ (KFG, [0], [], (0, 1, 0, 1), []); (KFG, [2; 4], [0], (0, 1, 0, 2), []); (KFG, [6], [4; 0], (0, 1, 0, 2), []);
      (KTFS, [10], [6], (1, 2, 2, 3), []); (KFG, [9], [2; 6; 0; 4; 10], (0, 2, 0, 3), [10; 11]) ].
Proof. exact part_plans. Qed.

(* a three-framework chain a (1) -> f1 (2) -> f2 (3): choice free, strong specification, and the erased graph is strict *)
Definition ex_chain : fgraph :=
  [ {| fid := 5; fgrp := 3; fins := [2]; freq := true;  fcfw := 3 |};
    {| fid := 2; fgrp := 2; fins := [0]; freq := false; fcfw := 2 |};
    {| fid := 0; fgrp := 1; fins := [];  freq := false; fcfw := 1 |} ].
Example PlannerB_ex_chain :
  graph_ok ex_chain /\ group_cfw ex_chain /\ ~ strict ex_chain /\ kf_tfs_choice ord_id ex_chain = false /\
  kf_code (plan_B ord_id ex_chain) (adj_of ex_chain) = 0 /\
  brief (plan_B ord_id ex_chain) =
    [ (KFG, [0], [], (0, 1, 0, 1), []); (KTFS, [6], [0], (1, 2, 1, 2), []); (KFG, [2], [0; 6], (0, 2, 0, 2), [6]);
      (KTFS, [8], [2], (2, 3, 2, 3), []); (KFG, [5], [2; 0; 8], (0, 3, 0, 3), [8]) ] /\
  tfs_spec_direct ex_chain (plan_B ord_id ex_chain).
Proof.
  assert (H1 : graph_ok ex_chain) by (apply graph_okb_sound; vm_compute; reflexivity).
  assert (H2 : group_cfw ex_chain) by (apply group_cfwb_sound; vm_compute; reflexivity).
  split; [exact H1|]. split; [exact H2|]. split.
  - intros Hs. specialize (Hs (nth 0 ex_chain (erase_node (nth 0 ex_chain (nth 0 (erase ex_chain) (erase_node {| fid := 0; fgrp := 0; fins := []; freq := false; fcfw := 0 |})))))
                             (nth 1 ex_chain (nth 0 ex_chain (erase_node {| fid := 0; fgrp := 0; fins := []; freq := false; fcfw := 0 |})))).
    cbn in Hs. assert (E : 3 = 2) by (apply Hs; [left; reflexivity | right; left; reflexivity]). discriminate.
  - split; [vm_compute; reflexivity|]. split; [vm_compute; reflexivity|]. split; [vm_compute; reflexivity|].
    apply (choice_free_direct ord_id ex_chain ord_id_ok H1 H2). vm_compute. reflexivity.
Qed.
