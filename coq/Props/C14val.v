(* C14 (values) -- moving a table between the three base compute frameworks preserves it.   Theorems only; proofs in
   Proofs/ValueConvFloatP.v, Proofs/ValueConvP.v, Proofs/ValueConvRegP.v.

   Props/C14.v proves the ROUTING and the round trip "under a bijection hypothesis".  This file discharges that hypothesis
   on a value-level MODEL of the four transformer functions (Model/ValueConv.v: python-dict rows, Arrow typed columns with
   validity, pandas columns with a dtype; cells null / int64 / binary64 (bit-exact, SpecFloat) / string / bool), in the
   form the property states it: not `back (forth x) = x` -- that is false, a null comes back as NaN and a nullable int
   column comes back as float64 -- but `pres (view x) (view (back (forth x)))` where pres (Spec/ValueConv.v) identifies
   exactly null/NaN and the exact int -> float widening of a column that contains a null, and is positional (names, number
   and ORDER of rows).  What pyarrow / pandas do is MODELLED (facts L1-L7 in the header of Model/ValueConv.v, part of the
   trusted base) and tied to the real libraries cell by cell on every run (harness/c14_conv.py, chk_conv).

   Two domains in which the UNCHANGED tree does not preserve (known findings, kept narrow):
     kf_widening v   a column with a null and an integer of magnitude > 2^53, pandas on the route      (values)
                     (kf_widening_exact: ... and an integer that is not representable -- the exact set, see
                      C14val_roundtrip_preserved_iff)
     kf_empty v      >= 1 column and 0 rows, list-of-dicts as the target                              (column names)
   For tables of ANY size. *)
From Coq Require Import List Bool Arith ZArith String SpecFloat.
Import ListNotations.
Require Import MV.Model.Transform MV.Model.ValueConv MV.Spec.ValueConv MV.Model.ValueConvReg MV.Gen.Registry.
Require Import MV.Proofs.ValueConvFloatP MV.Proofs.ValueConvP MV.Proofs.ValueConvRegP.
Open Scope Z_scope.

(* ---------- int64 -> float64 -> integer: the identity exactly on the representable integers ---------- *)
(* z2f = SpecFloat.binary_normalize 53 1024 (round to nearest even); f2z f = the integer f denotes, if any;
   representable z = |z| has at most 53 significant bits *)
Theorem C14val_int_float_exact_iff : forall z, int64_ok z = true -> (f2z (z2f z) = Some z <-> representable z = true).
Proof. exact z2f_exact_iff_l. Qed.
Print Assumptions C14val_int_float_exact_iff.

Theorem C14val_int_float_exact_small : forall z, Z.abs z <= 2 ^ 53 -> f2z (z2f z) = Some z.
Proof. exact z2f_exact_small_l. Qed.

(* ... and 2^53 + 1 is the first integer that does not survive: it arrives as 2^53 *)
Example C14val_int_float_refuted :
  f2z (z2f (2 ^ 53 + 1)) = Some (2 ^ 53) /\ representable (2 ^ 53 + 1) = false /\
  f2z (z2f (2 ^ 63 - 1)) = Some (2 ^ 63) /\ f2z (z2f (2 ^ 53 + 2)) = Some (2 ^ 53 + 2).
Proof. vm_compute. repeat split. Qed.

(* (The kernel's primitive int63 -> binary64 conversion PrimFloat.of_uint63 -- the machine's round-to-nearest-even -- is compared
   with z2f on every integer the correspondence sees: hw_ok in harness/c14_conv.py.  It is an evaluation, not a theorem, and is
   kept out of this file so that no primitive / Uint63 axiom enters the context of these theorems.) *)

(* ---------- one conversion, every ordered pair: direct, or through the Arrow hub for pandas <-> list ---------- *)
(* FULL STATEMENT (false on the unchanged tree inside kf_route):
     forall a b x, a <> b -> valid_of a x = true ->
       valid_of b (conv a b x) = true /\ pres (view_of x) (view_of (conv a b x)) = true.                              *)
Theorem C14val_forward_partial : forall a b x, a <> b -> valid_of a x = true -> kf_route a b (view_of x) = false ->
  valid_of b (conv a b x) = true /\ pres (view_of x) (view_of (conv a b x)) = true.
Proof. exact forward_kf_l. Qed.

(* ---------- there and back, every ordered pair ---------- *)
(* FULL STATEMENT (false on the unchanged tree inside kf_route):
     forall a b x, a <> b -> valid_of a x = true ->
       valid_of a (conv b a (conv a b x)) = true /\ pres (view_of x) (view_of (conv b a (conv a b x))) = true.        *)
Theorem C14val_roundtrip_partial : forall a b x, a <> b -> valid_of a x = true -> kf_route a b (view_of x) = false ->
  valid_of b (conv a b x) = true /\ pres (view_of x) (view_of (conv a b x)) = true /\
  valid_of a (conv b a (conv a b x)) = true /\ pres (view_of x) (view_of (conv b a (conv a b x))) = true.
Proof. exact roundtrip_kf_l. Qed.
Print Assumptions C14val_roundtrip_partial.

(* the same with the SHARP loss domain: a nullable integer column holding an integer that is not representable
   (kf_widening_exact; 2^54 with a null next to it is inside kf_widening but survives) *)
Theorem C14val_roundtrip_partial_exact : forall a b x, a <> b -> valid_of a x = true -> kf_route_exact a b (view_of x) = false ->
  valid_of b (conv a b x) = true /\ pres (view_of x) (view_of (conv a b x)) = true /\
  valid_of a (conv b a (conv a b x)) = true /\ pres (view_of x) (view_of (conv b a (conv a b x))) = true.
Proof. exact roundtrip_l. Qed.

(* EXACT CHARACTERISATION.  Outside the empty-table domain every round trip is preserved IF AND ONLY IF the table is outside
   the sharp loss domain of its route -- so kf_route_exact is not merely sufficient, it is the set of tables the unchanged
   tree damages (in the model) *)
Theorem C14val_roundtrip_preserved_iff : forall a b x, a <> b -> valid_of a x = true ->
  (b = FDict -> kf_empty (view_of x) = false) ->
  (pres (view_of x) (view_of (conv b a (conv a b x))) = true <-> kf_route_exact a b (view_of x) = false).
Proof. exact roundtrip_iff_l. Qed.
Print Assumptions C14val_roundtrip_preserved_iff.

Theorem C14val_forward_preserved_iff : forall a b x, a <> b -> valid_of a x = true ->
  (b = FDict -> kf_empty (view_of x) = false) ->
  (pres (view_of x) (view_of (conv a b x)) = true <-> (to_pandas b && kf_widening_exact (view_of x)) = false).
Proof. exact forward_iff_l. Qed.

(* ... because what a round trip does is known exactly: up to null/NaN (`same`) the result is the source view itself, or,
   when pandas is on the route, the source view with every integer of every column that contains a null replaced by its
   double (widened_view) -- inside the loss domain too *)
Theorem C14val_roundtrip_is_widening : forall a b x, a <> b -> valid_of a x = true ->
  (b = FDict -> kf_empty (view_of x) = false) ->
  valid_of a (conv b a (conv a b x)) = true /\
  same (expected (uses_pandas a b) (view_of x)) (view_of (conv b a (conv a b x))) = true.
Proof. exact roundtrip_same_l. Qed.

Theorem C14val_forward_is_widening : forall a b x, a <> b -> valid_of a x = true ->
  (b = FDict -> kf_empty (view_of x) = false) ->
  valid_of b (conv a b x) = true /\ same (expected (to_pandas b) (view_of x)) (view_of (conv a b x)) = true.
Proof. exact forward_same_l. Qed.

Theorem C14val_kf_domains_nested : forall a b v, kf_route a b v = false -> kf_route_exact a b v = false.
Proof. exact kf_route_exact_in. Qed.

(* inside the domains the model loses what the real code loses *)
Definition wit_widening : anytable := TArrow [("a"%string, AInt [Some (2 ^ 53 + 1); None])].
Definition wit_empty : anytable := TArrow [("a"%string, AInt []); ("b"%string, AStr [])].
Example C14val_roundtrip_refuted :
  (* Arrow -> pandas -> Arrow: 2^53+1 comes back as the double 2^53 *)
  valid_of FArrow wit_widening = true /\ kf_route FArrow FPandas (view_of wit_widening) = true /\
  conv FPandas FArrow (conv FArrow FPandas wit_widening)
    = TArrow [("a"%string, AFloat [Some (S754_finite false 4503599627370496 1); None])] /\
  pres (view_of wit_widening) (view_of (conv FPandas FArrow (conv FArrow FPandas wit_widening))) = false /\
  (* Arrow -> list of dicts -> Arrow with 0 rows: both columns are gone *)
  valid_of FArrow wit_empty = true /\ kf_route FArrow FDict (view_of wit_empty) = true /\
  conv FArrow FDict wit_empty = TDict [] /\ conv FDict FArrow (conv FArrow FDict wit_empty) = TArrow [] /\
  pres (view_of wit_empty) (view_of (conv FDict FArrow (conv FArrow FDict wit_empty))) = false.
Proof. vm_compute. repeat split. Qed.

(* ---------- column names and number of rows: kept even where a value is not (inside kf_widening) ---------- *)
Theorem C14val_names_and_row_count : forall a b x, a <> b -> valid_of a x = true ->
  (b = FDict -> kf_empty (view_of x) = false) ->
  valid_of b (conv a b x) = true /\ shape (view_of (conv a b x)) = shape (view_of x).
Proof. exact shape_l. Qed.

(* pres is an honest "preserved": reflexive, transitive, and it fixes names and the number of cells of every column;
   it is positional, so the ORDER of rows is part of it *)
Theorem C14val_pres_refl : forall v, pres v v = true.
Proof. exact pres_refl. Qed.
Theorem C14val_pres_trans : forall v1 v2 v3, pres v1 v2 = true -> pres v2 v3 = true -> pres v1 v3 = true.
Proof. exact pres_trans. Qed.
Theorem C14val_pres_shape : forall v v', pres v v' = true -> shape v = shape v'.
Proof. exact pres_shape. Qed.
Example C14val_pres_is_ordered_and_strict :
  let c := fun l => [("a"%string, l)] in
  pres (c [VInt 1; VInt 2]) (c [VInt 2; VInt 1]) = false /\                                  (* order of rows *)
  pres (c [VInt 1; VNull]) (c [VFloat (z2f 1); VFloat S754_nan]) = true /\                    (* the two tolerances *)
  pres (c [VInt 1; VInt 2]) (c [VFloat (z2f 1); VFloat (z2f 2)]) = false /\                   (* widening without a null *)
  pres (c [VFloat (S754_zero false)]) (c [VFloat (S754_zero true)]) = false /\                (* +0.0 is not -0.0 *)
  pres (c [VBool true]) (c [VInt 1]) = false /\ pres (c [VStr ""]) (c [VNull]) = false /\
  pres (c [VInt (2 ^ 53 + 1); VNull]) (c [VFloat (z2f (2 ^ 53 + 1)); VNull]) = false.        (* inexact widening *)
Proof. vm_compute. repeat split. Qed.

(* ---------- the python-dict transformer's schema check ---------- *)
(* it raises its ValueError exactly when some row's key SET differs from the first row's (order is irrelevant) *)
Theorem C14val_schema_check_rejects_iff : forall rows,
  d2a rows = Rejected <->
  exists r0 rest r, rows = r0 :: rest /\ In r rows /\ ~ (forall k, In k (keys r) <-> In k (keys r0)).
Proof. exact schema_reject_iff_l. Qed.
Print Assumptions C14val_schema_check_rejects_iff.

(* on accepted tables the view (columns of the first row, cells by name) shows every (key, value) of every row *)
Theorem C14val_dict_view_complete : forall rows r k v, valid_d rows = true -> In r rows -> In (k, v) r ->
  exists cs, In (k, cs) (view_d rows) /\ In v cs.
Proof. exact view_d_complete_l. Qed.

(* why the check is needed: pa.Table.from_pylist alone invents a null for a missing key and drops an extra key;
   a different key ORDER is fine (cells are looked up by name) *)
Example C14val_schema_check_needed :
  let a := "a"%string in let b := "b"%string in
  from_pylist [[(a, VInt 1)]; []] = Ok [(a, AInt [Some 1; None])] /\ d2a [[(a, VInt 1)]; []] = Rejected /\
  from_pylist [[(a, VInt 1)]; [(a, VInt 2); (b, VInt 3)]] = Ok [(a, AInt [Some 1; Some 2])] /\
  d2a [[(a, VInt 1)]; [(a, VInt 2); (b, VInt 3)]] = Rejected /\
  d2a [[(a, VInt 1); (b, VStr "x")]; [(b, VStr "y"); (a, VInt 2)]] = Ok [(a, AInt [Some 1; Some 2]); (b, AStr [Some "x"%string; Some "y"%string])].
Proof. vm_compute. repeat split. Qed.

(* ---------- T1: on the registry of the working tree the step loop runs exactly these conversions ---------- *)
Theorem C14val_installed_route : forall a b x, a <> b -> route_res a b x = TOk anytable (conv a b x).
Proof. exact installed_route_l. Qed.

(* C14_installed_roundtrip with its bijection hypothesis replaced by the value model: for the route
   TransformFrameworkStep.transform takes on the installed registry and the route it takes back *)
Theorem C14val_installed_roundtrip : forall a b x y, a <> b -> valid_of a x = true -> kf_route_exact a b (view_of x) = false ->
  route_res a b x = TOk anytable y ->
  valid_of b y = true /\ pres (view_of x) (view_of y) = true /\
  exists x', route_res b a y = TOk anytable x' /\ valid_of a x' = true /\ pres (view_of x) (view_of x') = true.
Proof. exact installed_roundtrip_val_l. Qed.
Print Assumptions C14val_installed_roundtrip.

(* ---------- non-vacuity ---------- *)
Definition ex_rows : anytable :=
  TDict [[("i"%string, VInt 7); ("f"%string, VFloat S754_nan); ("s"%string, VStr "x"); ("b"%string, VNull); ("n"%string, VNull)];
         [("s"%string, VNull); ("i"%string, VNull); ("f"%string, VFloat (S754_zero true)); ("n"%string, VNull); ("b"%string, VBool true)]].
Example C14val_example :
  valid_of FDict ex_rows = true /\ kf_route FDict FPandas (view_of ex_rows) = false /\
  conv FDict FPandas ex_rows =
    TPandas [("i"%string, PFloat [S754_finite false 7881299347898368 (-50); S754_nan]);     (* 7 widened to 7.0, null -> NaN *)
             ("f"%string, PFloat [S754_nan; S754_zero true]);
             ("s"%string, PStr [Some "x"%string; None]);
             ("b"%string, PObj [VNull; VBool true]);
             ("n"%string, PObj [VNull; VNull])] /\
  conv FPandas FDict (conv FDict FPandas ex_rows) =
    TDict [[("i"%string, VFloat (S754_finite false 7881299347898368 (-50))); ("f"%string, VNull); ("s"%string, VStr "x"); ("b"%string, VNull); ("n"%string, VNull)];
           [("i"%string, VNull); ("f"%string, VFloat (S754_zero true)); ("s"%string, VNull); ("b"%string, VBool true); ("n"%string, VNull)]] /\
  pres (view_of ex_rows) (view_of (conv FPandas FDict (conv FDict FPandas ex_rows))) = true.
Proof. vm_compute. repeat split. Qed.

(* ---------- one traversal for everything above (a Print Assumptions per theorem walks the whole closure again, ~0.6 s
   each; the headline theorems have their own) ---------- *)
Definition C14val_all := (C14val_int_float_exact_iff,
  C14val_int_float_exact_small,
  C14val_int_float_refuted,
  C14val_forward_partial,
  C14val_roundtrip_partial,
  C14val_roundtrip_partial_exact,
  C14val_roundtrip_preserved_iff,
  C14val_forward_preserved_iff,
  C14val_roundtrip_is_widening,
  C14val_forward_is_widening,
  C14val_kf_domains_nested,
  C14val_roundtrip_refuted,
  C14val_names_and_row_count,
  C14val_pres_refl,
  C14val_pres_trans,
  C14val_pres_shape,
  C14val_pres_is_ordered_and_strict,
  C14val_schema_check_rejects_iff,
  C14val_dict_view_complete,
  C14val_schema_check_needed,
  C14val_installed_route,
  C14val_installed_roundtrip,
  C14val_example).
Print Assumptions C14val_all.
