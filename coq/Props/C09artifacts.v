(* C09 - after a run nothing is left behind, on EVERY exit path: the first statement of the finally block of
   ExecutionOrchestrator.compute() / compute_stream(),
       self.data_lifecycle_manager.set_artifacts(self.cfw_register.get_artifacts())        (run.py:135 / 193)
   is evaluated BEFORE self.join().  Props/Worker.v proves the clean-up for every exit path EXCEPT a raising finally block
   (Worker_exit_cleanup_partial, crash point CArtifacts = label `OArtifacts false`, free oracle).  Here the outcome of that
   statement is computed from the register of the run (Model/Artifacts.v: CfwManager.error / msg / artifact_to_save, updated by the
   workers) by the accessor AS IT IS, and the exception is discharged.  Property theorems only. *)
From Coq Require Import List Bool Arith.
Import ListNotations.
Require Import MV.Model.Orch MV.Model.Worker MV.Spec.WorkerSpec MV.Model.Artifacts MV.Proofs.ArtifactsP.

(* for EVERY state of the register - failed or not, artifacts saved or not, whatever the message - the call returns, and it
   returns the saved artifacts *)
Theorem C09_artifacts_call_never_raises : forall r d,
  get_artifacts r = Some (a_arts r) /\ finally_artifacts get_artifacts r d = Some (a_arts r).
Proof. exact artifacts_call_never_raises_l. Qed.
Print Assumptions C09_artifacts_call_never_raises.

(* an accessor of the shape `if guard(register): raise ...; return artifact_to_save` is safe iff its guard never fires *)
Theorem C09_guarded_accessor_total_iff : forall guard,
  (forall r, get_artifacts_guarded guard r <> None) <-> (forall r, guard r = false).
Proof. exact guarded_total_iff_l. Qed.
Print Assumptions C09_guarded_accessor_total_iff.

(* the crash point CArtifacts is unreachable: for every accessor that never raises, every plan, worker assignment, failure
   oracle, artifact-saving steps and INTERLEAVING *)
Theorem C09_artifacts_crash_unreachable : forall g c art, (forall r, g r <> None) ->
  forall tr s, exec_a g c art ainit tr = Some s -> pc (a_st s) <> PExited XFinallyCrash.
Proof. exact crash_unreachable_l. Qed.
Print Assumptions C09_artifacts_crash_unreachable.

(* hence Worker_exit_cleanup_partial without its exception: EVERY exit of the protocol run together with the register ends
   with every started worker terminated (processes) and joined, no worker alive, and no dataset key of the run in the store *)
Theorem C09_every_exit_path_cleans_up : forall c art tr s x,
  exec_a get_artifacts c art ainit tr = Some s -> pc (a_st s) = PExited x ->
  x <> XFinallyCrash /\
  all_joined c (a_st s) /\ no_live_worker (a_st s) /\ tasks_are_the_started_workers (a_st s) /\
  (mp c = false -> flight (a_st s) = []) /\ (mp c = true -> dropfail (a_st s) = false -> flight (a_st s) = []).
Proof. exact every_exit_path_cleans_up_l. Qed.
Print Assumptions C09_every_exit_path_cleans_up.

(* the run with the register is a run of Model/Worker.v (so every Worker_* theorem speaks about it) *)
Theorem C09_artifacts_run_is_protocol_run : forall g c art tr s s',
  exec_a g c art s tr = Some s' -> exec c (a_st s) tr = Some (a_st s').
Proof. exact exec_a_exec. Qed.
Print Assumptions C09_artifacts_run_is_protocol_run.

(* DataLifecycleManager.artifacts changes only in the finally statement, to what the accessor returned *)
Theorem C09_session_artifacts_from_register : forall g c art s l s', step_a g c art s l = Some s' ->
  a_dlm s' = a_dlm s \/ (l = OArtifacts true /\ g (a_reg s) = Some (a_dlm s') /\ a_reg s' = a_reg s).
Proof. exact step_a_dlm. Qed.
Print Assumptions C09_session_artifacts_from_register.

(* ---- the statement FAILS for an accessor that refuses partial artifacts of a failed run
       if self.error and self.artifact_to_save: raise ValueError(...)
   (NOT the unchanged code): its guard fires exactly on (failed /\ artifacts <> {}), and a run in which step 0 saved an
   artifact, step 1 raised and step 2 is still busy in its own worker exits WITHOUT join: worker 6 alive, neither terminated
   nor joined, the dataset of worker 5 still in the store, the session's artifacts never set *)
Theorem C09_guard_failed_partial_spec : forall r, g_seed r = None <-> (a_error r = true /\ a_arts r <> []).
Proof. exact guard_failed_partial_spec_l. Qed.
Print Assumptions C09_guard_failed_partial_spec.

Theorem C09_every_exit_path_cleans_up_refuted :
  exists s, exec_a g_seed wcA artA ainit (trA_prefix ++ [OArtifacts false]) = Some s /\
    pc (a_st s) = PExited XFinallyCrash /\ a_error (a_reg s) = true /\ a_arts (a_reg s) = [(0, 7)] /\
    alive (phase (ws (a_st s) 6)) = true /\ terminated (ws (a_st s) 6) = false /\ joined (ws (a_st s) 6) = false /\
    joined (ws (a_st s) 5) = false /\ flight (a_st s) = [5] /\ a_dlm s = [].
Proof. exact artifacts_guarded_refuted_l. Qed.
Print Assumptions C09_every_exit_path_cleans_up_refuted.

(* the same history under the accessor as it is: the raising branch is not enabled; the run joins, drops and reports (0, 7) *)
Example C09_same_history_cleans_up :
  exec_a get_artifacts wcA artA ainit (trA_prefix ++ [OArtifacts false]) = None /\
  exists s, exec_a get_artifacts wcA artA ainit
              (trA_prefix ++ [OArtifacts true; OTerminate 5; OJoin 5; OTerminate 6; OJoin 6; OClose; ODropAll true]) = Some s /\
    pc (a_st s) = PExited XRaisedHead /\ flight (a_st s) = [] /\ phase (ws (a_st s) 6) = WKilled /\ joined (ws (a_st s) 6) = true /\
    a_dlm s = [(0, 7)].
Proof. exact artifacts_same_history_cleans_l. Qed.
