(* C17 — declared feature types are enforced exactly as documented.  Property theorems only. *)
From Coq Require Import List Bool String.
Import ListNotations.
Require Import MV.Spec.Types MV.Model.Validate MV.Gen.TypeTables MV.Proofs.TypesP.
Require Import MV.Model.ValidateChain MV.Proofs.ValidateChainP.
Require Import MV.Model.ValidateSet MV.Model.ValidateSetCheck MV.Proofs.ValidateSetP.

(* The code's two compatibility relations and its Arrow->DataType map, regenerated from /repo on this run by
   evaluating them on all 121 pairs / 24 Arrow types, equal the documented tables. *)
Theorem C17_strict_table : forall d a, gen_strict d a = Some (strict_spec d a).
Proof. exact strict_table_matches. Qed.
Print Assumptions C17_strict_table.

Theorem C17_lenient_table : forall d a, gen_lenient d a = Some (lenient_spec d a).
Proof. exact lenient_table_matches. Qed.
Print Assumptions C17_lenient_table.

Theorem C17_from_arrow : forall a, gen_from_arrow a = Some (from_arrow_spec a).
Proof. exact from_arrow_matches. Qed.
Print Assumptions C17_from_arrow.

Theorem C17_no_unknown_types : gen_extra_dtypes = 0.
Proof. exact no_extra_dtypes. Qed.
Print Assumptions C17_no_unknown_types.

(* A run fails with a mismatch exactly when the feature is declared, its column present with a supported type,
   and the pair is incompatible under the table selected by the strict flag. *)
Theorem C17_validate_decision : forall c,
  validate_raises code_strict code_lenient c = true <->
  exists d a, v_declared c = Some d /\ v_present c = true /\ v_actual c = Some a /\
              (if strict_mode (v_strict c) then strict_spec d a else lenient_spec d a) = false.
Proof. exact validate_decision_l. Qed.
Print Assumptions C17_validate_decision.

Theorem C17_undeclared_never_checked : forall s l c, v_declared c = None -> validate_raises s l c = false.
Proof. exact undeclared_never_checked_l. Qed.
Print Assumptions C17_undeclared_never_checked.

Theorem C17_strict_implies_lenient : forall d a, strict_spec d a = true -> lenient_spec d a = true.
Proof. exact strict_implies_lenient_l. Qed.
Print Assumptions C17_strict_implies_lenient.

Theorem C17_api_flag_forces_strict : forall d s, strict_mode (propagate_strict true (Some d) s) = true.
Proof. exact api_flag_forces_strict_l. Qed.
Theorem C17_api_flag_every_requested : forall d s, strict_mode (propagate_strict true d s) = true.
Proof. exact api_flag_every_requested_l. Qed.
(* before fix 04e88fc an untyped requested feature was left untouched (and with it every typed feature below it) *)
Theorem C17_api_flag_untyped_untouched_old : forall b s, propagate_strict_old b None s = s.
Proof. exact api_flag_untyped_untouched_l. Qed.
Print Assumptions C17_api_flag_forces_strict.

Theorem C17_set_data_type_conflict : forall a b, set_data_type (Some a) (Some b) = inr tt <-> a <> b.
Proof. exact set_data_type_conflict_l. Qed.
Print Assumptions C17_set_data_type_conflict.

(* non-vacuity: a declared/present/supported case that raises, and one that does not *)
Example C17_raises_somewhere :
  validate_raises code_strict code_lenient
    {| v_declared := Some STRING; v_present := true; v_actual := Some INT64; v_strict := SAbsent |} = true
  /\ validate_raises code_strict code_lenient
    {| v_declared := Some INT32; v_present := true; v_actual := Some DOUBLE; v_strict := SAbsent |} = false
  /\ validate_raises code_strict code_lenient
    {| v_declared := Some INT32; v_present := true; v_actual := Some DOUBLE; v_strict := STrue |} = true.
Proof. vm_compute; repeat split. Qed.

(* ---- strict enforcement per call along dependency chains of ANY depth (Model/ValidateChain.v) ---- *)

(* group options are handed on transitively: a strict flag nobody below contradicts is the effective option at every depth *)
Theorem C17_strict_reaches_every_depth : forall ls,
  (forall l, In l ls -> l_own l = SAbsent \/ l_own l = STrue) ->
  effective STrue ls = Some (map (fun _ => STrue) ls).
Proof. exact strict_reaches_every_depth_l. Qed.
Print Assumptions C17_strict_reaches_every_depth.

(* per-call flag (full statement, after fix 04e88fc): the call fails with a mismatch exactly when SOME typed feature of the chain -
   the requested one or an input at whatever depth, whether or not the requested feature declares a type - produces a type
   incompatible under the STRICT table; it never ends in the option-conflict error. *)
Theorem C17_api_flag_chain_decision : forall strict lenient top rest,
  l_own top <> SFalse ->
  (forall l, In l rest -> l_own l = SAbsent \/ l_own l = STrue) ->
  chain_run strict lenient true top rest = CMismatch <->
  exists l d a, In l (top :: rest) /\ l_declared l = Some d /\ l_actual l = Some a /\ strict d a = false.
Proof. exact api_flag_chain_decision_l. Qed.
Print Assumptions C17_api_flag_chain_decision.

Theorem C17_api_flag_chain_no_conflict : forall strict lenient top rest,
  l_own top <> SFalse ->
  (forall l, In l rest -> l_own l = SAbsent \/ l_own l = STrue) ->
  chain_run strict lenient true top rest <> CConflict.
Proof. exact api_flag_chain_no_conflict_l. Qed.
Print Assumptions C17_api_flag_chain_no_conflict.

Theorem C17_api_flag_own_false_rejected : forall strict lenient d0 a0 rest,
  chain_run strict lenient true {| l_declared := d0; l_actual := a0; l_own := SFalse |} rest = CConflict.
Proof. exact api_flag_own_false_rejected_l. Qed.
Print Assumptions C17_api_flag_own_false_rejected.

(* no strict flag anywhere: every depth is judged by the lenient table *)
Theorem C17_lenient_chain_decision : forall strict lenient top rest,
  l_own top = SAbsent -> (forall l, In l rest -> l_own l = SAbsent) ->
  chain_run strict lenient false top rest = CMismatch <->
  exists l d a, In l (top :: rest) /\ l_declared l = Some d /\ l_actual l = Some a /\ lenient d a = false.
Proof. exact lenient_chain_decision_l. Qed.
Print Assumptions C17_lenient_chain_decision.

(* the code before fix 04e88fc attached the per-call flag to TYPED requested features only: a typed dependency of an untyped
   requested feature was judged leniently although the call asked for strict enforcement (declared INT32, produced INT64);
   kept as a regression input (harness/c17.py chain_cases) *)
Theorem C17_api_flag_untyped_request_refuted_old :
  chain_run_old strict_spec lenient_spec true
    {| l_declared := None; l_actual := Some INT64; l_own := SAbsent |}
    [ {| l_declared := Some INT32; l_actual := Some INT64; l_own := SAbsent |} ] = COk
  /\ strict_spec INT32 INT64 = false.
Proof. exact api_flag_untyped_request_refuted_l. Qed.
Print Assumptions C17_api_flag_untyped_request_refuted_old.
Theorem C17_api_flag_untyped_request_fixed :
  chain_run strict_spec lenient_spec true
    {| l_declared := None; l_actual := Some INT64; l_own := SAbsent |}
    [ {| l_declared := Some INT32; l_actual := Some INT64; l_own := SAbsent |} ] = CMismatch.
Proof. exact api_flag_untyped_request_fixed_l. Qed.

Example C17_chain_depth3_raises :
  chain_run strict_spec lenient_spec true
    {| l_declared := Some INT64; l_actual := Some INT64; l_own := SAbsent |}
    [ {| l_declared := None; l_actual := Some INT64; l_own := SAbsent |};
      {| l_declared := Some STRING; l_actual := Some STRING; l_own := SAbsent |};
      {| l_declared := Some INT32; l_actual := Some INT64; l_own := SAbsent |} ] = CMismatch
  /\ chain_run strict_spec lenient_spec false
    {| l_declared := Some INT64; l_actual := Some INT64; l_own := SAbsent |}
    [ {| l_declared := None; l_actual := Some INT64; l_own := SAbsent |};
      {| l_declared := Some STRING; l_actual := Some STRING; l_own := SAbsent |};
      {| l_declared := Some INT32; l_actual := Some INT64; l_own := SAbsent |} ] = COk.
Proof. vm_compute; split; reflexivity. Qed.

(* ---- WHICH features of a run are type-checked (Model/ValidateSet.v): the features the user wrote carry their declaration, the
        features the engine adds by itself (index / join-key features for Links, filter features for a GlobalFilter) carry none ---- *)

(* the index features the engine creates (create_index_feature) never carry a declared type: for every group, every set of links,
   every feature they are created for *)
Theorem C17_index_features_undeclared : forall gi g links owner e,
  In e (add_index_features create_index_feature gi g links owner) -> e_type e = None.
Proof. exact (index_features_untyped _ create_index_feature_untyped). Qed.
Print Assumptions C17_index_features_undeclared.

(* the set of TYPED features of the collection = exactly the features the user wrote a declaration for (own declaration or the
   group's return_data_type_rule), each with exactly that declaration - for any number of groups, links, indexes and filters given
   by column name *)
Theorem C17_checked_exactly_the_declared : forall groups links filters us coll,
  undeclared_filters filters ->
  collect groups links filters us = Some coll ->
  forall e d, (In e coll /\ e_type e = Some d) <->
              exists u, In u us /\ declared_type groups u = Some (Some d) /\ e = user_entry u (Some d).
Proof. exact (collect_typed_exact _ create_index_feature_untyped). Qed.
Print Assumptions C17_checked_exactly_the_declared.

(* without the restriction on filters: the only other typed features are filter features on which the user declared the type *)
Theorem C17_typed_features_are_user_declared : forall groups links filters us coll e d,
  collect groups links filters us = Some coll -> In e coll -> e_type e = Some d ->
  (exists u, In u us /\ declared_type groups u = Some (Some d) /\ e = user_entry u (Some d)) \/
  (exists f u g, In f filters /\ In u us /\ nth_error groups (u_group u) = Some g /\ filter_matches g f = true /\
                 f_decl f = Some d /\ e_group e = u_group u /\ e_name e = f_name f).
Proof. exact (collect_typed_sound _ create_index_feature_untyped). Qed.
Print Assumptions C17_typed_features_are_user_declared.

Theorem C17_user_features_all_present : forall groups links filters us coll u,
  collect groups links filters us = Some coll -> In u us ->
  exists t, declared_type groups u = Some t /\ In (user_entry u t) coll.
Proof. exact (collect_user_complete create_index_feature). Qed.
Print Assumptions C17_user_features_all_present.

(* the run is rejected at prepare time iff a user declaration conflicts with the group's rule; otherwise it fails with a mismatch
   EXACTLY when a feature the user declared a type for produced an incompatible column under the table its strict option selects *)
Theorem C17_run_set_decision : forall strict lenient groups links filters us cols,
  undeclared_filters filters ->
  (run_set strict lenient groups links filters us cols = SReject <-> exists u, In u us /\ declared_type groups u = None) /\
  (run_set strict lenient groups links filters us cols = SMismatch <->
     (forall u, In u us -> declared_type groups u <> None) /\ exists u, In u us /\ user_incompatible strict lenient groups cols u).
Proof. exact (run_set_decision _ create_index_feature_untyped). Qed.
Print Assumptions C17_run_set_decision.

(* Links, index columns and filters by column name never change the verdict of a run *)
Theorem C17_added_features_never_change_the_verdict : forall strict lenient groups links filters us cols,
  undeclared_filters filters ->
  run_set strict lenient groups links filters us cols = run_set strict lenient groups None [] us cols.
Proof. exact run_set_added_irrelevant. Qed.
Print Assumptions C17_added_features_never_change_the_verdict.

(* what the statements need of the index-feature constructor is only that it leaves the type undeclared ... *)
Theorem C17_any_undeclared_index_constructor : forall mkidx,
  (forall gi idx owner, e_type (mkidx gi idx owner) = None) ->
  forall strict lenient groups links filters us cols, undeclared_filters filters ->
  (run_set_with mkidx strict lenient groups links filters us cols = SMismatch <->
     (forall u, In u us -> declared_type groups u <> None) /\ exists u, In u us /\ user_incompatible strict lenient groups cols u).
Proof. intros mkidx H strict lenient groups links filters us cols Hf. exact (proj2 (run_set_decision mkidx H strict lenient groups links filters us cols Hf)). Qed.
Print Assumptions C17_any_undeclared_index_constructor.

(* ... and an index feature that takes over the declaration of the feature it is created for breaks it: Users(uid:string, age) and
   Orders(uid:string, amount) linked on uid, age declared INT32 and amount DOUBLE and produced as such - the run must succeed and
   the inheriting variant reports a mismatch (on the key nobody declared) *)
Theorem C17_index_inherit_refuted :
  run_set_with index_inherit strict_spec lenient_spec wit_groups wit_links [] wit_us wit_cols = SMismatch
  /\ run_set strict_spec lenient_spec wit_groups wit_links [] wit_us wit_cols = SOk
  /\ run_set strict_spec lenient_spec wit_groups None [] wit_us wit_cols = SOk.
Proof. exact index_inherit_refuted_l. Qed.
Print Assumptions C17_index_inherit_refuted.

(* per-call flag on a request with input features: every user feature is judged strictly (ties Model/ValidateSet.flatten to the
   chain model's option merge) *)
Theorem C17_flatten_api_all_strict : forall rs,
  (forall r, In r rs -> r_own r <> SFalse /\ forall d, In d (r_deps r) -> d_own d <> SFalse) ->
  exists us, flatten true rs = Some us /\ forall u, In u us -> u_strict u = STrue.
Proof. exact flatten_api_all_strict. Qed.
Print Assumptions C17_flatten_api_all_strict.

(* non-vacuity: a declared value feature with a wrong column is still rejected with links present; a declared key is checked *)
Example C17_set_examples :
  run_set strict_spec lenient_spec wit_groups wit_links [] wit_us
          [ [("uid"%string, Some STRING); ("age"%string, Some STRING)]; [("uid"%string, Some STRING); ("amount"%string, Some DOUBLE)] ] = SMismatch
  /\ run_set strict_spec lenient_spec wit_groups wit_links [ {| f_name := "uid"%string; f_decl := None; f_own := SAbsent |} ]
          ({| u_group := 0; u_name := "uid"%string; u_decl := Some INT64; u_strict := SAbsent |} :: wit_us) wit_cols = SMismatch
  /\ run_set strict_spec lenient_spec wit_groups wit_links [ {| f_name := "uid"%string; f_decl := None; f_own := SAbsent |} ]
          ({| u_group := 0; u_name := "uid"%string; u_decl := Some STRING; u_strict := SAbsent |} :: wit_us) wit_cols = SOk.
Proof. vm_compute; repeat split. Qed.

(* ---- the statement in executable form (Model/ValidateSetCheck.spec_request: a function of the user's declarations alone - links,
        indexes and index columns do not occur in it) is the verdict of the engine model, for ALL requests; this is what the
        correspondence evaluates on every generated request (chk_links_spec) next to the model itself (chk_links) ---- *)
Theorem C17_verdict_depends_on_declarations_only : forall strict lenient groups links filters api rs cols,
  fst (run_request strict lenient groups links filters api rs cols) = spec_request strict lenient groups filters api rs cols.
Proof. exact run_request_is_spec. Qed.
Print Assumptions C17_verdict_depends_on_declarations_only.

(* the typed part of the collection = declared_entries (user features with a resulting declaration + filter features the user
   declared a type on), with declared filters allowed *)
Theorem C17_typed_collection_is_declared : forall groups links filters us coll,
  collect groups links filters us = Some coll ->
  forall e, typed e = true -> (In e coll <-> In e (declared_entries groups filters us)).
Proof. exact typed_collection_is_declared. Qed.
Print Assumptions C17_typed_collection_is_declared.

Theorem C17_declared_entries_of_user_features : forall groups filters us e,
  undeclared_filters filters ->
  (In e (declared_entries groups filters us) <->
   exists u d, In u us /\ declared_type groups u = Some (Some d) /\ e = user_entry u (Some d)).
Proof. exact declared_entries_undeclared_filters. Qed.
Print Assumptions C17_declared_entries_of_user_features.

(* a request that meets no prepare-time error (option conflict / declaration vs group rule, in the order the engine meets them)
   flattens to user features that all have a resulting declaration *)
Theorem C17_prepare_ok_flatten : forall groups api rs,
  api_conflict api rs = false -> prepare_error groups api rs = None ->
  exists us, flatten api rs = Some us /\ existsb (undeclarable groups) us = false.
Proof. exact prepare_ok_flatten. Qed.
Print Assumptions C17_prepare_ok_flatten.

(* known-defect domain (C17-two-declared-types-on-a-joined-root-rejected, outside this model: the planner refuses the request):
   the domain predicate is satisfiable and the statement demands success there *)
Example C17_kf_split_domain_witness :
  let groups := [ {| g_cols := ["uid"%string; "a"%string; "b"%string]; g_index := [["uid"%string]]; g_rule := [] |};
                  {| g_cols := ["uid"%string; "c"%string]; g_index := [["uid"%string]]; g_rule := [] |};
                  {| g_cols := ["score"%string]; g_index := []; g_rule := [] |} ] in
  let rs := [ {| r_group := 2; r_name := "score"%string; r_decl := Some DOUBLE; r_own := SAbsent;
                 r_deps := [ {| d_group := 0; d_name := "a"%string; d_decl := Some INT64; d_own := SAbsent |};
                             {| d_group := 0; d_name := "b"%string; d_decl := Some STRING; d_own := SAbsent |};
                             {| d_group := 1; d_name := "c"%string; d_decl := Some DOUBLE; d_own := SAbsent |} ] |} ] in
  let cols := [ [("uid"%string, Some STRING); ("a"%string, Some INT64); ("b"%string, Some STRING)];
                [("uid"%string, Some STRING); ("c"%string, Some DOUBLE)]; [("score"%string, Some DOUBLE)] ] in
  (match flatten false rs with Some us => kf_split_joined_root groups wit_links us | None => false end) = true
  /\ spec_request strict_spec lenient_spec groups [] false rs cols = QOk
  /\ (match flatten false wit_rs_one_type with Some us => kf_split_joined_root groups wit_links us | None => true end) = false.
Proof. vm_compute; repeat split. Qed.
