(* C17 — declared feature types are enforced exactly as documented.  Property theorems only. *)
From Coq Require Import List Bool.
Require Import MV.Spec.Types MV.Model.Validate MV.Gen.TypeTables MV.Proofs.TypesP.

(* The code's two compatibility relations and its Arrow->DataType map, regenerated from /repo on this run by
   evaluating them on all 121 pairs / 24 Arrow types, equal the documented tables. *)
Theorem C17_strict_table : forall d a, gen_strict d a = Some (strict_spec d a).
Proof. exact strict_table_matches. Qed.
Print Assumptions C17_strict_table.

Theorem C17_lenient_table : forall d a, gen_lenient d a = Some (lenient_spec d a).
Proof. exact lenient_table_matches. Qed.
Print Assumptions C17_lenient_table.

Theorem C17_from_arrow : forall a, gen_from_arrow a = Some (from_arrow_spec a).
Proof. exact from_arrow_matches. Qed.
Print Assumptions C17_from_arrow.

Theorem C17_no_unknown_types : gen_extra_dtypes = 0.
Proof. exact no_extra_dtypes. Qed.
Print Assumptions C17_no_unknown_types.

(* A run fails with a mismatch exactly when the feature is declared, its column present with a supported type,
   and the pair is incompatible under the table selected by the strict flag. *)
Theorem C17_validate_decision : forall c,
  validate_raises code_strict code_lenient c = true <->
  exists d a, v_declared c = Some d /\ v_present c = true /\ v_actual c = Some a /\
              (if strict_mode (v_strict c) then strict_spec d a else lenient_spec d a) = false.
Proof. exact validate_decision_l. Qed.
Print Assumptions C17_validate_decision.

Theorem C17_undeclared_never_checked : forall s l c, v_declared c = None -> validate_raises s l c = false.
Proof. exact undeclared_never_checked_l. Qed.
Print Assumptions C17_undeclared_never_checked.

Theorem C17_strict_implies_lenient : forall d a, strict_spec d a = true -> lenient_spec d a = true.
Proof. exact strict_implies_lenient_l. Qed.
Print Assumptions C17_strict_implies_lenient.

Theorem C17_api_flag_forces_strict : forall d s, strict_mode (propagate_strict true (Some d) s) = true.
Proof. exact api_flag_forces_strict_l. Qed.
Theorem C17_api_flag_untyped_untouched : forall b s, propagate_strict b None s = s.
Proof. exact api_flag_untyped_untouched_l. Qed.
Print Assumptions C17_api_flag_forces_strict.

Theorem C17_set_data_type_conflict : forall a b, set_data_type (Some a) (Some b) = inr tt <-> a <> b.
Proof. exact set_data_type_conflict_l. Qed.
Print Assumptions C17_set_data_type_conflict.

(* non-vacuity: a declared/present/supported case that raises, and one that does not *)
Example C17_raises_somewhere :
  validate_raises code_strict code_lenient
    {| v_declared := Some STRING; v_present := true; v_actual := Some INT64; v_strict := SAbsent |} = true
  /\ validate_raises code_strict code_lenient
    {| v_declared := Some INT32; v_present := true; v_actual := Some DOUBLE; v_strict := SAbsent |} = false
  /\ validate_raises code_strict code_lenient
    {| v_declared := Some INT32; v_present := true; v_actual := Some DOUBLE; v_strict := STrue |} = true.
Proof. vm_compute; repeat split. Qed.
