(* C17 — declared feature types are enforced exactly as documented.  Property theorems only. *)
From Coq Require Import List Bool.
Import ListNotations.
Require Import MV.Spec.Types MV.Model.Validate MV.Gen.TypeTables MV.Proofs.TypesP.
Require Import MV.Model.ValidateChain MV.Proofs.ValidateChainP.

(* The code's two compatibility relations and its Arrow->DataType map, regenerated from /repo on this run by
   evaluating them on all 121 pairs / 24 Arrow types, equal the documented tables. *)
Theorem C17_strict_table : forall d a, gen_strict d a = Some (strict_spec d a).
Proof. exact strict_table_matches. Qed.
Print Assumptions C17_strict_table.

Theorem C17_lenient_table : forall d a, gen_lenient d a = Some (lenient_spec d a).
Proof. exact lenient_table_matches. Qed.
Print Assumptions C17_lenient_table.

Theorem C17_from_arrow : forall a, gen_from_arrow a = Some (from_arrow_spec a).
Proof. exact from_arrow_matches. Qed.
Print Assumptions C17_from_arrow.

Theorem C17_no_unknown_types : gen_extra_dtypes = 0.
Proof. exact no_extra_dtypes. Qed.
Print Assumptions C17_no_unknown_types.

(* A run fails with a mismatch exactly when the feature is declared, its column present with a supported type,
   and the pair is incompatible under the table selected by the strict flag. *)
Theorem C17_validate_decision : forall c,
  validate_raises code_strict code_lenient c = true <->
  exists d a, v_declared c = Some d /\ v_present c = true /\ v_actual c = Some a /\
              (if strict_mode (v_strict c) then strict_spec d a else lenient_spec d a) = false.
Proof. exact validate_decision_l. Qed.
Print Assumptions C17_validate_decision.

Theorem C17_undeclared_never_checked : forall s l c, v_declared c = None -> validate_raises s l c = false.
Proof. exact undeclared_never_checked_l. Qed.
Print Assumptions C17_undeclared_never_checked.

Theorem C17_strict_implies_lenient : forall d a, strict_spec d a = true -> lenient_spec d a = true.
Proof. exact strict_implies_lenient_l. Qed.
Print Assumptions C17_strict_implies_lenient.

Theorem C17_api_flag_forces_strict : forall d s, strict_mode (propagate_strict true (Some d) s) = true.
Proof. exact api_flag_forces_strict_l. Qed.
Theorem C17_api_flag_every_requested : forall d s, strict_mode (propagate_strict true d s) = true.
Proof. exact api_flag_every_requested_l. Qed.
(* before fix 04e88fc an untyped requested feature was left untouched (and with it every typed feature below it) *)
Theorem C17_api_flag_untyped_untouched_old : forall b s, propagate_strict_old b None s = s.
Proof. exact api_flag_untyped_untouched_l. Qed.
Print Assumptions C17_api_flag_forces_strict.

Theorem C17_set_data_type_conflict : forall a b, set_data_type (Some a) (Some b) = inr tt <-> a <> b.
Proof. exact set_data_type_conflict_l. Qed.
Print Assumptions C17_set_data_type_conflict.

(* non-vacuity: a declared/present/supported case that raises, and one that does not *)
Example C17_raises_somewhere :
  validate_raises code_strict code_lenient
    {| v_declared := Some STRING; v_present := true; v_actual := Some INT64; v_strict := SAbsent |} = true
  /\ validate_raises code_strict code_lenient
    {| v_declared := Some INT32; v_present := true; v_actual := Some DOUBLE; v_strict := SAbsent |} = false
  /\ validate_raises code_strict code_lenient
    {| v_declared := Some INT32; v_present := true; v_actual := Some DOUBLE; v_strict := STrue |} = true.
Proof. vm_compute; repeat split. Qed.

(* ---- strict enforcement per call along dependency chains of ANY depth (Model/ValidateChain.v) ---- *)

(* group options are handed on transitively: a strict flag nobody below contradicts is the effective option at every depth *)
Theorem C17_strict_reaches_every_depth : forall ls,
  (forall l, In l ls -> l_own l = SAbsent \/ l_own l = STrue) ->
  effective STrue ls = Some (map (fun _ => STrue) ls).
Proof. exact strict_reaches_every_depth_l. Qed.
Print Assumptions C17_strict_reaches_every_depth.

(* per-call flag (full statement, after fix 04e88fc): the call fails with a mismatch exactly when SOME typed feature of the chain -
   the requested one or an input at whatever depth, whether or not the requested feature declares a type - produces a type
   incompatible under the STRICT table; it never ends in the option-conflict error. *)
Theorem C17_api_flag_chain_decision : forall strict lenient top rest,
  l_own top <> SFalse ->
  (forall l, In l rest -> l_own l = SAbsent \/ l_own l = STrue) ->
  chain_run strict lenient true top rest = CMismatch <->
  exists l d a, In l (top :: rest) /\ l_declared l = Some d /\ l_actual l = Some a /\ strict d a = false.
Proof. exact api_flag_chain_decision_l. Qed.
Print Assumptions C17_api_flag_chain_decision.

Theorem C17_api_flag_chain_no_conflict : forall strict lenient top rest,
  l_own top <> SFalse ->
  (forall l, In l rest -> l_own l = SAbsent \/ l_own l = STrue) ->
  chain_run strict lenient true top rest <> CConflict.
Proof. exact api_flag_chain_no_conflict_l. Qed.
Print Assumptions C17_api_flag_chain_no_conflict.

Theorem C17_api_flag_own_false_rejected : forall strict lenient d0 a0 rest,
  chain_run strict lenient true {| l_declared := d0; l_actual := a0; l_own := SFalse |} rest = CConflict.
Proof. exact api_flag_own_false_rejected_l. Qed.
Print Assumptions C17_api_flag_own_false_rejected.

(* no strict flag anywhere: every depth is judged by the lenient table *)
Theorem C17_lenient_chain_decision : forall strict lenient top rest,
  l_own top = SAbsent -> (forall l, In l rest -> l_own l = SAbsent) ->
  chain_run strict lenient false top rest = CMismatch <->
  exists l d a, In l (top :: rest) /\ l_declared l = Some d /\ l_actual l = Some a /\ lenient d a = false.
Proof. exact lenient_chain_decision_l. Qed.
Print Assumptions C17_lenient_chain_decision.

(* the code before fix 04e88fc attached the per-call flag to TYPED requested features only: a typed dependency of an untyped
   requested feature was judged leniently although the call asked for strict enforcement (declared INT32, produced INT64);
   kept as a regression input (harness/c17.py chain_cases) *)
Theorem C17_api_flag_untyped_request_refuted_old :
  chain_run_old strict_spec lenient_spec true
    {| l_declared := None; l_actual := Some INT64; l_own := SAbsent |}
    [ {| l_declared := Some INT32; l_actual := Some INT64; l_own := SAbsent |} ] = COk
  /\ strict_spec INT32 INT64 = false.
Proof. exact api_flag_untyped_request_refuted_l. Qed.
Print Assumptions C17_api_flag_untyped_request_refuted_old.
Theorem C17_api_flag_untyped_request_fixed :
  chain_run strict_spec lenient_spec true
    {| l_declared := None; l_actual := Some INT64; l_own := SAbsent |}
    [ {| l_declared := Some INT32; l_actual := Some INT64; l_own := SAbsent |} ] = CMismatch.
Proof. exact api_flag_untyped_request_fixed_l. Qed.

Example C17_chain_depth3_raises :
  chain_run strict_spec lenient_spec true
    {| l_declared := Some INT64; l_actual := Some INT64; l_own := SAbsent |}
    [ {| l_declared := None; l_actual := Some INT64; l_own := SAbsent |};
      {| l_declared := Some STRING; l_actual := Some STRING; l_own := SAbsent |};
      {| l_declared := Some INT32; l_actual := Some INT64; l_own := SAbsent |} ] = CMismatch
  /\ chain_run strict_spec lenient_spec false
    {| l_declared := Some INT64; l_actual := Some INT64; l_own := SAbsent |}
    [ {| l_declared := None; l_actual := Some INT64; l_own := SAbsent |};
      {| l_declared := Some STRING; l_actual := Some STRING; l_own := SAbsent |};
      {| l_declared := Some INT32; l_actual := Some INT64; l_own := SAbsent |} ] = COk.
Proof. vm_compute; split; reflexivity. Qed.
