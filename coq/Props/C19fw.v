(* C19 (extension) -- the hand-written Python GLUE of the PyArrow / pandas implementations refines the specification.
   Property theorems only (proofs in Proofs/MissingValueArrowP.v, MissingValuePandasP.v, TimeWindowFwP.v, BuiltinsFwChkP.v).

   Model/MissingValueArrow.v   missing_value/pyarrow.py: _perform_imputation, _fill_null, the mode computation,
                               _perform_grouped_imputation (per-row loop, masks, fall-back, ffill / bfill by row number)
   Model/MissingValuePandas.v  missing_value/pandas.py: _first_mode, the fillna chains, the per-group mode loop
   Model/TimeWindowFw.v        time_window/pyarrow.py, time_window/pandas.py (sorting, windows by position, writing the
                               results back to the original rows), aggregated_feature_group/{pyarrow,pandas}.py

   Every theorem is for ALL columns / time columns / group-by columns (any length, nulls, ties, duplicates, unsorted times,
   null keys).  Library kernels are universally quantified: `K` is ANY implementation of the kernels that satisfies the
   stated contracts (`pa_contracts`, `pd_contracts`, `paw_contracts`, `pdw_contracts`: one clause per kernel, listed in the
   headers of the Model files).  The contracts are the trusted base of these theorems; they are consistent
   (C19fw_contracts_satisfiable) and tested against the installed libraries on every run (harness/c19.py, `kernel:*`). *)
From Coq Require Import QArith List Bool Arith ZArith Permutation Sorted.
Import ListNotations.
Require Import MV.Spec.Builtins MV.Model.MissingValuePyDict MV.Model.BuiltinsFw.
Require Import MV.Model.MissingValueArrow MV.Model.MissingValuePandas MV.Model.TimeWindowFw.
Require Import MV.Model.BuiltinsChk MV.Model.BuiltinsFwChk.
Require Import MV.Proofs.ImputeP MV.Proofs.MissingValueArrowP MV.Proofs.MissingValuePandasP MV.Proofs.TimeWindowFwP
               MV.Proofs.BuiltinsFwChkP.
Open Scope Q_scope.

(* ============================================ the contracts ============================================ *)
Theorem C19fw_contracts_satisfiable :
  pa_contracts ref_kernels /\ pd_contracts ref_pd /\ paw_contracts ref_paw /\ pdw_contracts ref_pdw.
Proof. exact (conj ref_contracts (conj ref_pd_contracts (conj ref_paw_contracts ref_pdw_contracts))). Qed.
Print Assumptions C19fw_contracts_satisfiable.

(* what the value_counts contract (`= counter`) says: every distinct value once, with its count, in FIRST-OCCURRENCE order
   (searching the keys finds what searching the column finds) *)
Theorem C19fw_value_counts_contract_meaning : forall l,
  cinv l (counter l) /\
  forall P : Q -> bool, (forall x y, Qeq_bool x y = true -> P x = P y) -> find P l = find P (keys (counter l)).
Proof. intros l. split. apply counter_inv. intros P HP. apply find_keys. exact HP. Qed.
Print Assumptions C19fw_value_counts_contract_meaning.

(* what the sort contract says: there is exactly one stable ascending argsort, the time order of the spec *)
Theorem C19fw_stable_argsort_unique : forall times idx, is_stable_argsort times idx <-> idx = time_order times.
Proof. intros. split. apply stable_argsort_unique. intros ->. apply time_order_stable. Qed.
Print Assumptions C19fw_stable_argsort_unique.
Example C19fw_stable_argsort_ex : is_stable_argsort [3; 0; 3; 1]%Z [1; 3; 0; 2]%nat /\ ~ is_stable_argsort [3; 0; 3; 1]%Z [1; 3; 2; 0]%nat.
Proof.
  split. apply C19fw_stable_argsort_unique. reflexivity.
  intro H. apply C19fw_stable_argsort_unique in H. discriminate.
Qed.

(* the two contract clauses that are not equations have decidable forms; the tests of harness/c19.py evaluate those *)
Theorem C19fw_sort_test_exact : forall times idx, stable_argsort_b times idx = true <-> is_stable_argsort times idx.
Proof. exact stable_argsort_b_iff. Qed.
Print Assumptions C19fw_sort_test_exact.
Theorem C19fw_groups_test_sound : forall keys gs, groups_ok keys gs = true ->
  exists ks, NoDup ks /\ (forall k, In k ks <-> In k keys) /\ gs = map (rows_with keys) ks.
Proof. exact groups_ok_sound. Qed.
Print Assumptions C19fw_groups_test_sound.

(* ====================================== PyArrow imputation ====================================== *)
(* the mode glue (value_counts, pc.max, the index loop, first index) = the first most frequent value *)
Theorem C19fw_pa_mode : forall K, pa_contracts K -> forall c, pa_mode K c = mode_l (vals c).
Proof. exact pa_mode_spec. Qed.
Print Assumptions C19fw_pa_mode.

(* _fill_null: the widening of an integer column makes pc.fill_null lossless for every admissible value *)
Theorem C19fw_pa_fill_null_widening : forall K, pa_contracts K -> forall a v, const_ok (a_ty a) v = true ->
  a_cells (pa_fill_null_w K a (Some v)) = fill_with (Some (py_q v)) (a_cells a).
Proof. exact pa_fill_null_w_some. Qed.
Print Assumptions C19fw_pa_fill_null_widening.
Example C19fw_pa_fill_null_ex :
  a_cells (pa_fill_null_w ref_kernels (mk_arr TInt [Some 2; None]) (Some (mk_py KFloat (7#2)))) = [Some 2; Some (7#2)] /\
  a_cells (pc_fill_null ref_kernels (mk_arr TInt [Some 2; None]) (Some (mk_py KFloat (7#2)))) = [Some 2; Some (inject_Z 3)].
Proof. split; reflexivity. Qed.

(* the early return of _perform_imputation (`source_column.null_count == 0`, /repo 505d3c3) fires exactly when the column
   holds no missing value *)
Theorem C19fw_pa_early_return_iff_no_null : forall c, pa_early_return c = true <-> has_null c = false.
Proof. exact pa_early_return_iff. Qed.
Print Assumptions C19fw_pa_early_return_iff_no_null.
(* PRE-FIX text (regression witness of the repaired finding C19-pyarrow-early-return-never-fires, not the code any more):
   `pc.count(pc.is_null(column)) == 0` only fired on an EMPTY column (pc.count counts the entries of pc.is_null) *)
Theorem C19fw_pa_early_return_old_only_on_empty : forall c, pa_early_return_old c = true <-> c = [].
Proof. exact pa_early_return_old_iff. Qed.
Print Assumptions C19fw_pa_early_return_old_only_on_empty.

(* FULL STATEMENT (does not hold): forall m a, ..., pa_perform K m ck None a = Some r /\ a_cells r = impute_spec m (a_cells a).
   Domain kf_pa_string_stat (narrowed by 505d3c3 from "string column" to "string column THAT HOLDS A NULL"): mean / median
   of such a column raise on PyArrow (no string kernel) and on pandas; the untyped spec denotes the statistic of the
   order-preserving codes, which no framework computes -- the boundary of the spec.  The real frameworks differ from each
   other only in a part of it (PythonDict returns an all-null column / fills with the middle string for an odd number of
   strings): open finding C19-string-stat-with-null-pydict-computes. *)
Theorem C19fw_pa_impute_partial : forall K, pa_contracts K -> forall m ck g a, (g = None \/ g = Some []) -> wt_arr a ->
  (forall k, m = IConst k -> const_ok (a_ty a) (mk_py ck k) = true) -> kf_pa_string_stat m a = false ->
  exists r, pa_perform K m ck g a = Some r /\ a_cells r = impute_spec m (a_cells a).
Proof. exact pa_perform_plain. Qed.
Print Assumptions C19fw_pa_impute_partial.

(* the per-row loop of _perform_grouped_imputation = the grouped spec: every method, any number of group-by columns,
   null keys, groups without a value (fall-back), ffill / bfill by table row number *)
Theorem C19fw_pa_impute_grouped_partial : forall K, pa_contracts K -> forall m ck gcols a, gcols <> [] ->
  Forall (fun gc => List.length gc = List.length (a_cells a)) gcols -> wt_arr a ->
  (forall k, m = IConst k -> const_ok (a_ty a) (mk_py ck k) = true) -> kf_pa_string_stat m a = false ->
  exists r, pa_perform K m ck (Some gcols) a = Some r /\
            a_cells r = impute_grouped_spec m (rows_of gcols (List.length (a_cells a))) (a_cells a).
Proof. exact pa_perform_grouped. Qed.
Print Assumptions C19fw_pa_impute_grouped_partial.
Example C19fw_pa_grouped_ex :
  let a := mk_arr TInt [None; Some 2; None; Some 4; Some 6; None] in
  let g := [[Some 1; None; Some 1; None; Some 2; Some 2]]%Z in
  option_map a_cells (pa_perform ref_kernels IFfill KInt (Some g) a) = Some [None; Some 2; None; Some 4; Some 6; Some 6] /\
  option_map a_cells (pa_perform ref_kernels IBfill KInt (Some g) a) = Some [None; Some 2; None; Some 4; Some 6; None] /\
  wt_arr a.
Proof. repeat split. intros _ x H. cbn in H. repeat (destruct H as [H|H]; [inversion H; reflexivity|]); try discriminate. contradiction. Qed.

(* inside the remaining domain: ['a', null, 'a', 'b'] median (plain), mean (grouped); the all-null string column *)
Theorem C19fw_pa_string_stat_refuted :
  let a := mk_arr TStr [Some 1; None; Some 1; Some 2] in
  let z := mk_arr TStr [None; None] in
  let g := Some [[Some 1%Z; Some 1%Z; Some 1%Z; Some 2%Z]] in
  kf_pa_string_stat IMedian a = true /\ pa_perform ref_kernels IMedian KStr None a = None /\
  pa_perform ref_kernels IMean KStr g a = None /\
  impute_spec IMedian (a_cells a) = [Some 1; Some 1; Some 1; Some 2] /\
  py_perform_imputation IMedian None (a_cells a) = [Some 1; Some 1; Some 1; Some 2] /\
  kf_pa_string_stat IMean z = true /\ pa_perform ref_kernels IMean KStr None z = None /\
  impute_spec IMean (a_cells z) = a_cells z /\ py_perform_imputation IMean None (a_cells z) = a_cells z.
Proof. exact pa_string_stat_refuted. Qed.
Print Assumptions C19fw_pa_string_stat_refuted.
(* the domain is decidable on the request and is exactly: string column, mean / median, the column holds a null *)
Theorem C19fw_pa_string_stat_domain : forall m a,
  kf_pa_string_stat m a = true <-> (a_ty a = TStr /\ (m = IMean \/ m = IMedian) /\ has_null (a_cells a) = true).
Proof. exact kf_pa_string_stat_iff. Qed.
Print Assumptions C19fw_pa_string_stat_domain.

(* PRE-FIX behaviour (repaired finding C19-pyarrow-early-return-never-fires, 505d3c3; regression witness): on the string
   column ['b', 'a', 'c'] WITHOUT a null the old text raised (mean plain, median grouped) where the spec / PythonDict return
   the column; the present model returns the column and the input lies outside the present domain *)
Theorem C19fw_pa_string_stat_old_refuted :
  let a := mk_arr TStr [Some 2; Some 1; Some 3] in
  let g := Some [[Some 1%Z; Some 1%Z; Some 2%Z]] in
  has_null (a_cells a) = false /\
  pa_perform_old ref_kernels IMean KStr None a = None /\ pa_perform_old ref_kernels IMedian KStr g a = None /\
  impute_spec IMean (a_cells a) = a_cells a /\ py_perform_imputation IMean None (a_cells a) = a_cells a /\
  pa_perform ref_kernels IMean KStr None a = Some a /\ pa_perform ref_kernels IMedian KStr g a = Some a /\
  kf_pa_string_stat IMean a = false.
Proof. exact pa_string_stat_old_refuted. Qed.
Print Assumptions C19fw_pa_string_stat_old_refuted.
(* ... and on NUMERIC columns the old and the present text return the same cells (why the defect only showed on strings) *)
Theorem C19fw_pa_old_numeric_same_cells : forall K, pa_contracts K -> forall m ck a, numeric (a_ty a) = true -> wt_arr a ->
  (forall k, m = IConst k -> const_ok (a_ty a) (mk_py ck k) = true) ->
  exists r r', pa_perform K m ck None a = Some r /\ pa_perform_old K m ck None a = Some r' /\ a_cells r = a_cells r'.
Proof. exact pa_perform_old_numeric_same_cells. Qed.
Print Assumptions C19fw_pa_old_numeric_same_cells.

(* PyArrow = PythonDict, by theorem (modulo the kernel contracts) *)
Theorem C19fw_pa_equals_pydict : forall K, pa_contracts K -> forall m ck a, wt_arr a ->
  (forall k, m = IConst k -> const_ok (a_ty a) (mk_py ck k) = true) -> kf_pa_string_stat m a = false ->
  exists r, pa_perform K m ck None a = Some r /\ a_cells r = py_perform_imputation m None (a_cells a).
Proof. exact pa_eq_pydict_plain. Qed.
Print Assumptions C19fw_pa_equals_pydict.
Theorem C19fw_pa_equals_pydict_grouped : forall K, pa_contracts K -> forall m ck gcols a, gcols <> [] ->
  Forall (fun gc => List.length gc = List.length (a_cells a)) gcols -> wt_arr a ->
  (forall k, m = IConst k -> const_ok (a_ty a) (mk_py ck k) = true) -> kf_pa_string_stat m a = false ->
  exists r, pa_perform K m ck (Some gcols) a = Some r /\
            a_cells r = py_perform_imputation m (Some (rows_of gcols (List.length (a_cells a)))) (a_cells a).
Proof. exact pa_eq_pydict_grouped. Qed.
Print Assumptions C19fw_pa_equals_pydict_grouped.

(* ====================================== pandas imputation ====================================== *)
(* _first_mode (value_counts(sort=False) + idxmax) = the first most frequent value *)
Theorem C19fw_pd_first_mode : forall K, pd_contracts K -> forall c, pd_first_mode K c = mode_l (vals c).
Proof. exact pd_first_mode_spec. Qed.
Print Assumptions C19fw_pd_first_mode.

(* (columns are untyped in this model: mean / median of a STRING column with a null raise in pandas and in python_dict.py;
   such requests are outside the domain of the spec and not modelled, as in Model/MissingValuePyDict.v) *)
(* plain and grouped, every method; in particular the per-group mode loop (`result.loc[group.index] = ...fillna(mode)`,
   groups visited in ANY order, then the overall fall-back) and the fillna(group).fillna(overall) chains *)
Theorem C19fw_pd_impute_refines : forall K, pd_contracts K -> forall m c,
  pd_perform K m None c = impute_spec m c.
Proof. exact pd_perform_plain. Qed.
Print Assumptions C19fw_pd_impute_refines.
Theorem C19fw_pd_impute_grouped_refines : forall K, pd_contracts K -> forall m keys c, keys <> [] ->
  List.length keys = List.length c -> pd_perform K m (Some keys) c = impute_grouped_spec m keys c.
Proof. exact pd_perform_grouped. Qed.
Print Assumptions C19fw_pd_impute_grouped_refines.

(* the three frameworks agree BY THEOREM (modulo the kernel contracts) *)
Theorem C19fw_three_frameworks_agree_grouped : forall Ka Kd, pa_contracts Ka -> pd_contracts Kd ->
  forall m ck gcols a, gcols <> [] -> a_cells a <> [] ->
  Forall (fun gc => List.length gc = List.length (a_cells a)) gcols -> wt_arr a ->
  (forall k, m = IConst k -> const_ok (a_ty a) (mk_py ck k) = true) -> kf_pa_string_stat m a = false ->
  let keys := rows_of gcols (List.length (a_cells a)) in
  exists r, pa_perform Ka m ck (Some gcols) a = Some r /\
            a_cells r = pd_perform Kd m (Some keys) (a_cells a) /\
            a_cells r = py_perform_imputation m (Some keys) (a_cells a).
Proof. exact three_agree_grouped. Qed.
Print Assumptions C19fw_three_frameworks_agree_grouped.

(* ========================================= time windows ========================================= *)
(* numpy `restored[time_order] = values` with a permutation = reading the values through the inverse permutation *)
Theorem C19fw_np_scatter_is_inverse_permutation : forall idx values n, List.length values = n ->
  Permutation idx (seq 0 n) ->
  np_scatter values idx values = map (fun i => nth (pos_of i idx) values None) (seq 0 n).
Proof. exact np_scatter_perm. Qed.
Print Assumptions C19fw_np_scatter_is_inverse_permutation.

(* pandas: argsort, iloc, rolling, the two lambdas, the write-back = window_spec, for EVERY window function
   (tied and unsorted timestamps included) *)
Theorem C19fw_pd_window_refines : forall K, pdw_contracts K -> forall op w times c, (1 <= w)%nat ->
  List.length times = List.length c -> pd_window K op w times c = window_spec op w times c.
Proof. exact pd_window_is_spec. Qed.
Print Assumptions C19fw_pd_window_refines.

(* PyArrow: sort_indices, take, the window loop, the dispatch, `results[sorted_indices.index(i)]` = the spec with the
   aggregate convention of the kernels (population variance), for every window function ... *)
Theorem C19fw_pa_window_is_population_variant : forall K, paw_contracts K -> forall op w times c, (1 <= w)%nat ->
  List.length times = List.length c -> pa_window K op w times c = window_pa op w times c.
Proof. exact pa_window_is_window_pa. Qed.
Print Assumptions C19fw_pa_window_is_population_variant.
(* ... FULL STATEMENT (does not hold): pa_window K op w times c = window_spec op w times c.
   known finding C19-pyarrow-std-var-population; domain: op in {std, var} *)
Theorem C19fw_pa_window_partial : forall K, paw_contracts K -> forall op w times c, (1 <= w)%nat ->
  List.length times = List.length c -> op <> WAgg AStd -> op <> WAgg AVar ->
  pa_window K op w times c = window_spec op w times c.
Proof. exact pa_window_partial_l. Qed.
Print Assumptions C19fw_pa_window_partial.
Theorem C19fw_pa_window_std_var_refuted :
  nth 0 (pa_window ref_paw (WAgg AVar) 2 [0; 1; 2]%Z [Some 1; Some 2; Some 4]) None = Some 0 /\
  nth 0 (window_spec (WAgg AVar) 2 [0; 1; 2]%Z [Some 1; Some 2; Some 4]) None = None /\
  nth 0 (pd_window ref_pdw (WAgg AVar) 2 [0; 1; 2]%Z [Some 1; Some 2; Some 4]) None = None.
Proof. exact pa_window_std_refuted_l. Qed.
Print Assumptions C19fw_pa_window_std_var_refuted.

Theorem C19fw_pa_pd_windows_agree : forall Ka Kd, paw_contracts Ka -> pdw_contracts Kd -> forall op w times c,
  (1 <= w)%nat -> List.length times = List.length c -> op <> WAgg AStd -> op <> WAgg AVar ->
  pa_window Ka op w times c = pd_window Kd op w times c.
Proof. exact pa_pd_windows_agree_l. Qed.
Print Assumptions C19fw_pa_pd_windows_agree.
Example C19fw_window_unsorted_ties_ex :
  pa_window ref_paw (WAgg ASum) 2 [3; 0; 3; 1]%Z [Some 1; Some 2; Some 3; Some 4] = [Some 5; Some 2; Some 4; Some 6] /\
  pd_window ref_pdw WFirst 2 [3; 0; 3; 1]%Z [Some 1; None; Some 3; Some 4] = [Some 4; None; Some 1; None].
Proof. split; reflexivity. Qed.

(* ========================================== aggregation ========================================== *)
(* dispatch + broadcast of the scalar to every row.  FULL STATEMENTS (do not hold): = repeat (agg_spec op c) n;
   known findings C19-pyarrow-std-var-population, C19-pandas-sum-all-null-zero *)
Theorem C19fw_pa_aggregate_partial : forall K, paw_contracts K -> forall op c, op <> AStd -> op <> AVar ->
  pa_aggregate K op c = repeat (agg_spec op c) (List.length c).
Proof. exact pa_aggregate_partial_l. Qed.
Print Assumptions C19fw_pa_aggregate_partial.
Theorem C19fw_pd_aggregate_partial : forall K, pdw_contracts K -> forall op c, (op <> ASum \/ vals c <> []) ->
  pd_aggregate K op c = repeat (agg_spec op c) (List.length c).
Proof. exact pd_aggregate_partial_l. Qed.
Print Assumptions C19fw_pd_aggregate_partial.
Theorem C19fw_aggregate_refuted :
  pa_aggregate ref_paw AStd [Some 5] = [Some 0] /\ agg_spec AStd [Some 5] = None /\
  pd_aggregate ref_pdw ASum [None; None] = [Some 0; Some 0] /\ agg_spec ASum [None; None] = None.
Proof. repeat split. Qed.
Print Assumptions C19fw_aggregate_refuted.
