(* C01 — every feature is computed once, and only after all of its inputs.   Property theorems only.
   All statements hold for EVERY plan (list of steps), both kinds of back end (inline = SYNC; otherwise a worker
   reports completion by an independent event), every failure oracle and EVERY event trace, i.e. every interleaving of
   loop iterations with worker completions.  `run` is the state of Model/Orch.v after the trace. *)
From Coq Require Import List Bool Arith.
Import ListNotations.
Require Import MV.Model.Orch MV.Proofs.OrchP.

(* Order: whenever a step was started, all its required uuids were finished, and every uuid finished at that moment
   had been produced by a step whose execution had already completed. *)
Theorem C01_start_requires : forall stream inline fails p es e,
  In e (started (run stream inline fails p es)) -> start_ok p e.
Proof. exact start_requires_l. Qed.
Print Assumptions C01_start_requires.

Theorem C01_finished_sound : forall stream inline fails p es u,
  In u (finished (run stream inline fails p es)) ->
  exists s', In s' p /\ In u (uuids s') /\ In (sid s') (done (run stream inline fails p es)).
Proof. exact finished_sound_l. Qed.
Print Assumptions C01_finished_sound.

(* Once: with distinct step ids and pairwise disjoint, non-empty produced sets no step is started twice. *)
Theorem C01_start_once : forall stream inline fails p,
  (forall s s', In s p -> In s' p -> sid s = sid s' -> s = s') ->
  (forall s, In s p -> uuids s <> []) ->
  (forall s s' u, In s p -> In s' p -> In u (uuids s) -> In u (uuids s') -> s = s') ->
  forall es, NoDup (started_ids (run stream inline fails p es)).
Proof. exact start_once_l. Qed.
Print Assumptions C01_start_once.

(* Exactly once: at normal exit every step of the plan has been started (once, by C01_start_once) and completed. *)
Theorem C01_exit_all_done : forall stream inline fails p,
  (forall s s', In s p -> In s' p -> sid s = sid s' -> s = s') ->
  (forall s, In s p -> uuids s <> []) ->
  (forall s s' u, In s p -> In s' p -> In u (uuids s) -> In u (uuids s') -> s = s') ->
  forall es, loop_head p (run stream inline fails p es) = ExitNormal ->
  forall s, In s p -> In (sid s) (started_ids (run stream inline fails p es)) /\
                      In (sid s) (done (run stream inline fails p es)) /\ failed (run stream inline fails p es) = [].
Proof. exact exit_all_done_l. Qed.
Print Assumptions C01_exit_all_done.

(* non-vacuity: a diamond  0 -> {1,2} -> 3  run under THREADING with step 2 finishing before step 1 *)
Definition ex_plan : plan :=
  [ {| sid := 0; skind := KFG; uuids := [1]; req := []; requested := false |};
    {| sid := 1; skind := KFG; uuids := [2]; req := [1]; requested := false |};
    {| sid := 2; skind := KFG; uuids := [3]; req := [1]; requested := false |};
    {| sid := 3; skind := KFG; uuids := [4]; req := [1; 2; 3]; requested := true |} ].
Definition ex_trace := [EScan; EDone 0 true; EScan; EScan; EDone 2 true; EScan; EDone 1 true; EScan; EScan; EDone 3 true; EScan].
Example C01_diamond :
  let st := run false false (fun _ => false) ex_plan ex_trace in
  rev (started_ids st) = [0; 1; 2; 3] /\ loop_head ex_plan st = ExitNormal /\ results st = [3] /\ wf_plan_auto ex_plan = true.
Proof. vm_compute. repeat split. Qed.
