(* C01 — every feature is computed once, and only after all of its inputs.   Property theorems only.
   All statements hold for EVERY plan (list of steps), both kinds of back end (inline = SYNC; otherwise a worker
   reports completion by an independent event), every failure oracle and EVERY event trace, i.e. every interleaving of
   loop iterations with worker completions.  `run` is the state of Model/Orch.v after the trace. *)
From Coq Require Import List Bool Arith.
Import ListNotations.
Require Import MV.Model.Orch MV.Model.OrchCheck MV.Model.OrchMid MV.Proofs.OrchP MV.Proofs.OrchMidP.

(* Order: whenever a step was started, all its required uuids were finished, and every uuid finished at that moment
   had been produced by a step whose execution had already completed. *)
Theorem C01_start_requires : forall stream inline fails p es e,
  In e (started (run stream inline fails p es)) -> start_ok p e.
Proof. exact start_requires_l. Qed.
Print Assumptions C01_start_requires.

Theorem C01_finished_sound : forall stream inline fails p es u,
  In u (finished (run stream inline fails p es)) ->
  exists s', In s' p /\ In u (uuids s') /\ In (sid s') (done (run stream inline fails p es)).
Proof. exact finished_sound_l. Qed.
Print Assumptions C01_finished_sound.

(* Once: with distinct step ids and pairwise disjoint, non-empty produced sets no step is started twice. *)
Theorem C01_start_once : forall stream inline fails p,
  (forall s s', In s p -> In s' p -> sid s = sid s' -> s = s') ->
  (forall s, In s p -> uuids s <> []) ->
  (forall s s' u, In s p -> In s' p -> In u (uuids s) -> In u (uuids s') -> s = s') ->
  forall es, NoDup (started_ids (run stream inline fails p es)).
Proof. exact start_once_l. Qed.
Print Assumptions C01_start_once.

(* Exactly once: at normal exit every step of the plan has been started (once, by C01_start_once) and completed. *)
Theorem C01_exit_all_done : forall stream inline fails p,
  (forall s s', In s p -> In s' p -> sid s = sid s' -> s = s') ->
  (forall s, In s p -> uuids s <> []) ->
  (forall s s' u, In s p -> In s' p -> In u (uuids s) -> In u (uuids s') -> s = s') ->
  forall es, loop_head p (run stream inline fails p es) = ExitNormal ->
  forall s, In s p -> In (sid s) (started_ids (run stream inline fails p es)) /\
                      In (sid s) (done (run stream inline fails p es)) /\ failed (run stream inline fails p es) = [].
Proof. exact exit_all_done_l. Qed.
Print Assumptions C01_exit_all_done.

(* non-vacuity: a diamond  0 -> {1,2} -> 3  run under THREADING with step 2 finishing before step 1 *)
Definition ex_plan : plan :=
  [ {| sid := 0; skind := KFG; uuids := [1]; req := []; requested := false |};
    {| sid := 1; skind := KFG; uuids := [2]; req := [1]; requested := false |};
    {| sid := 2; skind := KFG; uuids := [3]; req := [1]; requested := false |};
    {| sid := 3; skind := KFG; uuids := [4]; req := [1; 2; 3]; requested := true |} ].
Definition ex_trace := [EScan; EDone 0 true; EScan; EScan; EDone 2 true; EScan; EDone 1 true; EScan; EScan; EDone 3 true; EScan].
Example C01_diamond :
  let st := run false false (fun _ => false) ex_plan ex_trace in
  rev (started_ids st) = [0; 1; 2; 3] /\ loop_head ex_plan st = ExitNormal /\ results st = [3] /\ wf_plan_auto ex_plan = true.
Proof. vm_compute. repeat split. Qed.

(* ---- worker events that land INSIDE a pass of the loop (Model/OrchMid.v) ----
   A failure of an already started step that lands after k visits of a pass gives the same state as the whole pass followed by
   the failure: nothing is started, finished or collected because of it (the for loop does not look at the error register, and a
   failed worker does not report completion).  For every plan, every k, every state. *)
Theorem C01_midpass_failure_commutes : forall stream fails p k s st,
  mem s (started_ids (mid_state fails p k st)) = true ->
  scan_mid stream fails p k s false st = worker_done (scan stream false fails p st) s false.
Proof. exact midpass_failure_commutes_l. Qed.
Print Assumptions C01_midpass_failure_commutes.

Theorem C01_midpass_failure_starts_nothing : forall stream fails p k s st,
  mem s (started_ids (mid_state fails p k st)) = true ->
  let a := scan_mid stream fails p k s false st in let b := scan stream false fails p st in
  started a = started b /\ finished a = finished b /\ done a = done b /\ results a = results b.
Proof. exact midpass_failure_starts_nothing_l. Qed.
Print Assumptions C01_midpass_failure_starts_nothing.

(* every trace with mid-pass failures is a trace of Model/Orch.v, so the order property holds for it *)
Theorem C01_fine_trace_is_orch_trace : forall stream fails p es, fvalid stream fails p es init = true ->
  frun stream fails p es init = run stream false fails p (coarsen es).
Proof. exact fine_trace_coarse_l. Qed.
Print Assumptions C01_fine_trace_is_orch_trace.

Theorem C01_fine_start_requires : forall stream fails p es e, fvalid stream fails p es init = true ->
  In e (started (frun stream fails p es init)) -> start_ok p e.
Proof. exact fine_start_requires_l. Qed.
Print Assumptions C01_fine_start_requires.

(* meaning of the checker the gated THREADING histories are replayed with: every step whose execution was observed to begin
   was started by the model with its requirements finished by completed steps *)
Theorem C01_gated_history_sound : forall p rounds o begins,
  chk_gated_m (p, (rounds, o, begins)) = true ->
  forall s, In s begins -> exists e, fst e = s /\ start_ok p e.
Proof. exact chk_gated_m_sound_l. Qed.
Print Assumptions C01_gated_history_sound.

(* not vacuous, and what the theorem excludes: if a failing worker also reported completion (both registers set), the dependent
   step of a two-step chain is started in the same pass; in the model it is not *)
Example C01_fail_and_done_starts_dependent :
  let st0 := scan false false (fun _ => false) two_chain init in
  let mid := fold_left (visit false (fun _ => false)) (firstn 0 two_chain) st0 in
  let bad := fold_left (visit false (fun _ => false)) (skipn 0 two_chain) (worker_fail_and_done mid 0) in
  started_ids bad = [1; 0] /\ failed bad = [0] /\
  started_ids (scan_mid false (fun _ => false) two_chain 0 0 false st0) = [0].
Proof. exact fail_and_done_starts_dependent. Qed.

(* ---- a plan in which two steps produce one uuid (the plan the real planner makes for ONE polymorphic Link used by two concrete
   pairs of feature groups: both JoinSteps report {own uuid, link uuid}, the consumers wait for the LINK uuid; exported by
   harness/polylink.py, steps 5 and 8 both produce uuid 7).  The premise "produced sets pairwise disjoint" of C01_start_once fails,
   wf_plan_auto rejects the plan, and there is a trace in which the second consumer (step 9) is started although its own join
   (step 8) has not even begun: the link uuid was finished by the OTHER join.  Known finding
   C01-polymorphic-link-join-steps-share-link-uuid (observed on the real code under the gating scheduler). *)
Definition poly_plan : plan :=
  [ {| sid := 0; skind := KFG; uuids := [1]; req := []; requested := false |};
    {| sid := 1; skind := KFG; uuids := [2]; req := []; requested := false |};
    {| sid := 2; skind := KFG; uuids := [3]; req := []; requested := false |};
    {| sid := 3; skind := KFG; uuids := [4]; req := []; requested := false |};
    {| sid := 4; skind := KTFS; uuids := [5]; req := [1; 2]; requested := false |};
    {| sid := 5; skind := KJOIN; uuids := [6; 7]; req := [1; 2; 5]; requested := false |};
    {| sid := 6; skind := KFG; uuids := [8]; req := [1; 2; 7]; requested := true |};
    {| sid := 7; skind := KTFS; uuids := [9]; req := [3; 4]; requested := false |};
    {| sid := 8; skind := KJOIN; uuids := [7; 10]; req := [3; 4; 9]; requested := false |};
    {| sid := 9; skind := KFG; uuids := [11]; req := [3; 4; 7]; requested := true |} ].
Definition poly_trace : list event :=
  [EScan; EDone 0 true; EDone 1 true; EDone 2 true; EDone 3 true; EScan; EScan; EDone 4 true; EScan; EScan; EDone 5 true; EScan; EScan].
Example C01_shared_uuid_starts_early_refuted :
  let st := run false false (fun _ => false) poly_plan poly_trace in
  nodupb (all_uuids poly_plan) = false /\ wf_plan_auto poly_plan = false /\
  mem 9 (started_ids st) = true /\ mem 8 (started_ids st) = false /\ mem 8 (done st) = false /\ mem 7 (finished st) = true.
Proof. vm_compute. repeat split; reflexivity. Qed.
