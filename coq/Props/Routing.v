(* Routing of plan steps to compute-framework objects (registry lookup) - used by C02 (and C01's defect domain
   C01-framework-roundtrip-wrong-object).   Property theorems only; model in Model/Routing.v, proofs in Proofs/RoutingP.v.

   What is established, for EVERY registry, plan, begin order and set-iteration order:
     1. CfwManager.get_cfw_uuid returns the FIRST registered object of the class whose children contain the uuid
        (Routing_get_cfw_first); if at most one object matches, the answer does not depend on the registration order
        (Routing_get_cfw_order_independent); if two different objects match, SOME registration order gives a different
        answer (Routing_get_cfw_order_dependent) - the registry lookup is a function of the plan only on unambiguous lookups.
     2. `for x in step.tfs_ids / step.required_uuids: first hit wins` does not depend on the iteration order of the set iff
        all members that hit, hit the same object (Routing_first_hit_order_independent / _order_dependent).
     3. Registry invariants along a run: object names stay distinct (add_cfw_to_compute_frameworks never raises), every
        object a step writes or reads is registered, a transform step's object inherits the children of its source object
        (that inheritance is what MAKES later lookups ambiguous after a framework round trip).
     4. Composition with the data plane and the reference evaluation (C02): whatever object the lookups choose, a run that
        SUCCEEDS holds exactly the reference values (Routing_values_equal_ref_eval): a wrong choice can only make a step
        miss its input columns, never produce a wrong value.
     5. Routing_roundtrip_refuted: the plan mloda's planner really produces for  root(Pandas) -> f1(PythonDict) -> f5(Pandas)
        (observed, see harness/c02.py) is routed to the ORIGINAL Pandas object instead of the transformed copy: the lookup is
        ambiguous, the first registered object wins, f5 does not find f1 (MissingColumn) although the copy holds it - known
        finding C01-framework-roundtrip-wrong-object / C02-planner-defect-domains.  With the registration order of the two
        Pandas objects swapped the same plan succeeds with the reference value.
   NOT covered: JoinStep (cfw_merge_relation / find_leftmost), MULTIPROCESSING hand-off (the lookups are the same code, the
   data moves through the Flight server: C06/C09). *)
From Coq Require Import List Bool ZArith Arith Permutation.
Import ListNotations.
Require Import MV.Spec.RefEval MV.Spec.RefEvalWf MV.Model.DataPlane MV.Model.Routing MV.Proofs.RoutingP.
Open Scope nat_scope.

(* ---- 1. the registry lookup ---- *)
Theorem Routing_get_cfw_first : forall reg cls u o, get_cfw reg cls u = Some o <->
  exists pre e post, reg = pre ++ e :: post /\ fst e = o /\ matches cls u e = true /\
                     forallb (fun x => negb (matches cls u x)) pre = true.
Proof. exact get_cfw_first. Qed.
Print Assumptions Routing_get_cfw_first.

Theorem Routing_get_cfw_none : forall reg cls u, get_cfw reg cls u = None <-> hits reg cls u = 0.
Proof. exact get_cfw_none. Qed.
Print Assumptions Routing_get_cfw_none.

Theorem Routing_get_cfw_order_independent : forall reg reg' cls u, Permutation reg reg' -> unamb reg cls u = true ->
  get_cfw reg cls u = get_cfw reg' cls u.
Proof. exact get_cfw_perm_l. Qed.
Print Assumptions Routing_get_cfw_order_independent.

Theorem Routing_get_cfw_order_dependent : forall reg cls u e1 e2, In e1 reg -> In e2 reg ->
  matches cls u e1 = true -> matches cls u e2 = true -> fst e1 <> fst e2 ->
  exists reg', Permutation reg reg' /\ get_cfw reg cls u <> get_cfw reg' cls u.
Proof. exact get_cfw_order_dependent_l. Qed.
Print Assumptions Routing_get_cfw_order_dependent.

(* ---- 2. iteration over step.tfs_ids / step.required_uuids ---- *)
Theorem Routing_first_hit_order_independent : forall reg cls us us', Permutation us us' ->
  (forall u1 u2 o1 o2, In u1 us -> In u2 us -> get_cfw reg cls u1 = Some o1 -> get_cfw reg cls u2 = Some o2 -> o1 = o2) ->
  option_map snd (first_hit reg cls us) = option_map snd (first_hit reg cls us').
Proof. exact first_hit_perm_l. Qed.
Print Assumptions Routing_first_hit_order_independent.

Theorem Routing_first_hit_order_dependent : forall reg cls u1 u2 o1 o2,
  get_cfw reg cls u1 = Some o1 -> get_cfw reg cls u2 = Some o2 -> o1 <> o2 ->
  option_map snd (first_hit reg cls [u1; u2]) <> option_map snd (first_hit reg cls [u2; u1]).
Proof. exact first_hit_order_dependent_l. Qed.
Print Assumptions Routing_first_hit_order_dependent.

(* ---- 3. registry invariants along a run ---- *)
Theorem Routing_registry_names_distinct : forall steps reg,
  NoDup (map fst reg ++ map rs_sid steps) -> NoDup (map fst (final_registry reg steps)).
Proof. exact final_registry_nodup. Qed.
Print Assumptions Routing_registry_names_distinct.

Theorem Routing_registry_ids : forall steps reg o, In o (map fst (final_registry reg steps)) ->
  In o (map fst reg) \/ In o (map rs_sid steps).
Proof. exact final_registry_ids. Qed.
Print Assumptions Routing_registry_ids.

Theorem Routing_objects_registered : forall steps reg tr ok, route_all reg steps = (tr, ok) ->
  forall x, In x tr -> In (snd (fst x)) (map fst (final_registry reg steps)) /\
                       (forall r, snd x = Some r -> In r (map fst (final_registry reg steps))).
Proof. exact route_all_objects_registered. Qed.
Print Assumptions Routing_objects_registered.

Theorem Routing_steps_in_order : forall steps reg tr ok, route_all reg steps = (tr, ok) ->
  exists rest, steps = map (fun x => fst (fst x)) tr ++ rest /\ (ok = true -> rest = []).
Proof. exact route_all_prefix. Qed.
Print Assumptions Routing_steps_in_order.

Theorem Routing_tfs_inherits_children : forall reg st reg' w rd, rs_kind st = RTFS -> route reg st = Routed reg' w rd ->
  ~ In (rs_sid st) (map fst reg) ->
  exists u fo, first_hit reg (rs_from st) (rs_req st) = Some (u, fo) /\ w = rs_sid st /\
               forall x, rmem x (children_of reg fo) = true -> rmem x (children_of reg' w) = true.
Proof. exact route_tfs_children. Qed.
Print Assumptions Routing_tfs_inherits_children.

(* ---- 4. values ---- *)
Theorem Routing_values_equal_ref_eval : forall n src defs ord steps s', Permutation defs ord -> wf_request src ord = true ->
  forallb (rstep_ok src defs (ref_eval n src defs)) steps = true ->
  run_plan n steps = Some (Ok s') ->
  forall o t f c, In (o, t) s' -> lookup t f = Some c -> lookup (ref_eval n src defs) f = Some c.
Proof. exact run_plan_values_l. Qed.
Print Assumptions Routing_values_equal_ref_eval.

Theorem Routing_run_plan_is_exec : forall n steps, snd (route_all [] steps) = true ->
  run_plan n steps = Some (exec n [] (actions steps)).
Proof. exact run_plan_exec. Qed.
Print Assumptions Routing_run_plan_is_exec.

(* ---- 5. the framework round trip, as planned by the real planner (classes: 2 = Pandas, 3 = PythonDict) ---- *)
Definition rt_src : env := [(0, [Some 12%Z; Some (-3)%Z]); (1, [Some (-4)%Z; Some 9%Z])].
Definition rt_f1 : fdef := {| fname := 2; inputs := [1; 0]; c0 := (-2)%Z; coefs := [1%Z; 2%Z] |}.
Definition rt_f5 : fdef := {| fname := 6; inputs := [2]; c0 := (-1)%Z; coefs := [(-1)%Z] |}.
Definition rt_steps : list rstep :=
  [ {| rs_sid := 0; rs_kind := RFG; rs_cls := 2; rs_from := 0; rs_any := 1; rs_cir := [1; 2; 3; 5; 7]; rs_tfs := []; rs_req := [];
       rs_right := None; rs_link := None; rs_root := Some rt_src; rs_defs := [] |};
    {| rs_sid := 1; rs_kind := RTFS; rs_cls := 3; rs_from := 2; rs_any := 0; rs_cir := []; rs_tfs := []; rs_req := [3];
       rs_right := None; rs_link := None; rs_root := None; rs_defs := [] |};
    {| rs_sid := 2; rs_kind := RFG; rs_cls := 3; rs_from := 0; rs_any := 5; rs_cir := [5; 7]; rs_tfs := [4; 8]; rs_req := [4; 3; 2];
       rs_right := None; rs_link := None; rs_root := None; rs_defs := [rt_f1] |};
    {| rs_sid := 3; rs_kind := RTFS; rs_cls := 2; rs_from := 3; rs_any := 0; rs_cir := []; rs_tfs := []; rs_req := [5];
       rs_right := None; rs_link := None; rs_root := None; rs_defs := [] |};
    {| rs_sid := 4; rs_kind := RFG; rs_cls := 2; rs_from := 0; rs_any := 7; rs_cir := [7]; rs_tfs := [6]; rs_req := [5; 6; 3; 2];
       rs_right := None; rs_link := None; rs_root := None; rs_defs := [rt_f5] |} ].

Theorem Routing_roundtrip_refuted :
  (* the consumer f5 (step 4) is routed to object 0 - the root's Pandas object - although object 3, the Pandas copy made by the
     transform step 3, is the one holding f1; the deciding lookup is ambiguous; the run stops with MissingColumn f5 *)
  map foot_of (fst (route_all [] rt_steps)) = [(0, 0, None); (1, 1, Some 0); (2, 1, None); (3, 3, Some 1); (4, 0, None)]
  /\ ambiguous_steps [] rt_steps = [4]
  /\ run_plan 2 rt_steps = Some (MissingColumn 6)
  (* the copy does hold what f5 needs, and the value the request should have returned is defined *)
  /\ match exec 2 [] (firstn 4 (actions rt_steps)) with Ok s => match get_obj s 3 with Some t => lookup t 2 | None => None end | _ => None end
       = Some [Some 18%Z; Some 1%Z]
  /\ lookup (ref_eval 2 rt_src [rt_f1; rt_f5]) 6 = Some [Some (-19)%Z; Some (-2)%Z].
Proof. vm_compute. repeat split. Qed.
Print Assumptions Routing_roundtrip_refuted.

(* had the transformed copy been registered before the original (or the lookup preferred the step's own transform object),
   the same steps succeed with the reference value: the defect is the choice among ambiguous matches, nothing else *)
Example Routing_roundtrip_other_choice :
  let reg := final_registry [] (firstn 4 rt_steps) in
  hits reg 2 7 = 2 /\ get_cfw reg 2 7 = Some 0 /\
  exists reg', Permutation reg reg' /\ get_cfw reg' 2 7 = Some 3.
Proof.
  vm_compute. split; [reflexivity|]. split; [reflexivity|].
  eexists. split; [|].
  2:{ instantiate (1 := [(3, (2, [1; 2; 3; 5; 7])); (0, (2, [1; 2; 3; 5; 7])); (1, (3, [1; 2; 3; 5; 7]))]). reflexivity. }
  apply Permutation_sym. eapply perm_trans; [apply perm_swap|]. eapply perm_trans; [apply perm_skip, perm_swap|]. apply Permutation_refl.
Qed.
Print Assumptions Routing_roundtrip_other_choice.

(* the hypotheses of 4 are satisfiable and its conclusion non-trivial: the one-way trip  root(Pandas) -> f1(PythonDict) *)
Example Routing_values_instance :
  wf_request rt_src [rt_f1] = true /\
  forallb (rstep_ok rt_src [rt_f1] (ref_eval 2 rt_src [rt_f1])) (firstn 3 rt_steps) = true /\
  ambiguous_steps [] (firstn 3 rt_steps) = [] /\
  match run_plan 2 (firstn 3 rt_steps) with
  | Some (Ok s) => match get_obj s 1 with Some t => lookup t 2 | None => None end
  | _ => None
  end = lookup (ref_eval 2 rt_src [rt_f1]) 2
  /\ lookup (ref_eval 2 rt_src [rt_f1]) 2 = Some [Some 18%Z; Some 1%Z].
Proof. vm_compute. repeat split. Qed.
Print Assumptions Routing_values_instance.
