(* Model of result-column selection and sub-column name normalisation (C03).  Definitions only.
   Sources (under /repo/mloda/core):
     abstract_plugins/compute_framework.py   ComputeFramework.identify_naming_convention          -> owns, select, identify
     abstract_plugins/feature_group.py       FeatureGroup.get_column_base_feature                  -> base_feature
                                             FeatureGroup.set_feature_name (default implementation) -> set_feature_name
     abstract_plugins/components/feature_set.py  FeatureSet.get_initial_requested_features         -> (Model/Collection.v) requested_names
   Python sets are lists here.  The iteration order of the *set of FeatureName* handed to identify_naming_convention
   is the explicit parameter [iter]; the iteration order of the column set is the order of [cols].  Theorems quantify
   over both.  Strings are compared like Python str on ASCII (code point order = String.compare). *)
From Coq Require Import List Bool String Ascii.
Import ListNotations.
Open Scope string_scope.
Open Scope list_scope.

(* col.startswith(p) *)
Fixpoint starts_with (p s : string) : bool :=
  match p, s with
  | EmptyString, _ => true
  | String a p', String b s' => Ascii.eqb a b && starts_with p' s'
  | String _ _, EmptyString => false
  end.

(* col == feature_name  or  col.startswith(f"{feature_name}~") *)
Definition owns (f c : string) : bool := String.eqb c f || starts_with (f ++ "~") c.

(* the loop `for col in column_names: for feature_name in feature_name_strings: ... add(col)` *)
Definition select (cols req : list string) : list string :=
  filter (fun c => existsb (fun f => owns f c) req) cols.

(* sorted(...) / list.sort() on str : insertion sort with String.leb (the result of sorting is unique, see Proofs) *)
Fixpoint insert_sorted (x : string) (l : list string) : list string :=
  match l with
  | [] => [x]
  | y :: t => if String.leb x y then x :: l else y :: insert_sorted x t
  end.
Definition sort_str (l : list string) : list string := fold_right insert_sorted [] l.

Definition order_alpha (sel : list string) : list string := sort_str sel.

Definition mem_str (x : string) (l : list string) : bool := existsb (String.eqb x) l.

(* result.extend(col for col in matching_cols if col not in result): the generator is consumed while [res] grows *)
Fixpoint extend_new (res block : list string) : list string :=
  match block with
  | [] => res
  | c :: t => extend_new (if mem_str c res then res else res ++ [c]) t
  end.

(* for feature in selected_feature_names: matching = [col for col in selected if owns]; matching.sort();
   result.extend(col for col in matching if col not in result)
   [iter] = iteration order of the set selected_feature_names *)
Definition order_request (iter sel : list string) : list string :=
  fold_left (fun res f => extend_new res (sort_str (filter (owns f) sel))) iter [].

Inductive ordering := ONone | OAlpha | ORequest | OInvalid.

(* RErr = ValueError (invalid ordering value, or nothing selected); RSet = a Python set (order meaningless) *)
Inductive result := RErr | RSet (l : list string) | RList (l : list string).

Definition identify (iter cols : list string) (o : ordering) : result :=
  match o with
  | OInvalid => RErr
  | _ =>
    match select cols iter with
    | [] => RErr
    | (_ :: _) as sel =>
      match o with
      | ONone => RSet sel
      | OAlpha => RList (order_alpha sel)
      | ORequest => RList (order_request iter sel)
      | OInvalid => RErr
      end
    end
  end.

Definition elements (r : result) : list string := match r with RErr => [] | RSet l | RList l => l end.

(* column_name.split("~")[0] *)
Fixpoint base_feature (s : string) : string :=
  match s with
  | EmptyString => EmptyString
  | String c t => if Ascii.eqb c "~"%char then EmptyString else String c (base_feature t)
  end.

(* base = get_column_base_feature(name); if base != name and base in feature_names_supported(): return base; return name *)
Definition set_feature_name (supported : list string) (name : string) : string :=
  let b := base_feature name in
  if negb (String.eqb b name) && mem_str b supported then b else name.

(* ---------- decidable description of the known-defect domain (see Props/C03.v) ---------- *)
(* a sub-column request name~x that set_feature_name rewrites to its base name *)
Definition kf_subcolumn (supported : list string) (name : string) : bool :=
  negb (String.eqb (base_feature name) name) && mem_str (base_feature name) supported.
