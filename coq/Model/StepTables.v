(* C03 — from the planner's steps to the returned tables.   Definitions only (proofs: Proofs/StepTablesP.v).

   What is modelled (mloda/core/...):
     prepare/execution_plan.py  ExecutionPlan.run_feature_group: the features of one feature group are split by
                                group_features_by_compute_framework_and_options (= Model/Grouping.v group_items, the model the
                                theorems of C15 / PlannerO are about); every split becomes a FeatureSet / FeatureGroupStep
                                (after the cut into dependency levels, Model/PlannerO.v plan_O)
     abstract_plugins/components/feature_set.py  FeatureSet.get_initial_requested_features
                                {f.name for f in self.features if f.initial_requested_data}          requested_of
     runtime/data_lifecycle_manager.py  DataLifecycleManager.add_to_result_data_collection
                                `if not initial_requested_features: return`, otherwise ONE entry
                                result_data_collection[step_uuid] = get_result_data(cfw, those names)   tables_of_steps
     runtime/run.py             ExecutionOrchestrator.get_result: the values of result_data_collection (a dict keyed by the
                                step uuid: one table per step that holds a requested feature, in insertion order)

   A feature instance is named by its uuid (a nat: it_id of Model/Grouping.v, fid of Model/PlannerA.v); rq u = the instance's
   initial_requested_data flag.  A "table" is here the list of the requested feature INSTANCES the step's table is selected
   for; which columns that selection returns for a name is Model/Naming.v / Model/Collection.v (C03_exact takes the step of a
   feature as a FUNCTION `step : feature -> nat`; that the planner's membership relation IS a function is what the theorems
   over this file state).

   The iteration order of the Python set handed to the grouping is the order of the list `its` (a parameter), as everywhere. *)
From Coq Require Import List Bool Arith.
Import ListNotations.
Require Import MV.Model.Orch MV.Model.Grouping MV.Model.PlannerA MV.Model.PlannerO.

(* FeatureSet.get_initial_requested_features over the members of one step *)
Definition requested_of (rq : nat -> bool) (members : list nat) : list nat := filter rq members.

Definition nonemptyb {A : Type} (l : list A) : bool := match l with [] => false | _ :: _ => true end.

(* add_to_result_data_collection over the steps of a plan: one table per step with a requested member *)
Definition tables_of_steps (rq : nat -> bool) (steps : list (list nat)) : list (list nat) :=
  filter nonemptyb (map (requested_of rq) steps).

(* the steps of ONE feature group whose features do not depend on each other: the groups of the grouping function *)
Definition group_steps (its : list item) : list (list nat) := map (map it_id) (group_items its).
Definition group_tables (rq : nat -> bool) (its : list item) : list (list nat) := tables_of_steps rq (group_steps its).

(* a whole plan of the O-fragment (any number of feature groups, dependency levels, options, declared types) *)
Definition plan_steps (ord : oparam) (g : ograph) : list (list nat) := map uuids (plan_O ord g).
Definition plan_tables (ord : oparam) (g : ograph) : list (list nat) :=
  tables_of_steps (isreq (base g)) (plan_steps ord g).

(* how often the instance u is returned *)
Definition occurrences (u : nat) (tabs : list (list nat)) : nat := count_occ Nat.eq_dec (concat tabs) u.

(* the step (table) of an instance: position of the first list that contains it *)
Definition holds (u : nat) (l : list nat) : bool := existsb (Nat.eqb u) l.
Definition step_of (steps : list (list nat)) (u : nat) : nat := first_idx (holds u) steps.

(* ---------- a VARIANT that is not the code: the second pass without its `break` ----------
   for existing_key, group in hash_collector.items():
       if next(iter(group)).base_similarity_key() == base_key: hash_collector[existing_key].add(feature); assigned = True
   i.e. an untyped feature is added to EVERY typed group with its (options, frameworks), not to the first one.  Kept to show
   that the partition property is a property of the modelled second pass, not of any grouping (Props C03_..._refuted). *)
Definition add_untyped_every (c : coll) (u : item) : coll :=
  if existsb (base_matches (it_kb u)) c
  then map (fun g => if base_matches (it_kb u) g then (fst g, snd g ++ [u]) else g) c
  else coll_add (it_kb u, None) u c.
Definition group_items_every (its : list item) : list (list item) :=
  let st := pass1 its in map snd (fold_left add_untyped_every (snd st) (fst st)).
Definition group_tables_every (rq : nat -> bool) (its : list item) : list (list nat) :=
  tables_of_steps rq (map (map it_id) (group_items_every its)).
