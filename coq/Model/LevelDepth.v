(* C15, "computed together exactly when ... neither depends on the other": WHICH features of one split
   (same feature group, equal group options, frameworks, type -- Model/Grouping.v) share a calculation step.

   The code is ExecutionPlan._split_features_by_dependency_levels (mloda/core/prepare/execution_plan.py); its model is
   Model/PlannerA.v split_levels / lv_loop (the while loop "all features whose in-group ancestors are placed form the
   next level").  This file adds the SPECIFICATION side, independent of the loop:

     depth          the length of the longest chain of in-group ancestors below a feature (fuel = number of features; the
                    proofs show the fuel is never exhausted on an acyclic relation)
     chain          what a chain is (declarative)
     level_of       the index of the step (level) that contains a feature
     split_by_count the REJECTED alternative "rank = number of in-group ancestors" (a valid topological order, but not the
                    level: seed C15_r5) -- kept as a refuted variant (Props/C15.v C15_rank_by_ancestor_count_refuted)

   and the checker of the correspondence family harness/c15_levels.py.  Definitions only; proofs in Proofs/LevelDepthP.v. *)
From Coq Require Import List Bool Arith.
Import ListNotations.
Require Import MV.Model.Orch MV.Model.OrchCheck MV.Model.Grouping MV.Model.PlannerA.

(* intra u = the ancestors of u inside the split (parent_to_children_mapping[u] & feature_uuids; transitively closed in
   the code, but nothing below needs that) *)
Fixpoint depth (fuel : nat) (intra : nat -> list nat) (u : nat) : nat :=
  match fuel with
  | 0 => 0
  | S f => list_max (map (fun a => S (depth f intra a)) (intra u))
  end.

(* the depth of u among the features F of one split, ancestors given by cl (PlannerA.intra_of = ancestors & F) *)
Definition depth_of (cl : nat -> list nat) (F : list nat) (u : nat) : nat :=
  depth (List.length F) (intra_of cl F) u.

(* a chain below u: a1 is an in-group ancestor of u, a2 one of a1, ... *)
Fixpoint chain (intra : nat -> list nat) (u : nat) (l : list nat) : Prop :=
  match l with
  | [] => True
  | a :: t => In a (intra u) /\ chain intra a t
  end.

(* index of the level that contains f (the first one; levels are disjoint) *)
Fixpoint level_of (levels : list (list nat)) (f : nat) : nat :=
  match levels with [] => 0 | l :: t => if mem f l then 0 else S (level_of t f) end.

Definition same_level (levels : list (list nat)) (f g : nat) : bool :=
  existsb (fun l => mem f l && mem g l) levels.

(* ---------- the rejected alternative: rank = NUMBER of in-group ancestors (seed C15_r5) ----------
     by_rank[len(ancestors & feature_uuids)].add(feature); return [by_rank[r] for r in sorted(by_rank)] *)
Definition split_by_count (cl : nat -> list nat) (F : list nat) : list (list nat) :=
  let intra := intra_of cl F in
  let ranks := filter (fun r => existsb (fun u => Nat.eqb (List.length (intra u)) r) F) (seq 0 (S (List.length F))) in
  map (fun r => filter (fun u => Nat.eqb (List.length (intra u)) r) F) ranks.

(* the witness of the seed's NOTES: d_a=0, d_b=1, d_one=2 <- d_a, d_two=3 <- d_a, d_b *)
Definition ex_cl (u : nat) : list nat := match u with 2 => [0] | 3 => [0; 1] | _ => [] end.

(* ---------- checker of the correspondence family (harness/c15_levels.py) ----------
   One case = one split of one generated request: its features F (feature names renamed to numbers), the in-group
   ancestor map (all ancestors, from the generated definitions), and the calculate_feature calls the real run made for
   that feature group, in call order, each as the list of feature names it received. *)
Record lcase := { lc_F : list nat; lc_cl : amap; lc_calls : list (list nat); lc_tables : nat; lc_req : list nat }.

Fixpoint levels_eqb (a b : list (list nat)) : bool :=
  match a, b with
  | [], [] => true
  | x :: a', y :: b' => set_eqb x y && Nat.eqb (List.length x) (List.length y) && levels_eqb a' b'
  | _, _ => false
  end.

Definition lc_clf (c : lcase) : nat -> list nat := fun u => aget0 u (lc_cl c).
Definition lc_levels (c : lcase) : list (list nat) := fst (split_levels (lc_clf c) (lc_F c)).
Definition lc_depth (c : lcase) : nat -> nat := depth_of (lc_clf c) (lc_F c).

(* the observed calls ARE the model's levels, in order *)
Definition chk_levels (c : lcase) : bool := levels_eqb (lc_levels c) (lc_calls c) && negb (snd (split_levels (lc_clf c) (lc_F c))).
(* the property sentence judged on the observation with the SPEC (depth), not with the loop: two features of the split
   share a call iff they have the same depth; the number of calls is 1 + the maximal depth *)
Definition chk_together (c : lcase) : bool :=
  forallb (fun f => forallb (fun g => Bool.eqb (same_level (lc_calls c) f g) (Nat.eqb (lc_depth c f) (lc_depth c g))) (lc_F c)) (lc_F c)
  && Nat.eqb (List.length (lc_calls c)) (S (list_max (map (lc_depth c) (lc_F c)))).
(* result tables holding a requested feature of this split: one per level that contains a requested feature *)
Definition chk_tables (c : lcase) : bool :=
  Nat.eqb (lc_tables c) (List.length (filter (fun l => existsb (fun r => mem r l) (lc_req c)) (lc_levels c))).
Definition chk_lcase (c : lcase) : bool := chk_levels c && chk_together c && chk_tables c.
(* classification for the harness's distribution counters *)
Definition lc_max_depth (c : lcase) : nat := list_max (map (lc_depth c) (lc_F c)).
Definition lc_count_differs (c : lcase) : bool := negb (levels_eqb (split_by_count (lc_clf c) (lc_F c)) (lc_levels c)).
