(* Model of option values, Python equality on them, _make_hashable and the Options container (C15).
   Sources (under /repo/mloda/core/abstract_plugins/components):
     hashable_dict.py   _make_hashable                                   -> canon
     options.py         Options.__init__ / add / add_to_group / add_to_context / set / get /
                        update_with_protected_keys / __eq__ / __hash__   -> o_init, o_add_group, o_add_context, o_set,
                                                                            o_get, o_update, opt_eq, opt_hash_key
     validators/options_validator.py  (all six validators)               -> inlined in the operations, same order
     feature_collection.py  Features.merge_options                       -> o_merge
   Definitions only.

   Value fragment: None, bool, int, str, list, tuple, set, dict, opaque objects (identity equality, hashable or not),
   plus frozenset (produced by _make_hashable; also accepted as input).  No floats (NaN), no bytes.
   Dictionary keys (option keys and keys of nested dict values) are atoms: None, bool, int, str (a str-Enum such as
   DefaultOptionKeys is indistinguishable from its str under ==, hash and <, so it is a KStr) or a hashable opaque
   object (e.g. a plain Enum member).  Tuples / frozensets as dictionary keys are outside the fragment.
   A Python dict is an association list in insertion order; replacing a value keeps the position and the key object.
   Exceptions are the enum oerr; an operation returns the state left behind together with the error, because the
   Python object keeps living after a raised exception (update_with_protected_keys mutates before it raises). *)
From Coq Require Import List Bool ZArith String Arith Ascii.
Import ListNotations.
Open Scope Z_scope.

(* ---------- keys ---------- *)
Inductive pykey := KNone | KBool (b : bool) | KInt (z : Z) | KStr (s : string) | KOpq (n : nat).

Definition b2z (b : bool) : Z := if b then 1 else 0.
Definition key_num (k : pykey) : option Z :=
  match k with KBool b => Some (b2z b) | KInt z => Some z | _ => None end.

(* Python == / hash on keys: True == 1, False == 0 *)
Definition key_eqb (a b : pykey) : bool :=
  match a, b with
  | KNone, KNone => true
  | KStr s, KStr t => String.eqb s t
  | KOpq n, KOpq m => Nat.eqb n m
  | _, _ => match key_num a, key_num b with Some x, Some y => Z.eqb x y | _, _ => false end
  end.

(* Python < is defined between two str and between two int/bool; everything else raises TypeError *)
Definition kclass (k : pykey) : nat := match k with KStr _ => 1%nat | KBool _ | KInt _ => 2%nat | _ => 0%nat end.
Definition key_leb (a b : pykey) : bool :=
  match a, b with
  | KStr s, KStr t => String.leb s t
  | _, _ => match key_num a, key_num b with Some x, Some y => Z.leb x y | _, _ => true end
  end.

(* ---------- values ---------- *)
Inductive pyval :=
| VNone
| VBool (b : bool)
| VInt (z : Z)
| VStr (s : string)
| VList (l : list pyval)
| VTuple (l : list pyval)
| VSet (l : list pyval)
| VFSet (l : list pyval)
| VDict (d : list (pykey * pyval))
| VOpq (n : nat) (hashable : bool).      (* object number n of the harness pool; == is identity *)

Definition val_of_key (k : pykey) : pyval :=
  match k with KNone => VNone | KBool b => VBool b | KInt z => VInt z | KStr s => VStr s | KOpq n => VOpq n true end.

Section All2.
  Variables (A B : Type) (f : A -> B -> bool).
  Fixpoint all2 (a : list A) (b : list B) : bool :=
    match a, b with
    | [], [] => true
    | x :: a', y :: b' => f x y && all2 a' b'
    | _, _ => false
    end.
End All2.
Arguments all2 {A B} f a b.

Definition num_of (v : pyval) : option Z :=
  match v with VBool b => Some (b2z b) | VInt z => Some z | _ => None end.

(* Python ==.  list/tuple elementwise and never equal to each other; set/frozenset: same size and every element of the
   left one is in the right one; dict: same size and every key of the left one is in the right one with an equal value. *)
Fixpoint py_eq (a b : pyval) {struct a} : bool :=
  match a, b with
  | VNone, VNone => true
  | VStr s, VStr t => String.eqb s t
  | VOpq n _, VOpq m _ => Nat.eqb n m
  | VList x, VList y => all2 py_eq x y
  | VTuple x, VTuple y => all2 py_eq x y
  | (VSet x | VFSet x), (VSet y | VFSet y) =>
      Nat.eqb (List.length x) (List.length y) && forallb (fun e => existsb (py_eq e) y) x
  | VDict x, VDict y =>
      Nat.eqb (List.length x) (List.length y) &&
      forallb (fun kv => match find (fun kv' => key_eqb (fst kv) (fst kv')) y with
                         | Some kv' => py_eq (snd kv) (snd kv')
                         | None => false
                         end) x
  | _, _ => match num_of a, num_of b with Some p, Some q => Z.eqb p q | _, _ => false end
  end.

(* structural identity up to the order of set elements (used only to compare a model result with an observed one:
   distinguishes True from 1, list from tuple, set from frozenset) *)
Definition key_same (a b : pykey) : bool :=
  match a, b with
  | KNone, KNone => true
  | KBool x, KBool y => Bool.eqb x y
  | KInt x, KInt y => Z.eqb x y
  | KStr s, KStr t => String.eqb s t
  | KOpq n, KOpq m => Nat.eqb n m
  | _, _ => false
  end.
Fixpoint val_same (a b : pyval) {struct a} : bool :=
  match a, b with
  | VNone, VNone => true
  | VBool x, VBool y => Bool.eqb x y
  | VInt x, VInt y => Z.eqb x y
  | VStr s, VStr t => String.eqb s t
  | VOpq n h, VOpq m g => Nat.eqb n m && Bool.eqb h g
  | VList x, VList y | VTuple x, VTuple y => all2 val_same x y
  | VSet x, VSet y | VFSet x, VFSet y =>            (* element order of a set is not observable *)
      Nat.eqb (List.length x) (List.length y) && forallb (fun e => existsb (val_same e) y) x
  | VDict x, VDict y => all2 (fun kv kv' => key_same (fst kv) (fst kv') && val_same (snd kv) (snd kv')) x y
  | _, _ => false
  end.

Fixpoint hashable (v : pyval) : bool :=
  match v with
  | VList _ | VSet _ | VDict _ => false
  | VTuple l => forallb hashable l
  | VOpq _ h => h
  | _ => true
  end.

Definition is_nil {A} (l : list A) : bool := match l with [] => true | _ => false end.

(* bool(v) *)
Definition truthy (v : pyval) : bool :=
  match v with
  | VNone => false
  | VBool b => b
  | VInt z => negb (Z.eqb z 0)
  | VStr s => negb (String.eqb s "")
  | VList l | VTuple l | VSet l | VFSet l => negb (is_nil l)
  | VDict d => negb (is_nil d)
  | VOpq _ _ => true
  end.

(* ---------- _make_hashable ---------- *)
Fixpoint seq_opt {A} (l : list (option A)) : option (list A) :=
  match l with
  | [] => Some []
  | None :: _ => None
  | Some x :: t => match seq_opt t with Some r => Some (x :: r) | None => None end
  end.

Section Sort.
  Variable V : Type.
  Fixpoint insert_entry (e : pykey * V) (l : list (pykey * V)) : list (pykey * V) :=
    match l with
    | [] => [e]
    | x :: t => if key_leb (fst e) (fst x) then e :: l else x :: insert_entry e t
    end.
  Definition isort_entries (l : list (pykey * V)) : list (pykey * V) := fold_right insert_entry [] l.
  (* sorted() on (key, value) pairs with pairwise different keys only ever compares keys; with two or more entries it
     raises TypeError unless all keys are str or all are int/bool *)
  Definition sortable (l : list (pykey * V)) : bool :=
    match l with
    | [] | [_] => true
    | _ => forallb (fun e => Nat.eqb (kclass (fst e)) 1) l || forallb (fun e => Nat.eqb (kclass (fst e)) 2) l
    end.
  Definition sort_entries (l : list (pykey * V)) : option (list (pykey * V)) :=
    if sortable l then Some (isort_entries l) else None.
End Sort.
Arguments insert_entry {V} e l.
Arguments isort_entries {V} l.
Arguments sortable {V} l.
Arguments sort_entries {V} l.

Definition pair_tuple (kv : pykey * pyval) : pyval := VTuple [val_of_key (fst kv); snd kv].

(* None = TypeError ('<' not supported ...) *)
Fixpoint canon (v : pyval) : option pyval :=
  match v with
  | VList l | VTuple l => option_map VTuple (seq_opt (map canon l))
  | VSet l => option_map VFSet (seq_opt (map canon l))
  | VDict d =>
      match seq_opt (map (fun kv => option_map (pair (fst kv)) (canon (snd kv))) d) with
      | None => None
      | Some cd => option_map (fun s => VTuple (map pair_tuple s)) (sort_entries cd)
      end
  | _ => Some v
  end.

(* hash(_make_hashable(v)) is defined iff canon is and no unhashable object is left inside *)
Definition hash_key (v : pyval) : option pyval :=
  match canon v with
  | Some c => if hashable c then Some c else None
  | None => None
  end.

(* ---------- dict operations ---------- *)
Definition dict := list (pykey * pyval).
Definition dkeys (d : dict) : list pykey := map fst d.
Definition kmem (k : pykey) (ks : list pykey) : bool := existsb (key_eqb k) ks.

Fixpoint dget (k : pykey) (d : dict) : option pyval :=
  match d with
  | [] => None
  | (k', v) :: t => if key_eqb k k' then Some v else dget k t
  end.
Fixpoint dset (k : pykey) (v : pyval) (d : dict) : dict :=
  match d with
  | [] => [(k, v)]
  | (k', v') :: t => if key_eqb k k' then (k', v) :: t else (k', v') :: dset k v t
  end.
(* d.update(o) ; also dict(pairs) *)
Definition dupdate (d : dict) (o : list (pykey * pyval)) : dict :=
  fold_left (fun acc kv => dset (fst kv) (snd kv) acc) o d.
Definition dict_of_list (l : list (pykey * pyval)) : dict := dupdate [] l.
(* frozenset(keys): of two equal keys (1 and True) the first one stays *)
Fixpoint kdedup (l : list pykey) : list pykey :=
  match l with
  | [] => []
  | k :: t => k :: filter (fun x => negb (key_eqb k x)) (kdedup t)
  end.

(* ---------- Options ---------- *)
Record ostate := { og : dict; oc : dict; opk : list pykey }.
Inductive oerr := EValue | EType.

Definition k_in_features := KStr "in_features".
Definition k_chainer := KStr "feature_chainer_parser_key".

(* Options(group, context, propagate_context_keys): inr = the constructor raised *)
Definition o_init (g c : list (pykey * pyval)) (p : list pykey) : ostate + oerr :=
  let s := {| og := dict_of_list g; oc := dict_of_list c; opk := kdedup p |} in
  if existsb (fun k => kmem k (dkeys (oc s))) (dkeys (og s)) then inr EValue          (* validate_no_duplicate_keys *)
  else if negb (forallb (fun k => kmem k (dkeys (oc s))) (opk s)) then inr EValue     (* validate_propagate_keys_in_context *)
  else inl s.

Definition o_get (k : pykey) (s : ostate) : pyval :=
  match dget k (og s) with
  | Some v => v
  | None => match dget k (oc s) with Some v => v | None => VNone end
  end.

Definition o_add_group (k : pykey) (v : pyval) (s : ostate) : ostate * option oerr :=
  if match dget k (og s) with Some v0 => negb (py_eq v v0) | None => false end then (s, Some EValue)
  else if kmem k (dkeys (oc s)) then (s, Some EValue)
  else ({| og := dset k v (og s); oc := oc s; opk := opk s |}, None).

Definition o_add_context (k : pykey) (v : pyval) (s : ostate) : ostate * option oerr :=
  if match dget k (oc s) with Some v0 => negb (py_eq v v0) | None => false end then (s, Some EValue)
  else if kmem k (dkeys (og s)) then (s, Some EValue)
  else ({| og := og s; oc := dset k v (oc s); opk := opk s |}, None).

Definition o_set (k : pykey) (v : pyval) (s : ostate) : ostate * option oerr :=
  if kmem k (dkeys (og s)) then ({| og := dset k v (og s); oc := oc s; opk := opk s |}, None)
  else if kmem k (dkeys (oc s)) then ({| og := og s; oc := dset k v (oc s); opk := opk s |}, None)
  else ({| og := dset k v (og s); oc := oc s; opk := opk s |}, None).

(* `for key in value: protected_keys.add(key)` : Some keys, or None = TypeError (not iterable / unhashable element).
   A hashable element that is not an atom (tuple, frozenset) can never equal an option key of the fragment: dropped. *)
Definition elem_keys (v : pyval) : option (list pykey) :=
  match v with
  | VNone => Some [KNone]
  | VBool b => Some [KBool b]
  | VInt z => Some [KInt z]
  | VStr s => Some [KStr s]
  | VOpq n true => Some [KOpq n]
  | _ => if hashable v then Some [] else None
  end.
Definition iter_keys (v : pyval) : option (list pykey) :=
  match v with
  | VStr s => Some (map (fun ch => KStr (String ch EmptyString)) (list_ascii_of_string s))
  | VList l | VTuple l | VSet l | VFSet l => option_map (@List.concat pykey) (seq_opt (map elem_keys l))
  | VDict d => Some (dkeys d)
  | _ => None
  end.
(* protected_keys = {in_features} + keys listed under feature_chainer_parser_key of self *)
Definition default_protected (s : ostate) : option (list pykey) :=
  let ch := o_get k_chainer s in
  if truthy ch then option_map (cons k_in_features) (iter_keys ch) else Some [k_in_features].

Definition o_update (other : ostate) (prot : option (list pykey)) (s : ostate) : ostate * option oerr :=
  match (match prot with Some p => Some p | None => default_protected s end) with
  | None => (s, Some EType)
  | Some pk =>
      let ogc := filter (fun kv => negb (kmem (fst kv) pk)) (og other) in
      if existsb (fun k => kmem k (dkeys (oc s))) (dkeys ogc) then (s, Some EValue)   (* validate_no_group_context_conflicts *)
      else
        let g' := dupdate (og s) ogc in
        let s1 := {| og := g'; oc := oc s; opk := opk s |} in
        if is_nil (opk other) then (s1, None)
        else
          let pr := filter (fun kv => kmem (fst kv) (opk other) && negb (kmem (fst kv) pk)) (oc other) in
          if existsb (fun k => kmem k (dkeys g')) (dkeys pr) then (s1, Some EValue)   (* validate_no_context_group_conflicts *)
          else if existsb (fun kv => match dget (fst kv) (oc s) with
                                     | Some v0 => negb (py_eq v0 (snd kv))
                                     | None => false
                                     end) pr then (s1, Some EValue)
          else ({| og := g'; oc := dupdate (oc s) pr; opk := opk s |}, None)
  end.

Definition o_items (s : ostate) : list (pykey * pyval) := og s ++ oc s.

(* Features.merge_options(feature_options = s, child_options = child) *)
Definition o_merge (child : ostate) (s : ostate) : ostate * option oerr :=
  match default_protected s with
  | None => (s, Some EType)
  | Some pk =>
      if existsb (fun c => existsb (fun p => key_eqb (fst c) (fst p) && negb (kmem (fst p) pk)
                                             && negb (py_eq (snd c) (snd p))) (o_items s)) (o_items child)
      then (s, Some EValue)
      else o_update child None s
  end.

Inductive oop :=
| OpAdd (k : pykey) (v : pyval)            (* Options.add = add_to_group *)
| OpAddGroup (k : pykey) (v : pyval)
| OpAddContext (k : pykey) (v : pyval)
| OpSet (k : pykey) (v : pyval)
| OpUpdate (other : ostate) (prot : option (list pykey))
| OpMerge (child : ostate).

Definition o_step (s : ostate) (o : oop) : ostate * option oerr :=
  match o with
  | OpAdd k v | OpAddGroup k v => o_add_group k v s
  | OpAddContext k v => o_add_context k v s
  | OpSet k v => o_set k v s
  | OpUpdate other prot => o_update other prot s
  | OpMerge child => o_merge child s
  end.

(* the object after a sequence of calls (exceptions caught by the caller) *)
Definition o_run (s : ostate) (ops : list oop) : ostate := fold_left (fun st o => fst (o_step st o)) ops s.
(* the same, recording state and error after every call *)
Fixpoint o_trace (s : ostate) (ops : list oop) : list (ostate * option oerr) :=
  match ops with
  | [] => []
  | o :: t => let r := o_step s o in r :: o_trace (fst r) t
  end.

(* Options.__eq__ / __hash__ : group only *)
Definition opt_eq (a b : ostate) : bool := py_eq (VDict (og a)) (VDict (og b)).
Definition opt_hash_key (a : ostate) : option pyval := hash_key (VDict (og a)).
