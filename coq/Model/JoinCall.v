(* The JoinStep's call of the merge engine: WHICH key list is applied to WHICH table (C05).

   Mirrors mloda/core/core/step/join_step.py

       def _merge_data(self, cfw, from_cfw_data):                                                     (l. 34-43)
           merge_engine_instance = cfw.merge_engine()(cfw.get_framework_connection_object())
           cfw.data = merge_engine_instance.merge(
               cfw.data, from_cfw_data, self.link.jointype, self.link.left_index, self.link.right_index)

   i.e. the keys are an explicit argument taken from the Link the step carries: link.left_index is applied to the table of the
   object the step merges INTO (cfw.data, the `target`), link.right_index to the table it reads (from_cfw_data, the `other`),
   with link.jointype - whatever columns the two tables contain.

     link_decl                    what the step's Link declares: join type, left index, right index
     engine                       a merge engine: join type -> keys of the first table -> keys of the second -> tables -> table
                                  (the specification of the engines is Spec/Rel.rel_join; the engines themselves are C12's subject)
     merge_data E l target other  JoinStep._merge_data
     link_of_jrec j               the Link of a JoinStep of the run-time join path model (Model/RoutingJ.v): exec_x writes
                                  merge_data rel_join (link_of_jrec j) into the left object (Proofs/JoinCallP.exec_x_join_merge_data)

   NOT the code - an alternative the statement must exclude, kept as an executable definition so that the refutation is a
   kernel-checked computation (Props/C05keys.v C05_orientation_by_column_names_refuted):
     resolve_by_names l tcols ocols   "infer the orientation from the column names": if the target table has the RIGHT key
                                      columns and the other table has the LEFT key columns, hand the indexes over exchanged
     merge_data_by_names E l target other
   Definitions only. *)
From Coq Require Import List Bool String.
Import ListNotations.
Require Import MV.Spec.Rel MV.Model.RoutingJ.
Open Scope list_scope.

Record link_decl := { ld_jt : jointype; ld_left : list col; ld_right : list col }.

Definition engine := jointype -> list col -> list col -> table -> table -> table.

Definition merge_data (E : engine) (l : link_decl) (target other : table) : table :=
  E (ld_jt l) (ld_left l) (ld_right l) target other.

Definition link_of_jrec (j : jrec) : link_decl := {| ld_jt := j_jt j; ld_left := j_lk j; ld_right := j_rk j |}.

(* ---- orientation guessed from the schemas (not the code) ---- *)
Definition subset_cols (ks cols : list col) : bool := forallb (fun k => mem k cols) ks.

Definition resolve_by_names (l : link_decl) (tcols ocols : list col) : list col * list col :=
  if subset_cols (ld_right l) tcols && subset_cols (ld_left l) ocols
  then (ld_right l, ld_left l) else (ld_left l, ld_right l).

Definition merge_data_by_names (E : engine) (l : link_decl) (target other : table) : table :=
  let ks := resolve_by_names l (table_cols target) (table_cols other) in
  E (ld_jt l) (fst ks) (snd ks) target other.
