(* Faithful executable model of
     /repo/mloda/core/abstract_plugins/components/merge/base_merge_engine.py      BaseMergeEngine.merge  (dispatch)
     /repo/mloda_plugins/compute_framework/base_implementations/python_dict/python_dict_merge_engine.py
   Definitions only.  The model says what the code computes, defects included.

   Data: `List[Dict[str, Any]]` = Rel.table with rows that bind no column twice (Rel.rows_wf); values are
   ints / strings / None (Rel.val).  `row.get(col)` = Rel.get (None when absent).  Python `==`/hash on key
   tuples of such values = structural equality of `list val` (`key_eqb`); in particular None == None.

   Python dicts are modelled as association lists in insertion order: `dset` overwrites the value of an
   existing key in place or appends a new key at the end (exactly CPython's ordering), `dget` is `d.get`.

     index_map ks data        {tuple(r.get(c) for c in ks): r for r in data}     -- later rows overwrite earlier ones
     row_update l r           {**l, **r}                                          -- right values overwrite
     py_inner/left/right/outer/union     PythonDictMergeEngine._inner_join ... _union_join
     py_append                merge_append: left_data + right_data
     base_dispatch            BaseMergeEngine.merge: JoinType -> merge_* method
     pydict_kernel            PythonDictMergeEngine.merge_* -> join_logic(<string>) -> _*_join
     merge_pydict             the composition = PythonDictMergeEngine().merge(left, right, jointype, Index(lk), Index(rk))

   Iteration order of Python sets.  `_outer_join` iterates over `all_keys = set(..) | set(..)`: the order is an
   explicit parameter `ord` (any rearrangement of the duplicate-free key list); theorems quantify over it.
   The column sets (`left_columns`, `right_columns`) are iterated only to write distinct dictionary entries, so
   their order can only change the order of bindings inside a row, which `Rel.canon` ignores; they are
   modelled as the list of column occurrences in table order. *)
From Coq Require Import List String ZArith Bool.
Import ListNotations.
Require Import MV.Spec.Rel.
Open Scope string_scope.
Open Scope list_scope.

(* ---------------------------------------------------------------------------------------------------- *)
(* Python equality of key tuples *)
Fixpoint key_eqb (a b : list val) : bool :=
  match a, b with
  | [], [] => true
  | x :: a', y :: b' => val_eqb x y && key_eqb a' b'
  | _, _ => false
  end.

(* ---------------------------------------------------------------------------------------------------- *)
(* insertion-ordered dictionaries *)
Section Dict.
  Context {K V : Type} (eqb : K -> K -> bool).
  Fixpoint dset (k : K) (v : V) (d : list (K * V)) : list (K * V) :=
    match d with
    | [] => [(k, v)]
    | (k', v') :: t => if eqb k' k then (k', v) :: t else (k', v') :: dset k v t
    end.
  Fixpoint dget (k : K) (d : list (K * V)) : option V :=
    match d with
    | [] => None
    | (k', v') :: t => if eqb k' k then Some v' else dget k t
    end.
End Dict.

Definition row_set (c : col) (v : val) (r : row) : row := dset String.eqb c v r.
(* apply a sequence of assignments  merged[c] = v  *)
Definition row_writes (ws : list (col * val)) (r : row) : row :=
  fold_left (fun m cv => row_set (fst cv) (snd cv) m) ws r.
(* {**l, **r} *)
Definition row_update (l r : row) : row := row_writes r l.

Definition keymap := list (list val * row).
(* {tuple(r.get(col) for col in ks): r for r in data} *)
Definition index_map (ks : list col) (data : table) : keymap :=
  fold_left (fun m r => dset key_eqb (key_of ks r) r m) data [].
Definition kget (k : list val) (m : keymap) : option row := dget key_eqb k m.
Definition kmem (k : list val) (l : list (list val)) : bool := existsb (key_eqb k) l.

(* set difference on column lists *)
Definition cols_minus (a b : list col) : list col := filter (fun c => negb (mem c b)) a.

(* ---------------------------------------------------------------------------------------------------- *)
(* _inner_join *)
Definition py_inner (L R : table) (lk rk : list col) : table :=
  let rm := index_map rk R in
  flat_map (fun l => match kget (key_of lk l) rm with
                     | Some r => [row_update l r]
                     | None => []
                     end) L.

(* _left_join:  right_columns = (all right columns - right_cols) - all left columns, filled with None *)
Definition py_left (L R : table) (lk rk : list col) : table :=
  let rm := index_map rk R in
  let fill := cols_minus (cols_minus (table_cols R) rk) (table_cols L) in
  map (fun l => match kget (key_of lk l) rm with
                | Some r => row_update l r
                | None => row_writes (map (fun c => (c, VNull)) fill) l
                end) L.

(* _right_join:  {**left_row, **r} for matched right rows *)
Definition py_right (L R : table) (lk rk : list col) : table :=
  let lm := index_map lk L in
  let fill := cols_minus (cols_minus (table_cols L) lk) (table_cols R) in
  map (fun r => match kget (key_of rk r) lm with
                | Some l => row_update l r
                | None => row_writes (map (fun c => (c, VNull)) fill) r
                end) R.

(* _outer_join *)
Fixpoint dedup_keys (seen l : list (list val)) : list (list val) :=
  match l with
  | [] => []
  | k :: t => if kmem k seen then dedup_keys seen t else k :: dedup_keys (k :: seen) t
  end.

Definition list_col_eqb (a b : list col) : bool :=
  (Nat.eqb (List.length a) (List.length b)) && forallb (fun ab => String.eqb (fst ab) (snd ab)) (combine a b).

(* for i, col in enumerate(cols): merged[col] = key[i] *)
Definition key_writes (cols : list col) (key : list val) : list (col * val) := combine cols key.

Definition outer_row (L R : table) (lk rk : list col) (lm rm : keymap) (key : list val) : row :=
  let lrow := match kget key lm with Some r => r | None => [] end in
  let rrow := match kget key rm with Some r => r | None => [] end in
  let in_l := match kget key lm with Some _ => true | None => false end in
  let in_r := match kget key rm with Some _ => true | None => false end in
  let kw := if list_col_eqb lk rk then key_writes lk key
            else (if in_l then key_writes lk key else []) ++ (if in_r then key_writes rk key else []) in
  let lw := map (fun c => (c, get c lrow)) (cols_minus (table_cols L) lk) in
  let rw := map (fun c => (c, get c rrow)) (cols_minus (table_cols R) rk) in
  row_writes (kw ++ lw ++ rw) [].

Definition py_outer (ord : list (list val) -> list (list val)) (L R : table) (lk rk : list col) : table :=
  let lm := index_map lk L in
  let rm := index_map rk R in
  let all_keys := ord (dedup_keys [] (map fst lm ++ map fst rm)) in
  map (outer_row L R lk rk lm rm) all_keys.

(* _union_join: keep a row iff its key tuple has not been seen *)
Fixpoint union_pass (ks : list col) (seen : list (list val)) (data : table) : table * list (list val) :=
  match data with
  | [] => ([], seen)
  | r :: t => if kmem (key_of ks r) seen then union_pass ks seen t
              else let (out, seen') := union_pass ks (key_of ks r :: seen) t in (r :: out, seen')
  end.
Definition py_union (L R : table) (lk rk : list col) : table :=
  let (outl, seen) := union_pass lk [] L in
  let (outr, _) := union_pass rk seen R in
  outl ++ outr.

Definition py_append (L R : table) : table := L ++ R.

(* ---------------------------------------------------------------------------------------------------- *)
(* dispatch *)
Inductive merge_method := MInner | MLeft | MRight | MFullOuter | MAppend | MUnion.

(* BaseMergeEngine.merge *)
Definition base_dispatch (jt : jointype) : merge_method :=
  match jt with
  | JInner => MInner | JLeft => MLeft | JRight => MRight | JOuter => MFullOuter
  | JAppend => MAppend | JUnion => MUnion
  end.

(* PythonDictMergeEngine.merge_<method> (via join_logic's string dispatch) *)
Definition pydict_kernel (ord : list (list val) -> list (list val)) (m : merge_method)
           (L R : table) (lk rk : list col) : table :=
  match m with
  | MInner => py_inner L R lk rk
  | MLeft => py_left L R lk rk
  | MRight => py_right L R lk rk
  | MFullOuter => py_outer ord L R lk rk
  | MAppend => py_append L R
  | MUnion => py_union L R lk rk
  end.

Definition merge_pydict (ord : list (list val) -> list (list val)) (jt : jointype)
           (L R : table) (lk rk : list col) : table :=
  pydict_kernel ord (base_dispatch jt) L R lk rk.

(* ---------------------------------------------------------------------------------------------------- *)
(* known-defect domains (decidable).  Outside all of them merge_pydict refines Rel.rel_join
   (Props/C12.v: pydict_merge_refines); inside each there is a refuting witness. *)

Definition is_join (jt : jointype) : bool :=
  match jt with JInner | JLeft | JRight | JOuter => true | _ => false end.

Fixpoint has_dup_key (l : list (list val)) : bool :=
  match l with [] => false | k :: t => kmem k t || has_dup_key t end.

(* two rows with (Python-)equal key tuples on a side that the engine turns into a {key: row} map *)
Definition kf_dup_key (jt : jointype) (L R : table) (lk rk : list col) : bool :=
  match jt with
  | JInner | JLeft => has_dup_key (map (key_of rk) R)
  | JRight => has_dup_key (map (key_of lk) L)
  | JOuter => has_dup_key (map (key_of lk) L) || has_dup_key (map (key_of rk) R)
  | _ => false
  end.

(* a left and a right row whose key tuples are Python-equal and contain None *)
Definition kf_null_key (jt : jointype) (L R : table) (lk rk : list col) : bool :=
  is_join jt &&
  existsb (fun l => existsb is_null (key_of lk l) &&
                    existsb (fun r => key_eqb (key_of lk l) (key_of rk r)) R) L.

(* a column name present in both tables that is not a key column of both at the same key position *)
Definition kf_overlap_cols (jt : jointype) (L R : table) (lk rk : list col) : bool :=
  is_join jt && negb (overlap_free lk rk L R).

(* union: two rows (of L ++ R, each with its own side's key columns) for which "same key tuple" and
   "same row" disagree *)
Definition tagged (L R : table) (lk rk : list col) : list (list val * row) :=
  map (fun r => (key_of lk r, r)) L ++ map (fun r => (key_of rk r, r)) R.
Definition kf_union_partial_dup (jt : jointype) (L R : table) (lk rk : list col) : bool :=
  match jt with
  | JUnion => let t := tagged L R lk rk in
              existsb (fun x => existsb (fun y => xorb (key_eqb (fst x) (fst y)) (row_equivb (snd x) (snd y))) t) t
  | _ => false
  end.

Definition in_kf (jt : jointype) (L R : table) (lk rk : list col) : bool :=
  kf_dup_key jt L R lk rk || kf_null_key jt L R lk rk || kf_overlap_cols jt L R lk rk
  || kf_union_partial_dup jt L R lk rk.
