(* What __eq__ compares and what __hash__ hashes for Feature, Link, Index, SingleFilter / FilterParameterImpl (C15).
   Sources: components/feature.py (Feature.__eq__, __hash__), components/link.py (Link.__eq__, __hash__),
   components/index/index.py (Index.__eq__, __hash__), filter/single_filter.py (SingleFilter.__eq__, __hash__),
   filter/filter_parameter.py (FilterParameterImpl.from_dict; frozen dataclass eq/hash on _raw),
   components/domain.py (Domain.__eq__ raises ValueError when compared with a non-Domain, e.g. None),
   components/feature_name.py.   Definitions only.

   A hash is modelled by the value that is handed to Python's hash(): `*_hkey : option pyval`, None = hash() raises
   TypeError.  Python's hash of tuples / frozensets / str / int respects == ; that is the only assumption made about it
   (Props quantify over every function `h` with py_eq x y -> h x = h y).
   Option values of the fragment of Model/Options.v contain no Feature objects.  The one place where Feature objects
   inside options matter for identity is child_options[in_features] (a frozenset of Features, or one Feature), which
   Feature.__hash__ rewrites before hashing; it is modelled by the separate field f_child_inf: the frozenset is given in
   its ITERATION ORDER (a parameter), a Feature inside it by (name, class of all its other fields under ==).
   Code as of /repo 17adca0: the frozenset is replaced by tuple(sorted(names)); a single Feature by its name.
   `child_options.get(in_features)` looks into the group first and then into the CONTEXT of the child options, and the
   replacement is written into the group of the (deep-copied) child options in both cases.
   Not modelled: frozensets mixing Features with other elements; an empty frozenset (falsy: no rewrite, a plain value). *)
From Coq Require Import List Bool ZArith String Arith.
Import ListNotations.
Require Import MV.Model.Options.
Open Scope Z_scope.

Definition inf_elem := (string * nat)%type.          (* a Feature: name, class of the remaining fields *)
Inductive inf_val := InfSet (order : list inf_elem) | InfOne (e : inf_elem).
Inductive inf_loc := InGroup | InContext.
Definition elem_eqb (a b : inf_elem) : bool := String.eqb (fst a) (fst b) && Nat.eqb (snd a) (snd b).
(* frozenset == frozenset; Feature == Feature; a Feature is never equal to a frozenset *)
Definition inf_eq (x y : inf_val) : bool :=
  match x, y with
  | InfSet a, InfSet b => Nat.eqb (List.length a) (List.length b) && forallb (fun e => existsb (elem_eqb e) b) a
  | InfOne a, InfOne b => elem_eqb a b
  | _, _ => false
  end.
(* sorted(names) *)
Fixpoint sinsert (x : string) (l : list string) : list string :=
  match l with [] => [x] | y :: t => if String.leb x y then x :: l else y :: sinsert x t end.
Definition ssort (l : list string) : list string := fold_right sinsert [] l.
(* what __hash__ puts in place of the Feature-valued in_features *)
Definition inf_rewrite (v : inf_val) : pyval :=
  match v with
  | InfSet order => VTuple (map VStr (ssort (map fst order)))
  | InfOne e => VStr (fst e)
  end.

Record feat := {
  f_name : string;
  f_opt : ostate;                      (* options: group, context *)
  f_domain : option string;
  f_cfw : option (list nat);           (* compute_frameworks: None or a set of framework classes *)
  f_dtype : option nat;                (* DataType member *)
  f_child : option ostate;             (* child_options, without a Feature-valued in_features entry *)
  f_child_inf : option (inf_loc * inf_val)   (* child_options[in_features] when it holds Feature objects, and where *)
}.

Definition opt_val (A : Type) (f : A -> pyval) (o : option A) : pyval := match o with Some x => f x | None => VNone end.
Arguments opt_val {A} f o.
Definition cfw_val (c : option (list nat)) : pyval := opt_val (fun l => VFSet (map (fun n => VInt (Z.of_nat n)) l)) c.
Definition dtype_val (d : option nat) : pyval := opt_val (fun n => VTuple [VStr "DataType"; VInt (Z.of_nat n)]) d.

(* Domain == Domain compares names; None == None; Domain == None raises ValueError (None = raised) *)
Definition dom_eq (a b : option string) : option bool :=
  match a, b with
  | None, None => Some true
  | Some x, Some y => Some (String.eqb x y)
  | _, _ => None
  end.

(* child_options == child_options: Options.__eq__ compares the GROUP dictionaries only, so a Feature-valued in_features
   takes part when it sits in the group and is ignored when it sits in the context *)
Definition group_inf (i : option (inf_loc * inf_val)) : option inf_val :=
  match i with Some (InGroup, v) => Some v | _ => None end.
Definition child_eq (a b : option ostate) (ia ib : option (inf_loc * inf_val)) : bool :=
  match a, b with
  | None, None => true
  | Some x, Some y => opt_eq x y && match group_inf ia, group_inf ib with
                                    | None, None => true
                                    | Some u, Some v => inf_eq u v
                                    | _, _ => false
                                    end
  | _, _ => false
  end.

(* Feature.__eq__ : a chain of `and`, evaluated left to right.  None = the comparison raised. *)
Definition feat_eq (a b : feat) : option bool :=
  if negb (String.eqb (f_name a) (f_name b)) then Some false
  else if negb (opt_eq (f_opt a) (f_opt b)) then Some false
  else if negb (py_eq (VDict (oc (f_opt a))) (VDict (oc (f_opt b)))) then Some false
  else match dom_eq (f_domain a) (f_domain b) with
       | None => None
       | Some false => Some false
       | Some true => Some (py_eq (cfw_val (f_cfw a)) (cfw_val (f_cfw b))
                            && py_eq (dtype_val (f_dtype a)) (dtype_val (f_dtype b))
                            && child_eq (f_child a) (f_child b) (f_child_inf a) (f_child_inf b))
       end.

(* the group dictionary of the copy of child_options that is hashed: a Feature-valued in_features found in the group OR in
   the context is written into the group in its rewritten form *)
Definition child_hash_group (c : ostate) (i : option (inf_loc * inf_val)) : dict :=
  match i with Some (_, v) => og c ++ [(k_in_features, inf_rewrite v)] | None => og c end.

(* hash((name, options, domain, frozenset(cfw) | None, data_type, child_options)) ; context is not hashed *)
Definition feat_hkey (a : feat) : option pyval :=
  match opt_hash_key (f_opt a),
        (match f_child a with None => Some VNone | Some c => hash_key (VDict (child_hash_group c (f_child_inf a))) end) with
  | Some ho, Some hc => Some (VTuple [VStr (f_name a); ho; opt_val VStr (f_domain a); cfw_val (f_cfw a);
                                       dtype_val (f_dtype a); hc])
  | _, _ => None
  end.

(* ---------- Index / Link ---------- *)
Definition idx_eq (a b : list string) : bool := all2 String.eqb a b.
Definition idx_hkey (a : list string) : pyval := VTuple (map VStr a).

Record plink := { pl_jt : nat; pl_left : string; pl_right : string; pl_lidx : list string; pl_ridx : list string }.
Definition plink_eq (a b : plink) : bool :=
  Nat.eqb (pl_jt a) (pl_jt b) && String.eqb (pl_left a) (pl_left b) && String.eqb (pl_right a) (pl_right b)
  && idx_eq (pl_lidx a) (pl_lidx b) && idx_eq (pl_ridx a) (pl_ridx b).
Definition plink_hkey (a : plink) : pyval :=
  VTuple [VTuple [VStr "JoinType"; VInt (Z.of_nat (pl_jt a))]; VStr (pl_left a); VStr (pl_right a);
          idx_hkey (pl_lidx a); idx_hkey (pl_ridx a)].

(* ---------- SingleFilter ---------- *)
(* FilterParameterImpl.from_dict: tuple(sorted(params.items())) -- values are kept as they are (no _make_hashable) *)
Record sfilter := { sf_feat : feat; sf_type : string; sf_raw : list (pykey * pyval) }.
Definition sf_make (f : feat) (t : string) (params : list (pykey * pyval)) : option sfilter :=
  match params with
  | [] => None                                                    (* ValueError: Dictionary is empty *)
  | _ => match sort_entries (dict_of_list params) with
         | Some r => Some {| sf_feat := f; sf_type := t; sf_raw := r |}
         | None => None                                           (* TypeError from sorted() *)
         end
  end.
Definition raw_val (r : list (pykey * pyval)) : pyval := VTuple (map pair_tuple r).
Definition sf_eq (a b : sfilter) : option bool :=
  match feat_eq (sf_feat a) (sf_feat b) with
  | None => None
  | Some false => Some false
  | Some true => Some (String.eqb (sf_type a) (sf_type b) && py_eq (raw_val (sf_raw a)) (raw_val (sf_raw b)))
  end.
(* hash((filter_feature, filter_type, parameter)); the dataclass hashes (_raw,) as it is *)
Definition sf_hkey (a : sfilter) : option pyval :=
  match feat_hkey (sf_feat a) with
  | Some hf => if hashable (raw_val (sf_raw a)) then Some (VTuple [hf; VStr (sf_type a); VTuple [raw_val (sf_raw a)]])
               else None
  | None => None
  end.
