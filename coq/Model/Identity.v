(* What __eq__ compares and what __hash__ hashes for Feature, Link, Index, SingleFilter / FilterParameterImpl (C15).
   Sources: components/feature.py (Feature.__eq__, __hash__), components/link.py (Link.__eq__, __hash__),
   components/index/index.py (Index.__eq__, __hash__), filter/single_filter.py (SingleFilter.__eq__, __hash__),
   filter/filter_parameter.py (FilterParameterImpl.from_dict; frozen dataclass eq/hash on _raw),
   components/domain.py (Domain.__eq__ raises ValueError when compared with a non-Domain, e.g. None),
   components/feature_name.py.   Definitions only.

   A hash is modelled by the value that is handed to Python's hash(): `*_hkey : option pyval`, None = hash() raises
   TypeError.  Python's hash of tuples / frozensets / str / int respects == ; that is the only assumption made about it
   (Props quantify over every function `h` with py_eq x y -> h x = h y).
   Option values of the fragment of Model/Options.v contain no Feature objects, so the rewriting of
   child_options[in_features] inside Feature.__hash__ is the identity there; the one case where it is not (a frozenset of
   Feature objects) is modelled separately by `infeatures_hash_name`, with the set iteration order as a parameter. *)
From Coq Require Import List Bool ZArith String Arith.
Import ListNotations.
Require Import MV.Model.Options.
Open Scope Z_scope.

Record feat := {
  f_name : string;
  f_opt : ostate;                      (* options: group, context *)
  f_domain : option string;
  f_cfw : option (list nat);           (* compute_frameworks: None or a set of framework classes *)
  f_dtype : option nat;                (* DataType member *)
  f_child : option ostate              (* child_options *)
}.

Definition opt_val (A : Type) (f : A -> pyval) (o : option A) : pyval := match o with Some x => f x | None => VNone end.
Arguments opt_val {A} f o.
Definition cfw_val (c : option (list nat)) : pyval := opt_val (fun l => VFSet (map (fun n => VInt (Z.of_nat n)) l)) c.
Definition dtype_val (d : option nat) : pyval := opt_val (fun n => VTuple [VStr "DataType"; VInt (Z.of_nat n)]) d.

(* Domain == Domain compares names; None == None; Domain == None raises ValueError (None = raised) *)
Definition dom_eq (a b : option string) : option bool :=
  match a, b with
  | None, None => Some true
  | Some x, Some y => Some (String.eqb x y)
  | _, _ => None
  end.

Definition child_eq (a b : option ostate) : bool :=
  match a, b with
  | None, None => true
  | Some x, Some y => opt_eq x y
  | _, _ => false
  end.

(* Feature.__eq__ : a chain of `and`, evaluated left to right.  None = the comparison raised. *)
Definition feat_eq (a b : feat) : option bool :=
  if negb (String.eqb (f_name a) (f_name b)) then Some false
  else if negb (opt_eq (f_opt a) (f_opt b)) then Some false
  else if negb (py_eq (VDict (oc (f_opt a))) (VDict (oc (f_opt b)))) then Some false
  else match dom_eq (f_domain a) (f_domain b) with
       | None => None
       | Some false => Some false
       | Some true => Some (py_eq (cfw_val (f_cfw a)) (cfw_val (f_cfw b))
                            && py_eq (dtype_val (f_dtype a)) (dtype_val (f_dtype b))
                            && child_eq (f_child a) (f_child b))
       end.

(* hash((name, options, domain, frozenset(cfw) | None, data_type, child_options)) ; context is not hashed *)
Definition feat_hkey (a : feat) : option pyval :=
  match opt_hash_key (f_opt a), (match f_child a with None => Some VNone | Some c => opt_hash_key c end) with
  | Some ho, Some hc => Some (VTuple [VStr (f_name a); ho; opt_val VStr (f_domain a); cfw_val (f_cfw a);
                                       dtype_val (f_dtype a); hc])
  | _, _ => None
  end.

(* child_options[in_features] = frozenset of >= 1 Feature objects: __hash__ replaces it by the name of the Feature that
   the `for v in val` loop visits last.  `order` = iteration order of that frozenset. *)
Definition infeatures_hash_name (order : list string) : pyval := VStr (last order ""%string).

(* ---------- Index / Link ---------- *)
Definition idx_eq (a b : list string) : bool := all2 String.eqb a b.
Definition idx_hkey (a : list string) : pyval := VTuple (map VStr a).

Record plink := { pl_jt : nat; pl_left : string; pl_right : string; pl_lidx : list string; pl_ridx : list string }.
Definition plink_eq (a b : plink) : bool :=
  Nat.eqb (pl_jt a) (pl_jt b) && String.eqb (pl_left a) (pl_left b) && String.eqb (pl_right a) (pl_right b)
  && idx_eq (pl_lidx a) (pl_lidx b) && idx_eq (pl_ridx a) (pl_ridx b).
Definition plink_hkey (a : plink) : pyval :=
  VTuple [VTuple [VStr "JoinType"; VInt (Z.of_nat (pl_jt a))]; VStr (pl_left a); VStr (pl_right a);
          idx_hkey (pl_lidx a); idx_hkey (pl_ridx a)].

(* ---------- SingleFilter ---------- *)
(* FilterParameterImpl.from_dict: tuple(sorted(params.items())) -- values are kept as they are (no _make_hashable) *)
Record sfilter := { sf_feat : feat; sf_type : string; sf_raw : list (pykey * pyval) }.
Definition sf_make (f : feat) (t : string) (params : list (pykey * pyval)) : option sfilter :=
  match params with
  | [] => None                                                    (* ValueError: Dictionary is empty *)
  | _ => match sort_entries (dict_of_list params) with
         | Some r => Some {| sf_feat := f; sf_type := t; sf_raw := r |}
         | None => None                                           (* TypeError from sorted() *)
         end
  end.
Definition raw_val (r : list (pykey * pyval)) : pyval := VTuple (map pair_tuple r).
Definition sf_eq (a b : sfilter) : option bool :=
  match feat_eq (sf_feat a) (sf_feat b) with
  | None => None
  | Some false => Some false
  | Some true => Some (String.eqb (sf_type a) (sf_type b) && py_eq (raw_val (sf_raw a)) (raw_val (sf_raw b)))
  end.
(* hash((filter_feature, filter_type, parameter)); the dataclass hashes (_raw,) as it is *)
Definition sf_hkey (a : sfilter) : option pyval :=
  match feat_hkey (sf_feat a) with
  | Some hf => if hashable (raw_val (sf_raw a)) then Some (VTuple [hf; VStr (sf_type a); VTuple [raw_val (sf_raw a)]])
               else None
  | None => None
  end.
