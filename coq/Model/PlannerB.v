(* Model of the planning pipeline of mloda for STAGE B1: requests whose feature groups live on SEVERAL compute frameworks
   (each group on exactly one), still without Links, global filter, declared data types or non-default options.
   Definitions only; proofs are in Proofs/PlannerB*.v, statements in Props/PlannerB.v.

   The pipeline up to ExecutionPlan.add_feature_group_step is the one of Model/PlannerA.v and is IMPORTED from there (the
   graph, the DFS queue, the ancestor closure, grouping by feature group class, grouping by (options, framework),
   dependency levels, required uuids, children_if_root): PlannerA.raw_plan never looks at the frameworks except through
   Grouping.group_items, which splits nothing when all features of a group have the same framework (group_cfw below).
   What is new is ExecutionPlan.add_tfs on FeatureGroupSteps: the insertion of TransformFrameworkSteps.

   Mirrors (mloda/core/...), in addition to the table of Model/PlannerA.v:
     abstract_plugins/components/feature_set.py  FeatureSet.add (any_uuid = the FIRST feature added)        b_any
     prepare/execution_plan.py  run_feature_group: cf = next(iter(sub_features)).get_compute_framework()   b_cfw
                                add_tfs, FeatureGroupStep branch:
                                  parents = graph.parent_to_children_mapping[ep.features.any_uuid]       tfs_parents
                                  get_parent_parents                                                      parent_parents
                                  `if parent in parent_parents: continue`,
                                  `if ep.compute_framework != parent...get_compute_framework()`           tfs_demands
                                  new_tfs = TransformFrameworkStep(from, to, {parent}, from_fg, to_fg)    key_of, mk_tfs
                                  `if new_tfs not in self.tfs_collecion` (add / append / required.add)    tfs_loop
                                  ep.tfs_ids.add(new_tfs.uuid)   (also for a step that is NOT kept)       b_tfs
                                  new_execution_plan.append(ep)                                           add_tfs_step
     core/step/transform_frame_work_step.py  __eq__ / __hash__ : (from_framework, to_framework,
                                  from_feature_group, to_feature_group) - required_uuids are NOT compared  tkey
                                get_uuids = {uuid4()}                                                     te_id
     prepare/execution_plan.py  _validate_required_uuids_are_produced / _validate_steps_do_not_wait_in_a_cycle
                                                                                 PlannerA.validate_A, runsim on steps_of
   add_joinstep is the identity (no Links: link_trekker.data is empty; left_join_frameworks = {}); need_to_upload (only
   read by the MULTIPROCESSING back end) is not modelled.
   Not mirrors of code but decidable descriptions used by the theorems / the harness: group_cfwb (the fragment), erase (the
   reduction to Stage A), kf_tfs_choice = step_uniform + knodup demand_keys (where add_tfs has no choice to make),
   ord_obs (the order oracle rebuilt from one observed preparation), chkB_* (checkers evaluated by harness/planner_b.py).
   The run-time registry lookup that consumes any_uuid / children_if_root / tfs_ids is modelled in Model/PlanDefects.v
   (route_sync).

   uuid4 of a TransformFrameworkStep: any fresh value.  The model numbers the KEPT transform steps tbase, tbase+2, ... in
   the order in which they are created (= their order in the plan) and the constructed-but-dropped ones tbase+1,
   tbase+3, ... (their uuids survive only in tfs_ids of the consumer, where nothing can ever be found under them);
   tbase is larger than every feature uuid.

   Order parameters (oracle `ord site l`, PlannerA.oparam) in addition to sites 0-3 of PlannerA:
     site 2          the iteration order of the Python set sub_features of a level: its FIRST element becomes any_uuid and
                     decides the framework of the step (PlannerA only used it for the list order of get_uuids())
     site 4 + a      the iteration order of the set parent_to_children_mapping[a] in `for parent in parents`
                     (one site per key a: two equal sets stored under different keys are different Python objects and may
                     iterate differently) *)
From Coq Require Import List Bool Arith.
Import ListNotations.
Require Import MV.Model.Orch MV.Model.OrchCheck MV.Model.Grouping MV.Model.PlannerA.

(* ---------- TransformFrameworkStep.__eq__ ---------- *)
Definition tkey := (nat * nat * nat * nat)%type.    (* from_framework, to_framework, from_feature_group, to_feature_group *)
Definition tkey_eqb (a b : tkey) : bool :=
  match a, b with
  | (a1, a2, a3, a4), (b1, b2, b3, b4) => Nat.eqb a1 b1 && Nat.eqb a2 b2 && Nat.eqb a3 b3 && Nat.eqb a4 b4
  end.
Definition kmem (k : tkey) (l : list tkey) : bool := existsb (tkey_eqb k) l.       (* new_tfs in self.tfs_collecion *)

(* ---------- the steps of a Stage-B plan: an Orch.step plus what harness/universe.export_plan exports ---------- *)
Record bstep := {
  bs : step;            (* sid, kind (KFG / KTFS), get_uuids(), required_uuids, requested *)
  b_cfw : nat;          (* FG: compute_framework;  TFS: to_framework *)
  b_from : nat;         (* TFS: from_framework (0 for FG) *)
  b_grp : nat;          (* FG: feature_group;  TFS: to_feature_group *)
  b_fgrp : nat;         (* TFS: from_feature_group (0 for FG) *)
  b_any : nat;          (* FG: features.any_uuid (0 for TFS) *)
  b_cir : list nat;     (* FG: children_if_root *)
  b_tfs : list nat;     (* FG: tfs_ids *)
  b_link : bool         (* TFS: made for a JoinStep (link_id is set); always false without Links *)
}.
Definition bplan := list bstep.
Definition steps_of (p : bplan) : plan := map bs p.
Definition is_tfs (b : bstep) : bool := match skind (bs b) with KTFS => true | _ => false end.
Definition is_fg (b : bstep) : bool := match skind (bs b) with KFG => true | _ => false end.

(* uuid4() of transform steps: anything above the feature uuids *)
Definition tbase (g : fgraph) : nat := S (list_max (ids g)).
Definition psite (a : nat) : nat := 4 + a.

(* ---------- add_tfs, FeatureGroupStep branch ---------- *)
(* parents = graph.parent_to_children_mapping[ep.features.any_uuid], in the iteration order of that set *)
Definition tfs_parents (ord : oparam) (cl : amap) (a : nat) : list nat := ord (psite a) (aget0 a cl).
(* get_parent_parents *)
Definition parent_parents (cl : amap) (ps : list nat) : list nat := flat_map (fun p => aget0 p cl) ps.
(* the parents for which a TransformFrameworkStep object is constructed, in loop order: not a parent's parent, and on
   another framework than the step (left_join_frameworks is empty: `match` stays empty) *)
Definition tfs_demands (ord : oparam) (g : fgraph) (cl : amap) (a : nat) : list nat :=
  let ps := tfs_parents ord cl a in
  let pp := parent_parents cl ps in
  filter (fun p => negb (mem p pp) && negb (Nat.eqb (cfw_of g a) (cfw_of g p))) ps.
(* what TransformFrameworkStep.__eq__ compares, for the step made for parent p of a step whose any_uuid is a *)
Definition key_of (g : fgraph) (a p : nat) : tkey := (cfw_of g p, cfw_of g a, grp_of g p, grp_of g a).

(* one constructed TransformFrameworkStep *)
Record tev := { te_id : nat; te_parent : nat; te_key : tkey; te_new : bool (* kept: it was not yet in tfs_collecion *) }.
(* state of the planner that survives from step to step: tfs_collecion (its keys), number of kept / dropped steps *)
Definition tstate := (list tkey * nat * nat)%type.

(* the loop `for parent in parents` restricted to the parents that reach the constructor *)
Fixpoint tfs_loop (tb : nat) (keyof : nat -> tkey) (st : tstate) (ds : list nat) : tstate * list tev :=
  match ds with
  | [] => (st, [])
  | p :: t =>
    match st with
    | (keys, nc, nd) =>
      if kmem (keyof p) keys
      then let r := tfs_loop tb keyof (keys, nc, S nd) t in
           (fst r, {| te_id := tb + 2 * nd + 1; te_parent := p; te_key := keyof p; te_new := false |} :: snd r)
      else let r := tfs_loop tb keyof (keys ++ [keyof p], S nc, nd) t in
           (fst r, {| te_id := tb + 2 * nc; te_parent := p; te_key := keyof p; te_new := true |} :: snd r)
    end
  end.

Definition mk_tfs (e : tev) : bstep :=
  match te_key e with
  | (fr, to, fg, tg) =>
    {| bs := {| sid := 0; skind := KTFS; uuids := [te_id e]; req := [te_parent e]; requested := false |};
       b_cfw := to; b_from := fr; b_grp := tg; b_fgrp := fg; b_any := 0; b_cir := []; b_tfs := []; b_link := false |}
  end.
(* the feature-group step after the loop: required_uuids got the uuids of the KEPT steps, tfs_ids those of ALL *)
Definition mk_fg (g : fgraph) (cl : amap) (s : step) (evs : list tev) : bstep :=
  let a := hd 0 (uuids s) in
  {| bs := {| sid := 0; skind := KFG; uuids := uuids s; req := req s ++ map te_id (filter te_new evs); requested := requested s |};
     b_cfw := cfw_of g a; b_from := 0; b_grp := grp_of g a; b_fgrp := 0; b_any := a;
     b_cir := cir_of cl (uuids s); b_tfs := map te_id evs; b_link := false |}.

(* one iteration of `for ep in execution_plan` *)
Definition add_tfs_step (ord : oparam) (g : fgraph) (cl : amap) (acc : tstate * bplan) (s : step) : tstate * bplan :=
  let a := hd 0 (uuids s) in
  let r := tfs_loop (tbase g) (key_of g a) (fst acc) (tfs_demands ord g cl a) in
  (fst r, snd acc ++ map mk_tfs (filter te_new (snd r)) ++ [mk_fg g cl s (snd r)]).
Definition add_tfs (ord : oparam) (g : fgraph) (raw : list step) : bplan :=
  snd (fold_left (add_tfs_step ord g (p2c_of g)) raw (([], 0, 0), [])).

Definition bset_sid (i : nat) (b : bstep) : bstep :=
  {| bs := set_sid i (bs b); b_cfw := b_cfw b; b_from := b_from b; b_grp := b_grp b; b_fgrp := b_fgrp b; b_any := b_any b;
     b_cir := b_cir b; b_tfs := b_tfs b; b_link := b_link b |}.
Fixpoint bnumber (i : nat) (p : bplan) : bplan :=
  match p with [] => [] | b :: t => bset_sid i b :: bnumber (S i) t end.

(* ExecutionPlan.execution_plan after create_execution_plan, before the validation *)
Definition raw_plan_B (ord : oparam) (g : fgraph) : bplan := add_tfs ord g (raw_plan ord g).
Definition plan_B (ord : oparam) (g : fgraph) : bplan := bnumber 0 (raw_plan_B ord g).

Inductive bresult := PlannedB (p : bplan) | RejectedIncompleteB | RejectedCycleB.
Definition prepare_B (ord : oparam) (g : fgraph) : bresult :=
  let p := plan_B ord g in
  if negb (validate_A (steps_of p)) then RejectedIncompleteB
  else if runsim_accepts (steps_of p) then PlannedB p else RejectedCycleB.

(* ---------- the fragment, decidably ---------- *)
(* every feature group computes on ONE framework (compute_framework_rule returns one class) *)
Definition group_cfwb (g : fgraph) : bool :=
  forallb (fun n => forallb (fun m => negb (Nat.eqb (fgrp n) (fgrp m)) || Nat.eqb (fcfw n) (fcfw m)) g) g.
(* the graph with the frameworks forgotten: a strict Stage-A graph with the same feature-group steps *)
Definition erase_node (n : fnode) : fnode := {| fid := fid n; fgrp := fgrp n; fins := fins n; freq := freq n; fcfw := 0 |}.
Definition erase (g : fgraph) : fgraph := map erase_node g.

(* requests (PlannerA.request_graph handles any frameworks; only its hypothesis asked for a single one) *)
Definition defs_okbB (defs : list fdef) (rq : list nat) : bool :=
  let names := map dname defs in
  let order := topo_list (S (List.length defs)) (dins_of defs) names [] in
  nodupb names && forallb (fun d => subset (dins d) names && nodupb (dins d)) defs
  && forallb (fun d => forallb (fun x => before order x (dname d)) (dins d)) defs
  && nodupb rq && subset rq names
  && forallb (fun d => forallb (fun e => negb (Nat.eqb (dgrp d) (dgrp e)) || Nat.eqb (dcfw d) (dcfw e)) defs) defs.

(* ---------- where add_tfs has no choice to make (decidable on graph + oracle) ---------- *)
(* all features of a step have the same ancestors: it does not matter which of them is any_uuid *)
Definition step_uniform (cl : amap) (s : step) : bool :=
  forallb (fun f => set_eqb (aget0 f cl) (aget0 (hd 0 (uuids s)) cl)) (uuids s).
(* the keys (from, to, from group, to group) of all TransformFrameworkStep objects the planner constructs, in order *)
Definition demand_keys (ord : oparam) (g : fgraph) : list tkey :=
  flat_map (fun s => map (key_of g (hd 0 (uuids s))) (tfs_demands ord g (p2c_of g) (hd 0 (uuids s)))) (raw_plan ord g).
Fixpoint knodup (l : list tkey) : bool := match l with [] => true | k :: t => negb (kmem k t) && knodup t end.
(* no two constructed steps are equal for TransformFrameworkStep.__eq__: nothing is dropped *)
Definition kf_tfs_choice (ord : oparam) (g : fgraph) : bool :=
  negb (forallb (step_uniform (p2c_of g)) (raw_plan ord g) && knodup (demand_keys ord g)).

(* ---------- the order oracle reconstructed from one observed preparation ---------- *)
(* remove the first occurrence *)
Fixpoint remove1 (a : nat) (l : list nat) : list nat :=
  match l with [] => [] | x :: t => if Nat.eqb x a then t else x :: remove1 a t end.
Definition perm_b (l t : list nat) : bool :=
  Nat.eqb (List.length l) (List.length t) && nodupb l && nodupb t && subset l t.
(* anys: the observed any_uuid of every feature-group step;  ptab: a |-> list(parent_to_children_mapping[a]) as iterated *)
Definition ord_obs (anys : list nat) (ptab : amap) : oparam := fun site l =>
  if Nat.eqb site 2 then
    match filter (fun u => mem u anys) l with a :: _ => a :: remove1 a l | [] => l end
  else if Nat.leb 4 site then
    let t := aget0 (site - 4) ptab in if perm_b l t then t else l
  else l.

(* ---------- checkers for the correspondence harness (harness/planner_b.py) ---------- *)
(* observed step: ((kind, uuids, required_uuids, requested), (cfw, from, group, from group), (any_uuid, children_if_root, tfs_ids)) *)
Definition obstep := ((kind * list nat * list nat * bool) * (nat * nat * nat * nat) * (nat * list nat * list nat))%type.
Definition kind_eqb (a b : kind) : bool :=
  match a, b with KFG, KFG => true | KTFS, KTFS => true | KJOIN, KJOIN => true | _, _ => false end.
Definition seteq_len (a b : list nat) : bool := set_eqb a b && Nat.eqb (List.length a) (List.length b).
Definition bstep_matches (b : bstep) (o : obstep) : bool :=
  match o with
  | ((k, us, rq, rqd), (cf, fr, gr, fg), (any, cir, tfs)) =>
    kind_eqb (skind (bs b)) k && seteq_len (uuids (bs b)) us && seteq_len (req (bs b)) rq && Bool.eqb (requested (bs b)) rqd
    && Nat.eqb (b_cfw b) cf && Nat.eqb (b_from b) fr && Nat.eqb (b_grp b) gr && Nat.eqb (b_fgrp b) fg
    && Nat.eqb (b_any b) any && set_eqb (b_cir b) cir && seteq_len (b_tfs b) tfs
  end.
Fixpoint bplan_matches (p : bplan) (o : list obstep) : bool :=
  match p, o with
  | [], [] => true
  | b :: p', x :: o' => bstep_matches b x && bplan_matches p' o'
  | _, _ => false
  end.

(* one observed preparation; bc_outcome as PlannerA.pc_outcome (0 accepted, 1 incomplete, 2 cycle) *)
Record bcase := { bc_defs : list fdef; bc_req : list nat; bc_g : fgraph; bc_queue : list nat; bc_p2c : amap;
                  bc_anys : list nat; bc_ptab : amap; bc_plan : list obstep; bc_outcome : nat }.
Definition bc_ord (c : bcase) : oparam := ord_obs (bc_anys c) (bc_ptab c).
Definition boutcome_code (r : bresult) : nat :=
  match r with PlannedB _ => 0 | RejectedIncompleteB => 1 | RejectedCycleB => 2 end.
Definition chkB_request (c : bcase) : bool :=
  defs_okbB (bc_defs c) (bc_req c) && graph_equivb (request_graph (bc_defs c) (bc_req c)) (bc_g c).
Definition chkB_graph (c : bcase) : bool := graph_okb (bc_g c) && group_cfwb (bc_g c).
Definition chkB_queue (c : bcase) : bool := list_eqb (queue_of (bc_g c)) (bc_queue c).
Definition chkB_closure (c : bcase) : bool :=
  amap_eqb (filter (fun kv => match snd kv with [] => false | _ => true end) (p2c_of (bc_g c))) (bc_p2c c).
(* the observed parent orders are orders of the model's closure sets (otherwise ord_obs silently falls back to identity) *)
Definition chkB_ptab (c : bcase) : bool :=
  forallb (fun kv => perm_b (aget0 (fst kv) (p2c_of (bc_g c))) (snd kv)) (bc_ptab c).
Definition chkB_plan (c : bcase) : bool :=
  bplan_matches (plan_B (bc_ord c) (bc_g c)) (bc_plan c)
  && Nat.eqb (boutcome_code (prepare_B (bc_ord c) (bc_g c))) (bc_outcome c).
Definition chkB_planner (c : bcase) : bool :=
  chkB_request c && chkB_graph c && chkB_queue c && chkB_closure c && chkB_ptab c && chkB_plan c.
(* the feature-group skeleton is the Stage-A plan of the graph with the frameworks forgotten (theorem PlannerB_fg_skeleton) *)
Definition chkB_skeleton (c : bcase) : bool :=
  let pB := plan_B (bc_ord c) (bc_g c) in
  let pA := raw_plan (bc_ord c) (erase (bc_g c)) in
  list_eqb (flat_map (fun b => if is_fg b then uuids (bs b) else []) pB) (flat_map uuids pA).
Definition modelB_accepted (c : bcase) : bool := Nat.eqb (boutcome_code (prepare_B (bc_ord c) (bc_g c))) 0.
Definition modelB_strict (c : bcase) : bool := strictb (bc_g c).
Definition modelB_has_tfs (c : bcase) : bool := existsb is_tfs (plan_B (bc_ord c) (bc_g c)).
