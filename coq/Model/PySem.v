(* Meaning of the Python constructs the source translator (harness/py2coq.py) is allowed to emit.
   Hand-written, fixed; coq/Gen/Src.v (regenerated from the Python source text on every run) is written in terms of
   these definitions and of nothing else besides the data types of the hand-written models.  Definitions only.

   Data model:  int -> Z        bool -> bool        str -> string        tuple / list -> list
                set -> list (the list order is the iteration order; membership is all a set operation may look at)
                dict literal -> association list        exception -> Raise e        loop exit -> flow
   Whatever is not listed here has no translation: the translator fails closed.
   Round 2 (below the line "round 2"): dicts as VALUES (association lists without duplicate keys), defaultdict(set), range, max,
   OrderedDict.move_to_end, del, dict.update, set(<list>), sorted / list.sort on str.
   Round 3 (below the line "round 3"): try / except Exception [as e] / [finally], exception messages, hash of a tuple of classes. *)
From Coq Require Import List Bool ZArith String Ascii.
Import ListNotations.
Open Scope Z_scope.

(* exceptions: only the class matters.  OtherError = `raise Exception(...)`; NonException (round 3) = a BaseException that is NOT
   an Exception (SystemExit, KeyboardInterrupt, GeneratorExit): nothing in the translated subset raises it, a callee that is a
   parameter of a generated definition may *)
Inductive exn := ValueError | IndexError | KeyError | TypeError | OtherError | NonException.
Inductive res (A : Type) := Ok (a : A) | Raise (e : exn).
Arguments Ok {A} a.
Arguments Raise {A} e.

(* what a `for` loop hands back to the code around it:  Exit r = the function returned r / raised inside the loop;
   Fall c = the loop ended (exhausted or `break`) with the loop-carried variables c *)
Inductive flow (R C : Type) := Exit (r : R) | Fall (c : C).
Arguments Exit {R C} r.
Arguments Fall {R C} c.

(* len(t) *)
Definition py_len {A : Type} (l : list A) : Z := Z.of_nat (List.length l).
Definition py_strlen (s : string) : Z := Z.of_nat (String.length s).

(* t[i] on a tuple / list: negative indexes count from the end, outside the range IndexError *)
Definition py_getitem {A : Type} (l : list A) (i : Z) : res A :=
  let j := if Z.ltb i 0 then py_len l + i else i in
  if Z.ltb j 0 then Raise IndexError
  else match nth_error l (Z.to_nat j) with Some x => Ok x | None => Raise IndexError end.

(* x in t  (tuple, list, set), with the == of the element type *)
Definition py_in {A : Type} (eqb : A -> A -> bool) (x : A) (l : list A) : bool := existsb (eqb x) l.

(* t == u on tuples / lists *)
Fixpoint py_list_eqb {A : Type} (eqb : A -> A -> bool) (a b : list A) : bool :=
  match a, b with
  | [], [] => true
  | x :: a', y :: b' => eqb x y && py_list_eqb eqb a' b'
  | _, _ => false
  end.

(* set operations (results are sets: only membership is meaningful) *)
Definition py_issubset {A : Type} (eqb : A -> A -> bool) (a b : list A) : bool := forallb (fun x => py_in eqb x b) a.
Definition py_inter {A : Type} (eqb : A -> A -> bool) (a b : list A) : list A := filter (fun x => py_in eqb x b) a.
Definition py_diff {A : Type} (eqb : A -> A -> bool) (a b : list A) : list A := filter (fun x => negb (py_in eqb x b)) a.
Definition py_union {A : Type} (eqb : A -> A -> bool) (a b : list A) : list A := a ++ py_diff eqb b a.
Definition py_set_eqb {A : Type} (eqb : A -> A -> bool) (a b : list A) : bool := py_issubset eqb a b && py_issubset eqb b a.

(* truth value of a container / str / int *)
Definition py_nonempty {A : Type} (l : list A) : bool := match l with [] => false | _ :: _ => true end.
Definition py_str_true (s : string) : bool := match s with EmptyString => false | String _ _ => true end.
Definition py_int_true (z : Z) : bool := negb (Z.eqb z 0).

(* zip(a, b) *)
Definition py_zip {A B : Type} (a : list A) (b : list B) : list (A * B) := combine a b.

(* d.get(k, default) on a dict literal: a later duplicate key overrides an earlier one *)
Fixpoint py_dict_get {K V : Type} (eqb : K -> K -> bool) (d : list (K * V)) (k : K) (default : V) : V :=
  match d with
  | [] => default
  | (k', v) :: t => py_dict_get eqb t k (if eqb k' k then v else default)
  end.
Definition py_dict_has {K V : Type} (eqb : K -> K -> bool) (d : list (K * V)) (k : K) : bool :=
  existsb (fun kv => eqb (fst kv) k) d.

(* s.startswith(p),  p in s  on str *)
Fixpoint py_startswith (p s : string) : bool :=
  match p, s with
  | EmptyString, _ => true
  | String a p', String b s' => Ascii.eqb a b && py_startswith p' s'
  | String _ _, EmptyString => false
  end.
Fixpoint py_substr (p s : string) : bool :=
  match s with
  | EmptyString => py_startswith p EmptyString
  | String _ t => py_startswith p s || py_substr p t
  end.

(* s.split(c) for a separator of ONE character: never empty; "" -> [""] *)
Fixpoint py_split1 (c : ascii) (s : string) : list string :=
  match s with
  | EmptyString => [EmptyString]
  | String a t =>
    if Ascii.eqb a c then EmptyString :: py_split1 c t
    else match py_split1 c t with
         | h :: r => String a h :: r
         | [] => [String a EmptyString]
         end
  end.

(* ---------- round 2: dicts as values, defaultdict(set), list.append ---------- *)
(* A dict VALUE is an association list in insertion order WITHOUT duplicate keys: every operation below keeps that shape
   (d[k] = v on an existing key keeps the position and the key object).  A lookup returns the first entry of the key;
   py_dict_get above (last duplicate wins) is the meaning of a dict LITERAL, where a key may be written twice. *)
Definition py_dict_keys {K V : Type} (d : list (K * V)) : list K := map fst d.
Definition py_dict_values {K V : Type} (d : list (K * V)) : list V := map snd d.
Definition py_dict_items {K V : Type} (d : list (K * V)) : list (K * V) := d.

(* d[k] = v *)
Fixpoint py_dict_set {K V : Type} (eqb : K -> K -> bool) (d : list (K * V)) (k : K) (v : V) : list (K * V) :=
  match d with
  | [] => [(k, v)]
  | (k', v') :: t => if eqb k k' then (k', v) :: t else (k', v') :: py_dict_set eqb t k v
  end.

(* d[k] : KeyError when the key is missing *)
Fixpoint py_dict_getitem {K V : Type} (eqb : K -> K -> bool) (d : list (K * V)) (k : K) : res V :=
  match d with
  | [] => Raise KeyError
  | (k', v) :: t => if eqb k k' then Ok v else py_dict_getitem eqb t k
  end.

(* k in d *)
Definition py_dict_mem {K V : Type} (eqb : K -> K -> bool) (k : K) (d : list (K * V)) : bool :=
  existsb (fun kv => eqb k (fst kv)) d.

(* d[k].add(x) on a defaultdict(set): a missing key is created with the empty set first *)
Fixpoint py_dd_add {K V : Type} (eqk : K -> K -> bool) (eqv : V -> V -> bool) (d : list (K * list V)) (k : K) (x : V)
  : list (K * list V) :=
  match d with
  | [] => [(k, [x])]
  | (k', s) :: t => if eqk k k' then (k', py_union eqv s [x]) :: t else (k', s) :: py_dd_add eqk eqv t k x
  end.

(* d[k].add(x) on a plain dict: KeyError when the key is missing *)
Fixpoint py_dict_setadd {K V : Type} (eqk : K -> K -> bool) (eqv : V -> V -> bool) (d : list (K * list V)) (k : K) (x : V)
  : res (list (K * list V)) :=
  match d with
  | [] => Raise KeyError
  | (k', s) :: t =>
    if eqk k k' then Ok ((k', py_union eqv s [x]) :: t)
    else match py_dict_setadd eqk eqv t k x with Ok t' => Ok ((k', s) :: t') | Raise e => Raise e end
  end.

(* l.append(x) *)
Definition py_append {A : Type} (l : list A) (x : A) : list A := l ++ [x].

(* range(a, b) *)
Definition py_range (a b : Z) : list Z := map (fun i => a + Z.of_nat i) (seq 0 (Z.to_nat (b - a))).

(* max(<iterable of int>): ValueError when it is empty *)
Definition py_max (l : list Z) : res Z :=
  match l with [] => Raise ValueError | x :: t => Ok (fold_left Z.max t x) end.

(* OrderedDict.move_to_end(k): KeyError when the key is missing *)
Definition py_dict_move_to_end {K V : Type} (eqb : K -> K -> bool) (d : list (K * V)) (k : K) : res (list (K * V)) :=
  match find (fun kv => eqb k (fst kv)) d with
  | None => Raise KeyError
  | Some kv => Ok (filter (fun kv' => negb (eqb k (fst kv'))) d ++ [kv])
  end.

(* d.get(k, default) on a dict VALUE (no duplicate keys): the first entry of the key *)
Fixpoint py_dict_getd {K V : Type} (eqb : K -> K -> bool) (d : list (K * V)) (k : K) (default : V) : V :=
  match d with
  | [] => default
  | (k', v) :: t => if eqb k k' then v else py_dict_getd eqb t k default
  end.

(* del d[k]: KeyError when the key is missing *)
Fixpoint py_dict_del {K V : Type} (eqb : K -> K -> bool) (d : list (K * V)) (k : K) : res (list (K * V)) :=
  match d with
  | [] => Raise KeyError
  | (k', v) :: t =>
    if eqb k k' then Ok t
    else match py_dict_del eqb t k with Ok t' => Ok ((k', v) :: t') | Raise e => Raise e end
  end.

(* d.update(o) for a dict o: its entries are assigned in its order *)
Definition py_dict_update {K V : Type} (eqb : K -> K -> bool) (d o : list (K * V)) : list (K * V) :=
  fold_left (fun acc kv => py_dict_set eqb acc (fst kv) (snd kv)) o d.

(* {e for x in s} / set(<list>): the elements, each once, in the order of first occurrence *)
Definition py_set_of_list {A : Type} (eqb : A -> A -> bool) (l : list A) : list A :=
  fold_left (fun acc x => py_union eqb acc [x]) l [].

(* sorted(<str collection>) / list.sort() on str: insertion sort with <= on str (code point order on ASCII); the result of
   sorting is unique, so the sorting algorithm does not matter *)
Fixpoint py_insert_str (x : string) (l : list string) : list string :=
  match l with
  | [] => [x]
  | y :: t => if String.leb x y then x :: l else y :: py_insert_str x t
  end.
Definition py_sorted_str (l : list string) : list string := fold_right py_insert_str [] l.

(* ---------- round 3: try / except / finally, messages, hash ---------- *)
(* `except Exception` catches every exception whose class derives from Exception *)
Definition py_is_exception (e : exn) : bool := match e with NonException => false | _ => true end.

(* How a block of statements inside a try statement ends: it ran to its end, it executed `return r`, or an exception left it.
   The block is a STATE TRANSFORMER over the variables of the enclosing scope that the try statement assigns or mutates (St): the
   state comes back in every case - after a raise it is the state AT the raise (the effects before it happened). *)
Inductive tryend (R : Type) := TNormal | TReturn (r : R) | TRaise (e : exn).
Arguments TNormal {R}.
Arguments TReturn {R} r.
Arguments TRaise {R} e.

(*   try: <body>  except Exception [as e]: <handler>  [finally: <fin>]
   1. the body runs;  2. if it was left by an exception that `except Exception` catches, the handler runs on the state the body
   left behind and ITS end replaces the body's (falling off its end swallows the exception; `raise` / `raise E(...)` inside it -
   after its effects - propagates; `return` returns); an exception that is not caught stays pending;  3. the finally block runs
   on EVERY exit (normal end, return, pending exception): when it ends normally the pending end is resumed, when it raises its
   exception replaces whatever was pending (`return` inside finally is not translated).  Without `finally:` fin is the identity. *)
Definition py_try {St Rt : Type} (body : St -> St * tryend Rt) (handler : exn -> St -> St * tryend Rt)
  (fin : St -> St * option exn) (s : St) : St * tryend Rt :=
  let (s1, o1) := body s in
  let (s2, o2) := match o1 with
                  | TRaise e => if py_is_exception e then handler e s1 else (s1, o1)
                  | _ => (s1, o1)
                  end in
  let (s3, f) := fin s2 in
  match f with Some e => (s3, TRaise e) | None => (s3, o2) end.

(* The TEXT of an exception message or a traceback (f"...{e}...", traceback.format_exc()) is not modelled - only the class of an
   exception is kept -: every message is the same value; building one has no effect and cannot raise *)
Definition msg := unit.
Definition py_msg : msg := tt.

(* hash(<tuple of classes / uuids>): Python computes the hash of a tuple from the hashes of its components, so tuples with equal
   components have equal hashes.  The hash is modelled as the list of components itself (distinct component lists are taken to
   hash differently: the model never merges two keys that Python's set / dict would keep apart because of __eq__) *)
Definition py_hash_tuple (l : list nat) : list nat := l.
