(* Several joins that SHARE a source (C05): the plan-side de-duplication of transform steps and the run-time statement
   "a JoinStep merges the converted right source of ITS OWN link", on top of Model/RoutingJ.v.

   Mirrors (mloda/core/...):
     core/step/transform_frame_work_step.py
         TransformFrameworkStep.__eq__ / __hash__ (from_framework, to_framework, from_feature_group,
                                                   to_feature_group)                                   tkey, tkey_eqb
     prepare/execution_plan.py
         ExecutionPlan.add_tfs, JoinStep branch with left_framework != right_framework:
             new_tfs = fill_tfs_by_joinstep(ep); if new_tfs not in self.tfs_collecion: add, emit,
             ep.required_uuids.add(new_tfs.uuid)                                                         tfs_fresh
         (tfs_collecion is a Python set: membership = __hash__ + __eq__; the model keeps the list of keys)
     runtime/compute_framework_executor.py prepare_tfs_and_joinstep, JoinStep branch: the lookup of link.uuid finds the
         object the link's own TransformFrameworkStep created (its children_if_root = children of the converted object +
         link uuid); without such an object the lookup falls back to next(iter(right_framework_uuids)) and lands on ANY
         object of the left framework that has the right source's feature among its children - in particular the object
         another join's transform step created, which CfwManager.find_leftmost redirects to that join's LEFT object once
         it has been merged                                                                            (Model/RoutingJ.route_join)
   This file adds
     - the decidable premises own_okb on a list of steps in begin order ("every JoinStep has its own transform step"),
     - the shape of the plans of k joins sharing one right source (shared_plan), with a flag per join saying whether add_tfs
       emitted a transform step for it (tfs_fresh decides that from the keys),
     - the conclusion as an executable check on the model run (joins_read_own).
   Definitions only; theorems in Proofs/RoutingJSP.v, statements in Props/C05shared.v. *)
From Coq Require Import List Bool ZArith Arith String.
Import ListNotations.
Require Import MV.Spec.RefEval MV.Model.DataPlane MV.Model.Routing MV.Spec.Rel MV.Model.RoutingJ.
Open Scope nat_scope.
Open Scope list_scope.

(* ------------------------------------------------------------------------------------------------------------------ *)
(* plan side: which JoinSteps get a transform step                                                                    *)
(* ------------------------------------------------------------------------------------------------------------------ *)
Record tkey := { tk_from : nat; tk_to : nat; tk_from_fg : nat; tk_to_fg : nat }.

(* TransformFrameworkStep.__eq__ of the tree *)
Definition tkey_eqb (a b : tkey) : bool :=
  Nat.eqb (tk_from a) (tk_from b) && Nat.eqb (tk_to a) (tk_to b) && Nat.eqb (tk_from_fg a) (tk_from_fg b)
  && Nat.eqb (tk_to_fg a) (tk_to_fg b).

(* an identity that forgets who reads the converted data ("the same conversion needs to be planned only once") *)
Definition tkey_eqb_no_consumer (a b : tkey) : bool :=
  Nat.eqb (tk_from a) (tk_from b) && Nat.eqb (tk_to a) (tk_to b) && Nat.eqb (tk_from_fg a) (tk_from_fg b).

(* add_tfs over the cross-framework JoinSteps of the plan, in plan order: true = a transform step is emitted before it *)
Fixpoint tfs_fresh (eqb : tkey -> tkey -> bool) (coll : list tkey) (keys : list tkey) : list bool :=
  match keys with
  | [] => []
  | k :: r => let f := negb (existsb (eqb k) coll) in f :: tfs_fresh eqb (if f then k :: coll else coll) r
  end.

(* ------------------------------------------------------------------------------------------------------------------ *)
(* the steps of a run, by kind                                                                                        *)
(* ------------------------------------------------------------------------------------------------------------------ *)
Definition tfs_list (steps : list xstep) : list rstep :=
  flat_map (fun x => match x with XB st _ => match rs_kind st with RTFS => [st] | RFG => [] end | XJ _ => [] end) steps.
Definition fg_list (steps : list xstep) : list (rstep * option table) :=
  flat_map (fun x => match x with XB st tab => match rs_kind st with RFG => [(st, tab)] | RTFS => [] end | XJ _ => [] end) steps.
Definition join_list (steps : list xstep) : list jrec :=
  flat_map (fun x => match x with XJ j => [j] | XB _ _ => [] end) steps.

Definition link_of (st : rstep) : list nat := match rs_link st with Some l => [l] | None => [] end.
(* the link uuids carried by transform steps *)
Definition tlinks (steps : list xstep) : list nat := flat_map link_of (tfs_list steps).
Definition from_classes (steps : list xstep) : list nat := map rs_from (tfs_list steps).
Definition to_classes (steps : list xstep) : list nat := map rs_cls (tfs_list steps).
Definition tfs_sids (steps : list xstep) : list nat := map rs_sid (tfs_list steps).

(* prepare_tfs_right_cfw: right_framework_uuid, else next(iter(required_uuids)) *)
Definition right_u (st : rstep) : option nat := match rs_right st with Some u => Some u | None => hd_error (rs_req st) end.

Fixpoint nodupb (l : list nat) : bool := match l with [] => true | x :: r => negb (rmem x r) && nodupb r end.
Definition disjointb (a b : list nat) : bool := forallb (fun x => negb (rmem x b)) a.
Definition has_link (st : rstep) (l : nat) : bool := match rs_link st with Some l' => Nat.eqb l' l | None => false end.

(* every JoinStep has, BEFORE it in the begin order, a transform step that carries its link uuid and creates an object of the
   join's (left) framework *)
Fixpoint own_before (pre rest : list xstep) : bool :=
  match rest with
  | [] => true
  | x :: r =>
    match x with
    | XJ j => existsb (fun st => has_link st (j_link j) && Nat.eqb (rs_cls st) (j_cls j)) (tfs_list pre)
    | XB _ _ => true
    end && own_before (pre ++ [x]) r
  end.

(* a feature-group step that CREATES a table (a source): it looks up nothing but its own feature, and that feature is a child
   of no other step's object and is no link uuid - it gets a fresh object *)
Definition writer_ok (steps : list xstep) (g : rstep * option table) : bool :=
  match snd g with
  | None => true
  | Some _ =>
    match rs_tfs (fst g) with [] => true | _ :: _ => false end
    && negb (rmem (rs_any (fst g)) (tlinks steps))
    && forallb (fun g' => Nat.eqb (rs_sid (fst g')) (rs_sid (fst g)) || negb (rmem (rs_any (fst g)) (rs_cir (fst g')))) (fg_list steps)
  end.

(* the feature a JoinStep finds its LEFT object by is no link uuid and no child of a source that gets converted *)
Definition left_ok (steps : list xstep) (j : jrec) : bool :=
  match hd_error (j_left j) with
  | None => true
  | Some lu =>
    negb (rmem lu (tlinks steps))
    && forallb (fun g => negb (rmem lu (rs_cir (fst g))) || negb (rmem (rs_cls (fst g)) (from_classes steps))) (fg_list steps)
  end.

Definition own_okb (steps : list xstep) : bool :=
  nodupb (map xsid steps)                                                              (* step ids distinct *)
  && forallb (fun g => disjointb (tlinks steps) (rs_cir (fst g))) (fg_list steps)      (* link uuids are private to transform steps *)
  && own_before [] steps                                                               (* every join: own transform step before it *)
  && nodupb (tlinks steps)                                                             (* one transform step per link *)
  && nodupb (map j_link (join_list steps))                                             (* one join per link *)
  && disjointb (from_classes steps) (to_classes steps)                                 (* converted objects are never converted again *)
  && forallb (writer_ok steps) (fg_list steps)
  && forallb (left_ok steps) (join_list steps).

(* ------------------------------------------------------------------------------------------------------------------ *)
(* the conclusion as a check on the model run                                                                         *)
(* ------------------------------------------------------------------------------------------------------------------ *)
Definition tfs_sid_of (steps : list xstep) (l : nat) : option nat :=
  match find (fun st => has_link st l) (tfs_list steps) with Some st => Some (rs_sid st) | None => None end.
Definition onat_eqb (a b : option nat) : bool :=
  match a, b with Some x, Some y => Nat.eqb x y | None, None => true | _, _ => false end.
(* every footprint of a JoinStep reads the object created by the transform step carrying its link uuid *)
Definition joins_read_own (steps : list xstep) : bool :=
  let s := fst (run_x x_init steps) in
  forallb (fun ft => match find (fun j => Nat.eqb (j_sid j) (fst (fst ft))) (join_list steps) with
                     | None => true
                     | Some j => match snd ft with Some r => onat_eqb (Some r) (tfs_sid_of steps (j_link j)) | None => false end
                     end) (x_feet s).

(* ------------------------------------------------------------------------------------------------------------------ *)
(* the plans of k joins sharing one right source (shape exported by harness/c05_shared.py for L <> R)                  *)
(* ------------------------------------------------------------------------------------------------------------------ *)
Record arm := { a_tab : table; a_jt : jointype; a_lk : list col; a_rk : list col }.

(* numbering: shared source S: step 0, feature uuid 1.  Arm i (base b = 10 * (i + 1)): left source step b, feature uuid b;
   transform step b+1; join step b+2, link uuid b+3; consumer step b+4, feature uuid b+4 *)
Definition abase (i : nat) : nat := 10 * S i.
Definition mk_fg (sid cls any : nat) (cir : list nat) : rstep :=
  {| rs_sid := sid; rs_kind := RFG; rs_cls := cls; rs_from := 0; rs_any := any; rs_cir := cir; rs_tfs := []; rs_req := [];
     rs_right := None; rs_link := None; rs_root := None; rs_defs := [] |}.
Definition mk_tfs (sid to from right link : nat) (req : list nat) : rstep :=
  {| rs_sid := sid; rs_kind := RTFS; rs_cls := to; rs_from := from; rs_any := 0; rs_cir := []; rs_tfs := []; rs_req := req;
     rs_right := Some right; rs_link := Some link; rs_root := None; rs_defs := [] |}.

Fixpoint arm_roots (cl : nat) (i : nat) (arms : list arm) : list xstep :=
  match arms with
  | [] => []
  | a :: r => XB (mk_fg (abase i) cl (abase i) [abase i; abase i + 4]) (Some (a_tab a)) :: arm_roots cl (S i) r
  end.
Fixpoint arm_steps (cl cr : nat) (i : nat) (arms : list arm) (fresh : list bool) : list xstep :=
  match arms with
  | [] => []
  | a :: r =>
    let b := abase i in
    (if hd true fresh then [XB (mk_tfs (b + 1) cl cr 1 (b + 3) [1; b]) None] else [])
    ++ [XJ {| j_sid := b + 2; j_cls := cl; j_left := [b]; j_right := [1]; j_link := b + 3;
              j_jt := a_jt a; j_lk := a_lk a; j_rk := a_rk a |};
        XB (mk_fg (b + 4) cl (b + 4) [b + 4]) None]
    ++ arm_steps cl cr (S i) r (tl fresh)
  end.
Fixpoint consumer_uuids (i n : nat) : list nat := match n with O => [] | S m => (abase i + 4) :: consumer_uuids (S i) m end.

(* plan order: sources first, then per join (transform step,) join step, consumer step *)
Definition shared_plan (cl cr : nat) (ts : table) (arms : list arm) (fresh : list bool) : list xstep :=
  XB (mk_fg 0 cr 1 (1 :: consumer_uuids 0 (List.length arms))) (Some ts) :: arm_roots cl 0 arms ++ arm_steps cl cr 0 arms fresh.

(* the keys add_tfs compares for these joins (non-RIGHT links): from = right framework / group, to = left framework / group *)
Fixpoint shared_keys (cl cr : nat) (i n : nat) : list tkey :=
  match n with O => [] | S m => {| tk_from := cr; tk_to := cl; tk_from_fg := 0; tk_to_fg := abase i |} :: shared_keys cl cr (S i) m end.

(* table the consumer step of arm i received in a run (None: it never began) *)
Definition seen_of (s : xstate) (i : nat) : option table :=
  match find (fun p => Nat.eqb (fst p) (abase i + 4)) (x_seen s) with Some (_, t) => Some t | None => None end.
