(* Model of ExecutionPlan.group_features_by_compute_framework_and_options (mloda/core/prepare/execution_plan.py) with
   Feature.has_similarity_properties / base_similarity_properties (components/feature.py) (C15).   Definitions only.

   The code groups by Python hash() integers:
     has_similarity_properties()  = hash((options, frozenset(cfw) | None, data_type))   for a typed feature
     base_similarity_properties() = hash((options, frozenset(cfw) | None))
   and hash(options) = hash(_make_hashable(options.group)) -- the context is not part of it.  The model replaces a hash
   value by the thing hashed: `it_kb` is the class of (canonical form of the group options, compute frameworks) under
   Python == (the index of the first feature of the request with an equal pair), so "same hash" becomes "same class".
   That different canonical forms do not collide in 64 bits is assumed.

   Iteration order of the Python set `features` is the order of the input list (a parameter; theorems hold for every
   order).  hash_collector is a dict: an association list in insertion order, keyed by gkey. *)
From Coq Require Import List Bool ZArith String Arith.
Import ListNotations.
Require Import MV.Model.Options MV.Model.Identity.

Record item := { it_id : nat; it_kb : nat; it_ty : option nat }.

(* the dict key: (base class, Some dtype) for has_similarity_properties of a typed feature,
   (base class, None) for base_similarity_properties *)
Definition gkey := (nat * option nat)%type.
Definition oty_eqb (a b : option nat) : bool :=
  match a, b with Some x, Some y => Nat.eqb x y | None, None => true | _, _ => false end.
Definition gkey_eqb (a b : gkey) : bool := Nat.eqb (fst a) (fst b) && oty_eqb (snd a) (snd b).

Definition coll := list (gkey * list item).

(* hash_collector[k].add(x) on a defaultdict(set) *)
Fixpoint coll_add (k : gkey) (x : item) (c : coll) : coll :=
  match c with
  | [] => [(k, [x])]
  | (k', ms) :: t => if gkey_eqb k k' then (k', ms ++ [x]) :: t else (k', ms) :: coll_add k x t
  end.

(* first pass *)
Definition pass1_step (st : coll * list item) (x : item) : coll * list item :=
  match it_ty x with
  | Some t => (coll_add (it_kb x, Some t) x (fst st), snd st)
  | None => (fst st, snd st ++ [x])
  end.
Definition pass1 (its : list item) : coll * list item := fold_left pass1_step its ([], []).

(* next(iter(group)).base_similarity_properties() : the model takes the first member; all members of a group have the
   same base class (Props C15_group_members_agree), so the choice does not matter *)
Definition any_base (ms : list item) : option nat := match ms with m :: _ => Some (it_kb m) | [] => None end.
Definition base_matches (b : nat) (g : gkey * list item) : bool :=
  match any_base (snd g) with Some b' => Nat.eqb b' b | None => false end.

(* second pass, one None-typed feature *)
Definition add_untyped (c : coll) (u : item) : coll :=
  match find (base_matches (it_kb u)) c with
  | Some (k, _) => coll_add k u c
  | None => coll_add (it_kb u, None) u c
  end.

Definition group_coll (its : list item) : coll := let st := pass1 its in fold_left add_untyped (snd st) (fst st).
Definition group_items (its : list item) : list (list item) := map snd (group_coll its).

(* ---------- from features to items ---------- *)
Record gfeat := {
  g_id : nat;
  g_group : dict;                    (* options.group *)
  g_ctx : dict;                      (* options.context *)
  g_cfw : option (list nat);
  g_ty : option nat
}.
(* base_similarity_properties() equal.  The code compares hash((options, frozenset(cfw))) where hash(options) =
   hash(_make_hashable(options.group)): two features fall into one class when the CANONICAL FORMS of their group options
   are equal up to hnorm -- which is coarser than equality of the options ([1, 2] and (1, 2) have the same canonical
   form; "" and 0 have the same hash) *)
(* CPython's hash is not injective on atoms either: hash("") = hash(0) = hash(False) = 0 and hash(-1) = hash(-2) = -2.
   Tuples and frozensets hash the hashes of their elements, so canonical forms that differ only in these atoms have the
   same hash.  Other collisions between different canonical forms are assumed away. *)
Fixpoint hnorm (v : pyval) : pyval :=
  match v with
  | VStr s => if String.eqb s "" then VInt 0 else v
  | VInt z => if Z.eqb z (-1) then VInt (-2) else v
  | VTuple l => VTuple (map hnorm l)
  | VFSet l => VFSet (map hnorm l)
  | VList l => VList (map hnorm l)         (* lists / sets do not occur in canonical forms; kept uniform *)
  | VSet l => VSet (map hnorm l)
  | _ => v
  end.
Definition base_eqb (a b : gfeat) : bool :=
  match hash_key (VDict (g_group a)), hash_key (VDict (g_group b)) with
  | Some x, Some y => py_eq (hnorm x) (hnorm y)
  | _, _ => false
  end && py_eq (cfw_val (g_cfw a)) (cfw_val (g_cfw b)).
Fixpoint first_idx {A} (p : A -> bool) (l : list A) : nat :=
  match l with [] => 0 | x :: t => if p x then 0 else S (first_idx p t) end.
Definition base_class (fs : list gfeat) (x : gfeat) : nat := first_idx (fun y => base_eqb y x) fs.
Definition item_of (fs : list gfeat) (x : gfeat) : item :=
  {| it_id := g_id x; it_kb := base_class fs x; it_ty := g_ty x |}.
Definition group_features (fs : list gfeat) : list (list nat) :=
  map (map it_id) (group_items (map (item_of fs) fs)).
