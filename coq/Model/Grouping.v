(* Model of ExecutionPlan.group_features_by_compute_framework_and_options (mloda/core/prepare/execution_plan.py) with
   Feature.similarity_key / base_similarity_key (components/feature.py) (C15).   Definitions only.
   Code as repaired by fixes/C15-grouping-by-equality.patch (former known findings C15-grouping-conflates-list-tuple and
   C15-grouping-hash-collision: the dictionary was keyed by the hash INTEGER of the key).

   The code groups by the VALUES
     similarity_key()      = (options, frozenset(cfw) | None, data_type)   for a typed feature
     base_similarity_key() = (options, frozenset(cfw) | None)
   used as dictionary keys / compared with ==.  A Python dict finds a key by hash AND ==; Options.__eq__ compares the group
   dictionaries, hash(options) = hash(_make_hashable(options.group)) -- the context is part of neither.  `it_kb` is the class
   of (group options, compute frameworks) under "same hash integer and ==" (base_eqb; the index of the first feature of the
   request in that relation).  Props C15_same_class_iff_equal_options: that is Python == alone, because == implies an equal
   hash (so a dict never splits equal keys).

   Iteration order of the Python set `features` is the order of the input list (a parameter; theorems hold for every
   order).  hash_collector is a dict: an association list in insertion order, keyed by gkey. *)
From Coq Require Import List Bool ZArith String Arith Ascii.
Import ListNotations.
Require Import MV.Model.Options MV.Model.Identity.

Record item := { it_id : nat; it_kb : nat; it_ty : option nat }.

(* the dict key: (base class, Some dtype) for has_similarity_properties of a typed feature,
   (base class, None) for base_similarity_properties *)
Definition gkey := (nat * option nat)%type.
Definition oty_eqb (a b : option nat) : bool :=
  match a, b with Some x, Some y => Nat.eqb x y | None, None => true | _, _ => false end.
Definition gkey_eqb (a b : gkey) : bool := Nat.eqb (fst a) (fst b) && oty_eqb (snd a) (snd b).

Definition coll := list (gkey * list item).

(* hash_collector[k].add(x) on a defaultdict(set) *)
Fixpoint coll_add (k : gkey) (x : item) (c : coll) : coll :=
  match c with
  | [] => [(k, [x])]
  | (k', ms) :: t => if gkey_eqb k k' then (k', ms ++ [x]) :: t else (k', ms) :: coll_add k x t
  end.

(* first pass *)
Definition pass1_step (st : coll * list item) (x : item) : coll * list item :=
  match it_ty x with
  | Some t => (coll_add (it_kb x, Some t) x (fst st), snd st)
  | None => (fst st, snd st ++ [x])
  end.
Definition pass1 (its : list item) : coll * list item := fold_left pass1_step its ([], []).

(* next(iter(group)).base_similarity_properties() : the model takes the first member; all members of a group have the
   same base class (Props C15_group_members_agree), so the choice does not matter *)
Definition any_base (ms : list item) : option nat := match ms with m :: _ => Some (it_kb m) | [] => None end.
Definition base_matches (b : nat) (g : gkey * list item) : bool :=
  match any_base (snd g) with Some b' => Nat.eqb b' b | None => false end.

(* second pass, one None-typed feature *)
Definition add_untyped (c : coll) (u : item) : coll :=
  match find (base_matches (it_kb u)) c with
  | Some (k, _) => coll_add k u c
  | None => coll_add (it_kb u, None) u c
  end.

Definition group_coll (its : list item) : coll := let st := pass1 its in fold_left add_untyped (snd st) (fst st).
Definition group_items (its : list item) : list (list item) := map snd (group_coll its).

(* ---------- from features to items ---------- *)
Record gfeat := {
  g_id : nat;
  g_group : dict;                    (* options.group *)
  g_ctx : dict;                      (* options.context *)
  g_cfw : option (list nat);
  g_ty : option nat
}.
(* (group options, compute frameworks) agree, as Python == sees it: Options.__eq__ (group only) and == of the frozensets *)
Definition opts_agree (a b : gfeat) : bool :=
  py_eq (VDict (g_group a)) (VDict (g_group b)) && py_eq (cfw_val (g_cfw a)) (cfw_val (g_cfw b)).

(* ---------- the hash: which (group options, frameworks) get the same INTEGER ----------
   hash((options, frozenset(cfw))) where hash(options) = hash(_make_hashable(options.group)) is what a dict lookup tests first.
   Two things make it coarser than equality of the options (which is why the unrepaired code, which compared only the
   integers, conflated unequal options):
   (1) _make_hashable is not injective: [1, 2] and (1, 2), a dict and the tuple of its sorted items have the same canonical
       form (canon_eqb);
   (2) CPython's hash is not injective on canonical forms.  What is modelled (hnorm = a normal form such that two canonical
       forms get the same hash integer iff their normal forms are ==):
         int        hash(z) = sign(z) * (|z| mod (2^61 - 1)), and -1 is replaced by -2 (64-bit CPython, sys.hash_info.modulus)
                    so hash(-1) = hash(-2), hash(2^61 - 1) = hash(0), hash(2^61) = hash(1) ...
         bool       = the int (and True == 1, so no new collision)
         str        hash("") = 0 = hash(0) = hash(False); the hash of a non-empty str (SipHash of the bytes, keyed by
                    PYTHONHASHSEED) is NOT computed: ASSUMED different from every other hash that occurs in the request
         Enum       a plain Enum member hashes as its NAME (enum.Enum.__hash__ = hash(self._name_)) and is unequal to that
                    str; the hashable opaque object number n of the harness pool is the member named opq_name n
         None       ASSUMED different from every other hash in the request (a constant in CPython >= 3.12, an address before)
         tuple / frozenset   functions of the element hashes (and the length / the multiset): elementwise; ASSUMED injective
                    on the element hashes that occur.  A frozenset holding two different elements with ONE hash (e.g.
                    {True, 2^61}; the XOR of their shuffled hashes cancels) is outside the modelled fragment: hnorm would
                    produce a "set" with a repeated element, which py_eq does not compare as a multiset.  The harness
                    does not generate such sets.
       The assumptions are not used by any theorem; they are what the correspondence check tests on every generated request
       (a collision the model does not predict, or predicts wrongly, is a disagreement = violation). *)
Definition py_modulus : Z := 2305843009213693951%Z.          (* 2^61 - 1 *)
Definition int_hash (z : Z) : Z :=
  let m := Z.modulo (Z.abs z) py_modulus in
  let h := if Z.ltb z 0 then Z.opp m else m in
  if Z.eqb h (-1) then (-2)%Z else h.
Definition opq_name (n : nat) : string := String "E" (String (Ascii.ascii_of_nat (48 + n)) EmptyString).
Fixpoint hnorm (v : pyval) : pyval :=
  match v with
  | VStr s => if String.eqb s "" then VInt 0 else v
  | VInt z => VInt (int_hash z)
  | VOpq n _ => VStr (opq_name n)            (* unhashable objects never reach a hash: hash_key = None *)
  | VTuple l => VTuple (map hnorm l)
  | VFSet l => VFSet (map hnorm l)
  | VList l => VList (map hnorm l)         (* lists / sets do not occur in canonical forms; kept uniform *)
  | VSet l => VSet (map hnorm l)
  | _ => v
  end.
(* the canonical forms of the group options are ==, and so are the frameworks *)
Definition canon_eqb (a b : gfeat) : bool :=
  match hash_key (VDict (g_group a)), hash_key (VDict (g_group b)) with
  | Some x, Some y => py_eq x y
  | _, _ => false
  end && py_eq (cfw_val (g_cfw a)) (cfw_val (g_cfw b)).
(* base_similarity_properties() equal: the same hash integer *)
Definition hash_eqb (a b : gfeat) : bool :=
  match hash_key (VDict (g_group a)), hash_key (VDict (g_group b)) with
  | Some x, Some y => py_eq (hnorm x) (hnorm y)
  | _, _ => false
  end && py_eq (cfw_val (g_cfw a)) (cfw_val (g_cfw b)).
(* one dictionary key / base_similarity_key() ==: the same hash integer AND == *)
Definition base_eqb (a b : gfeat) : bool := hash_eqb a b && opts_agree a b.
Fixpoint first_idx {A} (p : A -> bool) (l : list A) : nat :=
  match l with [] => 0 | x :: t => if p x then 0 else S (first_idx p t) end.
Definition base_class (fs : list gfeat) (x : gfeat) : nat := first_idx (fun y => base_eqb y x) fs.
Definition item_of (fs : list gfeat) (x : gfeat) : item :=
  {| it_id := g_id x; it_kb := base_class fs x; it_ty := g_ty x |}.
Definition group_features (fs : list gfeat) : list (list nat) :=
  map (map it_id) (group_items (map (item_of fs) fs)).
