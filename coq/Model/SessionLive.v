(* LIVE runs of one prepared session: several streamed runs (generators returned by mlodaAPI.stream_run) that exist at
   the same time and are advanced by the consumer in an arbitrary interleaving (take 2 items of stream 1, start stream 2,
   take 1 item, resume stream 1, close one midway ...), possibly with batch runs in between.  Model/Session.v executes
   every operation of a history to its end before the next one starts; here a run is SUSPENDED between two events.

   Source (mloda/core/api/request.py, mloda/core/core/engine.py, mloda/core/runtime/run.py):
     stream_run (a generator; its body starts at the first next()):
        _api_data = api_data if api_data is not None else self.api_data                       -> l_api (Session.eff_api)
        runner = self._setup_engine_runner(...)  ->  Engine.compute():
              execution_plan_copy = deepcopy(self.execution_planner)                           -> LOpen, `copies`
              ExecutionOrchestrator(execution_plan_copy, ...)   new WorkerManager, DataLifecycleManager, lock
        runner.__enter__(...)                     new CfwManager (error register, api data)    -> part of the run (l_st / l_api)
        for _uuid, result in runner.compute_stream(): yield result                             -> LStep i EScan (+ drain)
        finally: runner.__exit__()                GeneratorExit at a yield (close / GC)        -> LClose i
     run():  the same with compute(); it cannot be suspended, but it may be CALLED while streams are suspended  -> stream = false
   The locals of compute / compute_stream (finished_ids, currently_running_steps, result_data_collection, error register) live
   in the generator frame / the run's own orchestrator: l_st (Model/Orch.v ost).  What the runs of one session could share
   is the plan object: its steps carry the run-time attribute `step_is_done`, WRITTEN by sync_execute_step
   (compute_framework_executor.py:228), thread_worker (worker/thread_worker.py:14) and _process_step_result (run.py:206, result
   queue of a worker process) and READ by _process_step_result (run.py:208).
     copies = true    the code: every run works on its own deep copy of the plan, so on its own flags (field `done` of its l_st);
                      the session's plan keeps the flags it had (v_flags, [] after prepare);
     copies = false   the runs share the step objects: ONE flag set v_flags; a run reads it before and writes it after each of
                      its events (the `done` field of its l_st is not used);
     reset  = true    additionally every flag is set to False when a run is opened (`for step in plan: step.step_is_done = False`
                      -- a "cheaper than deepcopy" variant that passes every strictly sequential history).
   Events of a run (Orch.event): EScan = one iteration of ITS while loop (performed while the consumer is inside next(g_i));
   EDone s ok = one of ITS workers (thread / process) finishes step s -- workers keep running while the generator is suspended,
   so these events may land anywhere in the interleaving.  Runs are numbered in the order in which they are opened.
   Definitions only; proofs in Proofs/SessionLiveP.v, statements in Props/C13.v. *)
From Coq Require Import List Bool Arith ZArith String.
Import ListNotations.
Require Import MV.Model.Orch MV.Model.Session.
Open Scope list_scope.

Record lrun := {
  l_stream : bool;               (* compute_stream (true) or compute (false) *)
  l_inline : bool;               (* SYNC (true) or THREADING / MULTIPROCESSING *)
  l_fails  : list nat;           (* steps whose execution raises in this run (oracle) *)
  l_api    : option api_data;    (* what the run's CfwManager received *)
  l_st     : ost;                (* locals of the run's loop + its collection + its error register *)
  l_closed : bool                (* the generator has been finalised: no further event of this run has any effect *)
}.

Record live := {
  v_plan  : plan;                (* session.engine.execution_planner, immutable part *)
  v_api   : option api_data;     (* session.api_data *)
  v_flags : list nat;            (* sids whose step_is_done is True on the SESSION's step objects *)
  v_runs  : list lrun            (* runs opened so far, oldest first (index = run number) *)
}.

Definition lprepare (p : plan) (api0 : option api_data) : live :=
  {| v_plan := p; v_api := api0; v_flags := []; v_runs := [] |}.

Inductive lop :=
  | LOpen (stream : bool) (api : option api_data) (inline : bool) (fails : list nat)
      (* first next() of session.stream_run(api_data = api, modes) / call of session.run(...): Engine.compute + new orchestrator *)
  | LStep (i : nat) (e : event)      (* run i performs one event *)
  | LClose (i : nat).                (* generator i is closed / garbage collected while suspended, or has run to its end *)

Definition set_done (st : ost) (d : list nat) : ost :=
  {| finished := finished st; running := running st; started := started st; done := d; failed := failed st;
     results := results st; yielded := yielded st; scans := scans st |}.

Fixpoint set_nth {A : Type} (l : list A) (i : nat) (x : A) : list A :=
  match l, i with
  | [], _ => []
  | _ :: t, 0 => x :: t
  | y :: t, S j => y :: set_nth t j x
  end.

(* the run a new orchestrator starts as: empty locals, `own` = the flags found on the plan object it was given *)
Definition new_run (api0 : option api_data) (own : list nat) (stream : bool) (api : option api_data) (inline : bool)
                   (fails : list nat) : lrun :=
  {| l_stream := stream; l_inline := inline; l_fails := fails; l_api := set_api (eff_api api0 api);
     l_st := init_flags own; l_closed := false |}.

Definition with_st (r : lrun) (st : ost) : lrun :=
  {| l_stream := l_stream r; l_inline := l_inline r; l_fails := l_fails r; l_api := l_api r; l_st := st; l_closed := l_closed r |}.
Definition close_run (r : lrun) : lrun :=
  {| l_stream := l_stream r; l_inline := l_inline r; l_fails := l_fails r; l_api := l_api r; l_st := l_st r; l_closed := true |}.

(* one event of run r on plan p *)
Definition run_event (p : plan) (r : lrun) (st : ost) (e : event) : ost :=
  apply (l_stream r) (l_inline r) (memf (l_fails r)) p st e.

Definition lstep (copies reset : bool) (s : live) (o : lop) : live :=
  match o with
  | LOpen stream api inline fails =>
      let fl := if reset then [] else v_flags s in        (* the flags on the plan object handed to the new orchestrator *)
      {| v_plan := v_plan s; v_api := v_api s;
         v_flags := if copies then v_flags s else fl;     (* shared step objects: the reset hits the session and every live run *)
         v_runs := v_runs s ++ [new_run (v_api s) fl stream api inline fails] |}
  | LStep i e =>
      match nth_error (v_runs s) i with
      | None => s
      | Some r =>
        if l_closed r then s else
        let st_in := if copies then l_st r else set_done (l_st r) (v_flags s) in
        let st_out := run_event (v_plan s) r st_in e in
        {| v_plan := v_plan s; v_api := v_api s;
           v_flags := if copies then v_flags s else done st_out;
           v_runs := set_nth (v_runs s) i (with_st r st_out) |}
      end
  | LClose i =>
      match nth_error (v_runs s) i with
      | None => s
      | Some r => {| v_plan := v_plan s; v_api := v_api s; v_flags := v_flags s; v_runs := set_nth (v_runs s) i (close_run r) |}
      end
  end.

Definition lexec (copies reset : bool) (s : live) (ops : list lop) : live := fold_left (lstep copies reset) ops s.

(* what the consumer of run r has been / can be given so far, oldest first, and where its loop stands *)
Definition run_items (r : lrun) : list nat := rev (yielded (l_st r)).
Definition run_status (p : plan) (r : lrun) : status := loop_head p (l_st r).

(* ------------------------------------------------------------------------------------------------------------
   Correspondence checker (vm_compute on interleavings observed on the real session; the model is `lexec true false`).
   The harness records, in the order in which its single consumer thread performed them:
     AOpen stream inline fails   the first next() of a new generator is about to happen (run number = number of opens before)
     ANext i (Some x) n          next(g_i) returned the table of step x; n = loop iterations of ExecutionPlan performed meanwhile
     ANext i None n              next(g_i) raised StopIteration
     ARaise i n                  next(g_i) raised the run's exception
     ARun i items                session.run() was called (and returned the tables of `items`) while the other runs were suspended
     AHang i                     next(g_i) did not return within the watchdog (the model must be unable to deliver, too)
     AClose i                    g_i.close() / the last reference to g_i was dropped
   A next() is replayed as whole rounds of run i (one loop iteration followed by the completion of every step it has started
   -- the fair schedule of Session.sched; for an inline run the completions are no events):
     inline (SYNC)   deterministic: the items collected by ONE iteration are handed out by consecutive next() calls without a
                     further iteration (popitem: in any order), then iterations are performed until one collects something or
                     the loop ends; the number of iterations is compared;
     otherwise       which iteration collects a step depends on thread timing: the run is advanced until x has been yielded.
   In both cases x must not have been delivered before, StopIteration needs ExitNormal with everything delivered, an exception
   needs Raised. *)
Inductive lobs :=
  | AOpen (stream inline : bool) (fails : list nat)
  | ANext (i : nat) (item : option nat) (n : nat)
  | ARaise (i : nat) (n : nat)
  | AHang (i : nat)                         (* next(g_i) did not return within the watchdog *)
  | ARun (i : nat) (inline : bool) (items : list nat)
  | AClose (i : nat).

Definition round_ops (p : plan) (i : nat) : list lop := map (LStep i) (EScan :: map (fun s => EDone (sid s) true) p).

Section Variant.
  (* cp rs = true false is the code; the other variants are evaluated only to SAY, in a finding, which variant explains an
     observation that the code's model does not explain *)
  Variables cp rs : bool.

  Fixpoint advance_until (fuel : nat) (s : live) (i : nat) (stop : lrun -> bool) : live :=
    match fuel with
    | 0 => s
    | S f =>
      match nth_error (v_runs s) i with
      | None => s
      | Some r =>
        if stop r then s else
        match loop_head (v_plan s) (if cp then l_st r else set_done (l_st r) (v_flags s)) with
        | Looping => advance_until f (lexec cp rs s (round_ops (v_plan s) i)) i stop
        | _ => s
        end
      end
    end.

  Definition fuel_of (p : plan) : nat := 2 * List.length p + 3.
  Definition never (_ : lrun) : bool := false.

  Fixpoint nth_list (l : list (list nat)) (i : nat) : list nat :=
    match l, i with [], _ => [] | x :: _, 0 => x | _ :: t, S j => nth_list t j end.

  Definition is_status (a b : status) : bool :=
    match a, b with Looping, Looping | ExitNormal, ExitNormal | Raised, Raised => true | _, _ => false end.

  (* dl: per run the items delivered to its consumer so far *)
  Fixpoint chk_obs (s : live) (dl : list (list nat)) (h : list lobs) : bool :=
    match h with
    | [] => true
    | AOpen stream inline fails :: t =>
        chk_obs (lstep cp rs s (LOpen stream None inline fails)) (dl ++ [[]]) t
    | ANext i item n :: t =>
        match nth_error (v_runs s) i with
        | None => false
        | Some r =>
          let d := nth_list dl i in
          match item with
          | Some x =>
            let s' := if l_inline r
                      then (if Nat.ltb (List.length d) (List.length (yielded (l_st r))) then s
                            else advance_until (fuel_of (v_plan s)) s i
                                   (fun r' => Nat.ltb (List.length d) (List.length (yielded (l_st r')))))
                      else advance_until (fuel_of (v_plan s)) s i (fun r' => mem x (yielded (l_st r'))) in
            match nth_error (v_runs s') i with
            | None => false
            | Some r' =>
              negb (l_closed r) && mem x (yielded (l_st r')) && negb (mem x d)
              && (if l_inline r then Nat.eqb (scans (l_st r') - scans (l_st r)) n else true)
              && chk_obs s' (set_nth dl i (x :: d)) t
            end
          | None =>
            let s' := advance_until (fuel_of (v_plan s)) s i never in
            match nth_error (v_runs s') i with
            | None => false
            | Some r' =>
              negb (l_closed r)
              && is_status (loop_head (v_plan s) (l_st r')) ExitNormal
              && Session.set_eqb d (yielded (l_st r')) && Nat.eqb (List.length d) (List.length (yielded (l_st r')))
              && (if l_inline r then Nat.eqb (scans (l_st r') - scans (l_st r)) n else true)
              && chk_obs (lstep cp rs s' (LClose i)) dl t
            end
          end
        end
    | ARaise i n :: t =>
        match nth_error (v_runs s) i with
        | None => false
        | Some r =>
          let s' := advance_until (fuel_of (v_plan s)) s i never in
          match nth_error (v_runs s') i with
          | None => false
          | Some r' =>
            negb (l_closed r)
            && is_status (loop_head (v_plan s) (l_st r')) Raised
            && Nat.eqb (List.length (nth_list dl i)) (List.length (yielded (l_st r')))   (* nothing was held back before the raise *)
            && (if l_inline r then Nat.eqb (scans (l_st r') - scans (l_st r)) n else true)
            && chk_obs (lstep cp rs s' (LClose i)) dl t
          end
        end
    | AHang i :: t =>
        match nth_error (v_runs s) i with
        | None => false
        | Some r =>
          let s' := advance_until (fuel_of (v_plan s)) s i
                      (fun r' => Nat.ltb (List.length (nth_list dl i)) (List.length (yielded (l_st r')))) in
          match nth_error (v_runs s') i with
          | None => false
          | Some r' =>
            negb (l_closed r)
            && is_status (loop_head (v_plan s) (if cp then l_st r' else set_done (l_st r') (v_flags s'))) Looping
            && Nat.eqb (List.length (nth_list dl i)) (List.length (yielded (l_st r')))
            && chk_obs (lstep cp rs s' (LClose i)) dl t
          end
        end
    | ARun i inline items :: t =>
        let s1 := lstep cp rs s (LOpen false None inline []) in
        let s' := advance_until (fuel_of (v_plan s)) s1 i never in
        match nth_error (v_runs s') i with
        | None => false
        | Some r' =>
          Nat.eqb i (List.length (v_runs s))
          && is_status (loop_head (v_plan s) (l_st r')) ExitNormal
          && Session.set_eqb items (results (l_st r')) && Nat.eqb (List.length items) (List.length (results (l_st r')))
          && chk_obs (lstep cp rs s' (LClose i)) (dl ++ [items]) t
        end
    | AClose i :: t =>
        match nth_error (v_runs s) i with
        | None => false
        | Some _ => chk_obs (lstep cp rs s (LClose i)) dl t
        end
    end.
End Variant.

(* the check of record: the observation is a run of the model of the code *)
Definition chk_live (c : plan * list lobs) : bool :=
  match c with (p, h) => chk_obs true false (lprepare p None) [] h end.
(* diagnosis only: the observation is a run of the variant that shares the flags (rs: and resets them at every open) *)
Definition chk_live_shared (rs : bool) (c : plan * list lobs) : bool :=
  match c with (p, h) => chk_obs false rs (lprepare p None) [] h end.
