(* C11 — model of the path from GlobalFilter.add_filter(...) to the column a filter engine finally reads.
   Definitions only (no proofs): the file still evaluates when a proof breaks.

   source function (mloda)                                               definition here
   ------------------------------------------------------------------   -----------------------------------------
   FeatureGroup.get_column_base_feature  (name.split("~")[0])            base_name
   FeatureGroup.set_feature_name, default body                           default_rename
     (an overriding feature group supplies its own function)               parameter  rename : options -> string -> string
   FeatureGroup.match_feature_group_criteria for a DataCreator root      criteria
     with feature_names_supported (base name in either set)
   Options.__contains__ / Options.set (a new key goes to GROUP)           opt_contains / inside unify_options
   GlobalFilter.unify_options                                            unify_options
   GlobalFilter.domain  (Domain.__eq__ raises on None)                   domain_match   (MRaise = ValueError)
   GlobalFilter.compute_framework                                        cfw_match
   GlobalFilter.identity_matched_filters (deepcopy: a fresh copy of      identity_matched
     every filter per processed feature; SingleFilter.name was
     captured in SingleFilter.__init__ = the column the user named)
   Feature.__eq__ / SingleFilter.__eq__ (name of the FILTER FEATURE,     ffeature_eqb / mfilter_eqb
     not SingleFilter.name)
   Engine._add_filter_feature: match.filter_feature.name =               add_filter_feature  (renamed, collect)
     feature_group.set_feature_name(options, name);
     GlobalFilter.add_filter_to_collection (a Python set: a copy equal
     to one already collected is NOT added; copies are compared AFTER
     the rename)
   ExecutionPlan.add_single_filters_to_feature_set + the planner's       planned_names
     split of a group's features into feature sets by Options.__eq__
     (= group dict only)  -- coarse, see below
   BaseFilterEngine.apply_single_filters: the gate                       gate
     `single_filter.filter_feature.name in features.get_all_names()`
   every do_*_filter of the Pandas / PyArrow / PythonDict engines:       read_column
     data[str(filter_feature.name)] with filter_feature : SingleFilter,
     i.e. SingleFilter.name
   apply_single_filters + do_filter on the gated filters                 apply_matched   (uses Model/FilterPyDict.do_filter)
   the whole path for one processed feature of one group                 run_path

   Parameters (the theorems quantify over them): the renaming function; the list order of the global filters
   (= iteration order of the Python set of matched copies: it decides which of several copies that became equal by
   the rename is collected).
   Faithful to the unchanged tree including two defects (known findings C11-renamed-filters-collapse,
   C11-filter-domain-compare-raises): see add_all and domain_match.
   Coarse: the planner is not modelled.  `planned_names` assumes what the C11 multi-feature family observes: the features a
   group computes for one request are split into feature sets by their GROUP options, so a filter feature whose unified
   group options differ from those of the processed feature is not in that feature's set (this is how the known
   finding C11-context-options-filter-lost loses filters).  Class-name based matching rules of
   match_feature_group_criteria are not modelled (generated classes have names no filter column equals or extends).

   Two VARIANTS that the code does not implement are defined only to be refuted (Props/C11path.v):
   renamed_column (an engine reading filter_feature.filter_feature.name = seeded regression C11_r2) and
   run_two_groups_shared (identity_matched_filters without the deepcopy). *)
From Coq Require Import List String ZArith Bool Ascii.
Import ListNotations.
Require Import MV.Spec.Filter MV.Spec.FilterPlan MV.Model.FilterPyDict.
Open Scope string_scope.
Open Scope list_scope.

Definition mem (s : string) (l : list string) : bool := existsb (String.eqb s) l.

(* ---------- names ---------- *)
Fixpoint base_name (s : string) : string :=
  match s with
  | EmptyString => EmptyString
  | String a r => if Ascii.eqb a "~"%char then EmptyString else String a (base_name r)
  end.

Definition default_rename (supported : list string) (n : string) : string :=
  let b := base_name n in
  if negb (String.eqb b n) && mem b supported then b else n.

(* ---------- options ---------- *)
Definition dict := list (string * string).            (* insertion ordered; values are canonical texts *)
Record options := { o_group : dict; o_context : dict }.
Definition no_options : options := {| o_group := []; o_context := [] |}.

Definition has_key (k : string) (d : dict) : bool := existsb (fun kv => String.eqb (fst kv) k) d.
Fixpoint lookup (k : string) (d : dict) : option string :=
  match d with
  | [] => None
  | (k', v) :: d' => if String.eqb k' k then Some v else lookup k d'
  end.
Definition opt_contains (o : options) (k : string) : bool := has_key k (o_group o) || has_key k (o_context o).

(* for key, value in feat_options.items(): if key not in filter_options: filter_options.set(key, value) *)
Definition unify_step (acc : options) (kv : string * string) : options :=
  if opt_contains acc (fst kv) then acc else {| o_group := o_group acc ++ [kv]; o_context := o_context acc |}.
Definition unify_options (feat filt : options) : options :=
  fold_left unify_step (o_group feat ++ o_context feat) filt.

Definition ostr_eqb (a b : option string) : bool :=
  match a, b with Some x, Some y => String.eqb x y | None, None => true | _, _ => false end.
(* dict == dict : same keys, same values, whatever the order (keys are unique) *)
Definition dict_sub (a b : dict) : bool := forallb (fun kv => ostr_eqb (lookup (fst kv) b) (Some (snd kv))) a.
Definition dict_eqb (a b : dict) : bool := dict_sub a b && dict_sub b a.

(* ---------- the objects on the path ---------- *)
(* the filter feature of a SingleFilter: Feature(name, options, domain, compute_framework) *)
Record ffeature := { ff_name : string; ff_opts : options; ff_domain : option string; ff_cfw : option string }.
(* a SingleFilter of the GlobalFilter: filter_feature, name (captured once in SingleFilter.__init__), type, parameter *)
Record gfilter := { gf_feature : ffeature; gf_name : string; gf_type : ftype; gf_par : params }.
(* SingleFilter.__init__ *)
Definition single_filter (ff : ffeature) (ty : ftype) (par : params) : gfilter :=
  {| gf_feature := ff; gf_name := ff_name ff; gf_type := ty; gf_par := par |}.
(* a matched copy: filter_feature (renamed later), SingleFilter.name (never changes), type, parameter *)
Record mfilter := { m_feature : ffeature; m_name : string; m_type : ftype; m_par : params }.
(* a feature group: DataCreator feature names, feature_names_supported, get_domain (None = the default domain) *)
Record fgroup := { g_roots : list string; g_supported : list string; g_domain : option string }.
(* the feature being processed (`feat`): options, domain, compute framework *)
Record rfeature := { r_opts : options; r_domain : option string; r_cfw : string }.

Definition declared (g : fgroup) : list string := g_roots g ++ g_supported g.
Definition user_column (gf : gfilter) : string := gf_name gf.
Definition user_filt (gf : gfilter) : filt := {| f_col := user_column gf; f_type := gf_type gf; f_par := gf_par gf |}.
(* add_filter("c", type, parameter): a string becomes Feature(name) *)
Definition plain_filter (f : filt) : gfilter :=
  single_filter {| ff_name := f_col f; ff_opts := no_options; ff_domain := None; ff_cfw := None |} (f_type f) (f_par f).

(* ---------- GlobalFilter.identity_matched_filters ---------- *)
Definition criteria (g : fgroup) (n : string) : bool := mem (base_name n) (declared g).

Definition DEFAULT_DOMAIN : string := "default_domain".
Definition domain_name (gd : option string) : string := match gd with Some d => d | None => DEFAULT_DOMAIN end.

Inductive mres := MYes (d : option string) | MNo | MRaise.
(* fd: domain of the filter feature, featd: domain of the processed feature, gd: get_domain of the group *)
Definition domain_match (fd featd gd : option string) : mres :=
  match fd with
  | None => MYes (match featd with Some d => Some d | None => gd end)     (* the filter takes the feature's / group's domain *)
  | Some d =>
      match featd with
      | None => if String.eqb (domain_name gd) d then MYes (Some d)
                else MRaise            (* falls through to `filter.domain == feature_domain`: Domain.__eq__(None) raises ValueError *)
      | Some e => if String.eqb d e then MYes (Some d) else MNo
      end
  end.

Definition cfw_match (fc : option string) (featc : string) : bool :=
  match fc with None => true | Some c => String.eqb c featc end.

Inductive outcome (A : Type) := Done (a : A) | Raises.
Arguments Done {A} a.
Arguments Raises {A}.

Fixpoint identity_matched (g : fgroup) (feat : rfeature) (gfs : list gfilter) : outcome (list mfilter) :=
  match gfs with
  | [] => Done []
  | gf :: rest =>
      let ff := gf_feature gf in
      if negb (criteria g (ff_name ff)) then identity_matched g feat rest
      else match domain_match (ff_domain ff) (r_domain feat) (g_domain g) with
           | MRaise => Raises
           | MNo => identity_matched g feat rest
           | MYes d =>
               if cfw_match (ff_cfw ff) (r_cfw feat)
               then match identity_matched g feat rest with
                    | Raises => Raises
                    | Done ms =>
                        Done ({| m_feature := {| ff_name := ff_name ff; ff_opts := unify_options (r_opts feat) (ff_opts ff);
                                                 ff_domain := d; ff_cfw := Some (r_cfw feat) |};
                                 m_name := gf_name gf; m_type := gf_type gf; m_par := gf_par gf |} :: ms)
                    end
               else identity_matched g feat rest
           end
  end.

(* ---------- Engine._add_filter_feature ---------- *)
Definition ffeature_eqb (a b : ffeature) : bool :=
  String.eqb (ff_name a) (ff_name b) && dict_eqb (o_group (ff_opts a)) (o_group (ff_opts b))
  && dict_eqb (o_context (ff_opts a)) (o_context (ff_opts b)) && ostr_eqb (ff_domain a) (ff_domain b)
  && ostr_eqb (ff_cfw a) (ff_cfw b).
(* SingleFilter.__eq__: filter_feature, filter_type, parameter — SingleFilter.name does not take part *)
Definition mfilter_eqb (a b : mfilter) : bool :=
  ffeature_eqb (m_feature a) (m_feature b) && ftype_eqb (m_type a) (m_type b) && params_eqb (m_par a) (m_par b).

Definition renamed (rename : options -> string -> string) (m : mfilter) : mfilter :=
  let ff := m_feature m in
  {| m_feature := {| ff_name := rename (ff_opts ff) (ff_name ff); ff_opts := ff_opts ff; ff_domain := ff_domain ff;
                     ff_cfw := ff_cfw ff |};
     m_name := m_name m; m_type := m_type m; m_par := m_par m |}.

(* collection[(group, feature)].add(copy): a copy equal to a collected one is dropped *)
Fixpoint add_all (acc ms : list mfilter) : list mfilter :=
  match ms with
  | [] => acc
  | m :: r => add_all (if existsb (mfilter_eqb m) acc then acc else acc ++ [m]) r
  end.
Definition add_filter_feature (rename : options -> string -> string) (ms : list mfilter) : list mfilter :=
  add_all [] (map (renamed rename) ms).

(* ---------- the feature set of the processed feature ---------- *)
Definition in_same_set (feat : rfeature) (m : mfilter) : bool :=
  dict_eqb (o_group (r_opts feat)) (o_group (ff_opts (m_feature m))).
Definition planned_names (rename : options -> string -> string) (feat : rfeature) (requested : list string)
           (ms : list mfilter) : list string :=
  map (rename (r_opts feat)) requested ++ map (fun m => ff_name (m_feature m)) (filter (in_same_set feat) ms).

(* ---------- BaseFilterEngine.apply_single_filters and the engines ---------- *)
Definition gate (names : list string) (m : mfilter) : bool := mem (ff_name (m_feature m)) names.
Definition read_column (m : mfilter) : string := m_name m.
Definition renamed_column (m : mfilter) : string := ff_name (m_feature m).          (* VARIANT, refuted *)

Definition as_filt (sel : mfilter -> string) (m : mfilter) : filt := {| f_col := sel m; f_type := m_type m; f_par := m_par m |}.

Fixpoint apply_matched_with (sel : mfilter -> string) (names : list string) (ms : list mfilter) (t : table) : res table :=
  match ms with
  | [] => Ok t
  | m :: ms' => if gate names m
                then match do_filter t (as_filt sel m) with
                     | Err e => Err e
                     | Ok t' => apply_matched_with sel names ms' t'
                     end
                else apply_matched_with sel names ms' t
  end.
Definition apply_matched := apply_matched_with read_column.

(* what the harness-side wrappers record for one apply_single_filters call: per filter (did do_filter run?, column read) *)
Definition gate_trace (names : list string) (ms : list mfilter) : list (bool * string) :=
  map (fun m => (gate names m, read_column m)) ms.

(* ---------- the whole path for one processed feature of one group ---------- *)
Definition plan_path (rename : options -> string -> string) (g : fgroup) (feat : rfeature) (requested : list string)
           (gfs : list gfilter) : outcome (list string * list mfilter) :=
  match identity_matched g feat gfs with
  | Raises => Raises
  | Done ms => let ms' := add_filter_feature rename ms in Done (planned_names rename feat requested ms', ms')
  end.

Definition run_path_with (sel : mfilter -> string) (rename : options -> string -> string) (g : fgroup) (feat : rfeature)
           (requested : list string) (gfs : list gfilter) (t : table) : outcome (res table) :=
  match plan_path rename g feat requested gfs with
  | Raises => Raises
  | Done (names, ms) => Done (apply_matched_with sel names ms t)
  end.
Definition run_path := run_path_with read_column.

(* ---------- decidable domains of the two defects on this path ---------- *)
(* two matched copies that differ in the user's column become equal by the rename: one of them is not collected *)
Definition collide (a b : mfilter) : bool := mfilter_eqb a b && negb (String.eqb (m_name a) (m_name b)).
Definition kf_collapse_ms (ms : list mfilter) : bool := existsb (fun a => existsb (collide a) ms) ms.
Definition kf_collapse (rename : options -> string -> string) (g : fgroup) (feat : rfeature) (gfs : list gfilter) : bool :=
  match identity_matched g feat gfs with
  | Raises => false
  | Done ms => kf_collapse_ms (map (renamed rename) ms)
  end.
(* a filter feature with a domain meets a processed feature without one in a group of another domain *)
Definition kf_domain_raises (g : fgroup) (feat : rfeature) (gfs : list gfilter) : bool :=
  match identity_matched g feat gfs with Raises => true | Done _ => false end.

(* ---------- VARIANT (refuted): identity_matched_filters without the deepcopy ----------
   The filter objects of the GlobalFilter are shared: the rename done for the first group is seen by the second. *)
Definition rename_user (rename : options -> string -> string) (g : fgroup) (feat : rfeature) (gf : gfilter) : gfilter :=
  let ff := gf_feature gf in
  match identity_matched g feat [gf] with
  | Done [m] => {| gf_feature := {| ff_name := rename (ff_opts (m_feature m)) (ff_name ff); ff_opts := ff_opts (m_feature m);
                                    ff_domain := ff_domain (m_feature m); ff_cfw := ff_cfw (m_feature m) |};
                   gf_name := gf_name gf; gf_type := gf_type gf; gf_par := gf_par gf |}
  | _ => gf
  end.
Definition run_two_groups (r1 r2 : options -> string -> string) (g1 g2 : fgroup) (feat : rfeature) (q1 q2 : list string)
           (gfs : list gfilter) (t1 t2 : table) : outcome (res table) * outcome (res table) :=
  (run_path r1 g1 feat q1 gfs t1, run_path r2 g2 feat q2 gfs t2).
Definition run_two_groups_shared (r1 r2 : options -> string -> string) (g1 g2 : fgroup) (feat : rfeature) (q1 q2 : list string)
           (gfs : list gfilter) (t1 t2 : table) : outcome (res table) * outcome (res table) :=
  (run_path r1 g1 feat q1 gfs t1, run_path r2 g2 feat q2 (map (rename_user r1 g1 feat) gfs) t2).
