(* Model of link matching / most-specific selection, link-set validation and the index prefix rule (C18).
   Sources: mloda/core/prepare/resolve_links.py (_find_matching_links, _inheritance_distance,
   _select_most_specific_links), components/link.py (matches_exact, matches_polymorphic, __eq__),
   components/validators/link_validator.py, components/index/index.py (is_a_part_of_),
   feature_group.py (supports_index).   Definitions only. *)
From Coq Require Import List Bool ZArith String Arith.
Import ListNotations.
Open Scope Z_scope.

Inductive jointype := INNER | LEFT | RIGHT | OUTER | APPEND | UNION.
Definition jt_eqb (a b : jointype) : bool :=
  match a, b with
  | INNER, INNER | LEFT, LEFT | RIGHT, RIGHT | OUTER, OUTER | APPEND, APPEND | UNION, UNION => true
  | _, _ => false
  end.

Definition cls := nat.
Definition index := list string.

Record link := { jt : jointype; lfg : cls; rfg : cls; lidx : index; ridx : index }.

Fixpoint idx_eqb (a b : index) : bool :=
  match a, b with
  | [], [] => true
  | x :: a', y :: b' => String.eqb x y && idx_eqb a' b'
  | _, _ => false
  end.

(* Link.__eq__ : join type, class *names* and both indexes (generators use unique class names, so a name is a cls) *)
Definition link_eqb (a b : link) : bool :=
  jt_eqb (jt a) (jt b) && Nat.eqb (lfg a) (lfg b) && Nat.eqb (rfg a) (rfg b)
  && idx_eqb (lidx a) (lidx b) && idx_eqb (ridx a) (ridx b).

(* ---------- Index.is_a_part_of_ ---------- *)
(* for cnt, part in enumerate(other): if cnt > len(self)-1: break; if part != self[cnt]: return False *)
Fixpoint part_loop (self other : index) : bool :=
  match self, other with
  | [], _ => true                                   (* cnt > len_index - 1 : break *)
  | x :: self', y :: other' => if String.eqb y x then part_loop self' other' else false
  | _ :: _, [] => true                              (* loop over other exhausted (excluded by the length test) *)
  end.
Definition is_a_part_of (self other : index) : bool :=
  if Nat.ltb (List.length other) (List.length self) then false else part_loop self other.

(* FeatureGroup.supports_index : None = no constraint *)
Definition supports_index (cols : option (list index)) (i : index) : option bool :=
  match cols with
  | None => None
  | Some l => Some (existsb (is_a_part_of i) l)
  end.

(* ---------- matching ---------- *)
Section Hierarchy.
  Variable mro : cls -> list cls.          (* child.__mro__ restricted to generated classes; starts with the class *)

  Definition issub (c p : cls) : bool := existsb (Nat.eqb p) (mro c).

  Fixpoint index_of (p : cls) (l : list cls) : option Z :=
    match l with
    | [] => None
    | x :: t => if Nat.eqb x p then Some 0 else option_map Z.succ (index_of p t)
    end.
  Definition dist (c p : cls) : Z := match index_of p (mro c) with Some n => n | None => 9999 end.

  Definition matches_exact (l : link) (lf rf : cls) : bool := Nat.eqb (lfg l) lf && Nat.eqb (rfg l) rf.
  Definition matches_poly (l : link) (lf rf : cls) : bool := issub lf (lfg l) && issub rf (rfg l).

  (* body of the loop in _select_most_specific_links: Some d = appended with distance d *)
  Definition sel_dist (lf rf : cls) (l : link) : option Z :=
    let ld := dist lf (lfg l) in
    let rd := dist rf (rfg l) in
    if Nat.eqb (lfg l) (rfg l) then
      if Nat.eqb lf rf && Z.eqb ld rd then Some ld else None
    else if Z.eqb ld rd then Some ld
    else
      let related := issub (lfg l) (rfg l) || issub (rfg l) (lfg l) in
      if negb related && (Z.eqb ld 0 || Z.eqb rd 0) then Some (Z.max ld rd) else None.

  Fixpoint min_dist (lf rf : cls) (ls : list link) : option Z :=
    match ls with
    | [] => None
    | l :: t => match sel_dist lf rf l, min_dist lf rf t with
                | Some d, Some m => Some (Z.min d m)
                | Some d, None => Some d
                | None, r => r
                end
    end.

  Definition has_dist (lf rf : cls) (m : Z) (l : link) : bool :=
    match sel_dist lf rf l with Some d => Z.eqb d m | None => false end.

  Definition select_most_specific (ls : list link) (lf rf : cls) : list link :=
    match min_dist lf rf ls with
    | None => []
    | Some m => filter (has_dist lf rf m) ls
    end.

  Definition find_matching (links : list link) (lf rf : cls) : list link :=
    match filter (fun l => matches_exact l lf rf) links with
    | e :: es => e :: es
    | [] => select_most_specific (filter (fun l => matches_poly l lf rf) links) lf rf
    end.
End Hierarchy.

(* mro given as an association list (correspondence cases) *)
Fixpoint mro_of (h : list (cls * list cls)) (c : cls) : list cls :=
  match h with
  | [] => [c]
  | (k, v) :: t => if Nat.eqb k c then v else mro_of t c
  end.

(* ---------- LinkValidator.validate_links (true = rejected) ---------- *)
Definition non_set_jt (j : jointype) : bool := match j with APPEND | UNION => false | _ => true end.

Definition double_join (i j : link) : bool :=
  negb (link_eqb i j) && Nat.eqb (lfg i) (rfg j) && Nat.eqb (rfg i) (lfg j) && non_set_jt (jt i).
Definition conflicting_jt (i j : link) : bool :=
  negb (link_eqb i j) && Nat.eqb (lfg i) (lfg j) && Nat.eqb (rfg i) (rfg j) && negb (jt_eqb (jt i) (jt j)).
Definition right_conflict (i j : link) : bool :=
  jt_eqb (jt i) RIGHT && negb (link_eqb i j) && (Nat.eqb (lfg i) (lfg j) || Nat.eqb (lfg i) (rfg j)).

Definition any_pair (p : link -> link -> bool) (ls : list link) : bool :=
  existsb (fun i => existsb (fun j => p i j) ls) ls.

Definition validate_rejects (ls : list link) : bool :=
  any_pair double_join ls || any_pair conflicting_jt ls || any_pair right_conflict ls.
