(* The objects of the planner as the source translator (harness/py2coq.py, CLASSES) sees them: each Python class whose
   attributes a translated function reads is one of the records / tuples of the hand-written planner models, and an
   attribute read is the accessor given here.  Definitions only.  This file is the DATA MODEL of the source-text tie for the
   planner targets (trusted like Model/PySem.v): it says which component of the model's value a Python attribute is.

     JoinStep                          jstep = (link.uuid, (left_framework, right_framework))   = an entry of PlannerL.jcoll
        .left_framework / .right_framework            js_left / js_right
        .uuid  (uuid4() in __init__)                  js_uuid = PlannerL.js_uid link.uuid   (the model's numbering convention)
        .link.uuid                                    js_link_uuid
        __eq__ / __hash__ (self.uuid == other.uuid)   jstep_eqb
     JoinStepCollection.collection     Dict[JoinStep, Set[UUID]] = list (jstep * list nat)      (PlannerL.add_joinstep keeps its
                                                                                                 keys as jc and (uid, value) as jr)
     LinkFrameworkTrekker (Link, cfw, cfw)   PlannerL.lkey; t[0].uuid = k_uid, t[1] = k_l, t[2] = k_r; == is PlannerL.key_eqb
                                       (the Links of one request are pairwise different, so Link.__eq__ = equality of link.uuid)
     an element of the planned queue   PlannerL.pitem: PL k = a LinkFrameworkTrekker, PG grp ms = (feature group class, features)
     LinkTrekker                       PlannerL.trek: .data = t_data, .data_ordered = t_dor, .order = t_order *)
From Coq Require Import List Bool Arith.
Import ListNotations.
Require Import MV.Model.Orch MV.Model.PlannerA MV.Model.PlannerL.

Definition jstep := (nat * (nat * nat))%type.
Definition js_link_uuid (s : jstep) : nat := fst s.
Definition js_uuid (s : jstep) : nat := js_uid (fst s).
Definition js_left (s : jstep) : nat := fst (snd s).
Definition js_right (s : jstep) : nat := snd (snd s).
Definition jstep_eqb (a b : jstep) : bool := Nat.eqb (js_uuid a) (js_uuid b).

Definition trek_set_data (t : trek) (d : tdata) : trek := {| t_data := d; t_dor := t_dor t; t_order := t_order t |}.
Definition trek_set_dor (t : trek) (d : tdata) : trek := {| t_data := t_data t; t_dor := d; t_order := t_order t |}.
Definition trek_set_order (t : trek) (o : amap) : trek := {| t_data := t_data t; t_dor := t_dor t; t_order := o |}.
